import ShmVerif.Drv.C04
import ShmVerif.Drv.C01
import ShmVerif.Drv.C05
import ShmVerif.Drv.C03
import ShmVerif.Drv.C13
import ShmVerif.Drv.C06
import ShmVerif.Drv.C18
import ShmVerif.Drv.C20
import ShmVerif.Drv.C16
import ShmVerif.Drv.C12
import ShmVerif.Drv.C14
import ShmVerif.Drv.C19
import ShmVerif.Drv.C11
import ShmVerif.Drv.C07
/-! `shmdriver`: reads op lines on stdin, runs the executable models the theorems are about, prints one line
    per op line. First line: `model <name>`; `case <k>` resets the model state. -/

partial def loop {σ : Type} (h : IO.FS.Stream) (out : IO.FS.Stream) (init : σ) (step : σ → String → σ × String)
    (st : σ) : IO Unit := do
  let line ← h.getLine
  if line.isEmpty then return ()
  let l := line.trimAscii.toString
  if l.startsWith "case " then
    out.putStrLn l
    loop h out init step init
  else
    let (st', o) := step st l
    out.putStrLn o
    loop h out init step st'

def main : IO Unit := do
  let h ← IO.getStdin
  let out ← IO.getStdout
  let first ← h.getLine
  let l := first.trimAscii.toString
  out.putStrLn l
  match l with
  | "model c04" => loop h out ({} : Drv.C04.St) Drv.C04.step {}
  | "model c05" => loop h out ({} : Drv.C05.St) Drv.C05.step {}
  | "model c03" => loop h out ({} : Drv.C03.St) Drv.C03.step {}
  | "model c13" => loop h out ({} : Drv.C13.St) Drv.C13.step {}
  | "model c06" => loop h out ({} : Drv.C06.St) Drv.C06.step {}
  | "model c18" => loop h out ({} : Drv.C18.St) Drv.C18.step {}
  | "model c12" => loop h out () Drv.C12.step ()
  | "model c14" => loop h out ({} : Drv.C14.DSt) Drv.C14.step {}
  | "model c19" => loop h out ({} : Drv.C19.DSt) Drv.C19.step {}
  | "model c11" => loop h out ({} : Drv.C11.DSt) Drv.C11.step {}
  | "model c16" => loop h out ({} : Drv.C16.DSt) Drv.C16.step {}
  | "model c20" => loop h out ({} : Drv.C20.DSt) Drv.C20.step {}
  | "model c07" => loop h out ({} : Drv.C07.St) Drv.C07.step {}
  | "model c01" => loop h out ({} : Drv.C01.St) Drv.C01.step {}
  | _ => out.putStrLn "unknown-model"
  out.flush
