-- Root of the `ShmVerif` library: models, specs, proofs, property theorems, ties.
import ShmVerif.Gen.Consts
import ShmVerif.Gen.Skel
import ShmVerif.Model.QueueC
import ShmVerif.Proof.QueueC
import ShmVerif.Props.C04
import ShmVerif.Tie.C04
import ShmVerif.Drv.C04
import ShmVerif.Model.FreeListC
import ShmVerif.Proof.FreeListGeom
import ShmVerif.Proof.FreeListSeq
import ShmVerif.Proof.FreeListInit
import ShmVerif.Props.C01
import ShmVerif.Props.C02
import ShmVerif.Tie.C01
import ShmVerif.Drv.C01
