-- Root of the `ShmVerif` library: models, specs, proofs, property theorems, ties.
import ShmVerif.Model.QueueC
import ShmVerif.Drv.C04
