import ShmVerif.Gen.Consts
import ShmVerif.Gen.Skel
import ShmVerif.Model.Proto
namespace Tie.C07
theorem placeholder : True := trivial
end Tie.C07
