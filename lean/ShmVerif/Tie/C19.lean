import ShmVerif.Gen.Consts
import ShmVerif.Gen.Skel
import ShmVerif.Model.NetL
/-! Tie 1 for C19: the net.Listener adapter (listenLoop with its per-session reference counting, Accept, Close,
    drainBacklog, the stream wrapper) and the copying Read / Write it maps onto. -/
namespace Tie.C19

theorem tie_defaultBacklog : Gen.c_defaultBacklog = 4096 := by decide

theorem tie_skel_newListener : Gen.Skel.newListener = [
  "func newListener(rawListener net.Listener, backlog int) *listener {",
  "listener := &listener{",
  "listener: rawListener,",
  "sessions: make(map[*Session]*sync.WaitGroup),",
  "backlog: make(chan net.Conn, backlog),",
  "closeCh: make(chan struct{}),",
  "}",
  "go listener.listenLoop()",
  "return listener",
  "}"] := by rfl

theorem tie_skel_listener_listenLoop : Gen.Skel.listener_listenLoop = [
  "func (l *listener) listenLoop() {",
  "for {",
  "conn, err := l.listener.Accept()",
  "if err != nil {",
  "if atomic.LoadUint32(&l.closed) == 1 {",
  "return",
  "}",
  "continue",
  "}",
  "go func() {",
  "session, err := Server(conn, DefaultConfig())",
  "if err != nil {",
  "return",
  "}",
  "l.mu.Lock()",
  "if atomic.LoadUint32(&l.closed) == 1 {",
  "l.mu.Unlock()",
  "_ = session.Close()",
  "return",
  "}",
  "wg := new(sync.WaitGroup)",
  "wg.Add(1)",
  "l.sessions[session] = wg",
  "l.mu.Unlock()",
  "go func() {",
  "wg.Wait()",
  "_ = session.Close()",
  "}()",
  "for {",
  "stream, err := session.AcceptStream()",
  "if err != nil {",
  "if err != ErrSessionShutdown {",
  "}",
  "_ = session.Close()",
  "l.mu.Lock()",
  "if _, ok := l.sessions[session]; ok {",
  "delete(l.sessions, session)",
  "wg.Done()",
  "}",
  "l.mu.Unlock()",
  "return",
  "}",
  "conn := newStreamWrapper(stream, stream.LocalAddr(), stream.RemoteAddr(), wg)",
  "select {",
  "case <-l.closeCh:",
  "_ = conn.Close()",
  "return",
  "case l.backlog <- conn:",
  "if atomic.LoadUint32(&l.closed) == 1 {",
  "l.drainBacklog()",
  "}",
  "}",
  "}",
  "}()",
  "}",
  "}"] := by rfl

theorem tie_skel_listener_Accept : Gen.Skel.listener_Accept = [
  "func (l *listener) Accept() (net.Conn, error) {",
  "select {",
  "case conn := <-l.backlog:",
  "return conn, nil",
  "case <-l.closeCh:",
  "return nil, errors.New(\"listener is closed\")",
  "}",
  "}"] := by rfl

theorem tie_skel_listener_Close : Gen.Skel.listener_Close = [
  "func (l *listener) Close() (err error) {",
  "swapped := atomic.CompareAndSwapUint32(&l.closed, 0, 1)",
  "err = l.listener.Close()",
  "if swapped {",
  "close(l.closeCh)",
  "}",
  "l.mu.Lock()",
  "for _, wg := range l.sessions {",
  "wg.Done()",
  "}",
  "l.sessions = map[*Session]*sync.WaitGroup{}",
  "l.mu.Unlock()",
  "l.drainBacklog()",
  "return",
  "}"] := by rfl

theorem tie_skel_listener_drainBacklog : Gen.Skel.listener_drainBacklog = [
  "func (l *listener) drainBacklog() {",
  "for {",
  "select {",
  "case conn := <-l.backlog:",
  "_ = conn.Close()",
  "default:",
  "return",
  "}",
  "}",
  "}"] := by rfl

theorem tie_skel_newStreamWrapper : Gen.Skel.newStreamWrapper = [
  "func newStreamWrapper(stream *Stream, localAddr, remoteAddr net.Addr, wg *sync.WaitGroup) net.Conn {",
  "wg.Add(1)",
  "return &streamWrapper{stream: stream, localAddr: localAddr, remoteAddr: remoteAddr, wg: wg}",
  "}"] := by rfl

theorem tie_skel_streamWrapper_Read : Gen.Skel.streamWrapper_Read = [
  "func (s *streamWrapper) Read(b []byte) (n int, err error) {",
  "return s.stream.copyRead(b)",
  "}"] := by rfl

theorem tie_skel_streamWrapper_Write : Gen.Skel.streamWrapper_Write = [
  "func (s *streamWrapper) Write(b []byte) (n int, err error) {",
  "return s.stream.copyWriteAndFlush(b)",
  "}"] := by rfl

theorem tie_skel_streamWrapper_Close : Gen.Skel.streamWrapper_Close = [
  "func (s *streamWrapper) Close() error {",
  "if atomic.CompareAndSwapUint32(&s.closed, 0, 1) {",
  "_ = s.stream.Close()",
  "s.wg.Done()",
  "}",
  "return nil",
  "}"] := by rfl

theorem tie_skel_Stream_copyRead : Gen.Skel.Stream_copyRead = [
  "func (s *Stream) copyRead(p []byte) (int, error) {",
  "return s.recvBuf.read(p)",
  "}"] := by rfl

theorem tie_skel_Stream_copyWriteAndFlush : Gen.Skel.Stream_copyWriteAndFlush = [
  "func (s *Stream) copyWriteAndFlush(p []byte) (int, error) {",
  "return s.sendBuf.copyWriteAndFlush(p)",
  "}"] := by rfl

theorem tie_skel_linkedBuffer_read : Gen.Skel.linkedBuffer_read = [
  "func (l *linkedBuffer) read(p []byte) (n int, err error) {",
  "size := len(p)",
  "if size <= 0 {",
  "return",
  "}",
  "written := 0",
  "if l.len < 1 {",
  "if err = l.stream.readMore(1); err != nil {",
  "return 0, err",
  "}",
  "}",
  "for front := l.sliceList.front(); front != nil && size > written; {",
  "b, err := front.read(size - written)",
  "written += copy(p[written:], b)",
  "if err == nil {",
  "break",
  "} else if err == ErrNotEnoughData {",
  "l.readNextSlice()",
  "front = l.sliceList.front()",
  "}",
  "}",
  "l.len -= written",
  "return written, nil",
  "}"] := by rfl

theorem tie_skel_linkedBuffer_copyWriteAndFlush : Gen.Skel.linkedBuffer_copyWriteAndFlush = [
  "func (l *linkedBuffer) copyWriteAndFlush(data []byte) (n int, err error) {",
  "if len(data) == 0 {",
  "return 0, nil",
  "}",
  "written, err := l.WriteBytes(data)",
  "if err != nil {",
  "return 0, err",
  "}",
  "err = l.stream.Flush(false)",
  "return written, err",
  "}"] := by rfl

/-! further functions on this property's paths (any edit to them is reported) -/

theorem tie_skel_Listen : Gen.Skel.Listen = [
  "func Listen(shmIPCAddress string) (net.Listener, error) {",
  "return ListenWithBacklog(shmIPCAddress, defaultBacklog)",
  "}"] := by rfl

theorem tie_skel_ListenWithBacklog : Gen.Skel.ListenWithBacklog = [
  "func ListenWithBacklog(shmIPCAddress string, backlog int) (net.Listener, error) {",
  "rawListener, err := net.Listen(\"unix\", shmIPCAddress)",
  "if err != nil {",
  "return nil, err",
  "}",
  "return newListener(rawListener, backlog), nil",
  "}"] := by rfl

theorem tie_skel_listener_Addr : Gen.Skel.listener_Addr = [
  "func (l *listener) Addr() net.Addr {",
  "return l.listener.Addr()",
  "}"] := by rfl

theorem tie_skel_streamWrapper_SetDeadline : Gen.Skel.streamWrapper_SetDeadline = [
  "func (s *streamWrapper) SetDeadline(t time.Time) error {",
  "return s.stream.SetDeadline(t)",
  "}"] := by rfl

theorem tie_skel_streamWrapper_SetReadDeadline : Gen.Skel.streamWrapper_SetReadDeadline = [
  "func (s *streamWrapper) SetReadDeadline(t time.Time) error {",
  "return s.stream.SetReadDeadline(t)",
  "}"] := by rfl

theorem tie_skel_streamWrapper_SetWriteDeadline : Gen.Skel.streamWrapper_SetWriteDeadline = [
  "func (s *streamWrapper) SetWriteDeadline(t time.Time) error {",
  "return s.stream.SetWriteDeadline(t)",
  "}"] := by rfl

theorem tie_skel_streamWrapper_LocalAddr : Gen.Skel.streamWrapper_LocalAddr = [
  "func (s *streamWrapper) LocalAddr() net.Addr {",
  "return s.localAddr",
  "}"] := by rfl

theorem tie_skel_streamWrapper_RemoteAddr : Gen.Skel.streamWrapper_RemoteAddr = [
  "func (s *streamWrapper) RemoteAddr() net.Addr {",
  "return s.remoteAddr",
  "}"] := by rfl

theorem tie_skel_Stream_LocalAddr : Gen.Skel.Stream_LocalAddr = [
  "func (s *Stream) LocalAddr() net.Addr {",
  "return s.session.netConn.LocalAddr()",
  "}"] := by rfl

theorem tie_skel_Stream_RemoteAddr : Gen.Skel.Stream_RemoteAddr = [
  "func (s *Stream) RemoteAddr() net.Addr {",
  "return s.session.netConn.RemoteAddr()",
  "}"] := by rfl

end Tie.C19
