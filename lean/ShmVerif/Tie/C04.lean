import ShmVerif.Gen.Consts
import ShmVerif.Gen.Skel
import ShmVerif.Model.QueueC
/-! Tie 1 for C04: the facts of queue.go the model `QueueC` relies on, re-checked against the regenerated `Gen`. -/
namespace Tie.C04

theorem tie_queueElementLen : Gen.c_queueElementLen = 12 := by decide
theorem tie_queueHeaderLength : Gen.c_queueHeaderLength = 24 := by decide

/-- `queue.put`: lock; load tail; load head; full-test `>=`; three slot stores; THEN add tail; unlock. -/
theorem tie_skel_put : Gen.Skel.queue_put = [
  "func (q *queue) put(e queueElement) error {",
  "q.Lock()",
  "tail := atomic.LoadInt64(q.tail)",
  "if tail-atomic.LoadInt64(q.head) >= q.cap {",
  "q.Unlock()",
  "return ErrQueueFull",
  "}",
  "queueOffset := (tail % q.cap) * queueElementLen",
  "*(*uint32)(unsafe.Pointer(&q.queueBytesOnMemory[queueOffset])) = e.seqID",
  "*(*uint32)(unsafe.Pointer(&q.queueBytesOnMemory[queueOffset+4])) = e.offsetInShmBuf",
  "*(*uint32)(unsafe.Pointer(&q.queueBytesOnMemory[queueOffset+8])) = e.status",
  "atomic.AddInt64(q.tail, 1)",
  "q.Unlock()",
  "return nil",
  "}"] := by rfl

/-- `queue.pop`: load head; load tail; empty-test `>=`; three slot loads; THEN add head. -/
theorem tie_skel_pop : Gen.Skel.queue_pop = [
  "func (q *queue) pop() (e queueElement, err error) {",
  "head := atomic.LoadInt64(q.head)",
  "if head >= atomic.LoadInt64(q.tail) {",
  "err = errQueueEmpty",
  "return",
  "}",
  "queueOffset := (head % q.cap) * queueElementLen",
  "e.seqID = *(*uint32)(unsafe.Pointer(&q.queueBytesOnMemory[queueOffset]))",
  "e.offsetInShmBuf = *(*uint32)(unsafe.Pointer(&q.queueBytesOnMemory[queueOffset+4]))",
  "e.status = *(*uint32)(unsafe.Pointer(&q.queueBytesOnMemory[queueOffset+8]))",
  "atomic.AddInt64(q.head, 1)",
  "return",
  "}"] := by rfl

theorem tie_skel_size : Gen.Skel.queue_size = [
  "func (q *queue) size() int64 {",
  "return atomic.LoadInt64(q.tail) - atomic.LoadInt64(q.head)",
  "}"] := by rfl

/-! further functions on this property's paths (any edit to them is reported) -/

theorem tie_skel_createQueue : Gen.Skel.createQueue = [
  "func createQueue(cap uint32) *queue {",
  "return createQueueFromBytes(make([]byte, queueHeaderLength+int(cap*queueElementLen)), cap)",
  "}"] := by rfl

theorem tie_skel_queue_isFull : Gen.Skel.queue_isFull = [
  "func (q *queue) isFull() bool {",
  "return q.size() == q.cap",
  "}"] := by rfl

theorem tie_skel_queue_isEmpty : Gen.Skel.queue_isEmpty = [
  "func (q *queue) isEmpty() bool {",
  "return q.size() == 0",
  "}"] := by rfl

theorem tie_skel_queue_consumerIsWorking : Gen.Skel.queue_consumerIsWorking = [
  "func (q *queue) consumerIsWorking() bool {",
  "return (atomic.LoadUint32(q.workingFlag)) > 0",
  "}"] := by rfl

/-! the creator of a file-backed queue refuses a path that exists (a live queue of another session) -/
theorem tie_skel_c04_createQueueManager : Gen.Skel.createQueueManager = [
  "func createQueueManager(shmPath string, queueCap uint32) (*queueManager, error) {",
  "_ = os.MkdirAll(filepath.Dir(shmPath), os.ModePerm)",
  "if pathExists(shmPath) {",
  "return nil, errors.New(\"queue was existed,path\" + shmPath)",
  "}",
  "memSize := countQueueMemSize(queueCap) * queueCount",
  "if !canCreateOnDevShm(uint64(memSize), shmPath) {",
  "return nil, fmt.Errorf(\"err:%s path:%s, size:%d\", ErrShareMemoryHadNotLeftSpace.Error(), shmPath, memSize)",
  "}",
  "f, err := os.OpenFile(shmPath, os.O_CREATE|os.O_RDWR, os.ModePerm)",
  "if err != nil {",
  "return nil, err",
  "}",
  "defer f.Close()",
  "if err := f.Truncate(int64(memSize)); err != nil {",
  "return nil, fmt.Errorf(\"truncate share memory failed,%s\", err.Error())",
  "}",
  "mem, err := syscall.Mmap(int(f.Fd()), 0, memSize, syscall.PROT_READ|syscall.PROT_WRITE, syscall.MAP_SHARED)",
  "if err != nil {",
  "return nil, err",
  "}",
  "for i := 0; i < len(mem); i++ {",
  "mem[i] = 0",
  "}",
  "return &queueManager{",
  "sendQueue: createQueueFromBytes(mem[:memSize/2], queueCap),",
  "recvQueue: createQueueFromBytes(mem[memSize/2:], queueCap),",
  "mem: mem,",
  "path: shmPath,",
  "}, nil",
  "}"] := by rfl

/-! the mapper's view of the queue pair (where each ring starts) -/
theorem tie_skel_c04_mappingQueueManager : Gen.Skel.mappingQueueManager = [
  "func mappingQueueManager(shmPath string) (*queueManager, error) {",
  "f, err := os.OpenFile(shmPath, os.O_RDWR, os.ModePerm)",
  "if err != nil {",
  "return nil, err",
  "}",
  "defer f.Close()",
  "fileInfo, err := f.Stat()",
  "if err != nil {",
  "return nil, err",
  "}",
  "mappingSize := int(fileInfo.Size())",
  "if isArmArch() && mappingSize%16 != 0 {",
  "return nil, fmt.Errorf(\"the memory size of queue should be a multiple of 16\")",
  "}",
  "mem, err := syscall.Mmap(int(f.Fd()), 0, mappingSize, syscall.PROT_READ|syscall.PROT_WRITE, syscall.MAP_SHARED)",
  "if err != nil {",
  "return nil, err",
  "}",
  "return &queueManager{",
  "sendQueue: mappingQueueFromBytes(mem[mappingSize/2:]),",
  "recvQueue: mappingQueueFromBytes(mem[:mappingSize/2]),",
  "mem: mem,",
  "path: shmPath,",
  "}, nil",
  "}"] := by rfl

theorem tie_skel_c04_mappingQueueManagerMemfd : Gen.Skel.mappingQueueManagerMemfd = [
  "func mappingQueueManagerMemfd(queuePathName string, memFd int) (*queueManager, error) {",
  "var fileInfo syscall.Stat_t",
  "if err := syscall.Fstat(memFd, &fileInfo); err != nil {",
  "return nil, err",
  "}",
  "mappingSize := int(fileInfo.Size)",
  "if isArmArch() && mappingSize%16 != 0 {",
  "return nil, fmt.Errorf(\"the memory size of queue should be a multiple of 16\")",
  "}",
  "mem, err := syscall.Mmap(memFd, 0, mappingSize, syscall.PROT_READ|syscall.PROT_WRITE, syscall.MAP_SHARED)",
  "if err != nil {",
  "return nil, err",
  "}",
  "return &queueManager{",
  "sendQueue: mappingQueueFromBytes(mem[mappingSize/2:]),",
  "recvQueue: mappingQueueFromBytes(mem[:mappingSize/2]),",
  "mem: mem,",
  "path: queuePathName,",
  "memFd: memFd,",
  "mmapMapType: MemMapTypeMemFd,",
  "}, nil",
  "}"] := by rfl

end Tie.C04
