import ShmVerif.Gen.Consts
import ShmVerif.Gen.Skel
import ShmVerif.Model.EventConn
/-! Tie 1 for C18: the bodies of the read/write functions of the event connection and of the writers of the control
    connection (send loop, wakeUpPeer, hotRestart), re-checked against the regenerated `Gen`. The thresholds 1 MiB / 4 MiB and
    the initial 64 KiB are literals inside these bodies. -/
namespace Tie.C18

theorem tie_onDataThreshold : ({} : EventConn.RCfg).onDataThreshold = 1 * 1024 * 1024 := by decide
theorem tie_shrinkThreshold : ({} : EventConn.RCfg).shrinkThreshold = 4 * 1024 * 1024 := by decide

theorem tie_skel_connEventHandler_writev : Gen.Skel.connEventHandler_writev = [
  "func (c *connEventHandler) writev(data ...[]byte) error {",
  "if len(data) == 0 {",
  "return nil",
  "}",
  "writtenSliceNum := 0",
  "for writtenSliceNum < len(data) {",
  "n, err := c.doWritev(data[writtenSliceNum:]...)",
  "if err != nil {",
  "return err",
  "}",
  "writtenSliceNum += n",
  "}",
  "return nil",
  "}"] := by rfl

theorem tie_skel_connEventHandler_doWritev : Gen.Skel.connEventHandler_doWritev = [
  "func (c *connEventHandler) doWritev(data ...[]byte) (int, error) {",
  "needSubmitIovecLen := 0",
  "for needSubmitIovecLen < len(data) && needSubmitIovecLen < len(c.ioves) {",
  "sliceLen := len(data[needSubmitIovecLen])",
  "c.ioves[needSubmitIovecLen].Len = uint64(sliceLen)",
  "c.ioves[needSubmitIovecLen].Base = &data[needSubmitIovecLen][0]",
  "needSubmitIovecLen++",
  "}",
  "writtenSliceNum := needSubmitIovecLen",
  "writtenVec := 0",
  "for needSubmitIovecLen > 0 {",
  "if atomic.LoadUint32(&c.isClose) == 1 {",
  "return -1, syscall.EPIPE",
  "}",
  "n, _, err := syscall.Syscall(syscall.SYS_WRITEV, uintptr(c.fd),",
  "uintptr(unsafe.Pointer(&c.ioves[writtenVec])), uintptr(needSubmitIovecLen))",
  "if err == syscall.EAGAIN {",
  "<-c.onWriteReadyCh",
  "continue",
  "}",
  "if err != syscall.Errno(0) {",
  "return -1, err",
  "}",
  "for writtenSize := uint64(n); writtenSize > 0; {",
  "if writtenSize >= c.ioves[writtenVec].Len {",
  "writtenSize -= c.ioves[writtenVec].Len",
  "needSubmitIovecLen--",
  "writtenVec++",
  "} else {",
  "c.ioves[writtenVec].Len -= writtenSize",
  "startOff := uint64(len(data[writtenVec])) - c.ioves[writtenVec].Len",
  "c.ioves[writtenVec].Base = &data[writtenVec][startOff]",
  "break",
  "}",
  "}",
  "}",
  "return writtenSliceNum, nil",
  "}"] := by rfl

theorem tie_skel_connEventHandler_write : Gen.Skel.connEventHandler_write = [
  "func (c *connEventHandler) write(data []byte) error {",
  "written, size := 0, len(data)",
  "for written < size {",
  "if atomic.LoadUint32(&c.isClose) == 1 {",
  "return syscall.EPIPE",
  "}",
  "n, _, err := syscall.Syscall(syscall.SYS_WRITE, uintptr(c.fd), uintptr(unsafe.Pointer(&data[written])),",
  "uintptr(size-written))",
  "if err == syscall.EAGAIN {",
  "<-c.onWriteReadyCh",
  "continue",
  "}",
  "if err != syscall.Errno(0) {",
  "return err",
  "}",
  "written += int(n)",
  "}",
  "return nil",
  "}"] := by rfl

theorem tie_skel_connEventHandler_maybeExpandReadBuffer : Gen.Skel.connEventHandler_maybeExpandReadBuffer = [
  "func (c *connEventHandler) maybeExpandReadBuffer() {",
  "bufRemain := len(c.readBuffer) - c.readEndOff",
  "if bufRemain == 0 {",
  "newBuf := make([]byte, 2*len(c.readBuffer))",
  "c.readEndOff = copy(newBuf, c.readBuffer[c.readStartOff:c.readEndOff])",
  "c.readStartOff = 0",
  "c.readBuffer = newBuf",
  "}",
  "}"] := by rfl

theorem tie_skel_connEventHandler_onReadReady : Gen.Skel.connEventHandler_onReadReady = [
  "func (c *connEventHandler) onReadReady() (err error) {",
  "const onDataThreshold = 1 * 1024 * 1024",
  "for {",
  "c.maybeExpandReadBuffer()",
  "n, _, errCode := syscall.RawSyscall(syscall.SYS_READ, uintptr(c.fd),",
  "uintptr(unsafe.Pointer(&c.readBuffer[c.readEndOff])), uintptr(len(c.readBuffer)-c.readEndOff))",
  "if errCode == syscall.EAGAIN {",
  "break",
  "}",
  "if errCode != 0 {",
  "return",
  "}",
  "if n == 0 {",
  "c.onRemoteClose()",
  "break",
  "}",
  "c.readEndOff += int(n)",
  "if c.readEndOff-c.readStartOff >= onDataThreshold {",
  "if err = c.callback.onEventData(c.readBuffer[c.readStartOff:c.readEndOff], c); err != nil {",
  "return err",
  "}",
  "}",
  "}",
  "return c.callback.onEventData(c.readBuffer[c.readStartOff:c.readEndOff], c)",
  "}"] := by rfl

theorem tie_skel_connEventHandler_commitRead : Gen.Skel.connEventHandler_commitRead = [
  "func (c *connEventHandler) commitRead(n int) {",
  "c.readStartOff += n",
  "if c.readStartOff == c.readEndOff {",
  "minResizedBufferSize := 4 * 1024 * 1024",
  "if len(c.readBuffer) > minResizedBufferSize {",
  "minResizedBufferSize = len(c.readBuffer) / 2",
  "c.readBuffer = c.readBuffer[:minResizedBufferSize]",
  "}",
  "c.readStartOff = 0",
  "c.readEndOff = 0",
  "}",
  "}"] := by rfl

theorem tie_skel_connEventHandler_deferredClose : Gen.Skel.connEventHandler_deferredClose = [
  "func (c *connEventHandler) deferredClose() {",
  "if atomic.CompareAndSwapUint32(&c.isClose, 0, 1) {",
  "close(c.onWriteReadyCh)",
  "c.dispatcher.post(func() {",
  "epollCtl(c.dispatcher.epollFd, syscall.EPOLL_CTL_DEL, c.fd, nil)",
  "c.dispatcher.lock.Lock()",
  "delete(c.dispatcher.conns, c.fd)",
  "c.dispatcher.lock.Unlock()",
  "c.file.Close()",
  "})",
  "}",
  "}"] := by rfl

theorem tie_skel_Session_send : Gen.Skel.Session_send = [
  "func (s *Session) send() {",
  "defer s.logger.debugf(\"%s exit send loop\", s.name)",
  "for {",
  "select {",
  "case ready := <-s.sendCh:",
  "for !atomic.CompareAndSwapUint32(&s.writing, 0, 1) {",
  "<-s.notifyContinueWriteCh",
  "}",
  "if ready.Hdr != nil {",
  "s.writeEventData(ready.Hdr, ready.Err)",
  "}",
  "if ready.Body != nil {",
  "s.writeEventData(ready.Body, ready.Err)",
  "}",
  "atomic.StoreUint32(&s.writing, 0)",
  "asyncSendErr(ready.Err, nil)",
  "case <-s.shutdownCh:",
  "return",
  "}",
  "}",
  "}"] := by rfl

theorem tie_skel_Session_wakeUpPeer_c18 : Gen.Skel.Session_wakeUpPeer = [
  "func (s *Session) wakeUpPeer() error {",
  "if !s.queueManager.sendQueue.markWorking() {",
  "return nil",
  "}",
  "atomic.AddUint64(&s.stats.sendPollingEventCount, 1)",
  "if atomic.CompareAndSwapUint32(&s.writing, 0, 1) {",
  "s.writeEventData(pollingEventWithVersion[s.communicationVersion], nil)",
  "atomic.StoreUint32(&s.writing, 0)",
  "asyncNotify(s.notifyContinueWriteCh)",
  "} else {",
  "s.sendCh <- sendReady{nil, pollingEventWithVersion[s.communicationVersion], nil}",
  "}",
  "return nil",
  "}"] := by rfl

theorem tie_skel_Session_hotRestart : Gen.Skel.Session_hotRestart = [
  "func (s *Session) hotRestart(epoch uint64, event eventType) error {",
  "if event != typeHotRestart && event != typeHotRestartAck {",
  "return fmt.Errorf(\"hotRestart invalid event type %d %s\", event, event.String())",
  "}",
  "data := make([]byte, headerSize+8)",
  "offset := headerSize",
  "binary.BigEndian.PutUint64(data[offset:offset+8], epoch)",
  "header(data).encode(uint32(len(data)), s.communicationVersion, event)",
  "if atomic.CompareAndSwapUint32(&s.writing, 0, 1) {",
  "s.writeEventData(data, nil)",
  "atomic.StoreUint32(&s.writing, 0)",
  "asyncNotify(s.notifyContinueWriteCh)",
  "} else {",
  "s.sendCh <- sendReady{nil, data, nil}",
  "}",
  "return nil",
  "}"] := by rfl

theorem tie_skel_Session_writeEventData_c18 : Gen.Skel.Session_writeEventData = [
  "func (s *Session) writeEventData(data []byte, ch chan error) {",
  "if err := s.eventConn.write(data); err != nil {",
  "asyncSendErr(ch, err)",
  "s.exitErr(err)",
  "return",
  "}",
  "}"] := by rfl

theorem tie_skel_Session_waitForSendErr : Gen.Skel.Session_waitForSendErr = [
  "func (s *Session) waitForSendErr(hdr header, body []byte, errCh chan error) error {",
  "t := timerPool.Get()",
  "timer := t.(*time.Timer)",
  "timer.Reset(s.config.ConnectionWriteTimeout)",
  "defer func() {",
  "timer.Stop()",
  "select {",
  "case <-timer.C:",
  "default:",
  "}",
  "timerPool.Put(t)",
  "}()",
  "ready := sendReady{Hdr: hdr, Body: body, Err: errCh}",
  "select {",
  "case s.sendCh <- ready:",
  "case <-s.shutdownCh:",
  "return s.shutdownErr",
  "case <-timer.C:",
  "return ErrConnectionWriteTimeout",
  "}",
  "select {",
  "case err := <-errCh:",
  "return err",
  "case <-s.shutdownCh:",
  "return s.shutdownErr",
  "case <-timer.C:",
  "return ErrConnectionWriteTimeout",
  "}",
  "}"] := by rfl

theorem tie_skel_asyncNotify : Gen.Skel.asyncNotify = [
  "func asyncNotify(ch chan struct{}) {",
  "select {",
  "case ch <- struct{}{}:",
  "default:",
  "}",
  "}"] := by rfl

/-! further functions on this property's paths (any edit to them is reported) -/

theorem tie_skel_connEventHandler_handleEvent : Gen.Skel.connEventHandler_handleEvent = [
  "func (c *connEventHandler) handleEvent(events int, d *epollDispatcher) {",
  "if events&syscall.EPOLLRDHUP != 0 {",
  "c.onRemoteClose()",
  "return",
  "}",
  "if events&syscall.EPOLLIN != 0 {",
  "if err := c.onReadReady(); err != nil {",
  "}",
  "}",
  "if events&syscall.EPOLLOUT != 0 {",
  "if err := c.onWriteReady(); err != nil {",
  "}",
  "}",
  "}"] := by rfl

theorem tie_skel_connEventHandler_onRemoteClose : Gen.Skel.connEventHandler_onRemoteClose = [
  "func (c *connEventHandler) onRemoteClose() {",
  "c.callback.onRemoteClose()",
  "c.deferredClose()",
  "}"] := by rfl

theorem tie_skel_connEventHandler_onWriteReady : Gen.Skel.connEventHandler_onWriteReady = [
  "func (c *connEventHandler) onWriteReady() error {",
  "if atomic.LoadUint32(&c.isClose) == 0 {",
  "asyncNotify(c.onWriteReadyCh)",
  "}",
  "return nil",
  "}"] := by rfl

theorem tie_skel_connEventHandler_setCallback : Gen.Skel.connEventHandler_setCallback = [
  "func (c *connEventHandler) setCallback(cb eventConnCallback) error {",
  "if err := syscall.SetNonblock(c.fd, true); err != nil {",
  "return fmt.Errorf(\"fd:%d couldn't set nobloking,reason=%s\", c.fd, err)",
  "}",
  "event := &epollEvent{",
  "events: syscall.EPOLLIN | syscall.EPOLLOUT | epollModeET | syscall.EPOLLRDHUP,",
  "}",
  "*(**connEventHandler)(unsafe.Pointer(&event.data)) = c",
  "c.dispatcher.lock.Lock()",
  "defer c.dispatcher.lock.Unlock()",
  "c.callback = cb",
  "if err := epollCtl(c.dispatcher.epollFd, syscall.EPOLL_CTL_ADD, c.fd, event); err != nil {",
  "return fmt.Errorf(\"epollCt fd:%d failed, reason=%s\", c.fd, err)",
  "}",
  "c.dispatcher.conns[c.fd] = c",
  "return nil",
  "}"] := by rfl

theorem tie_skel_newEpollDispatcher : Gen.Skel.newEpollDispatcher = [
  "func newEpollDispatcher() *epollDispatcher {",
  "return &epollDispatcher{",
  "conns: make(map[int]*connEventHandler, 8),",
  "pendingLambda: make([]func(), 0, 32),",
  "runningLambda: make([]func(), 0, 32),",
  "}",
  "}"] := by rfl

theorem tie_skel_epollDispatcher_newConnection : Gen.Skel.epollDispatcher_newConnection = [
  "func (d *epollDispatcher) newConnection(file *os.File) eventConn {",
  "return &connEventHandler{",
  "fd: int(file.Fd()),",
  "file: file,",
  "dispatcher: d,",
  "readBuffer: make([]byte, 64*1024),",
  "onWriteReadyCh: make(chan struct{}, 1),",
  "isClose: 0,",
  "}",
  "}"] := by rfl

theorem tie_skel_epollCtl : Gen.Skel.epollCtl = [
  "func epollCtl(epfd int, op int, fd int, event *epollEvent) (err error) {",
  "_, _, errCode := syscall.RawSyscall6(syscall.SYS_EPOLL_CTL, uintptr(epfd), uintptr(op), uintptr(fd), uintptr(unsafe.Pointer(event)), 0, 0)",
  "if errCode != syscall.Errno(0) {",
  "err = errCode",
  "}",
  "return err",
  "}"] := by rfl

theorem tie_skel_epollWait : Gen.Skel.epollWait = [
  "func epollWait(epfd int, events []epollEvent, msec int) (n int, err error) {",
  "var n_ uintptr",
  "n_, _, errNo := syscall.Syscall6(syscall.SYS_EPOLL_WAIT, uintptr(epfd), uintptr(unsafe.Pointer(&events[0])),",
  "uintptr(len(events)), uintptr(msec), 0, 0)",
  "if errNo == syscall.Errno(0) {",
  "err = nil",
  "}",
  "return int(n_), err",
  "}"] := by rfl

theorem tie_skel_Session_waitForSend : Gen.Skel.Session_waitForSend = [
  "func (s *Session) waitForSend(hdr header, body []byte) error {",
  "errCh := make(chan error, 1)",
  "return s.waitForSendErr(hdr, body, errCh)",
  "}"] := by rfl


/-! the -race build variant of the event dispatcher (event_dispatcher_race_linux.go) -/

theorem tie_skel_race_connEventHandler_writev : Gen.Skel.race_connEventHandler_writev = [
  "func (c *connEventHandler) writev(data ...[]byte) error {",
  "if len(data) == 0 {",
  "return nil",
  "}",
  "writtenSliceNum := 0",
  "for writtenSliceNum < len(data) {",
  "n, err := c.doWritev(data[writtenSliceNum:]...)",
  "if err != nil {",
  "return err",
  "}",
  "writtenSliceNum += n",
  "}",
  "return nil",
  "}"] := by rfl

theorem tie_skel_race_connEventHandler_doWritev : Gen.Skel.race_connEventHandler_doWritev = [
  "func (c *connEventHandler) doWritev(data ...[]byte) (int, error) {",
  "needSubmitIovecLen := 0",
  "for needSubmitIovecLen < len(data) && needSubmitIovecLen < len(c.ioves) {",
  "sliceLen := len(data[needSubmitIovecLen])",
  "c.ioves[needSubmitIovecLen].Len = uint64(sliceLen)",
  "c.ioves[needSubmitIovecLen].Base = &data[needSubmitIovecLen][0]",
  "needSubmitIovecLen++",
  "}",
  "writtenSliceNum := needSubmitIovecLen",
  "writtenVec := 0",
  "for needSubmitIovecLen > 0 {",
  "if atomic.LoadUint32(&c.isClose) == 1 {",
  "return -1, syscall.EPIPE",
  "}",
  "n, _, err := syscall.Syscall(syscall.SYS_WRITEV, uintptr(c.fd),",
  "uintptr(unsafe.Pointer(&c.ioves[writtenVec])), uintptr(needSubmitIovecLen))",
  "if err == syscall.EAGAIN {",
  "<-c.onWriteReadyCh",
  "continue",
  "}",
  "if err != syscall.Errno(0) {",
  "return -1, err",
  "}",
  "for writtenSize := uint64(n); writtenSize > 0; {",
  "if writtenSize >= c.ioves[writtenVec].Len {",
  "writtenSize -= c.ioves[writtenVec].Len",
  "needSubmitIovecLen--",
  "writtenVec++",
  "} else {",
  "c.ioves[writtenVec].Len -= writtenSize",
  "startOff := uint64(len(data[writtenVec])) - c.ioves[writtenVec].Len",
  "c.ioves[writtenVec].Base = &data[writtenVec][startOff]",
  "break",
  "}",
  "}",
  "}",
  "return writtenSliceNum, nil",
  "}"] := by rfl

theorem tie_skel_race_connEventHandler_write : Gen.Skel.race_connEventHandler_write = [
  "func (c *connEventHandler) write(data []byte) error {",
  "written, size := 0, len(data)",
  "for written < size {",
  "if atomic.LoadUint32(&c.isClose) == 1 {",
  "return syscall.EPIPE",
  "}",
  "n, _, err := syscall.Syscall(syscall.SYS_WRITE, uintptr(c.fd), uintptr(unsafe.Pointer(&data[written])),",
  "uintptr(size-written))",
  "if err == syscall.EAGAIN {",
  "<-c.onWriteReadyCh",
  "continue",
  "}",
  "if err != syscall.Errno(0) {",
  "return err",
  "}",
  "written += int(n)",
  "}",
  "return nil",
  "}"] := by rfl

theorem tie_skel_race_connEventHandler_maybeExpandReadBuffer : Gen.Skel.race_connEventHandler_maybeExpandReadBuffer = [
  "func (c *connEventHandler) maybeExpandReadBuffer() {",
  "bufRemain := len(c.readBuffer) - c.readEndOff",
  "if bufRemain == 0 {",
  "newBuf := make([]byte, 2*len(c.readBuffer))",
  "c.readEndOff = copy(newBuf, c.readBuffer[c.readStartOff:c.readEndOff])",
  "c.readStartOff = 0",
  "c.readBuffer = newBuf",
  "}",
  "}"] := by rfl

theorem tie_skel_race_connEventHandler_onReadReady : Gen.Skel.race_connEventHandler_onReadReady = [
  "func (c *connEventHandler) onReadReady() (err error) {",
  "const onDataThreshold = 1 * 1024 * 1024",
  "for {",
  "c.maybeExpandReadBuffer()",
  "n, _, errCode := syscall.RawSyscall(syscall.SYS_READ, uintptr(c.fd),",
  "uintptr(unsafe.Pointer(&c.readBuffer[c.readEndOff])), uintptr(len(c.readBuffer)-c.readEndOff))",
  "if errCode == syscall.EAGAIN {",
  "break",
  "}",
  "if errCode != 0 {",
  "return",
  "}",
  "if n == 0 {",
  "c.onRemoteClose()",
  "break",
  "}",
  "c.readEndOff += int(n)",
  "if c.readEndOff-c.readStartOff >= onDataThreshold {",
  "if err = c.callback.onEventData(c.readBuffer[c.readStartOff:c.readEndOff], c); err != nil {",
  "return err",
  "}",
  "}",
  "}",
  "return c.callback.onEventData(c.readBuffer[c.readStartOff:c.readEndOff], c)",
  "}"] := by rfl

theorem tie_skel_race_connEventHandler_commitRead : Gen.Skel.race_connEventHandler_commitRead = [
  "func (c *connEventHandler) commitRead(n int) {",
  "c.readStartOff += n",
  "if c.readStartOff == c.readEndOff {",
  "minResizedBufferSize := 4 * 1024 * 1024",
  "if len(c.readBuffer) > minResizedBufferSize {",
  "minResizedBufferSize = len(c.readBuffer) / 2",
  "c.readBuffer = c.readBuffer[:minResizedBufferSize]",
  "}",
  "c.readStartOff = 0",
  "c.readEndOff = 0",
  "}",
  "}"] := by rfl

theorem tie_skel_race_connEventHandler_deferredClose : Gen.Skel.race_connEventHandler_deferredClose = [
  "func (c *connEventHandler) deferredClose() {",
  "if atomic.CompareAndSwapUint32(&c.isClose, 0, 1) {",
  "close(c.onWriteReadyCh)",
  "c.dispatcher.post(func() {",
  "epollCtl(c.dispatcher.epollFd, syscall.EPOLL_CTL_DEL, c.fd, nil)",
  "c.dispatcher.lock.Lock()",
  "delete(c.dispatcher.conns, c.fd)",
  "c.dispatcher.lock.Unlock()",
  "c.file.Close()",
  "})",
  "}",
  "}"] := by rfl

theorem tie_skel_race_connEventHandler_handleEvent : Gen.Skel.race_connEventHandler_handleEvent = [
  "func (c *connEventHandler) handleEvent(events int, d *epollDispatcher) {",
  "if events&syscall.EPOLLRDHUP != 0 {",
  "c.onRemoteClose()",
  "return",
  "}",
  "if events&syscall.EPOLLIN != 0 {",
  "if err := c.onReadReady(); err != nil {",
  "}",
  "}",
  "if events&syscall.EPOLLOUT != 0 {",
  "if err := c.onWriteReady(); err != nil {",
  "}",
  "}",
  "}"] := by rfl

theorem tie_skel_race_connEventHandler_onRemoteClose : Gen.Skel.race_connEventHandler_onRemoteClose = [
  "func (c *connEventHandler) onRemoteClose() {",
  "c.callback.onRemoteClose()",
  "c.deferredClose()",
  "}"] := by rfl

theorem tie_skel_race_connEventHandler_onWriteReady : Gen.Skel.race_connEventHandler_onWriteReady = [
  "func (c *connEventHandler) onWriteReady() error {",
  "if atomic.LoadUint32(&c.isClose) == 0 {",
  "asyncNotify(c.onWriteReadyCh)",
  "}",
  "return nil",
  "}"] := by rfl

theorem tie_skel_race_connEventHandler_setCallback : Gen.Skel.race_connEventHandler_setCallback = [
  "func (c *connEventHandler) setCallback(cb eventConnCallback) error {",
  "if err := syscall.SetNonblock(c.fd, true); err != nil {",
  "return fmt.Errorf(\"fd:%d couldn't set nobloking,reason=%s\", c.fd, err)",
  "}",
  "event := &epollEvent{",
  "events: syscall.EPOLLIN | syscall.EPOLLOUT | epollModeET | syscall.EPOLLRDHUP,",
  "}",
  "binary.BigEndian.PutUint32(event.data[0:4], uint32(c.fd))",
  "c.dispatcher.lock.Lock()",
  "defer c.dispatcher.lock.Unlock()",
  "c.callback = cb",
  "if err := epollCtl(c.dispatcher.epollFd, syscall.EPOLL_CTL_ADD, c.fd, event); err != nil {",
  "return fmt.Errorf(\"epollCt fd:%d failed, reason=%s\", c.fd, err)",
  "}",
  "c.dispatcher.conns[c.fd] = c",
  "return nil",
  "}"] := by rfl

theorem tie_skel_race_newEpollDispatcher : Gen.Skel.race_newEpollDispatcher = [
  "func newEpollDispatcher() *epollDispatcher {",
  "return &epollDispatcher{",
  "conns: make(map[int]*connEventHandler, 8),",
  "pendingLambda: make([]func(), 0, 32),",
  "runningLambda: make([]func(), 0, 32),",
  "}",
  "}"] := by rfl

theorem tie_skel_race_epollDispatcher_newConnection : Gen.Skel.race_epollDispatcher_newConnection = [
  "func (d *epollDispatcher) newConnection(file *os.File) eventConn {",
  "return &connEventHandler{",
  "fd: int(file.Fd()),",
  "file: file,",
  "dispatcher: d,",
  "readBuffer: make([]byte, 64*1024),",
  "onWriteReadyCh: make(chan struct{}, 1),",
  "isClose: 0,",
  "}",
  "}"] := by rfl

theorem tie_skel_race_connEventHandler_close : Gen.Skel.race_connEventHandler_close = [
  "func (c *connEventHandler) close() error {",
  "c.callback.onLocalClose()",
  "c.deferredClose()",
  "return nil",
  "}"] := by rfl

theorem tie_skel_race_epollDispatcher_post : Gen.Skel.race_epollDispatcher_post = [
  "func (d *epollDispatcher) post(f func()) {",
  "d.lambdaLock.Lock()",
  "d.pendingLambda = append(d.pendingLambda, f)",
  "d.lambdaLock.Unlock()",
  "}"] := by rfl

theorem tie_skel_race_epollDispatcher_runLambda : Gen.Skel.race_epollDispatcher_runLambda = [
  "func (d *epollDispatcher) runLambda() {",
  "d.lambdaLock.Lock()",
  "d.runningLambda, d.pendingLambda = d.pendingLambda, d.runningLambda",
  "d.lambdaLock.Unlock()",
  "for _, f := range d.runningLambda {",
  "if d.isShutdown {",
  "return",
  "}",
  "f()",
  "}",
  "d.runningLambda = d.runningLambda[:0]",
  "}"] := by rfl

theorem tie_skel_race_epollDispatcher_runLoop : Gen.Skel.race_epollDispatcher_runLoop = [
  "func (d *epollDispatcher) runLoop() error {",
  "epollFd, err := syscall.EpollCreate1(0)",
  "if err != nil {",
  "return err",
  "}",
  "d.epollFd = epollFd",
  "d.waitLoopExitWg.Add(1)",
  "go func() {",
  "defer d.waitLoopExitWg.Done()",
  "var events [128]epollEvent",
  "timeout := 0",
  "for {",
  "n, err := epollWait(d.epollFd, events[:], timeout)",
  "if err != nil {",
  "return",
  "}",
  "if n <= 0 {",
  "timeout = 1000",
  "runtime.Gosched()",
  "d.runLambda()",
  "continue",
  "}",
  "timeout = 0",
  "d.lock.Lock()",
  "for i := 0; i < n; i++ {",
  "fd := int(binary.BigEndian.Uint32(events[i].data[:4]))",
  "h := d.conns[fd]",
  "h.handleEvent(int(events[i].events), d)",
  "}",
  "d.lock.Unlock()",
  "d.runLambda()",
  "}",
  "runtime.KeepAlive(d)",
  "}()",
  "return nil",
  "}"] := by rfl

theorem tie_skel_race_epollDispatcher_shutdown : Gen.Skel.race_epollDispatcher_shutdown = [
  "func (d *epollDispatcher) shutdown() error {",
  "d.epollFile.Close()",
  "d.waitLoopExitWg.Wait()",
  "d.lock.Lock()",
  "defer d.lock.Unlock()",
  "d.isShutdown = true",
  "for fd := range d.conns {",
  "syscall.Close(fd)",
  "delete(d.conns, fd)",
  "}",
  "return nil",
  "}"] := by rfl

end Tie.C18
