import ShmVerif.Gen.Consts
import ShmVerif.Gen.Skel
import ShmVerif.Model.ReadWait
/-! Tie 1 for C11: Stream.readMore (checks, select on data / close / deadline, re-check after every wake-up), asyncNotify
    (non-blocking send), safeCloseNotify, Flush's bounded queue-full loop, AcceptStream and waitForSendErr (select with
    shutdown / timer). fillDataToReadBuffer, halfClose, Close are tied in Tie.C20 / Tie.C05. -/
namespace Tie.C11

theorem tie_skel_Stream_readMore : Gen.Skel.Stream_readMore = [
  "func (s *Stream) readMore(minSize int) (err error) {",
  "s.pendingData.moveTo(s.recvBuf)",
  "recvLen := s.recvBuf.Len()",
  "if recvLen >= minSize {",
  "return nil",
  "}",
  "if recvLen == 0 && !s.IsOpen() {",
  "return ErrEndOfStream",
  "}",
  "var timeoutCh <-chan time.Time",
  "deadline := s.readDeadline",
  "if !deadline.IsZero() {",
  "if s.readTimer == nil {",
  "s.readTimer = time.NewTimer(time.Until(deadline))",
  "} else {",
  "s.readTimer.Reset(time.Until(deadline))",
  "}",
  "timeoutCh = s.readTimer.C",
  "}",
  "defer func() {",
  "if s.readTimer != nil && !s.readTimer.Stop() {",
  "select {",
  "case <-s.readTimer.C:",
  "default:",
  "}",
  "}",
  "}()",
  "for {",
  "select {",
  "case <-s.recvNotifyCh:",
  "s.pendingData.moveTo(s.recvBuf)",
  "if s.recvBuf.Len() >= minSize {",
  "return nil",
  "}",
  "case <-s.closeNotifyCh:",
  "s.pendingData.moveTo(s.recvBuf)",
  "if s.recvBuf.Len() >= minSize {",
  "return nil",
  "}",
  "if s.getStreamState() == uint32(streamHalfClosed) {",
  "return ErrEndOfStream",
  "}",
  "return ErrStreamClosed",
  "case <-timeoutCh:",
  "return ErrTimeout",
  "}",
  "}",
  "}"] := by rfl

theorem tie_skel_Stream_Flush : Gen.Skel.Stream_Flush = [
  "func (s *Stream) Flush(endStream bool) error {",
  "if s.sendBuf.Len() == 0 {",
  "return nil",
  "}",
  "atomic.AddUint64(&s.session.stats.outFlowBytes, uint64(s.sendBuf.Len()))",
  "state := s.getStreamState()",
  "if state != uint32(streamOpened) {",
  "s.sendBuf.recycle()",
  "return ErrStreamClosed",
  "}",
  "s.sendBuf.done(endStream)",
  "defer s.sendBuf.clean()",
  "if !s.sendBuf.isFromShareMemory() {",
  "s.inFallbackState = true",
  "}",
  "if s.inFallbackState {",
  "return s.writeFallback(s.state, ErrNoMoreBuffer)",
  "}",
  "buf := s.sendBuf",
  "err := s.session.sendQueue().put(queueElement{",
  "seqID: s.id,",
  "offsetInShmBuf: buf.rootBufOffset(),",
  "status: state,",
  "})",
  "if err == ErrQueueFull {",
  "atomic.AddUint64(&s.session.stats.queueFullErrorCount, 1)",
  "var writeDeadlineCh <-chan time.Time",
  "if !s.writeDeadline.IsZero() {",
  "writeDeadlineCh = time.NewTimer(s.writeDeadline.Sub(time.Now())).C",
  "}",
  "for i := 0; err == ErrQueueFull && i < 10; i++ {",
  "retryTimer := time.NewTimer(10 * time.Millisecond)",
  "select {",
  "case <-retryTimer.C:",
  "err = s.session.sendQueue().put(queueElement{",
  "seqID: s.id,",
  "offsetInShmBuf: buf.rootBufOffset(),",
  "status: state,",
  "})",
  "case <-writeDeadlineCh:",
  "err = ErrTimeout",
  "case <-s.closeNotifyCh:",
  "err = ErrStreamClosed",
  "}",
  "}",
  "}",
  "if err != nil {",
  "buf.recycle()",
  "return err",
  "}",
  "return s.session.wakeUpPeer()",
  "}"] := by rfl

theorem tie_skel_Stream_safeCloseNotify : Gen.Skel.Stream_safeCloseNotify = [
  "func (s *Stream) safeCloseNotify() {",
  "s.closeNotifyOnce.Do(func() { close(s.closeNotifyCh) })",
  "}"] := by rfl

theorem tie_skel_asyncNotify : Gen.Skel.asyncNotify = [
  "func asyncNotify(ch chan struct{}) {",
  "select {",
  "case ch <- struct{}{}:",
  "default:",
  "}",
  "}"] := by rfl

theorem tie_skel_Session_AcceptStream : Gen.Skel.Session_AcceptStream = [
  "func (s *Session) AcceptStream() (*Stream, error) {",
  "select {",
  "case stream := <-s.acceptCh:",
  "return stream, nil",
  "case <-s.shutdownCh:",
  "return nil, s.shutdownErr",
  "}",
  "}"] := by rfl

theorem tie_skel_Session_waitForSendErr : Gen.Skel.Session_waitForSendErr = [
  "func (s *Session) waitForSendErr(hdr header, body []byte, errCh chan error) error {",
  "t := timerPool.Get()",
  "timer := t.(*time.Timer)",
  "timer.Reset(s.config.ConnectionWriteTimeout)",
  "defer func() {",
  "timer.Stop()",
  "select {",
  "case <-timer.C:",
  "default:",
  "}",
  "timerPool.Put(t)",
  "}()",
  "ready := sendReady{Hdr: hdr, Body: body, Err: errCh}",
  "select {",
  "case s.sendCh <- ready:",
  "case <-s.shutdownCh:",
  "return s.shutdownErr",
  "case <-timer.C:",
  "return ErrConnectionWriteTimeout",
  "}",
  "select {",
  "case err := <-errCh:",
  "return err",
  "case <-s.shutdownCh:",
  "return s.shutdownErr",
  "case <-timer.C:",
  "return ErrConnectionWriteTimeout",
  "}",
  "}"] := by rfl

theorem tie_skel_Stream_SetReadDeadline : Gen.Skel.Stream_SetReadDeadline = [
  "func (s *Stream) SetReadDeadline(t time.Time) error {",
  "s.readDeadline = t",
  "return nil",
  "}"] := by rfl

/-! further functions on this property's paths (any edit to them is reported) -/

theorem tie_skel_Stream_SetDeadline : Gen.Skel.Stream_SetDeadline = [
  "func (s *Stream) SetDeadline(t time.Time) error {",
  "s.readDeadline = t",
  "s.writeDeadline = t",
  "return nil",
  "}"] := by rfl

/-! the handshake's only read primitive: a read of 0 bytes (the peer closed, or initProtocol shut the descriptor down on
    time-out) ends it at ANY point of a message -/
theorem tie_skel_c11_blockReadFull : Gen.Skel.blockReadFull = [
  "func blockReadFull(connFd int, data []byte) error {",
  "readSize := 0",
  "for readSize < len(data) {",
  "n, err := syscall.Read(connFd, data[readSize:])",
  "if err != nil {",
  "return fmt.Errorf(\"ReadFull failed, had readSize:%d reason:%s\", readSize, err.Error())",
  "}",
  "readSize += n",
  "if n == 0 {",
  "return io.EOF",
  "}",
  "}",
  "return nil",
  "}"] := by rfl

end Tie.C11
