import ShmVerif.Gen.Consts
import ShmVerif.Gen.Skel
import ShmVerif.Model.FreeListC
import ShmVerif.Tie.BufMgr
/-! Tie 1 for C01/C02: the facts of buffer_manager.go / buffer_slice.go the model `FreeListC` relies on,
    re-checked against the regenerated `Gen` on every run. -/
namespace Tie.C01

theorem tie_retryBound : FreeListC.retryBound = 200 := rfl
theorem tie_bufferHeaderSize : Gen.c_bufferHeaderSize = 20 := by decide
theorem tie_nextBufferOffset : Gen.c_nextBufferOffset = 12 := by decide
theorem tie_bufferFlagOffset : Gen.c_bufferFlagOffset = 16 := by decide
theorem tie_hasNextBufferFlag : Gen.c_hasNextBufferFlag = 1 := by decide
theorem tie_sliceInUsedFlag : Gen.c_sliceInUsedFlag = 2 := by decide
theorem tie_bufferListHeaderSize : Gen.c_bufferListHeaderSize = 36 := by decide

theorem tie_skel_bufferList_pop : Gen.Skel.bufferList_pop = [
  "func (b *bufferList) pop() (*bufferSlice, error) {",
  "oldHead := atomic.LoadUint32(b.head)",
  "remain := atomic.AddInt32(b.size, -1)",
  "if remain <= 0 {",
  "atomic.AddInt32(b.size, 1)",
  "return nil, ErrNoMoreBuffer",
  "}",
  "for i := 0; i < 200; i++ {",
  "bh := bufferHeader(b.bufferRegion[oldHead : oldHead+bufferHeaderSize])",
  "if bh.hasNext() {",
  "if atomic.CompareAndSwapUint32(b.head, oldHead, bh.nextBufferOffset()) {",
  "h := bufferHeader(b.bufferRegion[oldHead : oldHead+bufferHeaderSize])",
  "h.clearFlag()",
  "h.setInUsed()",
  "atomic.AddInt32(b.counter, 1)",
  "return newBufferSlice(h,",
  "b.bufferRegion[oldHead+bufferHeaderSize:oldHead+bufferHeaderSize+*b.capPerBuffer],",
  "oldHead+b.bufferRegionOffsetInShm, true), nil",
  "}",
  "} else {",
  "if *b.size <= 1 {",
  "atomic.AddInt32(b.size, 1)",
  "return nil, ErrNoMoreBuffer",
  "}",
  "}",
  "oldHead = atomic.LoadUint32(b.head)",
  "}",
  "atomic.AddInt32(b.size, 1)",
  "return nil, ErrNoMoreBuffer",
  "}"] := by rfl

theorem tie_skel_bufferList_push : Gen.Skel.bufferList_push = [
  "func (b *bufferList) push(buffer *bufferSlice) {",
  "buffer.reset()",
  "for {",
  "oldTail := atomic.LoadUint32(b.tail)",
  "newTail := buffer.offsetInShm - b.bufferRegionOffsetInShm",
  "if atomic.CompareAndSwapUint32(b.tail, oldTail, newTail) {",
  "bufferHeader(b.bufferRegion[oldTail : oldTail+bufferHeaderSize]).linkNext(newTail)",
  "atomic.AddInt32(b.size, 1)",
  "atomic.AddInt32(b.counter, -1)",
  "return",
  "}",
  "}",
  "}"] := by rfl

theorem tie_skel_bufferList_remain : Gen.Skel.bufferList_remain = [
  "func (b *bufferList) remain() int {",
  "return int(atomic.LoadInt32(b.size) - 1)",
  "}"] := by rfl

theorem tie_skel_bufferHeader_nextBufferOffset : Gen.Skel.bufferHeader_nextBufferOffset = [
  "func (s bufferHeader) nextBufferOffset() uint32 {",
  "return *(*uint32)(unsafe.Pointer(&s[nextBufferOffset]))",
  "}"] := by rfl

theorem tie_skel_bufferHeader_hasNext : Gen.Skel.bufferHeader_hasNext = [
  "func (s bufferHeader) hasNext() bool {",
  "return (s[bufferFlagOffset] & hasNextBufferFlag) > 0",
  "}"] := by rfl

theorem tie_skel_bufferHeader_clearFlag : Gen.Skel.bufferHeader_clearFlag = [
  "func (s bufferHeader) clearFlag() {",
  "s[bufferFlagOffset] = 0",
  "}"] := by rfl

theorem tie_skel_bufferHeader_setInUsed : Gen.Skel.bufferHeader_setInUsed = [
  "func (s bufferHeader) setInUsed() {",
  "s[bufferFlagOffset] |= sliceInUsedFlag",
  "}"] := by rfl

theorem tie_skel_bufferHeader_isInUsed : Gen.Skel.bufferHeader_isInUsed = [
  "func (s bufferHeader) isInUsed() bool {",
  "return (s[bufferFlagOffset] & sliceInUsedFlag) > 0",
  "}"] := by rfl

theorem tie_skel_bufferHeader_linkNext : Gen.Skel.bufferHeader_linkNext = [
  "func (s bufferHeader) linkNext(next uint32) {",
  "*(*uint32)(unsafe.Pointer(&s[nextBufferOffset])) = next",
  "s[bufferFlagOffset] |= hasNextBufferFlag",
  "}"] := by rfl

theorem tie_skel_bufferSlice_reset : Gen.Skel.bufferSlice_reset = [
  "func (s *bufferSlice) reset() {",
  "if s.bufferHeader != nil {",
  "*(*uint32)(unsafe.Pointer(&s.bufferHeader[bufferSizeOffset])) = 0",
  "*(*uint32)(unsafe.Pointer(&s.bufferHeader[bufferDataStartOffset])) = 0",
  "s.bufferHeader.clearFlag()",
  "}",
  "s.writeIndex = 0",
  "s.readIndex = 0",
  "s.nextSlice = nil",
  "}"] := by rfl

theorem tie_skel_createFreeBufferList : Gen.Skel.createFreeBufferList = [
  "func createFreeBufferList(bufferNum, capPerBuffer uint32, mem []byte, offsetInMem uint32) (*bufferList, error) {",
  "if bufferNum == 0 || capPerBuffer == 0 {",
  "return nil, fmt.Errorf(\"bufferNum:%d or capPerBuffer:%d cannot be 0 \", bufferNum, capPerBuffer)",
  "}",
  "atLeastSize := countBufferListMemSize(bufferNum, capPerBuffer)",
  "if len(mem) < int(offsetInMem+atLeastSize) || offsetInMem > uint32(len(mem)) || atLeastSize > uint32(len(mem)) {",
  "return nil, fmt.Errorf(\"mem's size is at least:%d but:%d offsetInMem:%d atLeastSize:%d\", offsetInMem+atLeastSize, len(mem), offsetInMem, atLeastSize)",
  "}",
  "bufferRegionStart := offsetInMem + bufferListHeaderSize",
  "bufferRegionEnd := offsetInMem + atLeastSize",
  "if bufferRegionEnd <= bufferRegionStart {",
  "return nil, fmt.Errorf(\"bufferRegionStart:%d bufferRegionEnd:%d slice bounds out of range\", bufferRegionStart, bufferRegionEnd)",
  "}",
  "b := &bufferList{",
  "size: (*int32)(unsafe.Pointer(&mem[offsetInMem+0])),",
  "cap: (*uint32)(unsafe.Pointer(&mem[offsetInMem+4])),",
  "head: (*uint32)(unsafe.Pointer(&mem[offsetInMem+8])),",
  "tail: (*uint32)(unsafe.Pointer(&mem[offsetInMem+12])),",
  "capPerBuffer: (*uint32)(unsafe.Pointer(&mem[offsetInMem+16])),",
  "counter: (*int32)(unsafe.Pointer(&mem[offsetInMem+20])),",
  "bufferRegion: mem[offsetInMem+bufferListHeaderSize : offsetInMem+atLeastSize],",
  "bufferRegionOffsetInShm: offsetInMem + bufferListHeaderSize,",
  "offsetInShm: offsetInMem,",
  "}",
  "*b.size = int32(bufferNum)",
  "*b.cap = bufferNum",
  "*b.head = 0",
  "*b.tail = (bufferNum - 1) * (capPerBuffer + bufferHeaderSize)",
  "*b.capPerBuffer = capPerBuffer",
  "*b.counter = 0",
  "current, next := uint32(0), uint32(0)",
  "for i := 0; i < int(bufferNum); i++ {",
  "next = current + capPerBuffer + bufferHeaderSize",
  "*(*uint32)(unsafe.Pointer(&b.bufferRegion[current])) = capPerBuffer",
  "*(*uint32)(unsafe.Pointer(&b.bufferRegion[current+bufferSizeOffset])) = 0",
  "*(*uint32)(unsafe.Pointer(&b.bufferRegion[current+bufferDataStartOffset])) = 0",
  "if i < int(bufferNum-1) {",
  "*(*uint32)(unsafe.Pointer(&b.bufferRegion[current+nextBufferOffset])) = next",
  "b.bufferRegion[current+bufferFlagOffset] |= hasNextBufferFlag",
  "}",
  "current = next",
  "}",
  "bufferHeader(b.bufferRegion[*b.tail:]).clearFlag()",
  "return b, nil",
  "}"] := by rfl

theorem tie_skel_bufferManager_allocShmBuffer : Gen.Skel.bufferManager_allocShmBuffer = [
  "func (b *bufferManager) allocShmBuffer(size uint32) (*bufferSlice, error) {",
  "if size <= b.maxSliceSize {",
  "for i := range b.lists {",
  "if size <= *b.lists[i].capPerBuffer {",
  "buf, err := b.lists[i].pop()",
  "if err != nil {",
  "continue",
  "}",
  "return buf, nil",
  "}",
  "}",
  "}",
  "return nil, ErrNoMoreBuffer",
  "}"] := by rfl

theorem tie_skel_bufferManager_allocShmBuffers : Gen.Skel.bufferManager_allocShmBuffers = [
  "func (b *bufferManager) allocShmBuffers(slices *sliceList, size uint32) (allocSize int64) {",
  "remain := int64(size)",
  "for i := len(b.lists) - 1; i >= 0 && remain > 0; i-- {",
  "for remain > 0 {",
  "buf, err := b.lists[i].pop()",
  "if err != nil {",
  "break",
  "}",
  "slices.pushBack(buf)",
  "allocSize += int64(buf.cap)",
  "remain -= int64(buf.cap)",
  "}",
  "}",
  "return allocSize",
  "}"] := by rfl

theorem tie_skel_bufferManager_recycleBuffer : Gen.Skel.bufferManager_recycleBuffer = [
  "func (b *bufferManager) recycleBuffer(slice *bufferSlice) {",
  "if slice == nil {",
  "return",
  "}",
  "if slice.isFromShm {",
  "for i := range b.lists {",
  "if slice.cap == *b.lists[i].capPerBuffer {",
  "b.lists[i].push(slice)",
  "break",
  "}",
  "}",
  "}",
  "putBackBufferSlice(slice)",
  "}"] := by rfl

theorem tie_skel_bufferManager_recycleBuffers : Gen.Skel.bufferManager_recycleBuffers = [
  "func (b *bufferManager) recycleBuffers(slice *bufferSlice) {",
  "if slice == nil {",
  "return",
  "}",
  "if slice.isFromShm {",
  "var err error",
  "for {",
  "if !slice.hasNext() {",
  "b.recycleBuffer(slice)",
  "return",
  "}",
  "nextSliceOffset := slice.nextBufferOffset()",
  "b.recycleBuffer(slice)",
  "slice, err = b.readBufferSlice(nextSliceOffset)",
  "if err != nil {",
  "return",
  "}",
  "}",
  "}",
  "}"] := by rfl


/-! creation of the share memory is exclusive (a second creator on a live path would re-initialise owned buffers) -/

/- `getGlobalBufferManager` and `getGlobalBufferManagerWithMemFd` are tied in `Tie.BufMgr` (shared with C03) -/

theorem tie_skel_addGlobalBufferManagerRefCount : Gen.Skel.addGlobalBufferManagerRefCount = [
  "func addGlobalBufferManagerRefCount(path string, c int) {",
  "bufferManagers.Lock()",
  "if bm, ok := bufferManagers.bms[path]; ok {",
  "if atomic.AddInt32(&bm.refCount, int32(c)) <= 0 {",
  "bm.unmap()",
  "delete(bufferManagers.bms, path)",
  "}",
  "}",
  "bufferManagers.Unlock()",
  "}"] := by rfl

/-! the receiving side's view of a handed-out buffer (payload window = the slot's payload, nothing more) -/
theorem tie_skel_bufferManager_readBufferSlice_c01 : Gen.Skel.bufferManager_readBufferSlice = [
  "func (b *bufferManager) readBufferSlice(offset uint32) (*bufferSlice, error) {",
  "if int(offset)+bufferHeaderSize >= len(b.mem) {",
  "return nil, fmt.Errorf(\"broken share memory. readBufferSlice unexpected offset:%d buffers cap:%d\",",
  "offset, len(b.mem))",
  "}",
  "bufCap := *(*uint32)(unsafe.Pointer(&b.mem[offset+bufferCapOffset]))",
  "bufEndOffset := offset + uint32(bufferHeaderSize) + bufCap",
  "if bufEndOffset > uint32(len(b.mem)) {",
  "return nil, fmt.Errorf(\"broken share memory. readBufferSlice unexpected bufferEndOffset:%d. bufferStartOffset:%d buffers cap:%d\",",
  "bufEndOffset, offset, len(b.mem))",
  "}",
  "return newBufferSlice(b.mem[offset:offset+bufferHeaderSize], b.mem[offset+bufferHeaderSize:bufEndOffset], offset, true), nil",
  "}"] := by rfl

/-! giving a buffer back is serialised per buffer (recycleMux covers the parked list too): no slot is pushed twice -/
theorem tie_skel_c01_linkedBuffer_recycle : Gen.Skel.linkedBuffer_recycle = [
  "func (l *linkedBuffer) recycle() {",
  "l.recycleMux.Lock()",
  "l.cleanPinnedList()",
  "for l.sliceList.size() > 0 {",
  "slice := l.sliceList.popFront()",
  "if slice.isFromShm {",
  "l.bufferManager.recycleBuffer(slice)",
  "} else {",
  "putBackBufferSlice(slice)",
  "}",
  "}",
  "l.clean()",
  "l.recycleMux.Unlock()",
  "}"] := by rfl

end Tie.C01
