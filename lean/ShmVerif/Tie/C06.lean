import ShmVerif.Gen.Consts
import ShmVerif.Gen.Skel
import ShmVerif.Model.Pipe
import ShmVerif.Tie.Pending
/-! Tie 1 for C06/C08: the bodies of buffer_slice.go / buffer.go / the data path of stream.go and the allocator entry
    points the models `LinkedBuffer` and `Pipe` mirror statement by statement, re-checked against the regenerated `Gen`. -/
namespace Tie.C06

theorem tie_defaultSingleBufferSize : Gen.c_defaultSingleBufferSize = (LB.defaultSingleBufferSize : Int) := by decide
theorem tie_bufferHeaderSize : Gen.c_bufferHeaderSize = 20 := by decide

theorem tie_skel_newBufferSlice : Gen.Skel.newBufferSlice = [
  "func newBufferSlice(header []byte, data []byte, offsetInShm uint32, isFromShm bool) *bufferSlice {",
  "s := bufferSlicePool.Get().(*bufferSlice)",
  "if isFromShm && header != nil {",
  "s.cap = *(*uint32)(unsafe.Pointer(&header[bufferCapOffset]))",
  "s.start = *(*uint32)(unsafe.Pointer(&header[bufferDataStartOffset]))",
  "s.readIndex = int(s.start)",
  "s.writeIndex = int(s.start + *(*uint32)(unsafe.Pointer(&(header[bufferSizeOffset]))))",
  "} else {",
  "s.cap = uint32(cap(data))",
  "}",
  "s.bufferHeader = header",
  "s.data = data",
  "s.offsetInShm = offsetInShm",
  "s.isFromShm = isFromShm",
  "return s",
  "}"] := by rfl

theorem tie_skel_putBackBufferSlice : Gen.Skel.putBackBufferSlice = [
  "func putBackBufferSlice(s *bufferSlice) {",
  "s.isFromShm = false",
  "s.offsetInShm = 0",
  "s.data = nil",
  "s.bufferHeader = nil",
  "s.cap = 0",
  "s.writeIndex = 0",
  "s.readIndex = 0",
  "s.start = 0",
  "s.nextSlice = nil",
  "bufferSlicePool.Put(s)",
  "}"] := by rfl

theorem tie_skel_bufferSlice_update : Gen.Skel.bufferSlice_update = [
  "func (s *bufferSlice) update() {",
  "if s.bufferHeader != nil {",
  "*(*uint32)(unsafe.Pointer(&s.bufferHeader[bufferSizeOffset])) = uint32(s.size())",
  "*(*uint32)(unsafe.Pointer(&s.bufferHeader[bufferDataStartOffset])) = s.start",
  "if s.nextSlice != nil {",
  "s.linkNext(s.nextSlice.offsetInShm)",
  "}",
  "}",
  "}"] := by rfl

theorem tie_skel_bufferSlice_reset : Gen.Skel.bufferSlice_reset = [
  "func (s *bufferSlice) reset() {",
  "if s.bufferHeader != nil {",
  "*(*uint32)(unsafe.Pointer(&s.bufferHeader[bufferSizeOffset])) = 0",
  "*(*uint32)(unsafe.Pointer(&s.bufferHeader[bufferDataStartOffset])) = 0",
  "s.bufferHeader.clearFlag()",
  "}",
  "s.writeIndex = 0",
  "s.readIndex = 0",
  "s.nextSlice = nil",
  "}"] := by rfl

theorem tie_skel_bufferSlice_size : Gen.Skel.bufferSlice_size = [
  "func (s *bufferSlice) size() int {",
  "return s.writeIndex - s.readIndex",
  "}"] := by rfl

theorem tie_skel_bufferSlice_remain : Gen.Skel.bufferSlice_remain = [
  "func (s *bufferSlice) remain() int {",
  "return int(s.cap) - s.writeIndex",
  "}"] := by rfl

theorem tie_skel_bufferSlice_reserve : Gen.Skel.bufferSlice_reserve = [
  "func (s *bufferSlice) reserve(size int) ([]byte, error) {",
  "start := s.writeIndex",
  "remain := s.remain()",
  "if remain >= size {",
  "s.writeIndex += size",
  "return s.data[start:s.writeIndex], nil",
  "}",
  "return nil, ErrNoMoreBuffer",
  "}"] := by rfl

theorem tie_skel_bufferSlice_append : Gen.Skel.bufferSlice_append = [
  "func (s *bufferSlice) append(data ...byte) int {",
  "if len(data) == 0 {",
  "return 0",
  "}",
  "copySize := copy(s.data[s.writeIndex:], data)",
  "s.writeIndex += copySize",
  "return copySize",
  "}"] := by rfl

theorem tie_skel_bufferSlice_read : Gen.Skel.bufferSlice_read = [
  "func (s *bufferSlice) read(size int) (data []byte, err error) {",
  "unRead := s.size()",
  "if unRead < size {",
  "size = unRead",
  "err = ErrNotEnoughData",
  "}",
  "data = s.data[s.readIndex : s.readIndex+size]",
  "s.readIndex += size",
  "return",
  "}"] := by rfl

theorem tie_skel_bufferSlice_peek : Gen.Skel.bufferSlice_peek = [
  "func (s *bufferSlice) peek(size int) (data []byte, err error) {",
  "origin := s.readIndex",
  "data, err = s.read(size)",
  "s.readIndex = origin",
  "return",
  "}"] := by rfl

theorem tie_skel_bufferSlice_skip : Gen.Skel.bufferSlice_skip = [
  "func (s *bufferSlice) skip(size int) int {",
  "unRead := s.size()",
  "if unRead > size {",
  "s.readIndex += size",
  "return size",
  "}",
  "s.readIndex += unRead",
  "return unRead",
  "}"] := by rfl

theorem tie_skel_sliceList_pushBack : Gen.Skel.sliceList_pushBack = [
  "func (l *sliceList) pushBack(s *bufferSlice) {",
  "if s == nil {",
  "return",
  "}",
  "if l.len > 0 {",
  "l.backSlice.nextSlice = s",
  "} else {",
  "l.frontSlice = s",
  "}",
  "l.backSlice = s",
  "l.len++",
  "}"] := by rfl

theorem tie_skel_sliceList_popFront : Gen.Skel.sliceList_popFront = [
  "func (l *sliceList) popFront() *bufferSlice {",
  "r := l.frontSlice",
  "if l.len > 0 {",
  "l.len--",
  "l.frontSlice = l.frontSlice.nextSlice",
  "}",
  "if l.len == 0 {",
  "l.frontSlice = nil",
  "l.backSlice = nil",
  "}",
  "return r",
  "}"] := by rfl

theorem tie_skel_sliceList_splitFromWrite : Gen.Skel.sliceList_splitFromWrite = [
  "func (l *sliceList) splitFromWrite() *bufferSlice {",
  "nextListHead := l.writeSlice.nextSlice",
  "l.backSlice = l.writeSlice",
  "l.backSlice.nextSlice = nil",
  "nextListSize := 0",
  "for s := nextListHead; s != nil; s = s.nextSlice {",
  "nextListSize++",
  "}",
  "l.len -= nextListSize",
  "return nextListHead",
  "}"] := by rfl

theorem tie_skel_linkedBuffer_Len : Gen.Skel.linkedBuffer_Len = [
  "func (l *linkedBuffer) Len() int {",
  "return l.len",
  "}"] := by rfl

theorem tie_skel_linkedBuffer_copyWriteAndFlush : Gen.Skel.linkedBuffer_copyWriteAndFlush = [
  "func (l *linkedBuffer) copyWriteAndFlush(data []byte) (n int, err error) {",
  "if len(data) == 0 {",
  "return 0, nil",
  "}",
  "written, err := l.WriteBytes(data)",
  "if err != nil {",
  "return 0, err",
  "}",
  "err = l.stream.Flush(false)",
  "return written, err",
  "}"] := by rfl

theorem tie_skel_linkedBuffer_WriteByte : Gen.Skel.linkedBuffer_WriteByte = [
  "func (l *linkedBuffer) WriteByte(b byte) error {",
  "if l.sliceList.writeSlice == nil {",
  "l.alloc(1)",
  "l.sliceList.writeSlice = l.sliceList.front()",
  "}",
  "n := l.sliceList.writeSlice.append(b)",
  "if n == 1 {",
  "l.len++",
  "return nil",
  "}",
  "l.alloc(1)",
  "l.sliceList.writeSlice = l.sliceList.writeSlice.next()",
  "l.sliceList.writeSlice.append(b)",
  "l.len++",
  "return nil",
  "}"] := by rfl

theorem tie_skel_linkedBuffer_WriteBytes : Gen.Skel.linkedBuffer_WriteBytes = [
  "func (l *linkedBuffer) WriteBytes(data []byte) (n int, err error) {",
  "if len(data) == 0 {",
  "return",
  "}",
  "if l.sliceList.writeSlice == nil {",
  "l.alloc(uint32(len(data) - n))",
  "l.sliceList.writeSlice = l.sliceList.front()",
  "}",
  "for {",
  "n += l.sliceList.writeSlice.append(data[n:]...)",
  "if n < len(data) {",
  "if l.sliceList.writeSlice.next() == nil {",
  "l.alloc(uint32(len(data) - n))",
  "}",
  "l.sliceList.writeSlice = l.sliceList.writeSlice.next()",
  "} else {",
  "break",
  "}",
  "}",
  "l.len += n",
  "return",
  "}"] := by rfl

theorem tie_skel_linkedBuffer_Reserve : Gen.Skel.linkedBuffer_Reserve = [
  "func (l *linkedBuffer) Reserve(size int) ([]byte, error) {",
  "if l.sliceList.writeSlice == nil {",
  "l.alloc(uint32(size))",
  "l.sliceList.writeSlice = l.sliceList.front()",
  "}",
  "ret, err := l.sliceList.writeSlice.reserve(size)",
  "if err == nil {",
  "l.len += size",
  "return ret, err",
  "}",
  "if e := l.sliceList.writeSlice.next(); e != nil {",
  "ret, err = e.reserve(size)",
  "if err == nil {",
  "l.sliceList.writeSlice = e",
  "l.len += size",
  "return ret, err",
  "}",
  "}",
  "buf, err := l.bufferManager.allocShmBuffer(uint32(size))",
  "if err == nil {",
  "l.sliceList.pushBack(buf)",
  "} else {",
  "allocSize := size",
  "if allocSize < defaultSingleBufferSize {",
  "allocSize = defaultSingleBufferSize",
  "}",
  "l.sliceList.pushBack(newBufferSlice(nil, make([]byte, allocSize), 0, false))",
  "l.isFromShm = false",
  "}",
  "l.sliceList.writeSlice = l.sliceList.back()",
  "l.len += size",
  "return l.sliceList.writeSlice.reserve(size)",
  "}"] := by rfl

theorem tie_skel_linkedBuffer_WriteString : Gen.Skel.linkedBuffer_WriteString = [
  "func (l *linkedBuffer) WriteString(str string) error {",
  "_, err := l.WriteBytes(string2bytesZeroCopy(str))",
  "return err",
  "}"] := by rfl

theorem tie_skel_linkedBuffer_recycle : Gen.Skel.linkedBuffer_recycle = [
  "func (l *linkedBuffer) recycle() {",
  "l.recycleMux.Lock()",
  "l.cleanPinnedList()",
  "for l.sliceList.size() > 0 {",
  "slice := l.sliceList.popFront()",
  "if slice.isFromShm {",
  "l.bufferManager.recycleBuffer(slice)",
  "} else {",
  "putBackBufferSlice(slice)",
  "}",
  "}",
  "l.clean()",
  "l.recycleMux.Unlock()",
  "}"] := by rfl

theorem tie_skel_linkedBuffer_rootBufOffset : Gen.Skel.linkedBuffer_rootBufOffset = [
  "func (l *linkedBuffer) rootBufOffset() uint32 {",
  "return l.sliceList.front().offsetInShm",
  "}"] := by rfl

theorem tie_skel_linkedBuffer_done : Gen.Skel.linkedBuffer_done = [
  "func (l *linkedBuffer) done(endStream bool) BufferReader {",
  "_ = endStream",
  "if l.isFromShm {",
  "for slice := l.sliceList.front(); slice != nil; slice = slice.nextSlice {",
  "slice.update()",
  "if slice == l.sliceList.writeSlice {",
  "break",
  "}",
  "}",
  "if l.sliceList.writeSlice.next() != nil {",
  "head := l.sliceList.splitFromWrite()",
  "for slice := head; slice != nil; {",
  "next := slice.nextSlice",
  "l.bufferManager.recycleBuffer(slice)",
  "slice = next",
  "}",
  "}",
  "}",
  "return l",
  "}"] := by rfl

theorem tie_skel_linkedBuffer_underlyingData : Gen.Skel.linkedBuffer_underlyingData = [
  "func (l *linkedBuffer) underlyingData() [][]byte {",
  "data := make([][]byte, 0, 4)",
  "for slice := l.sliceList.front(); slice != nil; slice = slice.next() {",
  "data = append(data, slice.data[slice.readIndex:slice.writeIndex])",
  "if slice == l.sliceList.writeSlice {",
  "break",
  "}",
  "}",
  "return data",
  "}"] := by rfl

theorem tie_skel_linkedBuffer_read : Gen.Skel.linkedBuffer_read = [
  "func (l *linkedBuffer) read(p []byte) (n int, err error) {",
  "size := len(p)",
  "if size <= 0 {",
  "return",
  "}",
  "written := 0",
  "if l.len < 1 {",
  "if err = l.stream.readMore(1); err != nil {",
  "return 0, err",
  "}",
  "}",
  "for front := l.sliceList.front(); front != nil && size > written; {",
  "b, err := front.read(size - written)",
  "written += copy(p[written:], b)",
  "if err == nil {",
  "break",
  "} else if err == ErrNotEnoughData {",
  "l.readNextSlice()",
  "front = l.sliceList.front()",
  "}",
  "}",
  "l.len -= written",
  "return written, nil",
  "}"] := by rfl

theorem tie_skel_linkedBuffer_ReadByte : Gen.Skel.linkedBuffer_ReadByte = [
  "func (l *linkedBuffer) ReadByte() (byte, error) {",
  "if l.len < 1 {",
  "if err := l.stream.readMore(1); err != nil {",
  "return 0, err",
  "}",
  "}",
  "r, err := l.sliceList.front().read(1)",
  "for err != nil {",
  "l.readNextSlice()",
  "r, err = l.sliceList.front().read(1)",
  "}",
  "l.len--",
  "return r[0], nil",
  "}"] := by rfl

theorem tie_skel_linkedBuffer_ReadBytes : Gen.Skel.linkedBuffer_ReadBytes = [
  "func (l *linkedBuffer) ReadBytes(size int) (result []byte, err error) {",
  "if size <= 0 {",
  "return",
  "}",
  "if l.len < size {",
  "if err = l.stream.readMore(size); err != nil {",
  "return nil, err",
  "}",
  "}",
  "if l.sliceList.front().size() == 0 {",
  "l.readNextSlice()",
  "}",
  "if l.sliceList.front().size() >= size {",
  "l.currentPinned = true",
  "l.len -= size",
  "return l.sliceList.front().read(size)",
  "}",
  "l.len -= size",
  "result = dirtmake.Bytes(0, size)",
  "for size > 0 {",
  "readData, _ := l.sliceList.front().read(size)",
  "result = append(result, readData...)",
  "if len(readData) != size {",
  "l.readNextSlice()",
  "}",
  "size -= len(readData)",
  "}",
  "return",
  "}"] := by rfl

theorem tie_skel_linkedBuffer_ReadString : Gen.Skel.linkedBuffer_ReadString = [
  "func (l *linkedBuffer) ReadString(size int) (string, error) {",
  "if size <= 0 {",
  "return \"\", nil",
  "}",
  "if l.len < size {",
  "if err := l.stream.readMore(size); err != nil {",
  "return \"\", err",
  "}",
  "}",
  "if l.sliceList.front().size() >= size {",
  "data, _ := l.sliceList.front().read(size)",
  "l.len -= size",
  "return string(data), nil",
  "}",
  "s := make([]byte, size)",
  "written := 0",
  "for written < size {",
  "if l.sliceList.front().size() == 0 {",
  "l.readNextSlice()",
  "}",
  "readData, _ := l.sliceList.front().read(size - written)",
  "written += copy(s[written:], readData)",
  "}",
  "l.len -= size",
  "return *(*string)(unsafe.Pointer(&s)), nil",
  "}"] := by rfl

theorem tie_skel_linkedBuffer_Peek : Gen.Skel.linkedBuffer_Peek = [
  "func (l *linkedBuffer) Peek(size int) ([]byte, error) {",
  "if size <= 0 {",
  "return nil, nil",
  "}",
  "if l.len < size {",
  "if err := l.stream.readMore(size); err != nil {",
  "return nil, err",
  "}",
  "}",
  "readBytes, _ := l.sliceList.front().peek(size)",
  "if len(readBytes) == size {",
  "l.currentPinned = true",
  "return readBytes, nil",
  "}",
  "result := make([]byte, 0, size)",
  "result = append(result, readBytes...)",
  "size -= len(readBytes)",
  "for e := l.sliceList.front().next(); size > 0 && e != nil; e = e.next() {",
  "readBytes, _ := e.peek(size)",
  "result = append(result, readBytes...)",
  "size -= len(readBytes)",
  "}",
  "return result, nil",
  "}"] := by rfl

theorem tie_skel_linkedBuffer_Discard : Gen.Skel.linkedBuffer_Discard = [
  "func (l *linkedBuffer) Discard(size int) (n int, err error) {",
  "if size <= 0 {",
  "return",
  "}",
  "if l.len < size {",
  "if err = l.stream.readMore(size); err != nil {",
  "return",
  "}",
  "}",
  "for {",
  "skip := l.sliceList.front().skip(size)",
  "n += skip",
  "size -= skip",
  "if size == 0 {",
  "break",
  "}",
  "l.readNextSlice()",
  "}",
  "l.len -= n",
  "return",
  "}"] := by rfl

theorem tie_skel_linkedBuffer_cleanPinnedList : Gen.Skel.linkedBuffer_cleanPinnedList = [
  "func (l *linkedBuffer) cleanPinnedList() {",
  "if l.pinnedList.size() == 0 {",
  "return",
  "}",
  "l.currentPinned = false",
  "for l.pinnedList.size() > 0 {",
  "slice := l.pinnedList.popFront()",
  "if slice.isFromShm {",
  "l.bufferManager.recycleBuffer(slice)",
  "} else {",
  "putBackBufferSlice(slice)",
  "}",
  "}",
  "}"] := by rfl

theorem tie_skel_linkedBuffer_ReleasePreviousRead : Gen.Skel.linkedBuffer_ReleasePreviousRead = [
  "func (l *linkedBuffer) ReleasePreviousRead() {",
  "l.cleanPinnedList()",
  "if l.sliceList.size() == 0 {",
  "return",
  "}",
  "if l.sliceList.front().size() == 0 && l.sliceList.front() == l.sliceList.writeSlice {",
  "l.bufferManager.recycleBuffer(l.sliceList.popFront())",
  "l.sliceList.writeSlice = nil",
  "}",
  "}"] := by rfl

theorem tie_skel_linkedBuffer_releasePreviousReadAndReserve : Gen.Skel.linkedBuffer_releasePreviousReadAndReserve = [
  "func (l *linkedBuffer) releasePreviousReadAndReserve() {",
  "l.cleanPinnedList()",
  "if l.len == 0 && l.sliceList.size() == 1 {",
  "if l.sliceList.front().isFromShm {",
  "l.sliceList.front().reset()",
  "} else {",
  "putBackBufferSlice(l.sliceList.popFront())",
  "}",
  "}",
  "}"] := by rfl

theorem tie_skel_linkedBuffer_readNextSlice : Gen.Skel.linkedBuffer_readNextSlice = [
  "func (l *linkedBuffer) readNextSlice() {",
  "slice := l.sliceList.popFront()",
  "if slice.isFromShm {",
  "if l.currentPinned {",
  "l.pinnedList.pushBack(slice)",
  "} else {",
  "l.bufferManager.recycleBuffer(slice)",
  "}",
  "}",
  "l.currentPinned = false",
  "}"] := by rfl

theorem tie_skel_linkedBuffer_alloc : Gen.Skel.linkedBuffer_alloc = [
  "func (l *linkedBuffer) alloc(size uint32) {",
  "remain := int64(size)",
  "if l.stream == nil || !l.stream.session.IsClosed() {",
  "buf, err := l.bufferManager.allocShmBuffer(size)",
  "if err == nil {",
  "l.sliceList.pushBack(buf)",
  "return",
  "}",
  "allocSize := l.bufferManager.allocShmBuffers(l.sliceList, size)",
  "remain -= allocSize",
  "}",
  "if remain > 0 {",
  "if remain < defaultSingleBufferSize {",
  "remain = defaultSingleBufferSize",
  "}",
  "l.sliceList.pushBack(newBufferSlice(nil, make([]byte, remain), 0, false))",
  "l.isFromShm = false",
  "if l.stream != nil {",
  "atomic.AddUint64(&l.stream.session.stats.allocShmErrorCount, 1)",
  "}",
  "}",
  "}"] := by rfl

theorem tie_skel_linkedBuffer_appendBufferSlice : Gen.Skel.linkedBuffer_appendBufferSlice = [
  "func (l *linkedBuffer) appendBufferSlice(slice *bufferSlice) {",
  "if slice == nil {",
  "return",
  "}",
  "l.sliceList.pushBack(slice)",
  "if !slice.isFromShm {",
  "l.isFromShm = false",
  "}",
  "l.len += slice.size()",
  "l.sliceList.writeSlice = slice",
  "}"] := by rfl

theorem tie_skel_linkedBuffer_clean : Gen.Skel.linkedBuffer_clean = [
  "func (l *linkedBuffer) clean() {",
  "for l.sliceList.size() > 0 {",
  "putBackBufferSlice(l.sliceList.popFront())",
  "}",
  "l.sliceList.writeSlice = nil",
  "l.isFromShm = true",
  "l.endStream = false",
  "l.currentPinned = false",
  "l.len = 0",
  "}"] := by rfl

theorem tie_skel_Stream_Flush_c06 : Gen.Skel.Stream_Flush = [
  "func (s *Stream) Flush(endStream bool) error {",
  "if s.sendBuf.Len() == 0 {",
  "return nil",
  "}",
  "atomic.AddUint64(&s.session.stats.outFlowBytes, uint64(s.sendBuf.Len()))",
  "state := s.getStreamState()",
  "if state != uint32(streamOpened) {",
  "s.sendBuf.recycle()",
  "return ErrStreamClosed",
  "}",
  "s.sendBuf.done(endStream)",
  "defer s.sendBuf.clean()",
  "if !s.sendBuf.isFromShareMemory() {",
  "s.inFallbackState = true",
  "}",
  "if s.inFallbackState {",
  "return s.writeFallback(s.state, ErrNoMoreBuffer)",
  "}",
  "buf := s.sendBuf",
  "err := s.session.sendQueue().put(queueElement{",
  "seqID: s.id,",
  "offsetInShmBuf: buf.rootBufOffset(),",
  "status: state,",
  "})",
  "if err == ErrQueueFull {",
  "atomic.AddUint64(&s.session.stats.queueFullErrorCount, 1)",
  "var writeDeadlineCh <-chan time.Time",
  "if !s.writeDeadline.IsZero() {",
  "writeDeadlineCh = time.NewTimer(s.writeDeadline.Sub(time.Now())).C",
  "}",
  "for i := 0; err == ErrQueueFull && i < 10; i++ {",
  "retryTimer := time.NewTimer(10 * time.Millisecond)",
  "select {",
  "case <-retryTimer.C:",
  "err = s.session.sendQueue().put(queueElement{",
  "seqID: s.id,",
  "offsetInShmBuf: buf.rootBufOffset(),",
  "status: state,",
  "})",
  "case <-writeDeadlineCh:",
  "err = ErrTimeout",
  "case <-s.closeNotifyCh:",
  "err = ErrStreamClosed",
  "}",
  "}",
  "}",
  "if err != nil {",
  "buf.recycle()",
  "return err",
  "}",
  "return s.session.wakeUpPeer()",
  "}"] := by rfl

theorem tie_skel_Stream_writeFallback : Gen.Skel.Stream_writeFallback = [
  "func (s *Stream) writeFallback(streamStatus uint32, err error) error {",
  "var event fallbackDataEvent",
  "event.encode(len(event)+s.sendBuf.Len(), s.session.communicationVersion, s.id, streamStatus)",
  "data := make([]byte, 0, s.sendBuf.Len()+len(event))",
  "underlyingSlices := s.sendBuf.underlyingData()",
  "data = append(data, event[:]...)",
  "for i := range underlyingSlices {",
  "data = append(data, underlyingSlices[i]...)",
  "}",
  "s.sendBuf.recycle()",
  "s.session.openCircuitBreaker()",
  "atomic.AddUint64(&s.session.stats.fallbackWriteCount, 1)",
  "return s.session.waitForSend(nil, data)",
  "}"] := by rfl

theorem tie_skel_Stream_ReleaseReadAndReuse : Gen.Skel.Stream_ReleaseReadAndReuse = [
  "func (s *Stream) ReleaseReadAndReuse() {",
  "s.recvBuf.releasePreviousReadAndReserve()",
  "if s.recvBuf.len == 0 && s.recvBuf.sliceList.size() == 1 && s.sendBuf.sliceList.size() == 0 {",
  "s.recvBuf, s.sendBuf = s.sendBuf, s.recvBuf",
  "}",
  "}"] := by rfl

theorem tie_skel_Stream_readMore : Gen.Skel.Stream_readMore = [
  "func (s *Stream) readMore(minSize int) (err error) {",
  "s.pendingData.moveTo(s.recvBuf)",
  "recvLen := s.recvBuf.Len()",
  "if recvLen >= minSize {",
  "return nil",
  "}",
  "if recvLen == 0 && !s.IsOpen() {",
  "return ErrEndOfStream",
  "}",
  "var timeoutCh <-chan time.Time",
  "deadline := s.readDeadline",
  "if !deadline.IsZero() {",
  "if s.readTimer == nil {",
  "s.readTimer = time.NewTimer(time.Until(deadline))",
  "} else {",
  "s.readTimer.Reset(time.Until(deadline))",
  "}",
  "timeoutCh = s.readTimer.C",
  "}",
  "defer func() {",
  "if s.readTimer != nil && !s.readTimer.Stop() {",
  "select {",
  "case <-s.readTimer.C:",
  "default:",
  "}",
  "}",
  "}()",
  "for {",
  "select {",
  "case <-s.recvNotifyCh:",
  "s.pendingData.moveTo(s.recvBuf)",
  "if s.recvBuf.Len() >= minSize {",
  "return nil",
  "}",
  "case <-s.closeNotifyCh:",
  "s.pendingData.moveTo(s.recvBuf)",
  "if s.recvBuf.Len() >= minSize {",
  "return nil",
  "}",
  "if s.getStreamState() == uint32(streamHalfClosed) {",
  "return ErrEndOfStream",
  "}",
  "return ErrStreamClosed",
  "case <-timeoutCh:",
  "return ErrTimeout",
  "}",
  "}",
  "}"] := by rfl

/- pendingData.moveToWithoutLock / moveTo / add are tied in `Tie.Pending` (shared with C20) -/

theorem tie_skel_bufferManager_readBufferSlice_c06 : Gen.Skel.bufferManager_readBufferSlice = [
  "func (b *bufferManager) readBufferSlice(offset uint32) (*bufferSlice, error) {",
  "if int(offset)+bufferHeaderSize >= len(b.mem) {",
  "return nil, fmt.Errorf(\"broken share memory. readBufferSlice unexpected offset:%d buffers cap:%d\",",
  "offset, len(b.mem))",
  "}",
  "bufCap := *(*uint32)(unsafe.Pointer(&b.mem[offset+bufferCapOffset]))",
  "bufEndOffset := offset + uint32(bufferHeaderSize) + bufCap",
  "if bufEndOffset > uint32(len(b.mem)) {",
  "return nil, fmt.Errorf(\"broken share memory. readBufferSlice unexpected bufferEndOffset:%d. bufferStartOffset:%d buffers cap:%d\",",
  "bufEndOffset, offset, len(b.mem))",
  "}",
  "return newBufferSlice(b.mem[offset:offset+bufferHeaderSize], b.mem[offset+bufferHeaderSize:bufEndOffset], offset, true), nil",
  "}"] := by rfl

theorem tie_skel_bufferManager_allocShmBuffer_c06 : Gen.Skel.bufferManager_allocShmBuffer = [
  "func (b *bufferManager) allocShmBuffer(size uint32) (*bufferSlice, error) {",
  "if size <= b.maxSliceSize {",
  "for i := range b.lists {",
  "if size <= *b.lists[i].capPerBuffer {",
  "buf, err := b.lists[i].pop()",
  "if err != nil {",
  "continue",
  "}",
  "return buf, nil",
  "}",
  "}",
  "}",
  "return nil, ErrNoMoreBuffer",
  "}"] := by rfl

theorem tie_skel_bufferManager_allocShmBuffers_c06 : Gen.Skel.bufferManager_allocShmBuffers = [
  "func (b *bufferManager) allocShmBuffers(slices *sliceList, size uint32) (allocSize int64) {",
  "remain := int64(size)",
  "for i := len(b.lists) - 1; i >= 0 && remain > 0; i-- {",
  "for remain > 0 {",
  "buf, err := b.lists[i].pop()",
  "if err != nil {",
  "break",
  "}",
  "slices.pushBack(buf)",
  "allocSize += int64(buf.cap)",
  "remain -= int64(buf.cap)",
  "}",
  "}",
  "return allocSize",
  "}"] := by rfl

theorem tie_skel_bufferManager_recycleBuffer_c06 : Gen.Skel.bufferManager_recycleBuffer = [
  "func (b *bufferManager) recycleBuffer(slice *bufferSlice) {",
  "if slice == nil {",
  "return",
  "}",
  "if slice.isFromShm {",
  "for i := range b.lists {",
  "if slice.cap == *b.lists[i].capPerBuffer {",
  "b.lists[i].push(slice)",
  "break",
  "}",
  "}",
  "}",
  "putBackBufferSlice(slice)",
  "}"] := by rfl

/-! further functions on this property's paths (any edit to them is reported) -/

theorem tie_skel_newEmptyLinkedBuffer : Gen.Skel.newEmptyLinkedBuffer = [
  "func newEmptyLinkedBuffer(manager *bufferManager) *linkedBuffer {",
  "l := &linkedBuffer{",
  "sliceList: newSliceList(),",
  "pinnedList: newSliceList(),",
  "bufferManager: manager,",
  "isFromShm: true,",
  "}",
  "return l",
  "}"] := by rfl

theorem tie_skel_linkedBuffer_isFromShareMemory : Gen.Skel.linkedBuffer_isFromShareMemory = [
  "func (l *linkedBuffer) isFromShareMemory() bool {",
  "return l.isFromShm",
  "}"] := by rfl

theorem tie_skel_linkedBuffer_bindStream : Gen.Skel.linkedBuffer_bindStream = [
  "func (l *linkedBuffer) bindStream(s *Stream) {",
  "l.stream = s",
  "}"] := by rfl

theorem tie_skel_bufferSlice_next : Gen.Skel.bufferSlice_next = [
  "func (s *bufferSlice) next() *bufferSlice {",
  "return s.nextSlice",
  "}"] := by rfl

theorem tie_skel_bufferSlice_capacity : Gen.Skel.bufferSlice_capacity = [
  "func (s *bufferSlice) capacity() int {",
  "return int(s.cap)",
  "}"] := by rfl

theorem tie_skel_bufferSlice_prepend : Gen.Skel.bufferSlice_prepend = [
  "func (s *bufferSlice) prepend() {",
  "panic(\"TODO\")",
  "}"] := by rfl

theorem tie_skel_newSliceList : Gen.Skel.newSliceList = [
  "func newSliceList() *sliceList {",
  "return &sliceList{}",
  "}"] := by rfl

theorem tie_skel_sliceList_front : Gen.Skel.sliceList_front = [
  "func (l *sliceList) front() *bufferSlice {",
  "return l.frontSlice",
  "}"] := by rfl

theorem tie_skel_sliceList_back : Gen.Skel.sliceList_back = [
  "func (l *sliceList) back() *bufferSlice {",
  "return l.backSlice",
  "}"] := by rfl

theorem tie_skel_sliceList_size : Gen.Skel.sliceList_size = [
  "func (l *sliceList) size() int {",
  "return l.len",
  "}"] := by rfl

theorem tie_skel_newStream : Gen.Skel.newStream = [
  "func newStream(session *Session, id uint32) *Stream {",
  "s := &Stream{",
  "id: id,",
  "session: session,",
  "state: uint32(streamOpened),",
  "recvBuf: newEmptyLinkedBuffer(session.bufferManager),",
  "sendBuf: newEmptyLinkedBuffer(session.bufferManager),",
  "pendingData: new(pendingData),",
  "recvNotifyCh: make(chan struct{}, 1),",
  "closeNotifyCh: make(chan struct{}),",
  "}",
  "s.recvBuf.bindStream(s)",
  "s.sendBuf.bindStream(s)",
  "s.pendingData.stream = s",
  "return s",
  "}"] := by rfl

theorem tie_skel_Stream_BufferWriter : Gen.Skel.Stream_BufferWriter = [
  "func (s *Stream) BufferWriter() BufferWriter {",
  "return s.sendBuf",
  "}"] := by rfl

theorem tie_skel_Stream_BufferReader : Gen.Skel.Stream_BufferReader = [
  "func (s *Stream) BufferReader() BufferReader {",
  "return s.recvBuf",
  "}"] := by rfl

theorem tie_skel_Stream_Read : Gen.Skel.Stream_Read = [
  "func (s *Stream) Read(p []byte) (int, error) {",
  "return s.copyRead(p)",
  "}"] := by rfl

theorem tie_skel_Stream_Write : Gen.Skel.Stream_Write = [
  "func (s *Stream) Write(p []byte) (int, error) {",
  "return s.copyWriteAndFlush(p)",
  "}"] := by rfl

theorem tie_skel_bufferManager_remainSize : Gen.Skel.bufferManager_remainSize = [
  "func (b *bufferManager) remainSize() uint32 {",
  "var result uint32",
  "for _, pair := range b.lists {",
  "remain := int(*pair.size) * int(*pair.capPerBuffer)",
  "if remain > 0 {",
  "result += uint32(remain)",
  "}",
  "}",
  "return result",
  "}"] := by rfl

theorem tie_skel_bufferManager_sliceSize : Gen.Skel.bufferManager_sliceSize = [
  "func (b *bufferManager) sliceSize() (size int) {",
  "for i := range b.lists {",
  "size += int(*b.lists[i].size)",
  "}",
  "return",
  "}"] := by rfl


/-! WriteString's zero-copy conversion -/

theorem tie_skel_string2bytesZeroCopy : Gen.Skel.string2bytesZeroCopy = [
  "func string2bytesZeroCopy(s string) []byte {",
  "stringHeader := (*reflect.StringHeader)(unsafe.Pointer(&s))",
  "bh := reflect.SliceHeader{",
  "Data: stringHeader.Data,",
  "Len: stringHeader.Len,",
  "Cap: stringHeader.Len,",
  "}",
  "return *(*[]byte)(unsafe.Pointer(&bh))",
  "}"] := by rfl

/-! the receiving end of the fall-back transport: the payload is COPIED out of the connection's read buffer (`transport_fb`) -/
theorem tie_skel_c06_handleFallbackData : Gen.Skel.handleFallbackData = [
  "func handleFallbackData(s *Session, h header, buf []byte) (int, bool, error) {",
  "eventLen := int(h.Length())",
  "payloadLen := eventLen - headerSize",
  "const fallbackDataHeader = 8",
  "if payloadLen < fallbackDataHeader {",
  "return headerSize, false, fmt.Errorf(\"invalid fallback data event, length:%d\", eventLen)",
  "}",
  "if len(buf) < payloadLen {",
  "return 0, true, nil",
  "}",
  "data := make([]byte, payloadLen)",
  "copy(data, buf[:payloadLen])",
  "seqID := binary.BigEndian.Uint32(data[:4])",
  "status := binary.BigEndian.Uint32(data[4:8]) & 0xff",
  "s.openCircuitBreaker()",
  "fallbackSlice := newBufferSlice(nil, data[fallbackDataHeader:], 0, false)",
  "fallbackSlice.writeIndex = len(data[fallbackDataHeader:])",
  "atomic.AddUint64(&s.stats.fallbackReadCount, 1)",
  "stream := s.getStream(seqID, streamState(status))",
  "if stream == nil {",
  "return eventLen, false, nil",
  "}",
  "return eventLen, false, s.handleStreamMessage(stream, bufferSliceWrapper{fallbackSlice: fallbackSlice}, streamState(status))",
  "}"] := by rfl

end Tie.C06
