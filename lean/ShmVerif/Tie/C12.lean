import ShmVerif.Gen.Consts
import ShmVerif.Gen.Skel
import ShmVerif.Model.Handshake
/-! Tie 1 for C12: the handshake code on both ends (protocol adaptor, the version-2 and version-3 initializers, the
    metadata / descriptor exchange, initProtocol's race against the time-out, newSession's clean-up) and the constants. -/
namespace Tie.C12

theorem tie_maxVersion : Gen.c_maxSupportProtoVersion = (Handshake.maxVersion : Int) := by decide
theorem tie_protoVersion : Gen.c_protoVersion = 2 := by decide
theorem tie_event_types : Gen.c_typeShareMemoryByFilePath = 0 ∧ Gen.c_typeExchangeProtoVersion = 4 ∧ Gen.c_typeShareMemoryByMemfd = 5 ∧
    Gen.c_typeAckShareMemory = 6 ∧ Gen.c_typeAckReadyRecvFD = 7 ∧ Gen.c_memfdCount = 2 := by decide

theorem tie_skel_Session_initProtocol : Gen.Skel.Session_initProtocol = [
  "func (s *Session) initProtocol() error {",
  "resultCh := make(chan error, 1)",
  "timeout := time.NewTimer(s.config.InitializeTimeout)",
  "defer timeout.Stop()",
  "go func() {",
  "protoAdaptor := newProtocolAdaptor(s)",
  "initializer, err := protoAdaptor.getProtocolInitializer()",
  "if err != nil {",
  "asyncSendErr(resultCh, fmt.Errorf(\"getProtocolInitializer failed ,error=%w\", err))",
  "return",
  "}",
  "s.communicationVersion = initializer.Version()",
  "if err = initializer.Init(); err != nil {",
  "asyncSendErr(resultCh, err)",
  "return",
  "}",
  "asyncSendErr(resultCh, nil)",
  "}()",
  "select {",
  "case err := <-resultCh:",
  "return err",
  "case <-timeout.C:",
  "syscall.Shutdown(s.connFd, syscall.SHUT_RDWR)",
  "<-resultCh",
  "return fmt.Errorf(\"protocolInitializer init timeout:%d ms\",",
  "s.config.InitializeTimeout/time.Millisecond)",
  "}",
  "}"] := by rfl

theorem tie_skel_newSession : Gen.Skel.newSession = [
  "func newSession(config *Config, conn net.Conn, isClient bool) (*Session, error) {",
  "if config == nil {",
  "config = DefaultConfig()",
  "}",
  "if err := VerifyConfig(config); err != nil {",
  "return nil, fmt.Errorf(\"VerifyConfig failed: %s\", err.Error())",
  "}",
  "if config.MemMapType == MemMapTypeMemFd {",
  "if conn.LocalAddr().Network() != unixNetwork {",
  "return nil, errors.New(\"conn.Network must be unix when config.MemMapType is MemMapTypeMemFd\")",
  "}",
  "}",
  "fd, err := getConnDupFd(conn)",
  "if err != nil {",
  "return nil, fmt.Errorf(\"could get fd from conn,reason=%s\", err.Error())",
  "}",
  "defer conn.Close()",
  "ensureDefaultDispatcherInit()",
  "s := &Session{",
  "config: config,",
  "dispatcher: defaultDispatcher,",
  "connFd: int(fd.Fd()),",
  "netConn: conn,",
  "logger: newSessionLogger(isClient, config.LogOutput),",
  "streams: make(map[uint32]*Stream, 4096),",
  "sendCh: make(chan sendReady, 4096),",
  "notifyContinueWriteCh: make(chan struct{}, 1),",
  "shutdownCh: make(chan struct{}),",
  "isClient: isClient,",
  "communicationVersion: protoVersion,",
  "monitor: config.Monitor,",
  "}",
  "if !isClient {",
  "s.acceptCh = make(chan *Stream, 1024)",
  "s.nextStreamID = 2",
  "} else {",
  "s.nextStreamID = 1",
  "}",
  "if err := s.initMemManager(); err != nil {",
  "fd.Close()",
  "return nil, fmt.Errorf(\"create share memory buffer manager failed ,error=%w\", err)",
  "}",
  "if err := s.initProtocol(); err != nil {",
  "if s.queueManager != nil {",
  "s.queueManager.unmap()",
  "}",
  "if s.bufferManager != nil {",
  "addGlobalBufferManagerRefCount(s.bufferManager.path, -1)",
  "}",
  "fd.Close()",
  "return nil, err",
  "}",
  "s.mu.Lock()",
  "s.name = s.queueManager.path",
  "s.mu.Unlock()",
  "s.eventConn = s.dispatcher.newConnection(fd)",
  "if err := s.eventConn.setCallback(s); err != nil {",
  "return nil, err",
  "}",
  "go s.send()",
  "go s.monitorLoop()",
  "return s, nil",
  "}"] := by rfl

theorem tie_skel_protocolAdaptor_clientGetProtocolInitializer : Gen.Skel.protocolAdaptor_clientGetProtocolInitializer = [
  "func (p *protocolAdaptor) clientGetProtocolInitializer() (initializer protocolInitializer, err error) {",
  "if p.session.config.MemMapType == MemMapTypeDevShmFile {",
  "return &protocolInitializerV2{session: p.session}, nil",
  "}",
  "h := header(make([]byte, headerSize))",
  "clientVersion := int(maxSupportProtoVersion)",
  "h.encode(headerSize, uint8(clientVersion), typeExchangeProtoVersion)",
  "if err := blockWriteFull(p.session.connFd, h); err != nil {",
  "return nil, err",
  "}",
  "var recvHeader header",
  "if recvHeader, err = waitEventHeader(p.session.connFd, typeExchangeProtoVersion); err != nil {",
  "return nil, errors.New(\"protocolInitializerV3 clientInit failed,reason:\" + err.Error())",
  "}",
  "serverVersion := recvHeader.Version()",
  "chosenVersion := uint8(minInt(clientVersion, int(serverVersion)))",
  "initializer, err = createProtoVersionInitializer(p.session, chosenVersion, nil)",
  "if err != nil {",
  "return nil, err",
  "}",
  "return",
  "}"] := by rfl

theorem tie_skel_protocolAdaptor_serverGetProtocolInitializer : Gen.Skel.protocolAdaptor_serverGetProtocolInitializer = [
  "func (p *protocolAdaptor) serverGetProtocolInitializer() (protocolInitializer, error) {",
  "h, err := blockReadEventHeader(p.session.connFd)",
  "if err != nil {",
  "return nil, err",
  "}",
  "initializer, err := createProtoVersionInitializer(p.session, h.Version(), h)",
  "if err != nil {",
  "return nil, err",
  "}",
  "return initializer, nil",
  "}"] := by rfl

theorem tie_skel_createProtoVersionInitializer : Gen.Skel.createProtoVersionInitializer = [
  "func createProtoVersionInitializer(session *Session, version uint8, firstEvent header) (protocolInitializer, error) {",
  "if f, ok := protocolVersionInitializersFactory[int(version)]; ok {",
  "return f(session, firstEvent), nil",
  "}",
  "return nil, fmt.Errorf(\"not support the protocol version:%d, maxSupportVersion is %d\",",
  "version, maxSupportProtoVersion)",
  "}"] := by rfl

theorem tie_skel_handleShareMemoryByFilePath : Gen.Skel.handleShareMemoryByFilePath = [
  "func handleShareMemoryByFilePath(s *Session, hdr header) error {",
  "body := make([]byte, hdr.Length()-headerSize)",
  "err := blockReadFull(s.connFd, body)",
  "if err != nil {",
  "if err != io.EOF && !strings.Contains(err.Error(), \"closed\") && !strings.Contains(err.Error(), \"reset by peer\") {",
  "}",
  "return err",
  "}",
  "bufferPath, queuePath, err := s.extractShmMetadata(body)",
  "if err != nil {",
  "return err",
  "}",
  "qm, err := mappingQueueManager(queuePath)",
  "if err != nil {",
  "return fmt.Errorf(\"handleShareMemoryByFilePath mappingQueueManager failed,queuePathLen:%d path:%s err=%s\",",
  "len(queuePath), queuePath, err.Error())",
  "}",
  "s.queueManager = qm",
  "bm, err := getGlobalBufferManager(bufferPath, 0, false, nil)",
  "if err != nil {",
  "return fmt.Errorf(\"handleShareMemoryByFilePath mappingBufferManager failed, bufferPathLen:%d path:%s err=%s\",",
  "len(bufferPath), bufferPath, err.Error())",
  "}",
  "s.bufferManager = bm",
  "s.handshakeDone = true",
  "return nil",
  "}"] := by rfl

theorem tie_skel_handleExchangeVersion : Gen.Skel.handleExchangeVersion = [
  "func handleExchangeVersion(s *Session, h header) error {",
  "respHeader := header(make([]byte, headerSize))",
  "respHeader.encode(headerSize, maxSupportProtoVersion, typeExchangeProtoVersion)",
  "s.communicationVersion = uint8(minInt(int(h.Version()), int(maxSupportProtoVersion)))",
  "return blockWriteFull(s.connFd, respHeader)",
  "}"] := by rfl

theorem tie_skel_handleShareMemoryByMemFd : Gen.Skel.handleShareMemoryByMemFd = [
  "func handleShareMemoryByMemFd(s *Session, h header) error {",
  "body := make([]byte, h.Length()-headerSize)",
  "err := blockReadFull(s.connFd, body)",
  "if err != nil {",
  "return errors.New(\"read shm metadata failed,reason:\" + err.Error())",
  "}",
  "bufferPath, queuePath, err := s.extractShmMetadata(body)",
  "if err != nil {",
  "return err",
  "}",
  "ack := header(make([]byte, headerSize))",
  "ack.encode(headerSize, s.communicationVersion, typeAckReadyRecvFD)",
  "if err := blockWriteFull(s.connFd, ack); err != nil {",
  "return errors.New(\"send ack typeAckReadyRecvFD failed reason:\" + err.Error())",
  "}",
  "oob := make([]byte, syscall.CmsgSpace(memfdCount*memfdDataLen))",
  "oobn, err := blockReadOutOfBoundForFd(s.connFd, oob)",
  "if err != nil {",
  "return errors.New(\"try recv fd from peer failed,reason:\" + err.Error())",
  "}",
  "if oobn != len(oob) {",
  "return fmt.Errorf(\"handleShareMemoryByMemFd failed,reason:\"+",
  "\"ReadOutOfBoundForFd ,expect oobnLen:%d, but oobnLen:%d\",",
  "len(oob), oobn)",
  "}",
  "msgs, err := syscall.ParseSocketControlMessage(oob)",
  "if err != nil {",
  "return errors.New(\"parse socket control message failed,reason:\" + err.Error())",
  "}",
  "if len(msgs) == 0 {",
  "return errors.New(\"parse socket control message ret is nil\")",
  "}",
  "fds, err := syscall.ParseUnixRights(&msgs[0])",
  "if err != nil {",
  "return errors.New(\"parse fd from unix domain failed,reason:\" + err.Error())",
  "}",
  "if len(fds) < memfdCount {",
  "return errors.New(\"the number of memfd received is wrong\")",
  "}",
  "bufferFd, queueFd := fds[0], fds[1]",
  "qm, err := mappingQueueManagerMemfd(queuePath, queueFd)",
  "if err != nil {",
  "syscall.Close(queueFd)",
  "syscall.Close(bufferFd)",
  "return err",
  "}",
  "s.queueManager = qm",
  "bm, err := getGlobalBufferManagerWithMemFd(bufferPath, bufferFd, 0, false, nil)",
  "if err != nil {",
  "syscall.Close(bufferFd)",
  "return err",
  "}",
  "s.bufferManager = bm",
  "s.handshakeDone = true",
  "return nil",
  "}"] := by rfl

theorem tie_skel_sendShareMemoryByFilePath : Gen.Skel.sendShareMemoryByFilePath = [
  "func sendShareMemoryByFilePath(s *Session) error {",
  "data := s.generateShmMetadata(typeShareMemoryByFilePath)",
  "if err := blockWriteFull(s.connFd, data); err != nil {",
  "return err",
  "}",
  "return nil",
  "}"] := by rfl

theorem tie_skel_sendMemFdToPeer : Gen.Skel.sendMemFdToPeer = [
  "func sendMemFdToPeer(s *Session) error {",
  "event := s.generateShmMetadata(typeShareMemoryByMemfd)",
  "if err := blockWriteFull(s.connFd, event); err != nil {",
  "return err",
  "}",
  "if _, err := waitEventHeader(s.connFd, typeAckReadyRecvFD); err != nil {",
  "return err",
  "}",
  "return sendFd(s.connFd, syscall.UnixRights(s.bufferManager.memFd, s.queueManager.memFd))",
  "}"] := by rfl

theorem tie_skel_waitEventHeader : Gen.Skel.waitEventHeader = [
  "func waitEventHeader(connFd int, expectEventType eventType) (header, error) {",
  "h, err := blockReadEventHeader(connFd)",
  "if err != nil {",
  "return nil, err",
  "}",
  "if h.MsgType() != expectEventType {",
  "return nil, fmt.Errorf(\"expect eventType:%d %s, but:%d\", expectEventType, expectEventType.String(), h.MsgType())",
  "}",
  "return h, nil",
  "}"] := by rfl

theorem tie_skel_blockReadEventHeader : Gen.Skel.blockReadEventHeader = [
  "func blockReadEventHeader(connFd int) (header, error) {",
  "buf := make([]byte, headerSize)",
  "if err := blockReadFull(connFd, buf); err != nil {",
  "return nil, err",
  "}",
  "h := header(buf)",
  "if err := checkEventValid(h); err != nil {",
  "return nil, err",
  "}",
  "return h, nil",
  "}"] := by rfl

theorem tie_skel_protocolInitializerV2_Init : Gen.Skel.protocolInitializerV2_Init = [
  "func (p *protocolInitializerV2) Init() error {",
  "if !p.session.isClient {",
  "if p.firstEvent.MsgType() != typeShareMemoryByFilePath {",
  "return fmt.Errorf(\"protocolInitializerV2 expect first event is:%d(%s),but:%d\",",
  "typeShareMemoryByFilePath, typeShareMemoryByFilePath.String(), p.firstEvent.MsgType())",
  "}",
  "return handleShareMemoryByFilePath(p.session, p.firstEvent)",
  "}",
  "return sendShareMemoryByFilePath(p.session)",
  "}"] := by rfl

theorem tie_skel_protocolInitializerV3_serverInit : Gen.Skel.protocolInitializerV3_serverInit = [
  "func (p *protocolInitializerV3) serverInit() error {",
  "if p.firstEvent.MsgType() != typeExchangeProtoVersion {",
  "return fmt.Errorf(\"protocolInitializerV3 expect firsts event is:%d(%s) but:%d\",",
  "typeExchangeProtoVersion, typeExchangeProtoVersion.String(), p.firstEvent.MsgType())",
  "}",
  "if err := handleExchangeVersion(p.session, p.firstEvent); err != nil {",
  "return errors.New(\"protocolInitializerV3 exchangeVersion failed, reason:\" + err.Error())",
  "}",
  "h, err := blockReadEventHeader(p.session.connFd)",
  "if err != nil {",
  "return errors.New(\"protocolInitializerV3 blockReadEventHeader failed,reason:\" + err.Error())",
  "}",
  "switch h.MsgType() {",
  "case typeShareMemoryByFilePath:",
  "err = handleShareMemoryByFilePath(p.session, h)",
  "case typeShareMemoryByMemfd:",
  "err = handleShareMemoryByMemFd(p.session, h)",
  "default:",
  "return fmt.Errorf(\"expect event type is typeShareMemoryByFilePath or typeShareMemoryByMemfd but:%d %s\",",
  "h.MsgType(), h.MsgType().String())",
  "}",
  "if err != nil {",
  "return err",
  "}",
  "respHeader := header(make([]byte, headerSize))",
  "respHeader.encode(headerSize, p.session.communicationVersion, typeAckShareMemory)",
  "return blockWriteFull(p.session.connFd, respHeader)",
  "}"] := by rfl

theorem tie_skel_protocolInitializerV3_clientInit : Gen.Skel.protocolInitializerV3_clientInit = [
  "func (p *protocolInitializerV3) clientInit() error {",
  "var err error",
  "memType := p.session.config.MemMapType",
  "switch memType {",
  "case MemMapTypeDevShmFile:",
  "err = sendShareMemoryByFilePath(p.session)",
  "case MemMapTypeMemFd:",
  "err = sendMemFdToPeer(p.session)",
  "default:",
  "err = fmt.Errorf(\"unknown memory type:%d\", memType)",
  "}",
  "if err != nil {",
  "return err",
  "}",
  "_, err = waitEventHeader(p.session.connFd, typeAckShareMemory)",
  "return err",
  "}"] := by rfl

theorem tie_skel_blockReadFull : Gen.Skel.blockReadFull = [
  "func blockReadFull(connFd int, data []byte) error {",
  "readSize := 0",
  "for readSize < len(data) {",
  "n, err := syscall.Read(connFd, data[readSize:])",
  "if err != nil {",
  "return fmt.Errorf(\"ReadFull failed, had readSize:%d reason:%s\", readSize, err.Error())",
  "}",
  "readSize += n",
  "if n == 0 {",
  "return io.EOF",
  "}",
  "}",
  "return nil",
  "}"] := by rfl

/-! further functions on this property's paths (any edit to them is reported) -/

theorem tie_skel_blockWriteFull : Gen.Skel.blockWriteFull = [
  "func blockWriteFull(connFd int, data []byte) error {",
  "written := 0",
  "for written < len(data) {",
  "n, err := syscall.Write(connFd, data[written:])",
  "if err != nil {",
  "return err",
  "}",
  "written += n",
  "}",
  "return nil",
  "}"] := by rfl

theorem tie_skel_sendFd : Gen.Skel.sendFd = [
  "func sendFd(connFd int, oob []byte) error {",
  "err := syscall.Sendmsg(connFd, nil, oob, nil, 0)",
  "return err",
  "}"] := by rfl

theorem tie_skel_blockReadOutOfBoundForFd : Gen.Skel.blockReadOutOfBoundForFd = [
  "func blockReadOutOfBoundForFd(connFd int, oob []byte) (oobn int, err error) {",
  "_, oobn, _, _, err = syscall.Recvmsg(connFd, nil, oob, 0)",
  "return",
  "}"] := by rfl

theorem tie_skel_protocolInitializerV2_Version : Gen.Skel.protocolInitializerV2_Version = [
  "func (p *protocolInitializerV2) Version() uint8 {",
  "return 2",
  "}"] := by rfl

theorem tie_skel_protocolInitializerV3_Init : Gen.Skel.protocolInitializerV3_Init = [
  "func (p *protocolInitializerV3) Init() error {",
  "if p.session.isClient {",
  "return p.clientInit()",
  "}",
  "return p.serverInit()",
  "}"] := by rfl

theorem tie_skel_protocolInitializerV3_Version : Gen.Skel.protocolInitializerV3_Version = [
  "func (p *protocolInitializerV3) Version() uint8 {",
  "return 3",
  "}"] := by rfl

theorem tie_skel_newProtocolAdaptor : Gen.Skel.newProtocolAdaptor = [
  "func newProtocolAdaptor(session *Session) (pm *protocolAdaptor) {",
  "return &protocolAdaptor{session: session}",
  "}"] := by rfl

theorem tie_skel_protocolAdaptor_getProtocolInitializer : Gen.Skel.protocolAdaptor_getProtocolInitializer = [
  "func (p *protocolAdaptor) getProtocolInitializer() (protocolInitializer, error) {",
  "if p.session.isClient {",
  "return p.clientGetProtocolInitializer()",
  "}",
  "return p.serverGetProtocolInitializer()",
  "}"] := by rfl

theorem tie_skel_minInt : Gen.Skel.minInt = [
  "func minInt(a, b int) int {",
  "if a < b {",
  "return a",
  "}",
  "return b",
  "}"] := by rfl

theorem tie_skel_asyncSendErr : Gen.Skel.asyncSendErr = [
  "func asyncSendErr(ch chan error, err error) {",
  "if ch == nil {",
  "return",
  "}",
  "select {",
  "case ch <- err:",
  "default:",
  "}",
  "}"] := by rfl

theorem tie_skel_MemfdCreate : Gen.Skel.MemfdCreate = [
  "func MemfdCreate(name string, flags int) (fd int, err error) {",
  "memFd, err := unix.MemfdCreate(memfdCreateName+name, 0)",
  "if err != nil {",
  "return 0, err",
  "}",
  "return memFd, nil",
  "}"] := by rfl

theorem tie_skel_Session_initMemManager : Gen.Skel.Session_initMemManager = [
  "func (s *Session) initMemManager() error {",
  "if !s.isClient {",
  "return nil",
  "}",
  "mmapMapType := s.config.MemMapType",
  "var (",
  "err error",
  "bm *bufferManager",
  "qm *queueManager",
  ")",
  "if mmapMapType == MemMapTypeDevShmFile {",
  "if bm, err = getGlobalBufferManager(s.config.ShareMemoryPathPrefix+bufferPathSuffix,",
  "s.config.ShareMemoryBufferCap, true, s.config.BufferSliceSizes); err != nil {",
  "os.Remove(s.config.ShareMemoryPathPrefix + bufferPathSuffix)",
  "return fmt.Errorf(\"create share memory buffer manager failed ,error=%w\", err)",
  "}",
  "if qm, err = createQueueManager(s.config.QueuePath, s.config.QueueCap); err != nil {",
  "os.Remove(s.config.QueuePath)",
  "addGlobalBufferManagerRefCount(bm.path, -1)",
  "return fmt.Errorf(\"create share memory queue manager failed ,error=%w\", err)",
  "}",
  "} else {",
  "if bm, err = getGlobalBufferManagerWithMemFd(s.config.ShareMemoryPathPrefix+bufferPathSuffix,",
  "0, s.config.ShareMemoryBufferCap, true, s.config.BufferSliceSizes); err != nil {",
  "return fmt.Errorf(\"create share memory buffer manager failed ,error=%w\", err)",
  "}",
  "if qm, err = createQueueManagerWithMemFd(s.config.QueuePath, s.config.QueueCap); err != nil {",
  "addGlobalBufferManagerRefCount(bm.path, -1)",
  "return fmt.Errorf(\"create share memory queue manager failed ,error=%w\", err)",
  "}",
  "}",
  "s.bufferManager = bm",
  "s.queueManager = qm",
  "return nil",
  "}"] := by rfl

theorem tie_skel_getConnDupFd : Gen.Skel.getConnDupFd = [
  "func getConnDupFd(conn net.Conn) (*os.File, error) {",
  "type hasFile interface {",
  "File() (f *os.File, err error)",
  "}",
  "f, ok := conn.(hasFile)",
  "if !ok {",
  "return nil, fmt.Errorf(\"conn has no method File() (f *os.File, err error)\")",
  "}",
  "return f.File()",
  "}"] := by rfl

theorem tie_skel_Server : Gen.Skel.Server = [
  "func Server(conn net.Conn, conf *Config) (*Session, error) {",
  "return newSession(conf, conn, false)",
  "}"] := by rfl

end Tie.C12
