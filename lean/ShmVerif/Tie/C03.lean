import ShmVerif.Gen.Consts
import ShmVerif.Gen.Skel
import ShmVerif.Model.Layout
/-! Tie 1 for C03: the layout constants and the bodies of the layout functions the model `Layout` mirrors,
    re-checked against the regenerated `Gen` on every run. (Note: createFreeBufferList places `counter` at +20 and
    mappingFreeBufferList at +24 — a real discrepancy outside every property, pinned here so a change is noticed.) -/
namespace Tie.C03
open Layout

theorem tie_bufferHeaderSize : Gen.c_bufferHeaderSize = (bufferHeaderSize : Int) := by decide
theorem tie_bufferListHeaderSize : Gen.c_bufferListHeaderSize = (bufferListHeaderSize : Int) := by decide
theorem tie_bufferManagerHeaderSize : Gen.c_bufferManagerHeaderSize = (bufferManagerHeaderSize : Int) := by decide
theorem tie_bmCapOffset : Gen.c_bmCapOffset = (bmCapOffset : Int) := by decide
theorem tie_queueHeaderLength : Gen.c_queueHeaderLength = (queueHeaderLength : Int) := by decide
theorem tie_queueElementLen : Gen.c_queueElementLen = (queueElementLen : Int) := by decide
theorem tie_queueCount : Gen.c_queueCount = (queueCount : Int) := by decide
theorem tie_bufferCapOffset : Gen.c_bufferCapOffset = 0 := by decide
theorem tie_bufferSizeOffset : Gen.c_bufferSizeOffset = 4 := by decide
theorem tie_bufferDataStartOffset : Gen.c_bufferDataStartOffset = 8 := by decide

theorem tie_skel_createBufferManager : Gen.Skel.createBufferManager = [
  "func createBufferManager(listSizePercent []*SizePercentPair, path string, mem []byte, offset uint32) (*bufferManager, error) {",
  "if len(mem) <= int(offset) {",
  "return nil, fmt.Errorf(\"mem's size is at least:%d but:%d\", offset+1, len(mem))",
  "}",
  "bufferRegionCap := uint64(len(mem) - int(offset) - bufferListHeaderSize*len(listSizePercent) - bufferManagerHeaderSize)",
  "*(*uint16)(unsafe.Pointer(&mem[offset])) = uint16(len(listSizePercent))",
  "hadUsedOffset := bufferManagerHeaderSize + offset",
  "freeBufferLists := make([]*bufferList, 0, len(listSizePercent))",
  "sumPercent := uint32(0)",
  "for _, pair := range listSizePercent {",
  "sumPercent += pair.Percent",
  "if sumPercent > 100 {",
  "return nil, errors.New(\"the sum of all SizePercentPair's percent must be equals 100\")",
  "}",
  "if pair.Size+bufferHeaderSize < bufferHeaderSize {",
  "return nil, fmt.Errorf(\"SizePercentPair's Size:%d is too large\", pair.Size)",
  "}",
  "bufferNum := uint32(bufferRegionCap*uint64(pair.Percent)/100) / (pair.Size + bufferHeaderSize)",
  "needSize := countBufferListMemSize(bufferNum, pair.Size)",
  "freeList, err := createFreeBufferList(bufferNum, pair.Size, mem, hadUsedOffset)",
  "if err != nil {",
  "return nil, err",
  "}",
  "freeBufferLists = append(freeBufferLists, freeList)",
  "hadUsedOffset += needSize",
  "}",
  "ret := &bufferManager{",
  "path: path,",
  "mem: mem,",
  "lists: freeBufferLists,",
  "minSliceSize: listSizePercent[0].Size,",
  "maxSliceSize: listSizePercent[len(listSizePercent)-1].Size,",
  "refCount: 1,",
  "}",
  "*(*uint32)(unsafe.Pointer(&mem[offset+bmCapOffset])) = hadUsedOffset - bufferManagerHeaderSize",
  "return ret, nil",
  "}"] := by rfl

theorem tie_skel_mappingBufferManager : Gen.Skel.mappingBufferManager = [
  "func mappingBufferManager(path string, mem []byte, bufferRegionStartOffset uint32) (*bufferManager, error) {",
  "if len(mem) <= int(bufferRegionStartOffset+bmCapOffset) || len(mem) <= int(bufferRegionStartOffset) {",
  "return nil, fmt.Errorf(\"mem's size is at least:%d but:%d bufferRegionStartOffset:%d\", bufferRegionStartOffset+bmCapOffset+1, len(mem), bufferRegionStartOffset)",
  "}",
  "listNum := int(*(*uint16)(unsafe.Pointer(&mem[bufferRegionStartOffset])))",
  "freeLists := make([]*bufferList, 0, listNum)",
  "length := *(*uint32)(unsafe.Pointer(&mem[bufferRegionStartOffset+bmCapOffset]))",
  "if len(mem) < bufferManagerHeaderSize+int(length) || listNum == 0 {",
  "return nil, fmt.Errorf(\"could not mappingBufferManager ,listNum:%d len(mem) at least:%d but:%d\",",
  "listNum, length+bufferManagerHeaderSize, len(mem))",
  "}",
  "hadUsedOffset := uint32(bufferManagerHeaderSize)",
  "for i := 0; i < listNum; i++ {",
  "l, err := mappingFreeBufferList(mem, bufferRegionStartOffset+hadUsedOffset)",
  "if err != nil {",
  "return nil, err",
  "}",
  "size := countBufferListMemSize(*l.cap, *l.capPerBuffer)",
  "hadUsedOffset += size",
  "freeLists = append(freeLists, l)",
  "}",
  "ret := &bufferManager{",
  "path: path,",
  "mem: mem,",
  "minSliceSize: *freeLists[0].capPerBuffer,",
  "maxSliceSize: *freeLists[len(freeLists)-1].capPerBuffer,",
  "lists: freeLists,",
  "refCount: 1,",
  "}",
  "return ret, nil",
  "}"] := by rfl

theorem tie_skel_countBufferListMemSize : Gen.Skel.countBufferListMemSize = [
  "func countBufferListMemSize(bufferNum, capPerBuffer uint32) uint32 {",
  "return bufferListHeaderSize + bufferNum*(capPerBuffer+bufferHeaderSize)",
  "}"] := by rfl

theorem tie_skel_createFreeBufferList_c03 : Gen.Skel.createFreeBufferList = [
  "func createFreeBufferList(bufferNum, capPerBuffer uint32, mem []byte, offsetInMem uint32) (*bufferList, error) {",
  "if bufferNum == 0 || capPerBuffer == 0 {",
  "return nil, fmt.Errorf(\"bufferNum:%d or capPerBuffer:%d cannot be 0 \", bufferNum, capPerBuffer)",
  "}",
  "atLeastSize := countBufferListMemSize(bufferNum, capPerBuffer)",
  "if len(mem) < int(offsetInMem+atLeastSize) || offsetInMem > uint32(len(mem)) || atLeastSize > uint32(len(mem)) {",
  "return nil, fmt.Errorf(\"mem's size is at least:%d but:%d offsetInMem:%d atLeastSize:%d\", offsetInMem+atLeastSize, len(mem), offsetInMem, atLeastSize)",
  "}",
  "bufferRegionStart := offsetInMem + bufferListHeaderSize",
  "bufferRegionEnd := offsetInMem + atLeastSize",
  "if bufferRegionEnd <= bufferRegionStart {",
  "return nil, fmt.Errorf(\"bufferRegionStart:%d bufferRegionEnd:%d slice bounds out of range\", bufferRegionStart, bufferRegionEnd)",
  "}",
  "b := &bufferList{",
  "size: (*int32)(unsafe.Pointer(&mem[offsetInMem+0])),",
  "cap: (*uint32)(unsafe.Pointer(&mem[offsetInMem+4])),",
  "head: (*uint32)(unsafe.Pointer(&mem[offsetInMem+8])),",
  "tail: (*uint32)(unsafe.Pointer(&mem[offsetInMem+12])),",
  "capPerBuffer: (*uint32)(unsafe.Pointer(&mem[offsetInMem+16])),",
  "counter: (*int32)(unsafe.Pointer(&mem[offsetInMem+20])),",
  "bufferRegion: mem[offsetInMem+bufferListHeaderSize : offsetInMem+atLeastSize],",
  "bufferRegionOffsetInShm: offsetInMem + bufferListHeaderSize,",
  "offsetInShm: offsetInMem,",
  "}",
  "*b.size = int32(bufferNum)",
  "*b.cap = bufferNum",
  "*b.head = 0",
  "*b.tail = (bufferNum - 1) * (capPerBuffer + bufferHeaderSize)",
  "*b.capPerBuffer = capPerBuffer",
  "*b.counter = 0",
  "current, next := uint32(0), uint32(0)",
  "for i := 0; i < int(bufferNum); i++ {",
  "next = current + capPerBuffer + bufferHeaderSize",
  "*(*uint32)(unsafe.Pointer(&b.bufferRegion[current])) = capPerBuffer",
  "*(*uint32)(unsafe.Pointer(&b.bufferRegion[current+bufferSizeOffset])) = 0",
  "*(*uint32)(unsafe.Pointer(&b.bufferRegion[current+bufferDataStartOffset])) = 0",
  "if i < int(bufferNum-1) {",
  "*(*uint32)(unsafe.Pointer(&b.bufferRegion[current+nextBufferOffset])) = next",
  "b.bufferRegion[current+bufferFlagOffset] |= hasNextBufferFlag",
  "}",
  "current = next",
  "}",
  "bufferHeader(b.bufferRegion[*b.tail:]).clearFlag()",
  "return b, nil",
  "}"] := by rfl

theorem tie_skel_mappingFreeBufferList : Gen.Skel.mappingFreeBufferList = [
  "func mappingFreeBufferList(mem []byte, offset uint32) (*bufferList, error) {",
  "if len(mem) < bufferListHeaderSize+int(offset) {",
  "return nil, fmt.Errorf(\"mappingFreeBufferList failed, mem's size is at least %d\", bufferListHeaderSize+int(offset))",
  "}",
  "b := &bufferList{",
  "size: (*int32)(unsafe.Pointer(&mem[offset+0])),",
  "cap: (*uint32)(unsafe.Pointer(&mem[offset+4])),",
  "head: (*uint32)(unsafe.Pointer(&mem[offset+8])),",
  "tail: (*uint32)(unsafe.Pointer(&mem[offset+12])),",
  "capPerBuffer: (*uint32)(unsafe.Pointer(&mem[offset+16])),",
  "counter: (*int32)(unsafe.Pointer(&mem[offset+24])),",
  "offsetInShm: offset,",
  "}",
  "needSize := countBufferListMemSize(*b.cap, *b.capPerBuffer)",
  "if offset+needSize > uint32(len(mem)) || (offset+needSize) < (offset+bufferListHeaderSize) {",
  "return nil, fmt.Errorf(\"mappingFreeBufferList failed, size:%d cap:%d head:%d tail:%d capPerBuffer:%d err: mem's size is at least %d but:%d\",",
  "*b.size, *b.cap, *b.head, *b.tail, *b.capPerBuffer, needSize, len(mem))",
  "}",
  "b.bufferRegion = mem[offset+bufferListHeaderSize : offset+needSize]",
  "b.bufferRegionOffsetInShm = offset + bufferListHeaderSize",
  "return b, nil",
  "}"] := by rfl

theorem tie_skel_bufferManager_readBufferSlice : Gen.Skel.bufferManager_readBufferSlice = [
  "func (b *bufferManager) readBufferSlice(offset uint32) (*bufferSlice, error) {",
  "if int(offset)+bufferHeaderSize >= len(b.mem) {",
  "return nil, fmt.Errorf(\"broken share memory. readBufferSlice unexpected offset:%d buffers cap:%d\",",
  "offset, len(b.mem))",
  "}",
  "bufCap := *(*uint32)(unsafe.Pointer(&b.mem[offset+bufferCapOffset]))",
  "bufEndOffset := offset + uint32(bufferHeaderSize) + bufCap",
  "if bufEndOffset > uint32(len(b.mem)) {",
  "return nil, fmt.Errorf(\"broken share memory. readBufferSlice unexpected bufferEndOffset:%d. bufferStartOffset:%d buffers cap:%d\",",
  "bufEndOffset, offset, len(b.mem))",
  "}",
  "return newBufferSlice(b.mem[offset:offset+bufferHeaderSize], b.mem[offset+bufferHeaderSize:bufEndOffset], offset, true), nil",
  "}"] := by rfl

theorem tie_skel_VerifyConfig : Gen.Skel.VerifyConfig = [
  "func VerifyConfig(config *Config) error {",
  "if config.ShareMemoryBufferCap < (1 << 20) {",
  "return fmt.Errorf(\"share memory size is too small:%d, must greater than %d\", config.ShareMemoryBufferCap, 1<<20)",
  "}",
  "if len(config.BufferSliceSizes) == 0 {",
  "return fmt.Errorf(\"BufferSliceSizes could not be nil\")",
  "}",
  "sum := 0",
  "for _, pair := range config.BufferSliceSizes {",
  "sum += int(pair.Percent)",
  "if pair.Size > config.ShareMemoryBufferCap {",
  "return fmt.Errorf(\"BufferSliceSizes's Size:%d couldn't greater than ShareMemoryBufferCap:%d\",",
  "pair.Size, config.ShareMemoryBufferCap)",
  "}",
  "if isArmArch() && pair.Size%4 != 0 {",
  "return fmt.Errorf(\"the SizePercentPair.Size must be a multiple of 4\")",
  "}",
  "}",
  "if sum != 100 {",
  "return errors.New(\"the sum of BufferSliceSizes's Percent should be 100\")",
  "}",
  "if isArmArch() && config.QueueCap%8 != 0 {",
  "return fmt.Errorf(\"the QueueCap must be a multiple of 8\")",
  "}",
  "if config.ShareMemoryPathPrefix == \"\" || config.QueuePath == \"\" {",
  "return errors.New(\"buffer path or queue path could not be nil\")",
  "}",
  "if runtime.GOOS != \"linux\" {",
  "return ErrOSNonSupported",
  "}",
  "if runtime.GOARCH != \"amd64\" && runtime.GOARCH != \"arm64\" {",
  "return ErrArchNonSupported",
  "}",
  "return nil",
  "}"] := by rfl

theorem tie_skel_countQueueMemSize : Gen.Skel.countQueueMemSize = [
  "func countQueueMemSize(queueCap uint32) int {",
  "return queueHeaderLength + queueElementLen*int(queueCap)",
  "}"] := by rfl

theorem tie_skel_createQueueFromBytes : Gen.Skel.createQueueFromBytes = [
  "func createQueueFromBytes(data []byte, cap uint32) *queue {",
  "*(*uint32)(unsafe.Pointer(&data[0])) = cap",
  "q := mappingQueueFromBytes(data)",
  "*q.head = 0",
  "*q.tail = 0",
  "*q.workingFlag = 0",
  "return q",
  "}"] := by rfl

theorem tie_skel_mappingQueueFromBytes : Gen.Skel.mappingQueueFromBytes = [
  "func mappingQueueFromBytes(data []byte) *queue {",
  "cap := *(*uint32)(unsafe.Pointer(&data[0]))",
  "queueStartOffset := queueHeaderLength",
  "queueEndOffset := queueHeaderLength + cap*queueElementLen",
  "if isArmArch() {",
  "return &queue{",
  "cap: int64(cap),",
  "workingFlag: (*uint32)(unsafe.Pointer(&data[4])),",
  "head: (*int64)(unsafe.Pointer(&data[8])),",
  "tail: (*int64)(unsafe.Pointer(&data[16])),",
  "queueBytesOnMemory: data[queueStartOffset:queueEndOffset],",
  "}",
  "}",
  "return &queue{",
  "cap: int64(cap),",
  "head: (*int64)(unsafe.Pointer(&data[4])),",
  "tail: (*int64)(unsafe.Pointer(&data[12])),",
  "workingFlag: (*uint32)(unsafe.Pointer(&data[20])),",
  "queueBytesOnMemory: data[queueStartOffset:queueEndOffset],",
  "}",
  "}"] := by rfl

theorem tie_skel_createQueueManager : Gen.Skel.createQueueManager = [
  "func createQueueManager(shmPath string, queueCap uint32) (*queueManager, error) {",
  "_ = os.MkdirAll(filepath.Dir(shmPath), os.ModePerm)",
  "if pathExists(shmPath) {",
  "return nil, errors.New(\"queue was existed,path\" + shmPath)",
  "}",
  "memSize := countQueueMemSize(queueCap) * queueCount",
  "if !canCreateOnDevShm(uint64(memSize), shmPath) {",
  "return nil, fmt.Errorf(\"err:%s path:%s, size:%d\", ErrShareMemoryHadNotLeftSpace.Error(), shmPath, memSize)",
  "}",
  "f, err := os.OpenFile(shmPath, os.O_CREATE|os.O_RDWR, os.ModePerm)",
  "if err != nil {",
  "return nil, err",
  "}",
  "defer f.Close()",
  "if err := f.Truncate(int64(memSize)); err != nil {",
  "return nil, fmt.Errorf(\"truncate share memory failed,%s\", err.Error())",
  "}",
  "mem, err := syscall.Mmap(int(f.Fd()), 0, memSize, syscall.PROT_READ|syscall.PROT_WRITE, syscall.MAP_SHARED)",
  "if err != nil {",
  "return nil, err",
  "}",
  "for i := 0; i < len(mem); i++ {",
  "mem[i] = 0",
  "}",
  "return &queueManager{",
  "sendQueue: createQueueFromBytes(mem[:memSize/2], queueCap),",
  "recvQueue: createQueueFromBytes(mem[memSize/2:], queueCap),",
  "mem: mem,",
  "path: shmPath,",
  "}, nil",
  "}"] := by rfl

theorem tie_skel_createQueueManagerWithMemFd : Gen.Skel.createQueueManagerWithMemFd = [
  "func createQueueManagerWithMemFd(queuePathName string, queueCap uint32) (*queueManager, error) {",
  "memFd, err := MemfdCreate(queuePathName, 0)",
  "if err != nil {",
  "return nil, err",
  "}",
  "memSize := countQueueMemSize(queueCap) * queueCount",
  "if err := syscall.Ftruncate(memFd, int64(memSize)); err != nil {",
  "return nil, fmt.Errorf(\"createQueueManagerWithMemFd truncate share memory failed,%w\", err)",
  "}",
  "mem, err := syscall.Mmap(memFd, 0, memSize, syscall.PROT_READ|syscall.PROT_WRITE, syscall.MAP_SHARED)",
  "if err != nil {",
  "return nil, err",
  "}",
  "for i := 0; i < len(mem); i++ {",
  "mem[i] = 0",
  "}",
  "return &queueManager{",
  "sendQueue: createQueueFromBytes(mem[:memSize/2], queueCap),",
  "recvQueue: createQueueFromBytes(mem[memSize/2:], queueCap),",
  "mem: mem,",
  "path: queuePathName,",
  "mmapMapType: MemMapTypeMemFd,",
  "memFd: memFd,",
  "}, nil",
  "}"] := by rfl

theorem tie_skel_mappingQueueManager : Gen.Skel.mappingQueueManager = [
  "func mappingQueueManager(shmPath string) (*queueManager, error) {",
  "f, err := os.OpenFile(shmPath, os.O_RDWR, os.ModePerm)",
  "if err != nil {",
  "return nil, err",
  "}",
  "defer f.Close()",
  "fileInfo, err := f.Stat()",
  "if err != nil {",
  "return nil, err",
  "}",
  "mappingSize := int(fileInfo.Size())",
  "if isArmArch() && mappingSize%16 != 0 {",
  "return nil, fmt.Errorf(\"the memory size of queue should be a multiple of 16\")",
  "}",
  "mem, err := syscall.Mmap(int(f.Fd()), 0, mappingSize, syscall.PROT_READ|syscall.PROT_WRITE, syscall.MAP_SHARED)",
  "if err != nil {",
  "return nil, err",
  "}",
  "return &queueManager{",
  "sendQueue: mappingQueueFromBytes(mem[mappingSize/2:]),",
  "recvQueue: mappingQueueFromBytes(mem[:mappingSize/2]),",
  "mem: mem,",
  "path: shmPath,",
  "}, nil",
  "}"] := by rfl

theorem tie_skel_mappingQueueManagerMemfd : Gen.Skel.mappingQueueManagerMemfd = [
  "func mappingQueueManagerMemfd(queuePathName string, memFd int) (*queueManager, error) {",
  "var fileInfo syscall.Stat_t",
  "if err := syscall.Fstat(memFd, &fileInfo); err != nil {",
  "return nil, err",
  "}",
  "mappingSize := int(fileInfo.Size)",
  "if isArmArch() && mappingSize%16 != 0 {",
  "return nil, fmt.Errorf(\"the memory size of queue should be a multiple of 16\")",
  "}",
  "mem, err := syscall.Mmap(memFd, 0, mappingSize, syscall.PROT_READ|syscall.PROT_WRITE, syscall.MAP_SHARED)",
  "if err != nil {",
  "return nil, err",
  "}",
  "return &queueManager{",
  "sendQueue: mappingQueueFromBytes(mem[mappingSize/2:]),",
  "recvQueue: mappingQueueFromBytes(mem[:mappingSize/2]),",
  "mem: mem,",
  "path: queuePathName,",
  "memFd: memFd,",
  "mmapMapType: MemMapTypeMemFd,",
  "}, nil",
  "}"] := by rfl

/-! further functions on this property's paths (any edit to them is reported) -/

theorem tie_skel_DefaultConfig : Gen.Skel.DefaultConfig = [
  "func DefaultConfig() *Config {",
  "return &Config{",
  "ConnectionWriteTimeout: 10 * time.Second,",
  "InitializeTimeout: 1000 * time.Millisecond,",
  "QueueCap: defaultQueueCap,",
  "ShareMemoryBufferCap: defaultShareMemoryCap,",
  "ShareMemoryPathPrefix: \"/dev/shm/shmipc\",",
  "QueuePath: \"/dev/shm/shmipc_queue\",",
  "LogOutput: os.Stdout,",
  "MemMapType: MemMapTypeDevShmFile,",
  "BufferSliceSizes: []*SizePercentPair{",
  "{8192 - bufferHeaderSize, 50},",
  "{32*1024 - bufferHeaderSize, 30},",
  "{128*1024 - bufferHeaderSize, 20},",
  "},",
  "rebuildInterval: sessionRebuildInterval,",
  "}",
  "}"] := by rfl

theorem tie_skel_min : Gen.Skel.min = [
  "func min(a, b uint32) uint32 {",
  "if a < b {",
  "return a",
  "}",
  "return b",
  "}"] := by rfl

theorem tie_skel_maxInt : Gen.Skel.maxInt = [
  "func maxInt(a, b int) int {",
  "if a < b {",
  "return b",
  "}",
  "return a",
  "}"] := by rfl

theorem tie_skel_pathExists : Gen.Skel.pathExists = [
  "func pathExists(path string) bool {",
  "_, err := os.Stat(path)",
  "if err != nil {",
  "return os.IsExist(err)",
  "}",
  "return true",
  "}"] := by rfl

theorem tie_skel_canCreateOnDevShm : Gen.Skel.canCreateOnDevShm = [
  "func canCreateOnDevShm(size uint64, path string) bool {",
  "if runtime.GOOS == \"linux\" && strings.Contains(path, \"/dev/shm\") {",
  "stat, err := disk.Usage(\"/dev/shm\")",
  "if err != nil {",
  "return false",
  "}",
  "return stat.Free >= size",
  "}",
  "return true",
  "}"] := by rfl

theorem tie_skel_sizePercentPairs_Len : Gen.Skel.sizePercentPairs_Len = [
  "func (s sizePercentPairs) Len() int {",
  "return len([]*SizePercentPair(s))",
  "}"] := by rfl

theorem tie_skel_sizePercentPairs_Less : Gen.Skel.sizePercentPairs_Less = [
  "func (s sizePercentPairs) Less(i, j int) bool {",
  "return s[i].Size < s[j].Size",
  "}"] := by rfl

theorem tie_skel_sizePercentPairs_Swap : Gen.Skel.sizePercentPairs_Swap = [
  "func (s sizePercentPairs) Swap(i, j int) {",
  "s[i], s[j] = s[j], s[i]",
  "}"] := by rfl

end Tie.C03
