import ShmVerif.Gen.Consts
import ShmVerif.Gen.Skel
/-! Tie 1, shared by C06/C08/C09 (a stream is a faithful byte pipe: arrivals are moved into the read buffer in arrival
    order, under the lock, each once) and C20 (callback mode offers every received byte once, in order): the pending list
    of a stream. The model's `moveTo` is ONE atomic step; that is what the lock held across the whole walk provides. -/
namespace Tie.Pending

theorem tie_skel_pendingData_moveToWithoutLock : Gen.Skel.pendingData_moveToWithoutLock = [
  "func (r *pendingData) moveToWithoutLock(toBuf *linkedBuffer) {",
  "if len(r.unread) == 0 {",
  "return",
  "}",
  "preLen := toBuf.Len()",
  "for i := range r.unread {",
  "if r.unread[i].fallbackSlice != nil {",
  "toBuf.appendBufferSlice(r.unread[i].fallbackSlice)",
  "r.stream.inFallbackState = true",
  "continue",
  "}",
  "for offset := r.unread[i].offset; ; {",
  "slice, err := r.stream.session.bufferManager.readBufferSlice(offset)",
  "if err != nil {",
  "break",
  "}",
  "if slice.size() == 0 {",
  "if toBuf.sliceList.front() == nil {",
  "offset = slice.nextBufferOffset()",
  "r.stream.session.bufferManager.recycleBuffer(slice)",
  "continue",
  "}",
  "preSlice := toBuf.sliceList.back()",
  "if slice.hasNext() {",
  "preSlice.linkNext(slice.nextBufferOffset())",
  "offset = slice.nextBufferOffset()",
  "r.stream.session.bufferManager.recycleBuffer(slice)",
  "continue",
  "} else {",
  "preSlice.clearFlag()",
  "preSlice.setInUsed()",
  "r.stream.session.bufferManager.recycleBuffer(slice)",
  "break",
  "}",
  "}",
  "toBuf.appendBufferSlice(slice)",
  "if !slice.hasNext() {",
  "break",
  "}",
  "offset = slice.nextBufferOffset()",
  "}",
  "}",
  "atomic.AddUint64(&r.stream.session.stats.inFlowBytes, uint64(toBuf.Len()-preLen))",
  "r.unread = r.unread[:0]",
  "}"] := by rfl

theorem tie_skel_pendingData_moveTo : Gen.Skel.pendingData_moveTo = [
  "func (r *pendingData) moveTo(toBuf *linkedBuffer) {",
  "r.Lock()",
  "r.moveToWithoutLock(toBuf)",
  "r.Unlock()",
  "}"] := by rfl

theorem tie_skel_pendingData_add : Gen.Skel.pendingData_add = [
  "func (r *pendingData) add(w bufferSliceWrapper) {",
  "r.Lock()",
  "r.unread = append(r.unread, w)",
  "r.Unlock()",
  "}"] := by rfl

end Tie.Pending
