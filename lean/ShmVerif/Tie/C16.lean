import ShmVerif.Gen.Consts
import ShmVerif.Gen.Skel
import ShmVerif.Model.Restart
/-! Tie 1 for C16 / C17: the hot-restart hand-over on both sides (Listener.HotRestart / checkHotRestart / resetState,
    handleHotRestartAck, handleHotRestart, Session.hotRestart; handleSessionManagerHotRestart, SessionManager.checkHotRestart),
    the watcher goroutine of SessionManager.background, SessionManager.Close, the session table, streamPool.close, and the
    session-state constants the model's `SS.num` stands for. -/
namespace Tie.C16

theorem tie_defaultState : Gen.c_defaultState = (Restart.SS.default.num : Int) := by decide
theorem tie_hotRestartState : Gen.c_hotRestartState = (Restart.SS.hot.num : Int) := by decide
theorem tie_hotRestartDoneState : Gen.c_hotRestartDoneState = (Restart.SS.hotDone.num : Int) := by decide
theorem tie_epochIDLen : Gen.c_epochIDLen = 8 := by decide

theorem tie_skel_Listener_HotRestart : Gen.Skel.Listener_HotRestart = [
  "func (l *Listener) HotRestart(epoch uint64) error {",
  "l.mu.Lock()",
  "defer l.mu.Unlock()",
  "if l.state == hotRestartState {",
  "return ErrHotRestartInProgress",
  "}",
  "l.sessions.sessionMu.Lock()",
  "defer l.sessions.sessionMu.Unlock()",
  "for session := range l.sessions.data {",
  "if !session.handshakeDone {",
  "return ErrInHandshakeStage",
  "}",
  "}",
  "l.state = hotRestartState",
  "l.epoch = epoch",
  "for session := range l.sessions.data {",
  "if session.state != defaultState {",
  "continue",
  "}",
  "if err := session.hotRestart(epoch, typeHotRestart); err != nil {",
  "l.state = defaultState",
  "return err",
  "}",
  "session.state = hotRestartState",
  "l.hotRestartAckCount++",
  "}",
  "go func() {",
  "l.checkHotRestart()",
  "}()",
  "return nil",
  "}"] := by rfl

theorem tie_skel_Listener_IsHotRestartDone : Gen.Skel.Listener_IsHotRestartDone = [
  "func (l *Listener) IsHotRestartDone() bool {",
  "l.mu.Lock()",
  "defer l.mu.Unlock()",
  "return l.state != hotRestartState",
  "}"] := by rfl

theorem tie_skel_Listener_checkHotRestart : Gen.Skel.Listener_checkHotRestart = [
  "func (l *Listener) checkHotRestart() {",
  "timeout := time.NewTimer(hotRestartCheckTimeout)",
  "defer timeout.Stop()",
  "ticker := time.NewTicker(hotRestartCheckInterval)",
  "defer ticker.Stop()",
  "for {",
  "select {",
  "case <-ticker.C:",
  "l.mu.Lock()",
  "if l.state != hotRestartState {",
  "l.mu.Unlock()",
  "return",
  "}",
  "if l.hotRestartAckCount == 0 {",
  "l.state = hotRestartDoneState",
  "l.sessions.onHotRestart(true)",
  "l.mu.Unlock()",
  "return",
  "}",
  "l.mu.Unlock()",
  "case <-timeout.C:",
  "l.resetState()",
  "l.sessions.onHotRestart(false)",
  "return",
  "}",
  "}",
  "}"] := by rfl

theorem tie_skel_Listener_resetState : Gen.Skel.Listener_resetState = [
  "func (l *Listener) resetState() {",
  "l.mu.Lock()",
  "defer l.mu.Unlock()",
  "l.state = defaultState",
  "l.hotRestartAckCount = 0",
  "l.sessions.sessionMu.Lock()",
  "defer l.sessions.sessionMu.Unlock()",
  "for session := range l.sessions.data {",
  "session.state = defaultState",
  "}",
  "}"] := by rfl

theorem tie_skel_sessionCallback_OnShutdown : Gen.Skel.sessionCallback_OnShutdown = [
  "func (c *sessionCallback) OnShutdown(reason string) {",
  "c.listener.sessions.removeShutdownSession()",
  "}"] := by rfl

theorem tie_skel_sessions_add : Gen.Skel.sessions_add = [
  "func (s *sessions) add(session *Session) {",
  "s.sessionMu.Lock()",
  "if s.data != nil {",
  "s.data[session] = struct{}{}",
  "} else {",
  "session.Close()",
  "}",
  "s.sessionMu.Unlock()",
  "}"] := by rfl

theorem tie_skel_sessions_removeShutdownSession : Gen.Skel.sessions_removeShutdownSession = [
  "func (s *sessions) removeShutdownSession() {",
  "s.sessionMu.Lock()",
  "for session := range s.data {",
  "if session.IsClosed() {",
  "delete(s.data, session)",
  "}",
  "}",
  "s.sessionMu.Unlock()",
  "}"] := by rfl

theorem tie_skel_handleHotRestart : Gen.Skel.handleHotRestart = [
  "func handleHotRestart(s *Session, hdr header, buf []byte) (int, bool, error) {",
  "if len(buf) < epochIDLen {",
  "return 0, true, nil",
  "}",
  "epochID := binary.BigEndian.Uint64(buf[:epochIDLen])",
  "if s.manager == nil {",
  "return headerSize + epochIDLen, false, fmt.Errorf(\"unexpected hot restart event, session has no session manager\")",
  "}",
  "s.dispatcher.post(func() {",
  "s.manager.handleEvent(typeHotRestart, &sessionManagerHotRestartParams{epoch: epochID, session: s})",
  "})",
  "return headerSize + epochIDLen, false, nil",
  "}"] := by rfl

theorem tie_skel_handleHotRestartAck : Gen.Skel.handleHotRestartAck = [
  "func handleHotRestartAck(s *Session, hdr header, buf []byte) (int, bool, error) {",
  "if len(buf) < epochIDLen {",
  "return 0, true, nil",
  "}",
  "epochID := binary.BigEndian.Uint64(buf[:epochIDLen])",
  "if s.listener == nil {",
  "return headerSize + epochIDLen, false, fmt.Errorf(\"unexpected hot restart ack event, session has no listener\")",
  "}",
  "s.listener.mu.Lock()",
  "defer s.listener.mu.Unlock()",
  "if epochID == s.listener.epoch && s.listener.state == hotRestartState && s.state == hotRestartState {",
  "s.listener.hotRestartAckCount--",
  "s.state = hotRestartDoneState",
  "}",
  "return headerSize + epochIDLen, false, nil",
  "}"] := by rfl

theorem tie_skel_Session_hotRestart : Gen.Skel.Session_hotRestart = [
  "func (s *Session) hotRestart(epoch uint64, event eventType) error {",
  "if event != typeHotRestart && event != typeHotRestartAck {",
  "return fmt.Errorf(\"hotRestart invalid event type %d %s\", event, event.String())",
  "}",
  "data := make([]byte, headerSize+8)",
  "offset := headerSize",
  "binary.BigEndian.PutUint64(data[offset:offset+8], epoch)",
  "header(data).encode(uint32(len(data)), s.communicationVersion, event)",
  "if atomic.CompareAndSwapUint32(&s.writing, 0, 1) {",
  "s.writeEventData(data, nil)",
  "atomic.StoreUint32(&s.writing, 0)",
  "asyncNotify(s.notifyContinueWriteCh)",
  "} else {",
  "s.sendCh <- sendReady{nil, data, nil}",
  "}",
  "return nil",
  "}"] := by rfl

theorem tie_skel_SessionManager_Close : Gen.Skel.SessionManager_Close = [
  "func (sm *SessionManager) Close() error {",
  "sm.cancelFunc()",
  "sm.wg.Wait()",
  "sm.Lock()",
  "defer sm.Unlock()",
  "for i := 0; i < len(sm.pools); i++ {",
  "sm.pools[i].close()",
  "}",
  "for _, p := range sm.reservePools {",
  "p.close()",
  "}",
  "sm.reservePools = nil",
  "return nil",
  "}"] := by rfl

theorem tie_skel_SessionManager_background : Gen.Skel.SessionManager_background = [
  "func (sm *SessionManager) background() {",
  "sm.ctx, sm.cancelFunc = context.WithCancel(sm.ctx)",
  "sm.wg.Add(len(sm.pools))",
  "for i := 0; i < len(sm.pools); i++ {",
  "go func(id int) {",
  "defer sm.wg.Done()",
  "for {",
  "sm.RLock()",
  "if sm.state == hotRestartState {",
  "sm.RUnlock()",
  "time.Sleep(500 * time.Millisecond)",
  "continue",
  "}",
  "pool := sm.pools[id]",
  "sm.RUnlock()",
  "select {",
  "case <-pool.Session().CloseChan():",
  "sm.RLock()",
  "if sm.state == hotRestartState {",
  "sm.RUnlock()",
  "break",
  "}",
  "sm.RUnlock()",
  "pool.close()",
  "for {",
  "if sm.config.rebuildInterval == 0 {",
  "sm.config.rebuildInterval = sessionRebuildInterval",
  "}",
  "rebuildTimer := time.NewTimer(sm.config.rebuildInterval)",
  "select {",
  "case <-sm.ctx.Done():",
  "return",
  "case <-rebuildTimer.C:",
  "}",
  "sm.Lock()",
  "sessionHadChangedByHotrestart := sm.pools[id].Session().epochID != pool.Session().epochID",
  "if sessionHadChangedByHotrestart {",
  "sm.Unlock()",
  "break",
  "}",
  "session, err := newClientSession(id, sm.epoch, sm.randID, sm.config)",
  "sm.Unlock()",
  "if err != nil {",
  "continue",
  "}",
  "session.manager = sm",
  "pool.session.Store(session)",
  "break",
  "}",
  "case <-sm.ctx.Done():",
  "return",
  "}",
  "}",
  "}(i)",
  "}",
  "}"] := by rfl

theorem tie_skel_SessionManager_checkHotRestart : Gen.Skel.SessionManager_checkHotRestart = [
  "func (sm *SessionManager) checkHotRestart() {",
  "timeout := time.NewTimer(hotRestartCheckTimeout)",
  "defer timeout.Stop()",
  "ticker := time.NewTicker(hotRestartCheckInterval)",
  "defer ticker.Stop()",
  "for {",
  "select {",
  "case <-ticker.C:",
  "sm.Lock()",
  "if len(sm.reservePools) == len(sm.pools) {",
  "sm.state = defaultState",
  "for _, p := range sm.reservePools {",
  "if err := p.Session().hotRestart(sm.epoch, typeHotRestartAck); err != nil {",
  "}",
  "}",
  "sm.Unlock()",
  "return",
  "}",
  "sm.Unlock()",
  "case <-timeout.C:",
  "sm.Lock()",
  "sm.state = defaultState",
  "for _, p := range sm.reservePools {",
  "p.close()",
  "}",
  "sm.reservePools = nil",
  "sm.Unlock()",
  "return",
  "}",
  "}",
  "}"] := by rfl

theorem tie_skel_SessionManager_handleEvent : Gen.Skel.SessionManager_handleEvent = [
  "func (sm *SessionManager) handleEvent(event eventType, param interface{}) {",
  "if int(event) >= len(sessionManagerHandlers) || sessionManagerHandlers[event] == nil {",
  "return",
  "}",
  "sessionManagerHandlers[event](sm, param)",
  "}"] := by rfl

theorem tie_skel_handleSessionManagerHotRestart : Gen.Skel.handleSessionManagerHotRestart = [
  "func handleSessionManagerHotRestart(sm *SessionManager, params interface{}) {",
  "defer func() {",
  "if err := recover(); err != nil {",
  "}",
  "}()",
  "sm.Lock()",
  "defer sm.Unlock()",
  "if sm.ctx.Err() != nil {",
  "return",
  "}",
  "hParams := params.(*sessionManagerHotRestartParams)",
  "if sm.state == hotRestartState && sm.epoch != hParams.epoch {",
  "return",
  "}",
  "if sm.state != hotRestartState {",
  "sm.state = hotRestartState",
  "sm.epoch = hParams.epoch",
  "sm.randID = uint64(time.Now().UnixNano()) + rand.Uint64()",
  "for _, p := range sm.reservePools {",
  "p.close()",
  "}",
  "sm.reservePools = nil",
  "go func() {",
  "sm.checkHotRestart()",
  "}()",
  "}",
  "if sm.reservePools[hParams.session.sessionID] != nil {",
  "return",
  "}",
  "newSession, err := newClientSession(hParams.session.sessionID, sm.epoch, sm.randID, sm.config)",
  "if err != nil {",
  "return",
  "}",
  "newSession.manager = sm",
  "p := newStreamPool(uint32(sm.config.MaxStreamNum))",
  "p.session.Store(newSession)",
  "if sm.pools[hParams.session.sessionID] == nil {",
  "return",
  "}",
  "if len(sm.reservePools) == 0 {",
  "sm.reservePools = make(map[int]*streamPool, 0)",
  "}",
  "sm.reservePools[hParams.session.sessionID] = sm.pools[hParams.session.sessionID]",
  "sm.pools[hParams.session.sessionID] = p",
  "}"] := by rfl

theorem tie_skel_streamPool_Session : Gen.Skel.streamPool_Session = [
  "func (p *streamPool) Session() *Session {",
  "load := p.session.Load()",
  "if load != nil {",
  "return load.(*Session)",
  "}",
  "return nil",
  "}"] := by rfl

theorem tie_skel_streamPool_close : Gen.Skel.streamPool_close = [
  "func (p *streamPool) close() {",
  "if p.session.Load() != nil {",
  "p.session.Load().(*Session).Close()",
  "}",
  "for {",
  "s := p.pop()",
  "if s == nil {",
  "break",
  "}",
  "s.Close()",
  "}",
  "}"] := by rfl

/-! further functions on this property's paths (any edit to them is reported) -/

theorem tie_skel_NewListener : Gen.Skel.NewListener = [
  "func NewListener(callback ListenCallback, config *ListenerConfig) (*Listener, error) {",
  "if callback == nil {",
  "return nil, errors.New(\"ListenCallback couldn't be nil\")",
  "}",
  "if runtime.GOOS != \"linux\" {",
  "return nil, fmt.Errorf(\"only support linux OS\")",
  "}",
  "if config.MemMapType == MemMapTypeMemFd && config.Network != \"unix\" {",
  "return nil, errors.New(\"config.Network must be unix when config.MemMapType is MemMapTypeMemFd\")",
  "}",
  "if config.Network == \"unix\" {",
  "safeRemoveUdsFile(config.ListenPath)",
  "}",
  "ln, err := net.Listen(config.Network, config.ListenPath)",
  "if err != nil {",
  "return nil, fmt.Errorf(\"create listener failed, reason%s\", err.Error())",
  "}",
  "return &Listener{",
  "config: config,",
  "ln: ln,",
  "dispatcher: defaultDispatcher,",
  "sessions: newSessions(),",
  "logger: newLogger(\"listener\", nil),",
  "callback: callback,",
  "unlinkOnClose: true,",
  "}, nil",
  "}"] := by rfl

theorem tie_skel_Listener_Run : Gen.Skel.Listener_Run = [
  "func (l *Listener) Run() error {",
  "for {",
  "conn, err := l.ln.Accept()",
  "if err != nil {",
  "if nerr, ok := err.(net.Error); ok && nerr.Temporary() {",
  "continue",
  "}",
  "if strings.Contains(err.Error(), \"too many open file\") {",
  "time.Sleep(10 * time.Millisecond)",
  "continue",
  "}",
  "l.shutdownErrStr = \"accept failed,reason:\" + err.Error()",
  "l.Close()",
  "break",
  "}",
  "configCopy := *l.config.Config",
  "configCopy.listenCallback = &sessionCallback{l}",
  "session, err := newSession(&configCopy, conn, false)",
  "if err != nil {",
  "conn.Close()",
  "continue",
  "}",
  "session.listener = l",
  "l.sessions.add(session)",
  "}",
  "return nil",
  "}"] := by rfl

theorem tie_skel_sessionCallback_OnNewStream : Gen.Skel.sessionCallback_OnNewStream = [
  "func (c *sessionCallback) OnNewStream(s *Stream) {",
  "c.listener.callback.OnNewStream(s)",
  "}"] := by rfl

theorem tie_skel_newSessions : Gen.Skel.newSessions = [
  "func newSessions() *sessions { return &sessions{data: make(map[*Session]struct{}, 8)} }"] := by rfl

theorem tie_skel_sessions_onHotRestart : Gen.Skel.sessions_onHotRestart = [
  "func (s *sessions) onHotRestart(success bool) {",
  "s.sessionMu.Lock()",
  "for session := range s.data {",
  "if success {",
  "atomic.AddUint64(&session.stats.hotRestartSuccessCount, 1)",
  "} else {",
  "atomic.AddUint64(&session.stats.hotRestartErrorCount, 1)",
  "}",
  "}",
  "s.sessionMu.Unlock()",
  "}"] := by rfl

theorem tie_skel_NewDefaultListenerConfig : Gen.Skel.NewDefaultListenerConfig = [
  "func NewDefaultListenerConfig(listenPath string, network string) *ListenerConfig {",
  "return &ListenerConfig{",
  "Config: DefaultConfig(),",
  "Network: network,",
  "ListenPath: listenPath,",
  "}",
  "}"] := by rfl


/-! listener option -/

theorem tie_skel_Listener_SetUnlinkOnClose : Gen.Skel.Listener_SetUnlinkOnClose = [
  "func (l *Listener) SetUnlinkOnClose(unlink bool) {",
  "l.mu.Lock()",
  "defer l.mu.Unlock()",
  "l.unlinkOnClose = unlink",
  "if lnUnix, ok := l.ln.(*net.UnixListener); ok {",
  "lnUnix.SetUnlinkOnClose(unlink)",
  "}",
  "}"] := by rfl

/-! the name budget of newClientSession (`c16_names_fit`) -/
theorem tie_epochInfoMaxLen : Gen.c_epochInfoMaxLen = (Restart.epochInfoMaxLen : Int) := by decide
theorem tie_queueInfoMaxLen : Gen.c_queueInfoMaxLen = (Restart.queueInfoMaxLen : Int) := by decide
theorem tie_fileNameMaxLen : Gen.c_fileNameMaxLen = (Restart.fileNameMaxLen : Int) := by decide
theorem tie_memfdNameMaxLen : Gen.c_memfdNameMaxLen = (Restart.memfdNameMaxLen : Int) := by decide
theorem tie_memfdCreateName : Gen.s_memfdCreateName.length = Restart.memfdCreateNameLen := by decide

theorem tie_skel_newClientSession_names : Gen.Skel.newClientSession = [
  "func newClientSession(sessionID int, epochID, randID uint64, config *SessionManagerConfig) (*Session, error) {",
  "var conn net.Conn",
  "var err error",
  "if config.UnixPath != \"\" {",
  "conn, err = net.DialTimeout(\"unix\", config.UnixPath, config.ConnectionWriteTimeout)",
  "} else {",
  "conn, err = net.DialTimeout(config.Network, config.Address, config.ConnectionWriteTimeout)",
  "}",
  "if err != nil {",
  "return nil, err",
  "}",
  "conf := *config.Config",
  "conf.ShareMemoryPathPrefix += \"_\" + strconv.Itoa(os.Getpid())",
  "if config.MemMapType == MemMapTypeDevShmFile {",
  "if len(conf.ShareMemoryPathPrefix)+epochInfoMaxLen+queueInfoMaxLen > fileNameMaxLen {",
  "return nil, ErrFileNameTooLong",
  "}",
  "}",
  "if config.MemMapType == MemMapTypeMemFd {",
  "if len(memfdCreateName)+len(conf.ShareMemoryPathPrefix)+epochInfoMaxLen+queueInfoMaxLen > memfdNameMaxLen {",
  "return nil, ErrFileNameTooLong",
  "}",
  "}",
  "if epochID > 0 {",
  "conf.ShareMemoryPathPrefix += \"_epoch_\" + strconv.FormatUint(epochID, 10) + \"_\" + strconv.FormatUint(randID, 10)",
  "}",
  "if conf.ShareMemoryPathPrefix != \"\" {",
  "conf.QueuePath = conf.ShareMemoryPathPrefix + \"_queue_\" + strconv.Itoa(sessionID)",
  "}",
  "session, err := newSession(&conf, conn, true)",
  "if err != nil {",
  "return nil, err",
  "}",
  "session.sessionID = sessionID",
  "session.epochID = epochID",
  "session.randID = randID",
  "return session, nil",
  "}"] := by rfl

/-! GetStream does not wait for anything the watchers do (no manager lock) -/
theorem tie_skel_c17_SessionManager_GetStream : Gen.Skel.SessionManager_GetStream = [
  "func (sm *SessionManager) GetStream() (*Stream, error) {",
  "i := (atomic.AddUint64(&sm.count, 1) / sessionRoundRobinThreshold) % uint64(len(sm.pools))",
  "return sm.pools[i].getOrOpenStream()",
  "}"] := by rfl

end Tie.C16
