import ShmVerif.Gen.Consts
import ShmVerif.Gen.Skel
import ShmVerif.Model.Callback
/-! Tie 1 for C20: the callback hand-off in stream.go (fillDataToReadBuffer and its goroutine, Close / close / halfClose /
    clean, the pendingData operations, SetCallbacks) and the stream-state constants the model's `St.num` stands for. -/
namespace Tie.C20

theorem tie_streamOpened : Gen.c_streamOpened = (Callback.St.opened.num : Int) := by decide
theorem tie_streamClosed : Gen.c_streamClosed = (Callback.St.closed.num : Int) := by decide
theorem tie_streamHalfClosed : Gen.c_streamHalfClosed = (Callback.St.half.num : Int) := by decide
theorem tie_streamLocalClosing : Gen.c_streamLocalClosing = (Callback.St.localClosing.num : Int) := by decide
theorem tie_callbackWaitExit : Gen.c_callbackWaitExit = 1 ∧ Gen.c_callbackDefault = 0 := by decide

theorem tie_skel_Stream_fillDataToReadBuffer : Gen.Skel.Stream_fillDataToReadBuffer = [
  "func (s *Stream) fillDataToReadBuffer(buf bufferSliceWrapper) error {",
  "s.pendingData.add(buf)",
  "if s.getStreamState() == uint32(streamClosed) {",
  "s.pendingData.clear()",
  "s.recvBuf.recycle()",
  "return nil",
  "}",
  "asyncNotify(s.recvNotifyCh)",
  "callback := s.getCallbacks()",
  "if callback != nil {",
  "if atomic.CompareAndSwapUint32(&s.callbackInProcess, 0, 1) {",
  "s.asyncGoroutineWg.Add(1)",
  "gopool.Go(func() {",
  "for {",
  "s.pendingData.moveTo(s.recvBuf)",
  "for s.IsOpen() && s.recvBuf.Len() > 0 {",
  "callback.OnData(s.recvBuf)",
  "s.pendingData.moveTo(s.recvBuf)",
  "}",
  "atomic.StoreUint32(&s.callbackInProcess, 0)",
  "if atomic.LoadUint32(&s.callbackCloseState) == uint32(callbackWaitExit) {",
  "s.asyncGoroutineWg.Done()",
  "s.close()",
  "return",
  "}",
  "if !(len(s.pendingData.unread) > 0 && atomic.CompareAndSwapUint32(&s.callbackInProcess, 0, 1)) {",
  "break",
  "}",
  "}",
  "s.asyncGoroutineWg.Done()",
  "})",
  "}",
  "}",
  "return nil",
  "}"] := by rfl

theorem tie_skel_Stream_Close : Gen.Skel.Stream_Close = [
  "func (s *Stream) Close() error {",
  "if s.getCallbacks() != nil {",
  "atomic.StoreUint32(&s.callbackCloseState, uint32(callbackWaitExit))",
  "}",
  "if atomic.LoadUint32(&s.callbackInProcess) == 1 {",
  "atomic.CompareAndSwapUint32(&s.state, uint32(streamOpened), uint32(streamLocalClosing))",
  "return nil",
  "}",
  "return s.close()",
  "}"] := by rfl

theorem tie_skel_Stream_close : Gen.Skel.Stream_close = [
  "func (s *Stream) close() error {",
  "oldState := s.getStreamState()",
  "if oldState == uint32(streamClosed) {",
  "return nil",
  "}",
  "if atomic.CompareAndSwapUint32(&s.state, oldState, uint32(streamClosed)) {",
  "if s.getCallbacks() != nil {",
  "s.asyncGoroutineWg.Wait()",
  "}",
  "s.clean()",
  "if oldState == uint32(streamOpened) || oldState == uint32(streamLocalClosing) {",
  "s.safeCloseNotify()",
  "callback := s.getCallbacks()",
  "if callback != nil {",
  "if s.session.IsClosed() {",
  "callback.OnRemoteClose()",
  "} else {",
  "callback.OnLocalClose()",
  "}",
  "}",
  "if s.session.IsClosed() {",
  "return nil",
  "}",
  "viaConnection := s.inFallbackState",
  "if !viaConnection {",
  "if err := s.session.sendQueue().put(queueElement{seqID: s.id, status: uint32(streamClosed)}); err != nil {",
  "atomic.AddUint64(&s.session.stats.queueFullErrorCount, 1)",
  "viaConnection = true",
  "}",
  "}",
  "if viaConnection {",
  "var streamCloseEvent [headerSize + 4]byte",
  "header(streamCloseEvent[:]).encode(headerSize+4, s.session.communicationVersion, typeStreamClose)",
  "binary.BigEndian.PutUint32(streamCloseEvent[headerSize:], s.id)",
  "return s.session.waitForSend(nil, streamCloseEvent[:])",
  "}",
  "return s.session.wakeUpPeer()",
  "}",
  "} else {",
  "return s.close()",
  "}",
  "return nil",
  "}"] := by rfl

theorem tie_skel_Stream_halfClose : Gen.Skel.Stream_halfClose = [
  "func (s *Stream) halfClose() {",
  "if atomic.CompareAndSwapUint32(&s.state, uint32(streamOpened), uint32(streamHalfClosed)) {",
  "s.safeCloseNotify()",
  "callback := s.getCallbacks()",
  "if callback != nil {",
  "callback.OnRemoteClose()",
  "}",
  "}",
  "}"] := by rfl

theorem tie_skel_Stream_clean : Gen.Skel.Stream_clean = [
  "func (s *Stream) clean() {",
  "s.session.onStreamClose(s.id, streamState(s.getStreamState()))",
  "s.pendingData.clear()",
  "s.recvBuf.recycle()",
  "s.sendBuf.recycle()",
  "}"] := by rfl

theorem tie_skel_pendingData_add : Gen.Skel.pendingData_add = [
  "func (r *pendingData) add(w bufferSliceWrapper) {",
  "r.Lock()",
  "r.unread = append(r.unread, w)",
  "r.Unlock()",
  "}"] := by rfl

theorem tie_skel_pendingData_moveTo : Gen.Skel.pendingData_moveTo = [
  "func (r *pendingData) moveTo(toBuf *linkedBuffer) {",
  "r.Lock()",
  "r.moveToWithoutLock(toBuf)",
  "r.Unlock()",
  "}"] := by rfl

theorem tie_skel_pendingData_clear : Gen.Skel.pendingData_clear = [
  "func (r *pendingData) clear() {",
  "r.Lock()",
  "if len(r.unread) > 0 {",
  "for i := range r.unread {",
  "if r.unread[i].fallbackSlice != nil {",
  "putBackBufferSlice(r.unread[i].fallbackSlice)",
  "continue",
  "}",
  "slice, err := r.stream.session.bufferManager.readBufferSlice(r.unread[i].offset)",
  "if err != nil {",
  "break",
  "}",
  "r.stream.session.bufferManager.recycleBuffers(slice)",
  "}",
  "r.unread = r.unread[:0]",
  "}",
  "r.Unlock()",
  "}"] := by rfl

theorem tie_skel_Stream_SetCallbacks : Gen.Skel.Stream_SetCallbacks = [
  "func (s *Stream) SetCallbacks(callback StreamCallbacks) error {",
  "if s.getCallbacks() != nil {",
  "return ErrStreamCallbackHadExisted",
  "}",
  "s.setCallbacks(callback)",
  "atomic.StoreUint32(&s.callbackInProcess, 0)",
  "return nil",
  "}"] := by rfl

theorem tie_skel_Stream_getCallbacks : Gen.Skel.Stream_getCallbacks = [
  "func (s *Stream) getCallbacks() StreamCallbacks {",
  "callback := atomic.LoadPointer((*unsafe.Pointer)(unsafe.Pointer(&s.callback)))",
  "if callback != nil {",
  "return *(*StreamCallbacks)(callback)",
  "}",
  "return nil",
  "}"] := by rfl

theorem tie_skel_Stream_IsOpen : Gen.Skel.Stream_IsOpen = [
  "func (s *Stream) IsOpen() bool {",
  "return s.getStreamState() == uint32(streamOpened)",
  "}"] := by rfl

theorem tie_skel_Stream_getStreamState : Gen.Skel.Stream_getStreamState = [
  "func (s *Stream) getStreamState() uint32 {",
  "return atomic.LoadUint32(&s.state)",
  "}"] := by rfl

/-! further functions on this property's paths (any edit to them is reported) -/

theorem tie_skel_Stream_setCallbacks : Gen.Skel.Stream_setCallbacks = [
  "func (s *Stream) setCallbacks(sc StreamCallbacks) {",
  "atomic.StorePointer((*unsafe.Pointer)(unsafe.Pointer(&s.callback)), unsafe.Pointer(&sc))",
  "}"] := by rfl

end Tie.C20
