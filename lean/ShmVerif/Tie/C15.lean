import ShmVerif.Gen.Consts
import ShmVerif.Gen.Skel
import ShmVerif.Model.Pool
/-! Tie 1 for C15: the pool functions and Stream.reset / ReleaseReadAndReuse, re-checked against the regenerated `Gen`. -/
namespace Tie.C15

theorem tie_skel_c15_streamPool_getOrOpenStream : Gen.Skel.streamPool_getOrOpenStream = [
  "func (p *streamPool) getOrOpenStream() (*Stream, error) {",
  "if !p.Session().IsHealthy() {",
  "return nil, ErrSessionUnhealthy",
  "}",
  "for stream := p.pop(); stream != nil; stream = p.pop() {",
  "if !stream.Session().IsClosed() {",
  "if stream.IsOpen() {",
  "return stream, nil",
  "}",
  "}",
  "stream.Close()",
  "}",
  "stream, err := p.Session().OpenStream()",
  "if err != nil {",
  "return nil, err",
  "}",
  "stream.pool = p",
  "return stream, nil",
  "}"] := by rfl

theorem tie_skel_c15_streamPool_putOrCloseStream : Gen.Skel.streamPool_putOrCloseStream = [
  "func (p *streamPool) putOrCloseStream(s *Stream) {",
  "if s.inFallbackState {",
  "s.Close()",
  "return",
  "}",
  "if err := s.reset(); err == nil {",
  "s.ReleaseReadAndReuse()",
  "if p.push(s) != nil {",
  "s.Close()",
  "}",
  "} else {",
  "s.Close()",
  "}",
  "}"] := by rfl

theorem tie_skel_c15_streamPool_pop : Gen.Skel.streamPool_pop = [
  "func (p *streamPool) pop() *Stream {",
  "p.Lock()",
  "if p.tail > p.head {",
  "s := p.streams[p.head%uint64(p.capacity)]",
  "p.head++",
  "p.Unlock()",
  "return s",
  "}",
  "p.Unlock()",
  "return nil",
  "}"] := by rfl

theorem tie_skel_c15_streamPool_push : Gen.Skel.streamPool_push = [
  "func (p *streamPool) push(s *Stream) error {",
  "p.Lock()",
  "if p.tail-p.head < uint64(p.capacity) {",
  "p.streams[p.tail%uint64(p.capacity)] = s",
  "p.tail++",
  "p.Unlock()",
  "return nil",
  "}",
  "p.Unlock()",
  "return errPoolFull",
  "}"] := by rfl

theorem tie_skel_c15_streamPool_close : Gen.Skel.streamPool_close = [
  "func (p *streamPool) close() {",
  "if p.session.Load() != nil {",
  "p.session.Load().(*Session).Close()",
  "}",
  "for {",
  "s := p.pop()",
  "if s == nil {",
  "break",
  "}",
  "s.Close()",
  "}",
  "}"] := by rfl

theorem tie_skel_c15_Stream_reset : Gen.Skel.Stream_reset = [
  "func (s *Stream) reset() error {",
  "if !s.IsOpen() {",
  "return ErrStreamClosed",
  "}",
  "unreadSize := s.recvBuf.Len()",
  "if unreadSize > 0 {",
  "return fmt.Errorf(\"stream had unread data, size:%d \", unreadSize)",
  "}",
  "s.pendingData.Lock()",
  "if len(s.pendingData.unread) > 0 {",
  "s.pendingData.Unlock()",
  "return fmt.Errorf(\"stream had unread pending data, unread slice len:%d \", len(s.pendingData.unread))",
  "}",
  "s.pendingData.Unlock()",
  "s.readDeadline = zeroTime",
  "s.writeDeadline = zeroTime",
  "s.inFallbackState = false",
  "select {",
  "case <-s.recvNotifyCh:",
  "default:",
  "}",
  "s.setCallbacks(nil)",
  "return nil",
  "}"] := by rfl

theorem tie_skel_c15_Stream_ReleaseReadAndReuse : Gen.Skel.Stream_ReleaseReadAndReuse = [
  "func (s *Stream) ReleaseReadAndReuse() {",
  "s.recvBuf.releasePreviousReadAndReserve()",
  "if s.recvBuf.len == 0 && s.recvBuf.sliceList.size() == 1 && s.sendBuf.sliceList.size() == 0 {",
  "s.recvBuf, s.sendBuf = s.sendBuf, s.recvBuf",
  "}",
  "}"] := by rfl

theorem tie_skel_c15_SessionManager_GetStream : Gen.Skel.SessionManager_GetStream = [
  "func (sm *SessionManager) GetStream() (*Stream, error) {",
  "i := (atomic.AddUint64(&sm.count, 1) / sessionRoundRobinThreshold) % uint64(len(sm.pools))",
  "return sm.pools[i].getOrOpenStream()",
  "}"] := by rfl

theorem tie_skel_c15_SessionManager_PutBack : Gen.Skel.SessionManager_PutBack = [
  "func (sm *SessionManager) PutBack(stream *Stream) {",
  "if stream != nil && stream.pool != nil {",
  "stream.pool.putOrCloseStream(stream)",
  "}",
  "}"] := by rfl

theorem tie_skel_c15_linkedBuffer_releasePreviousReadAndReserve : Gen.Skel.linkedBuffer_releasePreviousReadAndReserve = [
  "func (l *linkedBuffer) releasePreviousReadAndReserve() {",
  "l.cleanPinnedList()",
  "if l.len == 0 && l.sliceList.size() == 1 {",
  "if l.sliceList.front().isFromShm {",
  "l.sliceList.front().reset()",
  "} else {",
  "putBackBufferSlice(l.sliceList.popFront())",
  "}",
  "}",
  "}"] := by rfl

/-! further functions on this property's paths (any edit to them is reported) -/

theorem tie_skel_NewSessionManager : Gen.Skel.NewSessionManager = [
  "func NewSessionManager(config *SessionManagerConfig) (*SessionManager, error) {",
  "sm := &SessionManager{",
  "config: config,",
  "pools: make([]*streamPool, 0, config.SessionNum),",
  "ctx: context.Background(),",
  "}",
  "for i := 0; i < config.SessionNum; i++ {",
  "session, err := newClientSession(i, 0, 0, config)",
  "if err != nil {",
  "for k := 0; k < len(sm.pools); k++ {",
  "sm.pools[k].close()",
  "}",
  "return nil, err",
  "}",
  "session.manager = sm",
  "p := newStreamPool(uint32(config.MaxStreamNum))",
  "p.session.Store(session)",
  "sm.pools = append(sm.pools, p)",
  "}",
  "sm.background()",
  "return sm, nil",
  "}"] := by rfl

theorem tie_skel_newStreamPool : Gen.Skel.newStreamPool = [
  "func newStreamPool(poolCapacity uint32) *streamPool {",
  "return &streamPool{streams: make([]*Stream, poolCapacity), capacity: poolCapacity}",
  "}"] := by rfl

theorem tie_skel_newClientSession : Gen.Skel.newClientSession = [
  "func newClientSession(sessionID int, epochID, randID uint64, config *SessionManagerConfig) (*Session, error) {",
  "var conn net.Conn",
  "var err error",
  "if config.UnixPath != \"\" {",
  "conn, err = net.DialTimeout(\"unix\", config.UnixPath, config.ConnectionWriteTimeout)",
  "} else {",
  "conn, err = net.DialTimeout(config.Network, config.Address, config.ConnectionWriteTimeout)",
  "}",
  "if err != nil {",
  "return nil, err",
  "}",
  "conf := *config.Config",
  "conf.ShareMemoryPathPrefix += \"_\" + strconv.Itoa(os.Getpid())",
  "if config.MemMapType == MemMapTypeDevShmFile {",
  "if len(conf.ShareMemoryPathPrefix)+epochInfoMaxLen+queueInfoMaxLen > fileNameMaxLen {",
  "return nil, ErrFileNameTooLong",
  "}",
  "}",
  "if config.MemMapType == MemMapTypeMemFd {",
  "if len(memfdCreateName)+len(conf.ShareMemoryPathPrefix)+epochInfoMaxLen+queueInfoMaxLen > memfdNameMaxLen {",
  "return nil, ErrFileNameTooLong",
  "}",
  "}",
  "if epochID > 0 {",
  "conf.ShareMemoryPathPrefix += \"_epoch_\" + strconv.FormatUint(epochID, 10) + \"_\" + strconv.FormatUint(randID, 10)",
  "}",
  "if conf.ShareMemoryPathPrefix != \"\" {",
  "conf.QueuePath = conf.ShareMemoryPathPrefix + \"_queue_\" + strconv.Itoa(sessionID)",
  "}",
  "session, err := newSession(&conf, conn, true)",
  "if err != nil {",
  "return nil, err",
  "}",
  "session.sessionID = sessionID",
  "session.epochID = epochID",
  "session.randID = randID",
  "return session, nil",
  "}"] := by rfl

theorem tie_skel_DefaultSessionManagerConfig : Gen.Skel.DefaultSessionManagerConfig = [
  "func DefaultSessionManagerConfig() *SessionManagerConfig {",
  "return &SessionManagerConfig{",
  "Config: DefaultConfig(),",
  "Address: \"\",",
  "SessionNum: 1,",
  "MaxStreamNum: 4096,",
  "StreamMaxIdleTime: time.Second * 30,",
  "}",
  "}"] := by rfl

theorem tie_skel_InitGlobalSessionManager : Gen.Skel.InitGlobalSessionManager = [
  "func InitGlobalSessionManager(config *SessionManagerConfig) (*SessionManager, error) {",
  "smMux.Lock()",
  "defer smMux.Unlock()",
  "if globalSM != nil {",
  "return globalSM, nil",
  "}",
  "sm, err := NewSessionManager(config)",
  "if err != nil {",
  "return nil, err",
  "}",
  "globalSM = sm",
  "return globalSM, nil",
  "}"] := by rfl

theorem tie_skel_GlobalSessionManager : Gen.Skel.GlobalSessionManager = [
  "func GlobalSessionManager() *SessionManager {",
  "smMux.Lock()",
  "defer smMux.Unlock()",
  "return globalSM",
  "}"] := by rfl

end Tie.C15
