import ShmVerif.Gen.Consts
import ShmVerif.Gen.Skel
import ShmVerif.Model.Events
/-! Tie 1 for C13: event constants, the handler bodies (length tests and slice bounds), handleEvents' loop,
    checkEventValid, onEventData, extractShmMetadata — re-checked against the regenerated `Gen` on every run. -/
namespace Tie.C13
open Events

theorem tie_headerSize : Gen.c_headerSize = (headerSize : Int) := by decide
theorem tie_magicNumber : Gen.c_magicNumber = (magicNumber : Int) := by decide
theorem tie_typePolling : Gen.c_typePolling = (typePolling : Int) := by decide
theorem tie_typeStreamClose : Gen.c_typeStreamClose = (typeStreamClose : Int) := by decide
theorem tie_typeFallbackData : Gen.c_typeFallbackData = (typeFallbackData : Int) := by decide
theorem tie_typeHotRestart : Gen.c_typeHotRestart = (typeHotRestart : Int) := by decide
theorem tie_typeHotRestartAck : Gen.c_typeHotRestartAck = (typeHotRestartAck : Int) := by decide
theorem tie_maxEventType : Gen.c_maxEventType = (maxEventType : Int) := by decide
theorem tie_minEventType : Gen.c_minEventType = 0 := by decide
theorem tie_epochIDLen : Gen.c_epochIDLen = 8 := by decide
theorem tie_streamOpened : Gen.c_streamOpened = 0 := by decide
theorem tie_streamClosed : Gen.c_streamClosed = 1 := by decide
theorem tie_streamHalfClosed : Gen.c_streamHalfClosed = 2 := by decide

theorem tie_skel_Session_handleEvents : Gen.Skel.Session_handleEvents = [
  "func (s *Session) handleEvents(buf []byte) (consumed int, err error) {",
  "for len(buf[consumed:]) >= headerSize {",
  "eventHeader := header(buf[consumed : consumed+headerSize])",
  "if err = checkEventValid(eventHeader); err != nil {",
  "return consumed + headerSize, ErrInvalidMsgType",
  "}",
  "msgType := int(eventHeader.MsgType())",
  "if msgType >= len(protocolHandlers) || msgType < 0 {",
  "return consumed + headerSize, ErrInvalidMsgType",
  "}",
  "if protocolHandlers[msgType] == nil {",
  "return consumed + headerSize, ErrInvalidMsgType",
  "}",
  "n, stop, err := protocolHandlers[msgType](s, eventHeader, buf[consumed+headerSize:])",
  "consumed += n",
  "if err != nil {",
  "return consumed, err",
  "}",
  "if stop {",
  "break",
  "}",
  "}",
  "return",
  "}"] := by rfl

theorem tie_skel_Session_onEventData : Gen.Skel.Session_onEventData = [
  "func (s *Session) onEventData(buf []byte, conn eventConn) error {",
  "if s.IsClosed() {",
  "return nil",
  "}",
  "consumed, err := s.handleEvents(buf)",
  "conn.commitRead(consumed)",
  "if err != nil && !s.IsClosed() {",
  "s.exitErr(err)",
  "}",
  "return nil",
  "}"] := by rfl

theorem tie_skel_checkEventValid : Gen.Skel.checkEventValid = [
  "func checkEventValid(hdr header) error {",
  "if hdr.Magic() != magicNumber || hdr.Version() == 0 {",
  "return ErrInvalidVersion",
  "}",
  "mt := hdr.MsgType()",
  "if mt < minEventType || mt > maxEventType {",
  "return ErrInvalidMsgType",
  "}",
  "return nil",
  "}"] := by rfl

theorem tie_skel_header_Length : Gen.Skel.header_Length = [
  "func (h header) Length() uint32 {",
  "return binary.BigEndian.Uint32(h[0:4])",
  "}"] := by rfl

theorem tie_skel_header_Magic : Gen.Skel.header_Magic = [
  "func (h header) Magic() uint16 {",
  "return binary.BigEndian.Uint16(h[4:6])",
  "}"] := by rfl

theorem tie_skel_header_Version : Gen.Skel.header_Version = [
  "func (h header) Version() uint8 {",
  "return h[6]",
  "}"] := by rfl

theorem tie_skel_header_MsgType : Gen.Skel.header_MsgType = [
  "func (h header) MsgType() eventType {",
  "return eventType(h[7])",
  "}"] := by rfl

theorem tie_skel_header_encode : Gen.Skel.header_encode = [
  "func (h header) encode(length uint32, version uint8, msgType eventType) {",
  "binary.BigEndian.PutUint32(h[0:4], length)",
  "binary.BigEndian.PutUint16(h[4:6], magicNumber)",
  "h[6] = version",
  "h[7] = uint8(msgType)",
  "}"] := by rfl

theorem tie_skel_fallbackDataEvent_encode : Gen.Skel.fallbackDataEvent_encode = [
  "func (f *fallbackDataEvent) encode(length int, version uint8, seqID uint32, status uint32) {",
  "binary.BigEndian.PutUint32(f[0:4], uint32(length))",
  "binary.BigEndian.PutUint16(f[4:6], magicNumber)",
  "f[6] = version",
  "f[7] = uint8(typeFallbackData)",
  "binary.BigEndian.PutUint32(f[8:12], seqID)",
  "binary.BigEndian.PutUint32(f[12:16], status)",
  "}"] := by rfl

theorem tie_skel_handleFallbackData : Gen.Skel.handleFallbackData = [
  "func handleFallbackData(s *Session, h header, buf []byte) (int, bool, error) {",
  "eventLen := int(h.Length())",
  "payloadLen := eventLen - headerSize",
  "const fallbackDataHeader = 8",
  "if payloadLen < fallbackDataHeader {",
  "return headerSize, false, fmt.Errorf(\"invalid fallback data event, length:%d\", eventLen)",
  "}",
  "if len(buf) < payloadLen {",
  "return 0, true, nil",
  "}",
  "data := make([]byte, payloadLen)",
  "copy(data, buf[:payloadLen])",
  "seqID := binary.BigEndian.Uint32(data[:4])",
  "status := binary.BigEndian.Uint32(data[4:8]) & 0xff",
  "s.openCircuitBreaker()",
  "fallbackSlice := newBufferSlice(nil, data[fallbackDataHeader:], 0, false)",
  "fallbackSlice.writeIndex = len(data[fallbackDataHeader:])",
  "atomic.AddUint64(&s.stats.fallbackReadCount, 1)",
  "stream := s.getStream(seqID, streamState(status))",
  "if stream == nil {",
  "return eventLen, false, nil",
  "}",
  "return eventLen, false, s.handleStreamMessage(stream, bufferSliceWrapper{fallbackSlice: fallbackSlice}, streamState(status))",
  "}"] := by rfl

theorem tie_skel_handleStreamClose : Gen.Skel.handleStreamClose = [
  "func handleStreamClose(s *Session, hdr header, buf []byte) (int, bool, error) {",
  "const idLen = 4",
  "if len(buf) < idLen {",
  "return 0, true, nil",
  "}",
  "id := binary.BigEndian.Uint32(buf[:4])",
  "stream := s.getStreamById(id)",
  "if stream == nil {",
  "return headerSize + idLen, false, nil",
  "}",
  "stream.halfClose()",
  "return headerSize + idLen, false, nil",
  "}"] := by rfl

theorem tie_skel_handleHotRestart : Gen.Skel.handleHotRestart = [
  "func handleHotRestart(s *Session, hdr header, buf []byte) (int, bool, error) {",
  "if len(buf) < epochIDLen {",
  "return 0, true, nil",
  "}",
  "epochID := binary.BigEndian.Uint64(buf[:epochIDLen])",
  "if s.manager == nil {",
  "return headerSize + epochIDLen, false, fmt.Errorf(\"unexpected hot restart event, session has no session manager\")",
  "}",
  "s.dispatcher.post(func() {",
  "s.manager.handleEvent(typeHotRestart, &sessionManagerHotRestartParams{epoch: epochID, session: s})",
  "})",
  "return headerSize + epochIDLen, false, nil",
  "}"] := by rfl

theorem tie_skel_handleHotRestartAck : Gen.Skel.handleHotRestartAck = [
  "func handleHotRestartAck(s *Session, hdr header, buf []byte) (int, bool, error) {",
  "if len(buf) < epochIDLen {",
  "return 0, true, nil",
  "}",
  "epochID := binary.BigEndian.Uint64(buf[:epochIDLen])",
  "if s.listener == nil {",
  "return headerSize + epochIDLen, false, fmt.Errorf(\"unexpected hot restart ack event, session has no listener\")",
  "}",
  "s.listener.mu.Lock()",
  "defer s.listener.mu.Unlock()",
  "if epochID == s.listener.epoch && s.listener.state == hotRestartState && s.state == hotRestartState {",
  "s.listener.hotRestartAckCount--",
  "s.state = hotRestartDoneState",
  "}",
  "return headerSize + epochIDLen, false, nil",
  "}"] := by rfl

theorem tie_skel_Session_getStream : Gen.Skel.Session_getStream = [
  "func (s *Session) getStream(id uint32, state streamState) (stream *Stream) {",
  "s.streamLock.Lock()",
  "stream, ok := s.streams[id]",
  "if !s.isClient && state == streamOpened && !ok {",
  "stream = newStream(s, id)",
  "s.streams[id] = stream",
  "s.streamLock.Unlock()",
  "if s.config.listenCallback != nil {",
  "s.config.listenCallback.OnNewStream(stream)",
  "} else {",
  "select {",
  "case s.acceptCh <- stream:",
  "case <-s.shutdownCh:",
  "}",
  "}",
  "return",
  "}",
  "s.streamLock.Unlock()",
  "return",
  "}"] := by rfl

theorem tie_skel_Session_getStreamById : Gen.Skel.Session_getStreamById = [
  "func (s *Session) getStreamById(id uint32) *Stream {",
  "s.streamLock.RLock()",
  "stream := s.streams[id]",
  "s.streamLock.RUnlock()",
  "return stream",
  "}"] := by rfl

theorem tie_skel_Session_handleStreamMessage : Gen.Skel.Session_handleStreamMessage = [
  "func (s *Session) handleStreamMessage(stream *Stream, wrapper bufferSliceWrapper, state streamState) error {",
  "if state == streamClosed {",
  "stream.halfClose()",
  "return nil",
  "}",
  "if err := stream.fillDataToReadBuffer(wrapper); err != nil {",
  "return err",
  "}",
  "return nil",
  "}"] := by rfl

theorem tie_skel_Session_extractShmMetadata : Gen.Skel.Session_extractShmMetadata = [
  "func (s *Session) extractShmMetadata(body []byte) (bufferPath string, queuePath string, err error) {",
  "offset := 0",
  "if len(body) < offset+2 {",
  "return \"\", \"\", fmt.Errorf(\"invalid share memory metadata, body length:%d\", len(body))",
  "}",
  "queuePathLen := int(binary.BigEndian.Uint16(body[0:2]))",
  "offset += 2",
  "if len(body) < offset+queuePathLen+2 {",
  "return \"\", \"\", fmt.Errorf(\"invalid share memory metadata, body length:%d queuePathLen:%d\", len(body), queuePathLen)",
  "}",
  "queuePath = string(body[offset : offset+queuePathLen])",
  "offset += queuePathLen",
  "bufferPathLen := int(binary.BigEndian.Uint16(body[offset : offset+2]))",
  "offset += 2",
  "if len(body) < offset+bufferPathLen {",
  "return \"\", \"\", fmt.Errorf(\"invalid share memory metadata, body length:%d bufferPathLen:%d\", len(body), bufferPathLen)",
  "}",
  "bufferPath = string(body[offset : offset+bufferPathLen])",
  "return",
  "}"] := by rfl

theorem tie_skel_Session_generateShmMetadata : Gen.Skel.Session_generateShmMetadata = [
  "func (s *Session) generateShmMetadata(eventType eventType) (data []byte) {",
  "data = make([]byte, headerSize+2+len(s.queueManager.path)+2+len(s.bufferManager.path))",
  "offset := headerSize",
  "binary.BigEndian.PutUint16(data[offset:offset+2], uint16(len(s.queueManager.path)))",
  "offset += 2",
  "copy(data[offset:offset+len(s.queueManager.path)], s.queueManager.path)",
  "offset += len(s.queueManager.path)",
  "binary.BigEndian.PutUint16(data[offset:offset+2], uint16(len(s.bufferManager.path)))",
  "offset += 2",
  "copy(data[offset:offset+len(s.bufferManager.path)], s.bufferManager.path)",
  "header(data).encode(uint32(len(data)), s.communicationVersion, eventType)",
  "return",
  "}"] := by rfl

end Tie.C13
