/-
  Model of the event connection (event_dispatcher_linux.go):
    (a) the read window: maybeExpandReadBuffer, onReadReady's loop over kernel read results, the early-callback threshold,
        commitRead with its shrink rule;
    (b) write and writev/doWritev as loops over kernel write results (partial counts, EAGAIN), with the iovec advance;
    (c) the `writing` flag protocol between the send loop and the fast-path writers (Session.send / wakeUpPeer / hotRestart).
  The kernel is an input: a list of results per call.
-/
namespace EventConn

/-! ### (a) read window -/

structure RCfg where
  onDataThreshold : Nat := 1048576      -- 1 MiB: callback before the socket is drained
  shrinkThreshold : Nat := 4194304      -- 4 MiB: buffers larger than this are halved when fully consumed
  deriving DecidableEq, Repr, Inhabited

structure RState where
  buf   : List Nat          -- readBuffer (length = len(c.readBuffer))
  start : Nat := 0          -- readStartOff
  end_  : Nat := 0          -- readEndOff
  deriving DecidableEq, Repr, Inhabited

/-- a kernel read result -/
inductive KRead where
  | eagain
  | eof                               -- read returned 0: peer closed
  | data (d : List Nat)               -- d.length bytes (the harness caps it by the room offered)
  deriving DecidableEq, Repr, Inhabited

def maybeExpand (s : RState) : RState :=
  if s.buf.length - s.end_ = 0 then
    let unread := (s.buf.drop s.start).take (s.end_ - s.start)
    { buf := unread ++ List.replicate (2 * s.buf.length - unread.length) 0, start := 0, end_ := unread.length }
  else s

def writeAt (l : List Nat) (at_ : Nat) (d : List Nat) : List Nat :=
  l.take at_ ++ d ++ l.drop (at_ + d.length)

/-- the kernel stored `d` at readEndOff -/
def store (s : RState) (d : List Nat) : RState := { s with buf := writeAt s.buf s.end_ d, end_ := s.end_ + d.length }

/-- what the callback is shown -/
def window (s : RState) : List Nat := (s.buf.drop s.start).take (s.end_ - s.start)

/-- commitRead(n) -/
def commitRead (cfg : RCfg) (s : RState) (n : Nat) : RState :=
  let s1 := { s with start := s.start + n }
  if s1.start = s1.end_ then
    let buf := if s1.buf.length > cfg.shrinkThreshold then s1.buf.take (s1.buf.length / 2) else s1.buf
    { buf, start := 0, end_ := 0 }
  else s1

/-- the consumer: given the window it is shown, how many bytes it consumes (0 ≤ k ≤ window length) -/
abbrev Consumer := List Nat

/-- one onReadReady invocation. `reads`: kernel results for the successive read calls; `cons`: bytes consumed by the
    successive callbacks (each capped by the window). Returns the state, the windows shown, unused inputs, closed flag. -/
def onReadReady (cfg : RCfg) : Nat → RState → List KRead → Consumer → List (List Nat) →
    RState × List (List Nat) × List KRead × Consumer × Bool
  | 0, s, reads, cons, shown => (s, shown, reads, cons, false)
  | f + 1, s, reads, cons, shown =>
    let s1 := maybeExpand s
    let finish (s : RState) (reads : List KRead) (closed : Bool) :=
      let w := window s
      let k := min (cons.headD 0) w.length
      (commitRead cfg s k, shown ++ [w], reads, cons.tail, closed)
    match reads with
    | [] => finish s1 [] false                       -- nothing more scripted: EAGAIN
    | .eagain :: r => finish s1 r false
    | .eof :: r => finish s1 r true
    | .data d :: r =>
      let d := d.take (s1.buf.length - s1.end_)
      let s2 := store s1 d
      if s2.end_ - s2.start ≥ cfg.onDataThreshold then
        let w := window s2
        let k := min (cons.headD 0) w.length
        onReadReady cfg f (commitRead cfg s2 k) r cons.tail (shown ++ [w])
      else onReadReady cfg f s2 r cons shown

/-! ### (b) write / writev -/

inductive KWrite where
  | eagain
  | n (k : Nat)                       -- the kernel accepted k bytes (capped by what was offered)
  deriving DecidableEq, Repr, Inhabited

/-- connEventHandler.write(data): returns the bytes accepted by the kernel in order, the number of calls, completed? -/
def write : Nat → List Nat → List KWrite → List Nat → Nat → List Nat × Nat × Bool
  | 0, _, _, acc, calls => (acc, calls, false)
  | f + 1, data, res, acc, calls =>
    if data.isEmpty then (acc, calls, true) else
    match res with
    | [] => (acc, calls, false)                    -- kernel makes no more progress
    | .eagain :: r => write f data r acc (calls + 1)
    | .n k :: r =>
      let k := min k data.length
      write f (data.drop k) r (acc ++ data.take k) (calls + 1)

structure IoVec where
  idx : Nat        -- which slice of `data` it points into
  off : Nat        -- offset of Base inside that slice
  len : Nat
  deriving DecidableEq, Repr, Inhabited

/-- bytes described by the iovecs [from, from+cnt) -/
def iovBytes (data : List (List Nat)) (iov : List IoVec) : List Nat :=
  iov.flatMap (fun v => ((data.getD v.idx []).drop v.off).take v.len)

/-- the "ack write" loop of doWritev: advance the iovecs by n bytes -/
def ackWrite : Nat → List (List Nat) → List IoVec → Nat → List IoVec
  | 0, _, iov, _ => iov
  | _, _, [], _ => []
  | f + 1, data, v :: r, n =>
    if n = 0 then v :: r
    else if n ≥ v.len then ackWrite f data r (n - v.len)
    else
      let len' := v.len - n
      { v with len := len', off := (data.getD v.idx []).length - len' } :: r

/-- doWritev over at most 256 slices; returns accepted bytes, calls, number of slices submitted, completed? -/
def doWritev : Nat → List (List Nat) → List IoVec → List KWrite → List Nat → Nat → List Nat × Nat × List KWrite × Bool
  | 0, _, _, res, acc, calls => (acc, calls, res, false)
  | f + 1, data, iov, res, acc, calls =>
    if iov.isEmpty then (acc, calls, res, true) else
    match res with
    | [] => (acc, calls, [], false)
    | .eagain :: r => doWritev f data iov r acc (calls + 1)
    | .n k :: r =>
      let offered := iovBytes data iov
      let k := min k offered.length
      doWritev f data (ackWrite (iov.length + 1) data iov k) r (acc ++ offered.take k) (calls + 1)

def mkIov (data : List (List Nat)) (base : Nat) : List IoVec :=
  (List.range data.length).map (fun i => { idx := base + i, off := 0, len := (data.getD i []).length })

/-- connEventHandler.writev(data...) in batches of 256 slices -/
def writev : Nat → List (List Nat) → List KWrite → List Nat → Nat → List Nat × Nat × Bool
  | 0, _, _, acc, calls => (acc, calls, false)
  | f + 1, data, res, acc, calls =>
    if data.isEmpty then (acc, calls, true) else
    let batch := data.take 256
    let iov := (List.range batch.length).map (fun i => ({ idx := i, off := 0, len := (batch.getD i []).length } : IoVec))
    let (acc', calls', res', ok) := doWritev (res.length + 2) batch iov res acc calls
    if ok then writev f (data.drop 256) res' acc' calls' else (acc', calls', false)

/-! ### (c) the `writing` flag: send loop vs fast-path writers -/

inductive WPc where
  | idle | holding | done           -- fast-path writer: before its CAS, between CAS and Store 0, finished (fast or slow path)
  deriving DecidableEq, Repr, Inhabited

inductive SPc where
  | waitItem | tryCas | parked | holding
  deriving DecidableEq, Repr, Inhabited

structure WState where
  writing : Bool := false
  token   : Bool := false            -- notifyContinueWriteCh (capacity 1) holds a token
  sendCh  : Nat := 0                 -- items queued for the send loop
  ws      : List WPc := []
  sl      : SPc := .waitItem
  inside  : Nat := 0                 -- ghost: number of threads currently inside the connection's write call
  maxInside : Nat := 0
  written : Nat := 0
  deriving DecidableEq, Repr, Inhabited

def stepW (s : WState) (t : Nat) : WState :=
  match s.ws[t]? with
  | some .idle =>
    if s.writing then { s with sendCh := s.sendCh + 1, ws := s.ws.set t .done }     -- slow path: hand over to the send loop
    else { s with writing := true, ws := s.ws.set t .holding, inside := s.inside + 1, maxInside := max s.maxInside (s.inside + 1) }
  | some .holding =>
    -- write the event, Store(writing, 0), asyncNotify(notifyContinueWriteCh)
    { s with writing := false, token := true, ws := s.ws.set t .done, inside := s.inside - 1, written := s.written + 1 }
  | _ => s

def stepS (s : WState) : WState :=
  match s.sl with
  | .waitItem => if s.sendCh > 0 then { s with sendCh := s.sendCh - 1, sl := .tryCas } else s
  | .tryCas =>
    if s.writing then { s with sl := .parked }
    else { s with writing := true, sl := .holding, inside := s.inside + 1, maxInside := max s.maxInside (s.inside + 1) }
  | .parked => if s.token then { s with token := false, sl := .tryCas } else s
  | .holding => { s with writing := false, sl := .waitItem, inside := s.inside - 1, written := s.written + 1 }

abbrev Who := Option Nat      -- none = the send loop

def stepWS (s : WState) : Who → WState
  | none => stepS s
  | some t => stepW s t

def runWS (s : WState) (sched : List Who) : WState := sched.foldl stepWS s


/-! ### (d) one epoll event -/


/-- the bits of one epoll event that connEventHandler.handleEvent looks at -/
structure Events where
  rdhup : Bool := false
  in_ : Bool := false
  out : Bool := false
  deriving DecidableEq, Repr

inductive EvAct where
  | remoteClose | readReady | writeReady
  deriving DecidableEq, Repr

/-- connEventHandler.handleEvent: a hang-up ends the connection; otherwise read-ready and write-ready are served
    INDEPENDENTLY, the read first -/
def handleEvent (e : Events) : List EvAct :=
  if e.rdhup then [.remoteClose]
  else (if e.in_ then [.readReady] else []) ++ (if e.out then [.writeReady] else [])

end EventConn
