/-
  Model of queue.put / queue.pop (queue.go) at the granularity of single shared-memory accesses.

  One step of a producer or of the consumer = one access (the one the instrumented source yields before)
  plus the local computation up to the next access.

  Producers are serialised by the process-local mutex; the locals of the producer inside the critical
  section live in `crit` (there is at most one such producer by construction of `lock`), the locals of the
  single consumer live in `cons`.  Cursors are `Nat` (assumption: fewer than 2^63 enqueues).
-/
namespace QueueC

structure Elem where
  seq : Nat
  off : Nat
  st  : Nat
  deriving DecidableEq, Repr, Inhabited

/-- program counter of the producer that holds the mutex -/
inductive PPc where
  | ldTail | ldHead | st0 | st1 | st2 | addTail | unlockOk | unlockFull
  deriving DecidableEq, Repr, Inhabited

structure Crit where
  tid : Nat
  e   : Elem
  pc  : PPc
  tl  : Nat      -- value loaded from q.tail
  deriving DecidableEq, Repr, Inhabited

inductive CPc where
  | ldHead | ldTail | ld0 | ld1 | ld2 | addHead
  deriving DecidableEq, Repr, Inhabited

structure Cons where
  pc : CPc
  h  : Nat       -- value loaded from q.head
  e  : Elem      -- fields read so far
  deriving DecidableEq, Repr, Inhabited

inductive Res where
  | ok | full | empty | got (e : Elem)
  deriving DecidableEq, Repr, Inhabited

structure State where
  cap   : Nat
  head  : Nat
  tail  : Nat
  ring  : List Elem
  crit  : Option Crit
  cons  : Cons
  prods : List (List Elem)      -- producer t: the elements it still has to put (first = current op)
  pops  : Nat                   -- pops the consumer still has to perform
  -- ghost / observation
  -- ghost: `enq`/`deq` start as `base` dummy entries so that list index = cursor value
  enq   : List Elem             -- successfully published elements in publication order
  deq   : List Elem             -- elements returned by the consumer, in order
  pres  : List (Nat × Res)      -- (producer, result) in completion order
  cres  : List Res              -- consumer results in order
  base  : Nat                   -- initial value of both cursors
  deriving Repr, Inhabited

def init (cap base : Nat) (prods : List (List Elem)) (pops : Nat) : State :=
  { cap, head := base, tail := base, ring := List.replicate cap default, crit := none,
    cons := { pc := .ldHead, h := 0, e := default }, prods, pops,
    enq := List.replicate base default, deq := List.replicate base default,
    pres := [], cres := [], base }

def State.idx (s : State) (i : Nat) : Nat := i % s.cap

def setSeq (r : List Elem) (i v : Nat) : List Elem := r.modify i (fun e => { e with seq := v })
def setOff (r : List Elem) (i v : Nat) : List Elem := r.modify i (fun e => { e with off := v })
def setSt  (r : List Elem) (i v : Nat) : List Elem := r.modify i (fun e => { e with st := v })

/-- label of the access performed, as printed by both sides of the correspondence check -/
def PPc.label : PPc → String
  | .ldTail => "ld_tail" | .ldHead => "ld_head" | .st0 => "slot0" | .st1 => "slot1" | .st2 => "slot2"
  | .addTail => "add_tail" | .unlockOk => "unlock" | .unlockFull => "unlock"

def CPc.label : CPc → String
  | .ldHead => "ld_head" | .ldTail => "ld_tail" | .ld0 => "slot0" | .ld1 => "slot1" | .ld2 => "slot2"
  | .addHead => "add_head"

/-- one step of producer `t`. Returns the new state and the label of the access (or "idle"). -/
def stepProd (s : State) (t : Nat) : State × String :=
  match s.crit with
  | some c =>
    if c.tid ≠ t then
      -- t is spinning on the mutex (or has nothing to do)
      match s.prods[t]? with
      | some (_ :: _) => (s, "lock")
      | _ => (s, "idle")
    else
      match c.pc with
      | .ldTail => ({ s with crit := some { c with pc := .ldHead, tl := s.tail } }, "ld_tail")
      | .ldHead =>
        if c.tl - s.head ≥ s.cap then ({ s with crit := some { c with pc := .unlockFull } }, "ld_head")
        else ({ s with crit := some { c with pc := .st0 } }, "ld_head")
      | .st0 => ({ s with ring := setSeq s.ring (s.idx c.tl) c.e.seq, crit := some { c with pc := .st1 } }, "slot0")
      | .st1 => ({ s with ring := setOff s.ring (s.idx c.tl) c.e.off, crit := some { c with pc := .st2 } }, "slot1")
      | .st2 => ({ s with ring := setSt s.ring (s.idx c.tl) c.e.st, crit := some { c with pc := .addTail } }, "slot2")
      | .addTail => ({ s with tail := s.tail + 1, enq := s.enq ++ [c.e], crit := some { c with pc := .unlockOk } }, "add_tail")
      | .unlockOk =>
        ({ s with crit := none, prods := s.prods.modify t List.tail, pres := s.pres ++ [(t, .ok)] }, "unlock")
      | .unlockFull =>
        ({ s with crit := none, prods := s.prods.modify t List.tail, pres := s.pres ++ [(t, .full)] }, "unlock")
  | none =>
    match s.prods[t]? with
    | some (e :: _) => ({ s with crit := some { tid := t, e := e, pc := .ldTail, tl := 0 } }, "lock")
    | _ => (s, "idle")

/-- one step of the consumer -/
def stepCons (s : State) : State × String :=
  if s.pops = 0 then (s, "idle") else
  let c := s.cons
  match c.pc with
  | .ldHead => ({ s with cons := { c with pc := .ldTail, h := s.head } }, "ld_head")
  | .ldTail =>
    if c.h ≥ s.tail then
      ({ s with cons := { c with pc := .ldHead }, pops := s.pops - 1, cres := s.cres ++ [.empty] }, "ld_tail")
    else ({ s with cons := { c with pc := .ld0 } }, "ld_tail")
  | .ld0 => ({ s with cons := { c with pc := .ld1, e := { c.e with seq := (s.ring.getD (s.idx c.h) default).seq } } }, "slot0")
  | .ld1 => ({ s with cons := { c with pc := .ld2, e := { c.e with off := (s.ring.getD (s.idx c.h) default).off } } }, "slot1")
  | .ld2 => ({ s with cons := { c with pc := .addHead, e := { c.e with st := (s.ring.getD (s.idx c.h) default).st } } }, "slot2")
  | .addHead =>
    ({ s with head := s.head + 1, deq := s.deq ++ [c.e], cons := { c with pc := .ldHead },
              pops := s.pops - 1, cres := s.cres ++ [.got c.e] }, "add_head")

/-- a schedule entry: `none` = the consumer, `some t` = producer t -/
abbrev Who := Option Nat

def step (s : State) (w : Who) : State :=
  match w with
  | none => (stepCons s).1
  | some t => (stepProd s t).1

def run (s : State) (sched : List Who) : State := sched.foldl step s

end QueueC
