/-
  Model of the wake-up protocol between producers (queue.put ; Session.wakeUpPeer) and the consumer's
  drain-and-go-idle loop (handlePolling ; queue.markNotWorking), session.go / protocol_manager.go / queue.go.

  Step granularity (the scheduling points the harness enables for this property):
    producer : put (atomic) | CAS workingFlag 0→1 (+ the CAS on `writing` that follows immediately) | write the polling event
    consumer : take an event | one pop | store flag 0 | re-check size | store flag 1
  `inflight` = polling events written to the control connection (or handed to the send loop) and not yet handled.
-/
namespace Wake

inductive PPc where
  | put | cas | write | done
  deriving DecidableEq, Repr, Inhabited

inductive CPc where
  | idle | pop | store0 | check | store1
  deriving DecidableEq, Repr, Inhabited

structure Prod where
  pc   : PPc := .put
  left : Nat := 0        -- puts still to perform after the current one
  deriving DecidableEq, Repr, Inhabited

structure State where
  cap      : Nat
  qlen     : Nat := 0
  flag     : Bool := false       -- queue.workingFlag
  writing  : Bool := false       -- Session.writing (fast-path writer inside the control connection)
  inflight : Nat := 0
  cons     : CPc := .idle
  prods    : List Prod := []
  consumed : Nat := 0
  events   : Nat := 0            -- polling events ever sent
  fulls    : Nat := 0
  deriving DecidableEq, Repr, Inhabited

def init (cap : Nat) (counts : List Nat) : State :=
  { cap, prods := counts.map (fun k => if k = 0 then { pc := .done, left := 0 } else { pc := .put, left := k - 1 }) }

def nextOp (p : Prod) : Prod := if p.left = 0 then { p with pc := .done } else { pc := .put, left := p.left - 1 }

def stepProd (s : State) (t : Nat) : State × String :=
  match s.prods[t]? with
  | none => (s, "idle")
  | some p =>
    match p.pc with
    | .done => (s, "idle")
    | .put =>
      if s.qlen < s.cap then ({ s with qlen := s.qlen + 1, prods := s.prods.set t { p with pc := .cas } }, "put")
      else ({ s with fulls := s.fulls + 1, prods := s.prods.set t (nextOp p) }, "put")
    | .cas =>
      if s.flag then ({ s with prods := s.prods.set t (nextOp p) }, "cas_flag")
      else if s.writing then
        -- lost the race for `writing`: the event is handed to the send loop (slow path) — it is in flight
        ({ s with flag := true, inflight := s.inflight + 1, events := s.events + 1, prods := s.prods.set t (nextOp p) }, "cas_flag")
      else ({ s with flag := true, writing := true, prods := s.prods.set t { p with pc := .write } }, "cas_flag")
    | .write =>
      ({ s with inflight := s.inflight + 1, events := s.events + 1, writing := false, prods := s.prods.set t (nextOp p) }, "write")

def stepCons (s : State) : State × String :=
  match s.cons with
  | .idle => if s.inflight > 0 then ({ s with inflight := s.inflight - 1, cons := .pop }, "take") else (s, "cidle")
  | .pop =>
    if s.qlen > 0 then ({ s with qlen := s.qlen - 1, consumed := s.consumed + 1 }, "pop")
    else ({ s with cons := .store0 }, "pop")
  | .store0 => ({ s with flag := false, cons := .check }, "store0")
  | .check => if s.qlen = 0 then ({ s with cons := .idle }, "check") else ({ s with cons := .store1 }, "check")
  | .store1 => ({ s with flag := true, cons := .pop }, "store1")

abbrev Who := Option Nat   -- none = consumer

def step (s : State) (w : Who) : State :=
  match w with
  | none => (stepCons s).1
  | some t => (stepProd s t).1

def run (s : State) (sched : List Who) : State := sched.foldl step s

end Wake
