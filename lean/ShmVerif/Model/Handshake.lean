/-
  Message-level model of session establishment:
    protocol_manager.go : clientGetProtocolInitializer / serverGetProtocolInitializer / createProtoVersionInitializer,
                          handleExchangeVersion, handleShareMemoryByFilePath, handleShareMemoryByMemFd,
                          sendShareMemoryByFilePath, sendMemFdToPeer, waitEventHeader
    protocol_initializer.go : protocolInitializerV2.Init, protocolInitializerV3.clientInit / serverInit
    session.go : initProtocol (the exchange raced against InitializeTimeout), newSession's clean-up on failure
  Each end is a deterministic program over the messages it receives; the connection is a reliable FIFO; a read finds the
  next message, or the connection closed (`eof`), or nothing until the time-out (`silent`).
-/
namespace Handshake

inductive Mem where | file | memfd
  deriving DecidableEq, Repr, Inhabited

/-- handshake messages (header version, type, and what the body identifies) -/
inductive Msg where
  | exVer (v : Nat)                       -- typeExchangeProtoVersion, header version v
  | metaFile (v : Nat) (mem : Nat) (good : Bool)   -- typeShareMemoryByFilePath: names memory `mem`; `good` = the paths can be mapped
  | metaMemfd (v : Nat) (mem : Nat)       -- typeShareMemoryByMemfd
  | ackReadyFd                            -- typeAckReadyRecvFD
  | fds (mem : Nat) (good : Bool)         -- SCM_RIGHTS with the two descriptors of memory `mem`
  | ackShm                                -- typeAckShareMemory
  | other (ty : Nat) (v : Nat)            -- any other event type
  deriving DecidableEq, Repr, Inhabited

inductive Err where
  | eof | timeout | proto | version | mapping
  deriving DecidableEq, Repr, Inhabited

/-- how a read ends when the peer has nothing more to say -/
inductive Tail where
  | eof | silent
  | deaf      -- the peer stops receiving just before its last message (shutdown of its read side, or it dies with the message
              -- in flight) and then closes: the reply to that message cannot be written
  deriving DecidableEq, Repr, Inhabited

def Tail.err : Tail → Err | .eof => .eof | .silent => .timeout | .deaf => .eof

/-- can the reply to a message be written?  `rest` = what the peer sends after that message -/
def canReply (rest : List Msg) (tail : Tail) : Bool := !(tail = .deaf && rest.isEmpty)

structure Result where
  res     : Option Err          -- none = success
  version : Nat                 -- Session.communicationVersion at the end
  mapped  : Option Nat          -- which memory this end has mapped when it returns (after clean-up on failure: none)
  sent    : List Msg            -- what it wrote, in order
  deriving DecidableEq, Repr, Inhabited

def maxVersion : Nat := 3

/-- the next message of an input stream, or how the stream ends -/
def next (inp : List Msg) (tail : Tail) : Except Err (Msg × List Msg) :=
  match inp with
  | m :: rest => .ok (m, rest)
  | [] => .error tail.err

/-- newSession(client): `mem` is the memory it created (initMemManager), `inp` what the server sends -/
def client (memType : Mem) (mem : Nat) (inp : List Msg) (tail : Tail) : Result :=
  match memType with
  | .file =>
    -- "temporarily ensure version compatibility": file mappings always use the version-2 exchange, which has no reply
    { res := none, version := 2, mapped := some mem, sent := [.metaFile 2 mem true] }
  | .memfd =>
    let s1 := [Msg.exVer maxVersion]
    match next inp tail with
    | .error e => { res := some e, version := 2, mapped := none, sent := s1 }
    | .ok (m, inp1) =>
      match m with
      | .exVer sv =>
        let chosen := min maxVersion sv
        if chosen = 3 then
          let s2 := s1 ++ [.metaMemfd 3 mem]
          match next inp1 tail with
          | .error e => { res := some e, version := 3, mapped := none, sent := s2 }
          | .ok (m2, inp2) =>
            if m2 = .ackReadyFd then
              let s3 := s2 ++ [.fds mem true]
              match next inp2 tail with
              | .error e => { res := some e, version := 3, mapped := none, sent := s3 }
              | .ok (m3, _) =>
                if m3 = .ackShm then { res := none, version := 3, mapped := some mem, sent := s3 }
                else { res := some .proto, version := 3, mapped := none, sent := s3 }
            else { res := some .proto, version := 3, mapped := none, sent := s2 }
        else if chosen = 2 then
          -- version 2 against a memfd mapping: the metadata is sent by path; there is no reply to wait for
          { res := none, version := 2, mapped := some mem, sent := s1 ++ [.metaFile 2 mem false] }
        else { res := some .version, version := 2, mapped := none, sent := s1 }
      | _ => { res := some .proto, version := 2, mapped := none, sent := s1 }

/-- newSession(server): `inp` what the client sends -/
def server (inp : List Msg) (tail : Tail) : Result :=
  match next inp tail with
  | .error e => { res := some e, version := 2, mapped := none, sent := [] }
  | .ok (m, inp1) =>
    let v := match m with
      | .exVer v => v | .metaFile v _ _ => v | .metaMemfd v _ => v | .other _ v => v
      | .ackReadyFd => 3 | .ackShm => 3 | .fds _ _ => 2      -- (the scripted peers stamp acks with version 3; descriptors carry no header)
    if v = 2 then
      match m with
      | .metaFile _ mem good =>
        if good then { res := none, version := 2, mapped := some mem, sent := [] }
        else { res := some .mapping, version := 2, mapped := none, sent := [] }
      | _ => { res := some .proto, version := 2, mapped := none, sent := [] }
    else if v = 3 then
      match m with
      | .exVer cv =>
        let ver := min cv maxVersion
        let s1 := [Msg.exVer maxVersion]
        if !canReply inp1 tail then { res := some .eof, version := ver, mapped := none, sent := [] } else
        match next inp1 tail with
        | .error e => { res := some e, version := ver, mapped := none, sent := s1 }
        | .ok (m2, inp2) =>
          match m2 with
          | .metaFile _ mem good =>
            if good then
              -- the memory is mapped, then the acknowledgement is written: if that fails newSession undoes the mapping
              if canReply inp2 tail then { res := none, version := ver, mapped := some mem, sent := s1 ++ [.ackShm] }
              else { res := some .eof, version := ver, mapped := none, sent := s1 }
            else { res := some .mapping, version := ver, mapped := none, sent := s1 }
          | .metaMemfd _ _ =>
            if !canReply inp2 tail then { res := some .eof, version := ver, mapped := none, sent := s1 } else
            let s2 := s1 ++ [.ackReadyFd]
            match next inp2 tail with
            | .error e =>
              -- recvmsg returns (0, 0, nil) on a closed connection: reported as "expect oobnLen", not as EOF
              { res := some (if e = .eof then .proto else e), version := ver, mapped := none, sent := s2 }
            | .ok (m3, inp3) =>
              match m3 with
              | .fds mem' good =>
                -- the descriptors are what gets mapped; the paths of the metadata only name it
                if good then
                  if canReply inp3 tail then { res := none, version := ver, mapped := some mem', sent := s2 ++ [.ackShm] }
                  else { res := some .eof, version := ver, mapped := none, sent := s2 }
                else { res := some .mapping, version := ver, mapped := none, sent := s2 }
              | _ => { res := some .proto, version := ver, mapped := none, sent := s2 }
          | _ => { res := some .proto, version := ver, mapped := none, sent := s1 }
      | _ => { res := some .proto, version := 3, mapped := none, sent := [] }
    else { res := some .version, version := v, mapped := none, sent := [] }

/-- both real ends over a reliable connection: each reads what the other wrote (the exchange is strictly alternating,
    so the fixed point is reached by giving each end the other's full output) -/
def pair (memType : Mem) (mem : Nat) : Result × Result :=
  -- three rounds are enough for the longest exchange (exVer / ackReadyFd / ackShm)
  let s0 := server (client memType mem [] .silent).sent .silent
  let c1 := client memType mem s0.sent .silent
  let s1 := server c1.sent .silent
  let c2 := client memType mem s1.sent .silent
  let s2 := server c2.sent .silent
  let c3 := client memType mem s2.sent .silent
  let s3 := server c3.sent .silent
  (client memType mem s3.sent .silent, s3)

end Handshake
