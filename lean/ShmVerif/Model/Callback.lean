/-
  Model of callback mode (stream.go: fillDataToReadBuffer and the goroutine it spawns, halfClose, Close / close),
  at the granularity of the atomic accesses to Stream.state, callbackInProcess, callbackCloseState
  (pending.add / moveTo are mutex-protected and merge into the neighbouring step).

  Bytes are counted, not valued: `pending` = bytes in pendingData, `recv` = bytes in the read buffer.
  Threads: the session event loop `E` (data arrivals, the peer's close), goroutines `G i` spawned by the hand-off, the user
  `U` calling Close from outside a callback.  OnData consumes any number of the offered bytes and may call Close itself.
-/
namespace Callback

inductive St where
  | opened | closed | half
  | localClosing                 -- Close was called while a callback goroutine was in process (it finishes the close)
  deriving DecidableEq, Repr, Inhabited

/-- the numeric value of stream.go's streamState constants -/
def St.num : St → Nat | .opened => 0 | .closed => 1 | .half => 2 | .localClosing => 3

inductive EPc where
  | idle
  | dataLoad                     -- pending.add done; about to load the stream state
  | dataCas                      -- stream not closed: about to CAS callbackInProcess
  | pcloseCas                    -- halfClose: about to CAS state opened -> half
  deriving DecidableEq, Repr, Inhabited

inductive GPc where
  | start                        -- spawned, nothing executed yet
  | loadState                    -- moveTo done; about to evaluate IsOpen() of the loop condition
  | in3 | in2 | in1              -- inside OnData which is calling Close: 3, 2, 1 accesses of Close still to do
  | store0                       -- loop left; about to Store(callbackInProcess, 0)
  | loadClose                    -- about to Load(callbackCloseState) (and, if no close was requested, look at pending)
  | recheck                      -- pending was non-empty: about to CAS(callbackInProcess, 0, 1)
  | closeLoad                    -- s.close() at the end of the goroutine (after wg.Done): about to load the state
  | closeCas (old : St)          -- about to CAS(state, old, closed)
  | waitG (old : St)             -- CAS won: waiting for the other callback goroutines (asyncGoroutineWg)
  | cleaning (old : St)          -- wait over: clean() is about to load the state (for its log line), then releases everything
  | done
  deriving DecidableEq, Repr, Inhabited

inductive UPc where
  | start | store | loadIn | casHalf | closeLoad | closeCas (old : St) | waitG (old : St) | cleaning (old : St) | done
  deriving DecidableEq, Repr, Inhabited

structure State where
  state     : St := .opened
  inProcess : Bool := false
  closeReq  : Bool := false          -- callbackCloseState == callbackWaitExit
  pending   : Nat := 0
  recv      : Nat := 0
  e         : EPc := .idle
  gs        : List GPc := []
  u         : UPc := .start
  -- ghost / observation
  arrived   : Nat := 0               -- bytes handed to fillDataToReadBuffer
  offered   : Nat := 0               -- high-water mark (position in arrival order) of the bytes shown to OnData
  consumed  : Nat := 0
  dropped   : Nat := 0               -- bytes released without having been consumed (stream closed)
  inOnData  : Nat := 0               -- goroutines currently inside an OnData call
  maxOnData : Nat := 0
  calls     : Nat := 0
  notified  : Nat := 0               -- close notifications sent to the peer
  onLocal   : Nat := 0               -- OnLocalClose invocations
  onRemote  : Nat := 0
  deriving DecidableEq, Repr, Inhabited

/-- script of one OnData call: how many of the offered bytes it consumes, whether it calls Close -/
structure OnData where
  consume : Nat
  close   : Bool
  deriving DecidableEq, Repr, Inhabited

def moveTo (s : State) : State := { s with recv := s.recv + s.pending, pending := 0 }

/-- a goroutine that has not yet called asyncGoroutineWg.Done() -/
def GPc.preDone : GPc → Bool
  | .start | .loadState | .in3 | .in2 | .in1 | .store0 | .loadClose | .recheck => true
  | _ => false

/-- a goroutine that owns callbackInProcess -/
def GPc.active : GPc → Bool
  | .start | .loadState | .in3 | .in2 | .in1 | .store0 => true
  | _ => false

def wgZero (s : State) : Bool := s.gs.all (fun g => !g.preDone)

/-- close(): what follows the wait for the callback goroutines (old state `old`): clean, and for a stream that was
    open: OnLocalClose and the notification of the peer -/
def closeEffects (s : State) (old : St) : State :=
  let s1 := { s with dropped := s.dropped + s.pending + s.recv, pending := 0, recv := 0 }
  if old = .opened ∨ old = .localClosing then { s1 with onLocal := s1.onLocal + 1, notified := s1.notified + 1 } else s1

inductive ECmd where
  | none | data (n : Nat) | pclose
  deriving DecidableEq, Repr, Inhabited

/-- one step of the event loop; `cmd` is what it starts when idle -/
def stepE (s : State) (cmd : ECmd) : State :=
  match s.e with
  | .idle =>
    match cmd with
    | .none => s
    | .data n => { s with pending := s.pending + n, arrived := s.arrived + n, e := .dataLoad }
    | .pclose => { s with e := .pcloseCas }
  | .dataLoad =>
    if s.state = .closed then { s with dropped := s.dropped + s.pending + s.recv, pending := 0, recv := 0, e := .idle }
    else { s with e := .dataCas }
  | .dataCas =>
    if s.inProcess then { s with e := .idle }
    else { s with inProcess := true, e := .idle, gs := s.gs ++ [.start] }
  | .pcloseCas =>
    if s.state = .opened then { s with state := .half, onRemote := s.onRemote + 1, e := .idle } else { s with e := .idle }

def setG (s : State) (i : Nat) (pc : GPc) : State := { s with gs := s.gs.set i pc }

/-- one step of goroutine `i`; `od` scripts the OnData call it may start -/
def stepG (s : State) (i : Nat) (od : OnData) : State :=
  match s.gs[i]? with
  | none => s
  | some pc =>
    match pc with
    | .start => setG (moveTo s) i .loadState
    | .loadState =>
      if s.state = .opened ∧ s.recv > 0 then
        -- OnData(recvBuf) runs: it is offered everything in the read buffer
        let k := min od.consume s.recv
        let s1 := { s with calls := s.calls + 1, offered := max s.offered (s.consumed + s.recv), consumed := s.consumed + k, recv := s.recv - k, maxOnData := max s.maxOnData (s.inOnData + 1) }
        if od.close then setG { s1 with inOnData := s1.inOnData + 1 } i .in3
        else setG (moveTo s1) i .loadState
      else setG s i .store0
    | .in3 => setG { s with closeReq := true } i .in2          -- Close: Store(callbackCloseState, waitExit)
    | .in2 => setG s i .in1                                     -- Close: Load(callbackInProcess) = 1
    | .in1 =>                                                          -- Close: CAS(state, opened, localClosing); OnData returns
      let s1 := if s.state = .opened then { s with state := .localClosing } else s
      setG (moveTo { s1 with inOnData := s1.inOnData - 1 }) i .loadState
    | .store0 => setG { s with inProcess := false } i .loadClose
    | .loadClose =>
      if s.closeReq then setG s i .closeLoad
      else if s.pending > 0 then setG s i .recheck else setG s i .done
    | .recheck =>
      if s.inProcess then setG s i .done else setG (moveTo { s with inProcess := true }) i .loadState
    | .closeLoad => if s.state = .closed then setG s i .done else setG s i (.closeCas s.state)
    | .closeCas old =>
      if s.state = old then
        let s1 := setG { s with state := .closed } i (.waitG old)
        if wgZero s1 then setG s1 i (.cleaning old) else s1
      else setG s i .closeLoad                    -- the state changed between the load and the CAS: close() starts over
    | .waitG old => if wgZero s then setG s i (.cleaning old) else s
    | .cleaning old => setG (closeEffects s old) i .done
    | .done => s

/-- the user calls Close from outside any callback -/
def stepU (s : State) : State :=
  match s.u with
  | .start => { s with u := .store }
  | .store => { s with closeReq := true, u := .loadIn }
  | .loadIn => if s.inProcess then { s with u := .casHalf } else { s with u := .closeLoad }
  | .casHalf => if s.state = .opened then { s with state := .localClosing, u := .done } else { s with u := .done }
  | .closeLoad => if s.state = .closed then { s with u := .done } else { s with u := .closeCas s.state }
  | .closeCas old =>
    if s.state = old then
      let s1 := { s with state := .closed, u := .waitG old }
      if wgZero s1 then { s1 with u := .cleaning old } else s1
    else { s with u := .closeLoad }
  | .waitG old => if wgZero s then { s with u := .cleaning old } else s
  | .cleaning old => { closeEffects s old with u := .done }
  | .done => s

inductive Step where
  | e (cmd : ECmd)
  | g (i : Nat) (od : OnData)
  | u
  deriving DecidableEq, Repr, Inhabited

def step (s : State) : Step → State
  | .e cmd => stepE s cmd
  | .g i od => stepG s i od
  | .u => stepU s

def run (s : State) (sched : List Step) : State := sched.foldl step s

def init : State := {}

/-- nothing is in progress: the event loop is idle, every goroutine has finished, the user is not inside Close -/
def State.quiescent (s : State) : Bool :=
  s.e == .idle && s.gs.all (· == .done) && (s.u == .start || s.u == .done)

end Callback
