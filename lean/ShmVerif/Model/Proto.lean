import ShmVerif.Model.Pipe
/-
  Operation-level model of two sessions (client `a`, server `b`) multiplexing streams over one shared buffer memory,
  two IO queues with their working flags, and the control connection in both directions:
    stream.go   : Flush (queue-full exit with an expired write deadline), Close/close/clean/halfClose, readMore's
                  state → error mapping, pendingData.add/clear, fillDataToReadBuffer
    session.go  : OpenStream, getStream (server creates a stream for unknown "opened" data), getStreamById,
                  handleStreamMessage, onStreamClose, wakeUpPeer
    protocol_manager.go : handlePolling's drain loop (incl. data for a stream that no longer exists), handleStreamClose,
                  handleFallbackData
  Each operation is atomic here (the lock-protected sections of the code); interleavings INSIDE the free list, the queue,
  the wake-up hand-off are C01/C02, C04, C05.  Delivery of control-connection events is an explicit step.
-/
namespace Proto
open LB

inductive SState where
  | opened | closed | halfClosed
  deriving DecidableEq, Repr, Inhabited

def SState.num : SState → Nat
  | .opened => 0 | .closed => 1 | .halfClosed => 2

structure PStream where
  id : Nat
  state : SState := .opened
  send : LBuf := {}
  recv : LBuf := {}
  pending : List Wrap := []
  inFallback : Bool := false
  deriving DecidableEq, Repr, Inhabited

structure QElem where
  seq : Nat
  off : Nat
  status : Nat
  deriving DecidableEq, Repr, Inhabited

inductive KEv where
  | polling
  | streamClose (id : Nat)
  | fallback (id status : Nat) (data : List Nat)
  deriving DecidableEq, Repr, Inhabited

structure End where
  isClient : Bool
  streams : List PStream := []      -- every stream object ever created on this end (the harness keeps them too)
  table : List Nat := []            -- ids currently registered in Session.streams
  nextId : Nat
  accepted : Nat := 0               -- streams surfaced through OnNewStream (server)
  deriving DecidableEq, Repr, Inhabited

structure Sys where
  m : Mem
  a : End := { isClient := true, nextId := 1 }
  b : End := { isClient := false, nextId := 2 }
  qab : List QElem := []            -- a's send queue = b's receive queue
  qba : List QElem := []
  fab : Bool := false               -- workingFlag of qab
  fba : Bool := false
  kab : List KEv := []              -- control connection a → b
  kba : List KEv := []
  qcap : Nat := 8
  held : List (List BS) := []
  deriving Repr, Inhabited

/-- which end an operation addresses -/
inductive Side where | a | b
  deriving DecidableEq, Repr, Inhabited

def Sys.me (s : Sys) : Side → End | .a => s.a | .b => s.b
def Sys.setMe (s : Sys) : Side → End → Sys | .a, e => { s with a := e } | .b, e => { s with b := e }
def Sys.outQ (s : Sys) : Side → List QElem | .a => s.qab | .b => s.qba
def Sys.setOutQ (s : Sys) : Side → List QElem → Sys | .a, q => { s with qab := q } | .b, q => { s with qba := q }
def Sys.outFlag (s : Sys) : Side → Bool | .a => s.fab | .b => s.fba
def Sys.setOutFlag (s : Sys) : Side → Bool → Sys | .a, f => { s with fab := f } | .b, f => { s with fba := f }
def Sys.outK (s : Sys) : Side → List KEv | .a => s.kab | .b => s.kba
def Sys.setOutK (s : Sys) : Side → List KEv → Sys | .a, k => { s with kab := k } | .b, k => { s with kba := k }
def Side.peer : Side → Side | .a => .b | .b => .a

def End.find (e : End) (id : Nat) : Option PStream := e.streams.find? (·.id = id)
def End.upd (e : End) (id : Nat) (f : PStream → PStream) : End :=
  { e with streams := e.streams.map (fun x => if x.id = id then f x else x) }
def End.registered (e : End) (id : Nat) : Bool := e.table.contains id

/-- Session.wakeUpPeer: only the winner of the flag CAS writes a polling event -/
def wake (s : Sys) (x : Side) : Sys :=
  if s.outFlag x then s else (s.setOutFlag x true).setOutK x (s.outK x ++ [.polling])

/-- Session.OpenStream (client side of the harness): a fresh registered stream -/
def openStream (s : Sys) (x : Side) : Sys × Nat :=
  let e := s.me x
  let id := e.nextId + 1
  (s.setMe x { e with nextId := id, streams := e.streams ++ [{ id }], table := e.table ++ [id] }, id)

inductive Res where
  | ok | noop | closed | timeout | eos | panic | shm | fallback | missing
  deriving DecidableEq, Repr, Inhabited

/-- Stream.Flush with an already expired write deadline -/
def flush (s : Sys) (x : Side) (id : Nat) : Sys × Res :=
  match (s.me x).find id with
  | none => (s, .missing)
  | some st =>
    if st.send.len = 0 then (s, .noop) else
    if st.state ≠ .opened then
      let (m', l') := st.send.recycle s.m
      ({ s with m := m' }.setMe x ((s.me x).upd id (fun y => { y with send := l' })), .closed)
    else
      match st.send.done s.m with
      | none => (s, .panic)
      | some (m1, s1) =>
        let inFb := st.inFallback || !s1.fromShm
        if inFb then
          let data := s1.underlying m1
          let (m2, s2) := s1.recycle m1
          let sys := { s with m := m2 }.setMe x ((s.me x).upd id (fun y => { y with send := s2.clean, inFallback := true }))
          (sys.setOutK x (sys.outK x ++ [.fallback id 0 data]), .fallback)
        else
          match s1.sl.head? with
          | none => (s, .panic)
          | some f =>
            match f.slot with
            | none => (s, .panic)
            | some off =>
              if (s.outQ x).length ≥ s.qcap then
                -- queue full and the write deadline has passed: ErrTimeout, the message is recycled
                let (m2, s2) := s1.recycle m1
                ({ s with m := m2 }.setMe x ((s.me x).upd id (fun y => { y with send := s2.clean })), .timeout)
              else
                let sys := { s with m := m1 }.setMe x ((s.me x).upd id (fun y => { y with send := s1.clean }))
                (wake (sys.setOutQ x (sys.outQ x ++ [{ seq := id, off, status := 0 }])) x, .shm)

/-- pendingData.clear: every pending message goes back to the allocator -/
def clearPending (m : Mem) (p : List Wrap) : Mem :=
  p.foldl (fun m w => match w with
    | .fb _ => m
    | .shm off => m.recycleChain (m.slots.length + 2) off) m

/-- Stream.clean: leave the table, drop pending data, recycle both buffers -/
def cleanStream (s : Sys) (x : Side) (id : Nat) : Sys :=
  match (s.me x).find id with
  | none => s
  | some st =>
    let m1 := clearPending s.m st.pending
    let (m2, r2) := st.recv.recycle m1
    let (m3, s3) := st.send.recycle m2
    let e := (s.me x).upd id (fun y => { y with pending := [], recv := r2, send := s3 })
    { s with m := m3 }.setMe x { e with table := e.table.filter (· ≠ id) }

/-- Stream.Close (no callbacks installed) -/
def closeStream (s : Sys) (x : Side) (id : Nat) : Sys × Res :=
  match (s.me x).find id with
  | none => (s, .missing)
  | some st =>
    if st.state = .closed then (s, .ok) else
    let s1 := s.setMe x ((s.me x).upd id (fun y => { y with state := .closed }))
    let s2 := cleanStream s1 x id
    if st.state = .opened then
      -- (repaired code) in fallback state the close follows the data on the connection
      if st.inFallback ∨ (s2.outQ x).length ≥ s2.qcap then
        (s2.setOutK x (s2.outK x ++ [.streamClose id]), .ok)
      else (wake (s2.setOutQ x (s2.outQ x ++ [{ seq := id, off := 0, status := 1 }])) x, .ok)
    else (s2, .ok)

/-- Session.getStream(id, state): server sessions create (and surface) a stream for unknown "opened" traffic -/
def getStream (e : End) (id : Nat) (state : Nat) : End × Option PStream :=
  if e.registered id then (e, e.find id)
  else if !e.isClient ∧ state = 0 then
    -- a stream object with this id may exist already (closed earlier): the harness keeps the newest
    let e' := { e with streams := (e.streams.filter (·.id ≠ id)) ++ [{ id }], table := e.table ++ [id], accepted := e.accepted + 1 }
    (e', e'.find id)
  else (e, none)

def halfClose (st : PStream) : PStream := if st.state = .opened then { st with state := .halfClosed } else st

/-- Session.handleStreamMessage for a stream that exists -/
def streamMessage (s : Sys) (x : Side) (id : Nat) (w : Wrap) (state : Nat) : Sys :=
  if state = 1 then s.setMe x ((s.me x).upd id halfClose)
  else
    let s1 := s.setMe x ((s.me x).upd id (fun y => { y with pending := y.pending ++ [w] }))
    match (s1.me x).find id with
    | none => s1
    | some st =>
      if st.state = .closed then
        let m1 := clearPending s1.m st.pending
        let (m2, r2) := st.recv.recycle m1
        { s1 with m := m2 }.setMe x ((s1.me x).upd id (fun y => { y with pending := [], recv := r2 }))
      else s1

/-- the drain loop of handlePolling on end `x` (consumer of the peer's send queue), then markNotWorking -/
def drain : Nat → Sys → Side → Sys
  | 0, s, _ => s
  | f + 1, s, x =>
    match s.outQ x.peer with
    | [] => s.setOutFlag x.peer false
    | el :: rest =>
      let s1 := s.setOutQ x.peer rest
      let state := el.status % 256
      let (e', st) := getStream (s1.me x) el.seq state
      let s2 := s1.setMe x e'
      match st with
      | none =>
        if state = 0 then drain f { s2 with m := s2.m.recycleChain (s2.m.slots.length + 2) el.off } x
        else drain f s2 x
      | some _ => drain f (streamMessage s2 x el.seq (.shm el.off) state) x

/-- the event loop of end `x` handles the next event the peer wrote -/
def deliver (s : Sys) (x : Side) : Sys × Res :=
  match s.outK x.peer with
  | [] => (s, .noop)
  | ev :: rest =>
    let s1 := s.setOutK x.peer rest
    match ev with
    | .polling => (drain ((s1.outQ x.peer).length + 1) s1 x, .ok)
    | .streamClose id =>
      if (s1.me x).registered id then (s1.setMe x ((s1.me x).upd id halfClose), .ok) else (s1, .ok)
    | .fallback id status data =>
      let (e', st) := getStream (s1.me x) id (status % 256)
      let s2 := s1.setMe x e'
      match st with
      | none => (s2, .ok)
      | some _ =>
        let fbs : BS := { heap := data, cap := data.length, wi := data.length }
        (streamMessage s2 x id (.fb fbs) (status % 256), .ok)

end Proto
