/-
  Model of the shared-memory layout computations, arithmetic AS TYPED IN GO:
    buffer_manager.go : createBufferManager, createFreeBufferList, countBufferListMemSize,
                        mappingBufferManager, mappingFreeBufferList
    queue.go          : countQueueMemSize, createQueueFromBytes, mappingQueueFromBytes, the halves taken by
                        create*/mapping* queue managers
    config.go         : VerifyConfig (the part that constrains sizes / percents)
  uint32 expressions are reduced `% 2^32`, the one uint64 product `% 2^64`, `int` expressions are `Int`
  (a negative int converted to uint64 becomes huge), uint16 truncation of the list count `% 2^16`,
  a zero divisor is the outcome `panic`.
-/
namespace Layout

def W32 : Nat := 4294967296
def W64 : Nat := 18446744073709551616
def u32 (x : Nat) : Nat := x % W32

def bufferHeaderSize : Nat := 20
def bufferListHeaderSize : Nat := 36
def bufferManagerHeaderSize : Nat := 8
def bmCapOffset : Nat := 4

structure Pair where
  size : Nat
  percent : Nat
  deriving DecidableEq, Repr, Inhabited

/-- geometry of one size class as both sides see it -/
structure ListGeom where
  off     : Nat      -- offset of the 36-byte list header in the mapping
  num     : Nat      -- number of slots (cap)
  capPer  : Nat      -- capacity of one slot
  regionOff : Nat    -- offset of the slot region = off + 36
  regionLen : Nat    -- length of the slot region
  head    : Nat
  tail    : Nat
  deriving DecidableEq, Repr, Inhabited

inductive Outcome (α : Type) where
  | ok (a : α)
  | err (why : String)
  | panic (why : String)
  deriving Repr

/-- countBufferListMemSize(bufferNum, capPerBuffer uint32) uint32 -/
def countBufferListMemSize (num cap : Nat) : Nat :=
  u32 (bufferListHeaderSize + u32 (num * u32 (cap + bufferHeaderSize)))

/-- uint64(x) of an `int` x -/
def intToU64 (x : Int) : Nat := (x % (W64 : Int)).toNat

/-- createFreeBufferList(bufferNum, capPerBuffer, mem, offsetInMem): the checks and the geometry -/
def createFreeBufferList (num cap memLen off : Nat) : Outcome ListGeom :=
  if num = 0 ∨ cap = 0 then .err "zero" else
  let atLeast := countBufferListMemSize num cap
  if memLen < u32 (off + atLeast) ∨ off > u32 memLen ∨ atLeast > u32 memLen then .err "mem too small" else
  let rStart := u32 (off + bufferListHeaderSize)
  let rEnd := u32 (off + atLeast)
  if rEnd ≤ rStart then .err "region bounds" else
  -- &mem[offsetInMem+20] : index expressions are uint32; an index ≥ len(mem) panics
  if [0, 4, 8, 12, 16, 20].any (fun k => decide (u32 (off + k) ≥ memLen)) then .panic "header index out of range" else
  -- mem[offsetInMem+36 : offsetInMem+atLeastSize]
  if rEnd > memLen then .panic "slice bounds out of range" else
  -- the loop writes `num` slot headers at i*(cap+20) inside the region, the tail header at (num-1)*(cap+20)
  let stride := u32 (cap + bufferHeaderSize)
  let tail := u32 ((num - 1) * stride)
  if (num - 1) * stride + bufferHeaderSize > rEnd - rStart then .panic "slot header outside region" else
  .ok { off, num, capPer := cap, regionOff := rStart, regionLen := rEnd - rStart, head := 0, tail }

structure Mgr where
  lists : List ListGeom
  usedLen : Nat           -- value stored at bmCapOffset
  listNumField : Nat      -- uint16 stored at offset 0
  deriving Repr, Inhabited

/-- the loop of createBufferManager over the (already sorted) pairs -/
def createLoop (memLen : Nat) (regionCap : Nat) : List Pair → Nat → Nat → List ListGeom → Outcome (List ListGeom × Nat)
  | [], hadUsed, _, acc => .ok (acc, hadUsed)
  | p :: rest, hadUsed, sumPercent, acc =>
    let sum' := u32 (sumPercent + p.percent)
    if sum' > 100 then .err "percent sum" else
    let divisor := u32 (p.size + bufferHeaderSize)
    -- (repaired code, fix: commit) a Size whose header-inclusive stride overflows uint32 is rejected
    if divisor < bufferHeaderSize then .err "size too large" else
    if divisor = 0 then .panic "integer divide by zero" else
    let num := u32 ((regionCap * p.percent % W64) / 100) / divisor
    let need := countBufferListMemSize num p.size
    match createFreeBufferList num p.size memLen hadUsed with
    | .ok g => createLoop memLen regionCap rest (u32 (hadUsed + need)) sum' (acc ++ [g])
    | .err w => .err w
    | .panic w => .panic w

/-- createBufferManager(listSizePercent, path, mem, 0) -/
def createBufferManager (pairs : List Pair) (memLen : Nat) : Outcome Mgr :=
  if memLen ≤ 0 then .err "mem empty" else
  let regionCap := intToU64 ((memLen : Int) - 0 - (bufferListHeaderSize * pairs.length : Nat) - (bufferManagerHeaderSize : Nat))
  -- *(*uint16)(&mem[0]) : needs len ≥ 2 (unsafe pointer write of 2 bytes at index 0: index check is on element 0 only)
  match createLoop memLen regionCap pairs bufferManagerHeaderSize 0 [] with
  | .ok (lists, hadUsed) =>
    if pairs = [] then .panic "index out of range [0] with length 0" else
    if memLen ≤ bmCapOffset then .panic "index out of range" else
    .ok { lists, usedLen := u32 (hadUsed + W32 - bufferManagerHeaderSize), listNumField := pairs.length % 65536 }
  | .err w => .err w
  | .panic w => .panic w

/-- what mappingFreeBufferList derives from the header words (cap, capPerBuffer, head, tail) found at `off` -/
def mappingFreeBufferList (memLen off : Nat) (cap capPer head tail : Nat) : Outcome ListGeom :=
  if (memLen : Int) < (bufferListHeaderSize : Int) + off then .err "mem too small" else
  let need := countBufferListMemSize cap capPer
  if u32 (off + need) > u32 memLen ∨ u32 (off + need) < u32 (off + bufferListHeaderSize) then .err "bounds" else
  .ok { off, num := cap, capPer, regionOff := u32 (off + bufferListHeaderSize),
        regionLen := u32 (off + need) - u32 (off + bufferListHeaderSize), head, tail }

/-- mappingBufferManager over the header words the creator wrote: `hdr i` = (cap, capPerBuffer, head, tail) of the
    i-th list header encountered while walking -/
def mappingLoop (memLen : Nat) : List ListGeom → Nat → List ListGeom → Outcome (List ListGeom)
  | [], _, acc => .ok acc
  | w :: rest, hadUsed, acc =>
    -- the mapper finds, at offset `hadUsed`, the words the creator wrote for the list at `w.off`;
    -- the two coincide iff w.off = hadUsed (proved), otherwise it would read other bytes: modelled as error
    if w.off ≠ hadUsed then .err "header not where the mapper looks" else
    match mappingFreeBufferList memLen hadUsed w.num w.capPer w.head w.tail with
    | .ok g => mappingLoop memLen rest (u32 (hadUsed + countBufferListMemSize w.num w.capPer)) (acc ++ [g])
    | .err e => .err e
    | .panic e => .panic e

def mappingBufferManager (m : Mgr) (memLen : Nat) : Outcome (List ListGeom) :=
  if memLen ≤ bmCapOffset then .err "mem too small" else
  if (memLen : Int) < (bufferManagerHeaderSize : Int) + m.usedLen ∨ m.listNumField = 0 then .err "header" else
  mappingLoop memLen (m.lists.take m.listNumField) bufferManagerHeaderSize []

/-- byte range of slot `i` of a class: header + payload -/
def slotStart (g : ListGeom) (i : Nat) : Nat := g.regionOff + i * (g.capPer + bufferHeaderSize)
def slotEnd (g : ListGeom) (i : Nat) : Nat := slotStart g i + bufferHeaderSize + g.capPer

/-- VerifyConfig: the constraints on capacity / sizes / percents (amd64) -/
def verifyConfig (cap : Nat) (pairs : List Pair) : Bool :=
  decide (1048576 ≤ cap) && !pairs.isEmpty && pairs.all (fun p => decide (p.size ≤ cap)) &&
  decide ((pairs.map (·.percent)).sum = 100)

/-! ### queues -/
def queueHeaderLength : Nat := 24
def queueElementLen : Nat := 12
def queueCount : Nat := 2

/-- countQueueMemSize(queueCap uint32) int -/
def countQueueMemSize (cap : Nat) : Nat := queueHeaderLength + queueElementLen * cap

structure QueueGeom where
  base : Nat         -- offset of the queue header inside the queue mapping
  cap  : Nat
  headOff : Nat      -- absolute offsets of the cursor / flag words
  tailOff : Nat
  flagOff : Nat
  ringOff : Nat
  ringEnd : Nat
  deriving DecidableEq, Repr, Inhabited

/-- mappingQueueFromBytes(data) on amd64 where `data` starts at `base` and its first word holds `cap` -/
def queueFromBytes (base cap : Nat) : QueueGeom :=
  { base, cap, headOff := base + 4, tailOff := base + 12, flagOff := base + 20,
    ringOff := base + queueHeaderLength, ringEnd := base + u32 (queueHeaderLength + u32 (cap * queueElementLen)) }

structure QueueMgr where
  send : QueueGeom
  recv : QueueGeom
  deriving DecidableEq, Repr, Inhabited

/-- createQueueManager*: memSize = countQueueMemSize(cap) * 2; send = mem[:memSize/2], recv = mem[memSize/2:] -/
def createQueueManager (cap : Nat) : QueueMgr :=
  let memSize := countQueueMemSize cap * queueCount
  { send := queueFromBytes 0 cap, recv := queueFromBytes (memSize / 2) cap }

/-- mappingQueueManager*: mappingSize = file size; send = mem[mappingSize/2:], recv = mem[:mappingSize/2];
    each queue reads its own `cap` word (the creator wrote `cap` into both) -/
def mappingQueueManager (mappingSize capWord0 capWordHalf : Nat) : QueueMgr :=
  { send := queueFromBytes (mappingSize / 2) capWordHalf, recv := queueFromBytes 0 capWord0 }

end Layout
