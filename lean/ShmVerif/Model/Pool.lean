import ShmVerif.Model.Proto
/-
  Model of the stream pool (session_manager.go: streamPool.pop / push, getOrOpenStream, putOrCloseStream, Stream.reset)
  on top of the two-session protocol model. The ring `streams[head%cap .. tail%cap)` is a bounded FIFO of stream ids.
-/
namespace Proto
open LB

structure PoolSt where
  cap : Nat
  ring : List Nat := []        -- pooled stream ids, oldest first (tail - head ≤ cap)
  deriving DecidableEq, Repr, Inhabited

inductive GetRes where
  | stream (id : Nat)
  deriving DecidableEq, Repr, Inhabited

/-- streamPool.getOrOpenStream on the client (session healthy): pop until an open stream is found — (repaired code)
    closing the ones that are discarded — else open a new one -/
def poolGet : Nat → Sys → PoolSt → Sys × PoolSt × Nat
  | 0, s, p => let (s', id) := openStream s .a; (s', p, id)
  | f + 1, s, p =>
    match p.ring with
    | [] => let (s', id) := openStream s .a; (s', p, id)
    | id :: rest =>
      match s.a.find id with
      | some st =>
        if st.state = .opened then (s, { p with ring := rest }, id)
        else poolGet f (closeStream s .a id).1 { p with ring := rest }
      | none => poolGet f s { p with ring := rest }

/-- Stream.reset + streamPool.putOrCloseStream -/
def poolPut (s : Sys) (p : PoolSt) (id : Nat) : Sys × PoolSt × String :=
  match s.a.find id with
  | none => (s, p, "missing")
  | some st =>
    if st.inFallback then ((closeStream s .a id).1, p, "closed-fallback")
    else if st.state ≠ .opened then ((closeStream s .a id).1, p, "closed-notopen")
    else if st.recv.len > 0 then ((closeStream s .a id).1, p, "closed-unread")
    else if !st.pending.isEmpty then ((closeStream s .a id).1, p, "closed-pending")
    else
      -- ReleaseReadAndReuse, then push (or close when the pool is full)
      let sm : StreamM := { send := st.send, recv := st.recv, pending := st.pending, inFallback := st.inFallback }
      let (m', sm') := reuse s.m sm
      let s1 := { s with m := m' }.setMe .a (s.a.upd id (fun y => { y with send := sm'.send, recv := sm'.recv }))
      if p.ring.length < p.cap then (s1, { p with ring := p.ring ++ [id] }, "pooled")
      else ((closeStream s1 .a id).1, p, "closed-full")

end Proto

/-! ### the ring itself: streamPool.pop / push index a fixed array with two ever-growing counters modulo the capacity -/
namespace Ring
open List

structure R where
  cap : Nat
  slots : List Nat            -- the array `streams` (length = cap)
  head : Nat
  tail : Nat
  deriving DecidableEq, Repr

/-- streamPool.push -/
def push (r : R) (s : Nat) : R × Bool :=
  if r.tail - r.head < r.cap then ({ r with slots := r.slots.set (r.tail % r.cap) s, tail := r.tail + 1 }, true)
  else (r, false)

/-- streamPool.pop -/
def pop (r : R) : R × Option Nat :=
  if r.tail > r.head then ({ r with head := r.head + 1 }, some (r.slots.getD (r.head % r.cap) 0))
  else (r, none)

/-- what the pool holds, oldest first -/
def abs (r : R) : List Nat := (List.range (r.tail - r.head)).map (fun i => r.slots.getD ((r.head + i) % r.cap) 0)


/-- the empty pool -/
def empty (cap age : Nat) : R := { cap := cap, slots := List.replicate cap 0, head := age, tail := age }

/-- the variant that truncates the counters to 32 bits before the modulo (a seeded change): fine until a counter passes
    2^32 when the capacity does not divide 2^32 -/
def push32 (r : R) (s : Nat) : R × Bool :=
  if r.tail - r.head < r.cap then ({ r with slots := r.slots.set ((r.tail % 2 ^ 32) % r.cap) s, tail := r.tail + 1 }, true)
  else (r, false)

def pop32 (r : R) : R × Option Nat :=
  if r.tail > r.head then ({ r with head := r.head + 1 }, some (r.slots.getD ((r.head % 2 ^ 32) % r.cap) 0))
  else (r, none)

end Ring
