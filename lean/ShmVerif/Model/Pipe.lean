import ShmVerif.Model.LinkedBuffer
/-
  Two streams (one per end of a session) joined by the data path of stream.go:
    Stream.Flush (shared-memory transport: done + queue element; sticky fall-back transport: header ‖ payload copy),
    handlePolling / handleFallbackData → fillDataToReadBuffer (pending.add), Stream.readMore → pendingData.moveTo,
    Stream.ReleaseReadAndReuse.  Delivery to the peer is immediate here (orderings between the two channels are C07's).
-/
namespace LB

inductive Wrap where
  | shm (off : Nat)
  | fb (s : BS)
  deriving DecidableEq, Repr, Inhabited

structure StreamM where
  send : LBuf := {}
  recv : LBuf := {}
  pending : List Wrap := []
  inFallback : Bool := false
  deriving DecidableEq, Repr, Inhabited

structure Sys where
  m : Mem
  a : StreamM := {}
  b : StreamM := {}
  held : List (List BS) := []      -- environment: buffers taken by "another stream", per class
  deriving Repr, Inhabited

/-- bufferHeader.linkNext / clearFlag+setInUsed on the header of `pre` (nil header = panic) -/
def linkPre (m : Mem) (pre : BS) (next : Nat) : Option Mem :=
  match pre.slot with
  | none => none
  | some i => some (m.setSlot i (fun x => { x with hdr := { x.hdr with next := next, hasNext := true } }))

def clearPre (m : Mem) (pre : BS) : Option Mem :=
  match pre.slot with
  | none => none
  | some i => some (m.setSlot i (fun x => { x with hdr := { x.hdr with hasNext := false, inUsed := true } }))

/-- the inner loop of pendingData.moveToWithoutLock for one shared-memory wrapper -/
def moveChain : Nat → Mem → LBuf → Nat → Option (Mem × LBuf)
  | 0, m, l, _ => some (m, l)
  | f + 1, m, l, off =>
    match m.readSlice off with
    | none => some (m, l)                               -- readBufferSlice error: logged, break
    | some s =>
      let h := (m.slot off).hdr
      if s.size = 0 then
        match l.sl.getLast? with
        | none => moveChain f (m.recycle s) l h.next    -- first slice empty: follow `next` unconditionally
        | some pre =>
          if h.hasNext then
            match linkPre m pre h.next with
            | none => none
            | some m1 => moveChain f (m1.recycle s) l h.next
          else
            match clearPre m pre with
            | none => none
            | some m1 => some (m1.recycle s, l)
      else
        let l1 := l.appendSlice s
        if h.hasNext then moveChain f m l1 h.next else some (m, l1)

/-- pendingData.moveTo(recvBuf) -/
def moveTo (m : Mem) (st : StreamM) : Option (Mem × StreamM) :=
  let r := st.pending.foldl (fun (acc : Option (Mem × StreamM)) w =>
    match acc with
    | none => none
    | some (m, st) =>
      match w with
      | .fb s => some (m, { st with recv := st.recv.appendSlice s, inFallback := true })
      | .shm off =>
        match moveChain (m.slots.length + 2) m st.recv off with
        | none => none
        | some (m', r') => some (m', { st with recv := r' })) (some (m, st))
  match r with
  | none => none
  | some (m, st) => some (m, { st with pending := [] })

inductive FlushRes where
  | noop | shm | fallback | panic
  deriving DecidableEq, Repr, Inhabited

/-- Stream.Flush on an open stream, with immediate delivery to the peer's pending list -/
def flush (m : Mem) (x peer : StreamM) : Mem × StreamM × StreamM × FlushRes :=
  if x.send.len = 0 then (m, x, peer, .noop) else
  match x.send.done m with
  | none => (m, x, peer, .panic)
  | some (m1, s1) =>
    let inFb := x.inFallback || !s1.fromShm
    if inFb then
      let data := s1.underlying m1
      let (m2, s2) := s1.recycle m1
      let fbs : BS := { heap := data, cap := data.length, wi := data.length }
      (m2, { x with send := s2.clean, inFallback := true }, { peer with pending := peer.pending ++ [.fb fbs] }, .fallback)
    else
      match s1.sl.head? with
      | none => (m1, x, peer, .panic)                   -- rootBufOffset on an empty list
      | some f =>
        match f.slot with
        | none => (m1, x, peer, .panic)
        | some off => (m1, { x with send := s1.clean }, { peer with pending := peer.pending ++ [.shm off] }, .shm)

/-- linkedBuffer.releasePreviousReadAndReserve + the swap of Stream.ReleaseReadAndReuse -/
def reuse (m : Mem) (x : StreamM) : Mem × StreamM :=
  let (m1, r1) := x.recv.cleanPinned m
  let (m2, r2) :=
    if r1.len = 0 ∧ r1.sl.length = 1 then
      match r1.sl with
      | [f] =>
        if f.isShm then
          let m' := match f.slot with
            | some i => m1.setSlot i (fun y => { y with hdr := { y.hdr with size := 0, start := 0, hasNext := false, inUsed := false } })
            | none => m1
          (m', { r1 with sl := [{ f with ri := 0, wi := 0 }] })
        else (m1, { r1 with sl := [], w := none })
      | _ => (m1, r1)
    else (m1, r1)
  if r2.len = 0 ∧ r2.sl.length = 1 ∧ x.send.sl.length = 0 then (m2, { x with recv := x.send, send := r2 })
  else (m2, { x with recv := r2 })

end LB
