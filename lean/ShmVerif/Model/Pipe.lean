import ShmVerif.Model.LinkedBuffer
/-
  Two streams (one per end of a session) joined by the data path of stream.go:
    Stream.Flush (shared-memory transport: done + queue element; sticky fall-back transport: header ‖ payload copy),
    handlePolling / handleFallbackData → fillDataToReadBuffer (pending.add), Stream.readMore → pendingData.moveTo,
    Stream.ReleaseReadAndReuse.  Delivery to the peer is immediate here (orderings between the two channels are C07's).
-/
namespace LB

inductive Wrap where
  | shm (off : Nat)
  | fb (s : BS)
  deriving DecidableEq, Repr, Inhabited

structure StreamM where
  send : LBuf := {}
  recv : LBuf := {}
  pending : List Wrap := []
  inFallback : Bool := false
  deriving DecidableEq, Repr, Inhabited

structure Sys where
  m : Mem
  a : StreamM := {}
  b : StreamM := {}
  held : List (List BS) := []      -- environment: buffers taken by "another stream", per class
  deriving Repr, Inhabited

/-- bufferHeader.linkNext / clearFlag+setInUsed on the header of `pre` (nil header = panic) -/
def linkPre (m : Mem) (pre : BS) (next : Nat) : Option Mem :=
  match pre.slot with
  | none => none
  | some i => some (m.setSlot i (fun x => { x with hdr := { x.hdr with next := next, hasNext := true } }))

def clearPre (m : Mem) (pre : BS) : Option Mem :=
  match pre.slot with
  | none => none
  | some i => some (m.setSlot i (fun x => { x with hdr := { x.hdr with hasNext := false, inUsed := true } }))

/-- the inner loop of pendingData.moveToWithoutLock for one shared-memory wrapper -/
def moveChain : Nat → Mem → LBuf → Nat → Option (Mem × LBuf)
  | 0, m, l, _ => some (m, l)
  | f + 1, m, l, off =>
    match m.readSlice off with
    | none => some (m, l)                               -- readBufferSlice error: logged, break
    | some s =>
      let h := (m.slot off).hdr
      if s.size = 0 then
        match l.sl.getLast? with
        | none => moveChain f (m.recycle s) l h.next    -- first slice empty: follow `next` unconditionally
        | some pre =>
          if h.hasNext then
            match linkPre m pre h.next with
            | none => none
            | some m1 => moveChain f (m1.recycle s) l h.next
          else
            match clearPre m pre with
            | none => none
            | some m1 => some (m1.recycle s, l)
      else
        let l1 := l.appendSlice s
        if h.hasNext then moveChain f m l1 h.next else some (m, l1)

/-- pendingData.moveTo(recvBuf) -/
def moveTo (m : Mem) (st : StreamM) : Option (Mem × StreamM) :=
  let r := st.pending.foldl (fun (acc : Option (Mem × StreamM)) w =>
    match acc with
    | none => none
    | some (m, st) =>
      match w with
      | .fb s => some (m, { st with recv := st.recv.appendSlice s, inFallback := true })
      | .shm off =>
        match moveChain (m.slots.length + 2) m st.recv off with
        | none => none
        | some (m', r') => some (m', { st with recv := r' })) (some (m, st))
  match r with
  | none => none
  | some (m, st) => some (m, { st with pending := [] })

inductive FlushRes where
  | noop | shm | fallback | panic
  deriving DecidableEq, Repr, Inhabited

/-- Stream.Flush on an open stream, with immediate delivery to the peer's pending list -/
def flush (m : Mem) (x peer : StreamM) : Mem × StreamM × StreamM × FlushRes :=
  if x.send.len = 0 then (m, x, peer, .noop) else
  match x.send.done m with
  | none => (m, x, peer, .panic)
  | some (m1, s1) =>
    let inFb := x.inFallback || !s1.fromShm
    if inFb then
      let data := s1.underlying m1
      let (m2, s2) := s1.recycle m1
      let fbs : BS := { heap := data, cap := data.length, wi := data.length }
      (m2, { x with send := s2.clean, inFallback := true }, { peer with pending := peer.pending ++ [.fb fbs] }, .fallback)
    else
      match s1.sl.head? with
      | none => (m1, x, peer, .panic)                   -- rootBufOffset on an empty list
      | some f =>
        match f.slot with
        | none => (m1, x, peer, .panic)
        | some off => (m1, { x with send := s1.clean }, { peer with pending := peer.pending ++ [.shm off] }, .shm)

/-- linkedBuffer.releasePreviousReadAndReserve + the swap of Stream.ReleaseReadAndReuse -/
def reuse (m : Mem) (x : StreamM) : Mem × StreamM :=
  let (m1, r1) := x.recv.cleanPinned m
  let (m2, r2) :=
    if r1.len = 0 ∧ r1.sl.length = 1 then
      match r1.sl with
      | [f] =>
        if f.isShm then
          let m' := match f.slot with
            | some i => m1.setSlot i (fun y => { y with hdr := { y.hdr with size := 0, start := 0, hasNext := false, inUsed := false } })
            | none => m1
          (m', { r1 with sl := [{ f with ri := 0, wi := 0 }] })
        else (m1, { r1 with sl := [], w := none })
      | _ => (m1, r1)
    else (m1, r1)
  if r2.len = 0 ∧ r2.sl.length = 1 ∧ x.send.sl.length = 0 then (m2, { x with recv := x.send, send := r2 })
  else (m2, { x with recv := r2 })

/-! ### a pair of streams over one memory, as one state machine (the system the slot accounting of C09 is proved for) -/

/-- pendingData.clear for one entry: a shared-memory message is given back through bufferManager.recycleBuffers -/
def clear1 (m : Mem) (w : Wrap) : Mem :=
  match w with
  | .shm off => m.recycleChain m.slots.length off
  | .fb _ => m

/-- pendingData.clear -/
def clearPending (m : Mem) (ws : List Wrap) : Mem := ws.foldl clear1 m

/-- the buffer side of Stream.clean (Close): pendingData.clear, recvBuf.recycle, sendBuf.recycle -/
def closeStream (m : Mem) (x : StreamM) : Mem :=
  let m1 := clearPending m x.pending
  let m2 := (x.recv.recycle m1).1
  (x.send.recycle m2).1

structure PSys where
  m : Mem
  a : StreamM := {}
  b : StreamM := {}
  deriving DecidableEq, Repr, Inhabited

/-- `x = false`: end a, `x = true`: end b -/
def PSys.get (s : PSys) (x : Bool) : StreamM := if x then s.b else s.a
def PSys.put (s : PSys) (x : Bool) (m : Mem) (st : StreamM) : PSys :=
  if x then { s with m := m, b := st } else { s with m := m, a := st }

inductive POp where
  | write (x : Bool) (d : List Nat)      -- BufferWriter.WriteBytes / WriteString
  | writeByte (x : Bool) (b : Nat)       -- BufferWriter.WriteByte
  | flush (x : Bool)                     -- Stream.Flush, delivery to the peer's pending list
  | more (x : Bool)                      -- Stream.readMore: pendingData.moveTo(recvBuf)
  | readBytes (x : Bool) (n : Nat)
  | peek (x : Bool) (n : Nat)
  | discard (x : Bool) (n : Nat)
  | readByte (x : Bool)
  | readString (x : Bool) (n : Nat)
  | readInto (x : Bool) (n : Nat)
  | release (x : Bool)                   -- ReleasePreviousRead
  | close (x : Bool)                     -- Stream.clean
  deriving DecidableEq, Repr

/-- one operation; `none` = the implementation would panic (a reader call without enough buffered data, which
    Stream.readMore rules out) -/
def pstep (s : PSys) : POp → Option PSys
  | .write x d =>
    match (s.get x).send.writeBytes s.m d with
    | none => none
    | some (m', l') => some (s.put x m' { (s.get x) with send := l' })
  | .writeByte x b =>
    match (s.get x).send.writeByte s.m b with
    | none => none
    | some (m', l') => some (s.put x m' { (s.get x) with send := l' })
  | .flush x =>
    if (flush s.m (s.get x) (s.get (!x))).2.2.2 = .panic then none
    else some ((s.put x (flush s.m (s.get x) (s.get (!x))).1 (flush s.m (s.get x) (s.get (!x))).2.1).put (!x)
      (flush s.m (s.get x) (s.get (!x))).1 (flush s.m (s.get x) (s.get (!x))).2.2.1)
  | .more x =>
    match moveTo s.m (s.get x) with
    | none => none
    | some (m', st') => some (s.put x m' st')
  | .readBytes x n =>
    match (s.get x).recv.readBytes s.m n with
    | none => none
    | some (m', r', _) => some (s.put x m' { (s.get x) with recv := r' })
  | .peek x n =>
    match (s.get x).recv.peekBytes s.m n with
    | none => none
    | some (r', _) => some (s.put x s.m { (s.get x) with recv := r' })
  | .discard x n =>
    match (s.get x).recv.discard s.m n with
    | none => none
    | some (m', r', _) => some (s.put x m' { (s.get x) with recv := r' })
  | .readByte x =>
    match (s.get x).recv.readByte s.m with
    | none => none
    | some (m', r', _) => some (s.put x m' { (s.get x) with recv := r' })
  | .readString x n =>
    match (s.get x).recv.readString s.m n with
    | none => none
    | some (m', r', _) => some (s.put x m' { (s.get x) with recv := r' })
  | .readInto x n =>
    match (s.get x).recv.readInto s.m n with
    | none => none
    | some (m', r', _) => some (s.put x m' { (s.get x) with recv := r' })
  | .release x =>
    some (s.put x ((s.get x).recv.release s.m).1 { (s.get x) with recv := ((s.get x).recv.release s.m).2 })
  | .close x => some (s.put x (closeStream s.m (s.get x)) { inFallback := (s.get x).inFallback })

/-- the bytes a reader operation hands to its caller -/
def pout (s : PSys) : POp → List Nat
  | .readBytes x n => match (s.get x).recv.readBytes s.m n with | some (_, _, d) => d | none => []
  | .peek x n => match (s.get x).recv.peekBytes s.m n with | some (_, d) => d | none => []
  | .readString x n => match (s.get x).recv.readString s.m n with | some (_, _, d) => d | none => []
  | .readInto x n => match (s.get x).recv.readInto s.m n with | some (_, _, d) => d | none => []
  | .readByte x => match (s.get x).recv.readByte s.m with | some (_, _, b) => [b] | none => []
  | _ => []

def prun : PSys → List POp → Option PSys
  | s, [] => some s
  | s, op :: r => match pstep s op with | none => none | some s' => prun s' r

end LB
