/-
  Message-level abstraction of the two-session protocol model `Proto` (same operations, same control flow, buffers and
  bytes forgotten): a flushed message is a token with a fresh id.  Used for the theorems about isolation, per-stream
  order, close propagation and message conservation (C07, C09, C10); the driver runs it side by side with `Proto` and
  reports any disagreement on the shared observables (stream states, tables, queue / connection lengths, flags).
-/
namespace Mux

inductive St where
  | opened | closed | half
  deriving DecidableEq, Repr, Inhabited

inductive Side where | a | b
  deriving DecidableEq, Repr, Inhabited

def Side.peer : Side → Side | .a => .b | .b => .a

structure MStream where
  id : Nat
  state : St := .opened
  inFb : Bool := false
  buffered : List Nat := []       -- messages offered to this stream object and not yet released (pending ++ read buffer)
  fbPending : Bool := false       -- fall-back data is pending: moving it to the read buffer switches this end to fall-back too
  deriving DecidableEq, Repr, Inhabited

structure QEl where
  sid : Nat
  msg : Nat            -- message token (unused for a close element)
  isClose : Bool
  deriving DecidableEq, Repr, Inhabited

inductive Ev where
  | polling
  | close (sid : Nat)
  | fb (sid msg : Nat)
  deriving DecidableEq, Repr, Inhabited

structure MEnd where
  isClient : Bool
  streams : List MStream := []
  table : List Nat := []
  nextId : Nat
  deriving DecidableEq, Repr, Inhabited

/-- one direction: the sender's queue, its working flag, the control connection -/
structure Chan where
  q : List QEl := []
  flag : Bool := false
  k : List Ev := []
  deriving DecidableEq, Repr, Inhabited

structure Sys where
  ends : Side → MEnd := fun x => match x with | .a => { isClient := true, nextId := 1 } | .b => { isClient := false, nextId := 2 }
  ch : Side → Chan := fun _ => {}                -- ch x : what x sends
  qcap : Nat := 8
  -- ghost
  fresh : Nat := 0
  sent : List (Side × Nat × Nat) := []      -- (sender, stream id, msg) in flush order, successful flushes only
  got : List (Side × Nat × Nat) := []       -- (receiver, stream id, msg) in the order they were offered to a stream
  arrived : List (Side × Nat × Nat) := []   -- (receiver, stream id, msg): every data message in arrival order, offered or dropped
  recreated : List (Side × Nat) := []       -- (end, id): the server re-created a stream object for an id it had closed
  retired : List Nat := []                  -- messages whose buffers went back to the allocator
  closeSent : List (Side × Nat) := []       -- close notifications issued (sender, stream id)

def upd {α : Type} (f : Side → α) (x : Side) (v : α) : Side → α := fun y => if y = x then v else f y

def Sys.me (s : Sys) (x : Side) : MEnd := s.ends x
def Sys.setMe (s : Sys) (x : Side) (e : MEnd) : Sys := { s with ends := upd s.ends x e }
def Sys.setCh (s : Sys) (x : Side) (c : Chan) : Sys := { s with ch := upd s.ch x c }

def MEnd.find (e : MEnd) (id : Nat) : Option MStream := e.streams.find? (·.id = id)
def MEnd.upd (e : MEnd) (id : Nat) (f : MStream → MStream) : MEnd :=
  { e with streams := e.streams.map (fun x => if x.id = id then f x else x) }
def MEnd.registered (e : MEnd) (id : Nat) : Bool := e.table.contains id

/-- Session.wakeUpPeer on a channel -/
def Chan.wake (c : Chan) : Chan := if c.flag then c else { c with flag := true, k := c.k ++ [.polling] }

def openStream (s : Sys) (x : Side) : Sys × Nat :=
  let e := s.me x
  let id := e.nextId + 1
  -- Session.OpenStream refuses an id that is already in use (ErrStreamsExhausted)
  if (e.find id).isSome then ({ s with ends := upd s.ends x { e with nextId := id } }, 0)
  else (s.setMe x { e with nextId := id, streams := e.streams ++ [{ id }], table := e.table ++ [id] }, id)

inductive Res where
  | ok | noop | closed | timeout | shm | fallback | missing
  deriving DecidableEq, Repr, Inhabited

/-- Flush of a non-empty send buffer. `heap` = the buffer contains a heap fall-back slice (allocation failed). -/
def flush (s : Sys) (x : Side) (id : Nat) (heap : Bool) : Sys × Res :=
  match (s.me x).find id with
  | none => (s, .missing)
  | some st =>
    let msg := s.fresh
    let s := { s with fresh := s.fresh + 1 }
    if st.state ≠ .opened then ({ s with retired := s.retired ++ [msg] }, .closed)     -- recycled at once
    else if st.inFb ∨ heap then
      let s1 := s.setMe x ((s.me x).upd id (fun y => { y with inFb := true }))
      -- the payload is copied into the event; the copy is the message from now on
      ({ (s1.setCh x { s1.ch x with k := (s1.ch x).k ++ [.fb id msg] }) with sent := s1.sent ++ [(x, id, msg)] }, .fallback)
    else if (s.ch x).q.length ≥ s.qcap then ({ s with retired := s.retired ++ [msg] }, .timeout)
    else
      ({ (s.setCh x ({ s.ch x with q := (s.ch x).q ++ [{ sid := id, msg, isClose := false }] } : Chan).wake) with
          sent := s.sent ++ [(x, id, msg)] }, .shm)

def closeStream (s : Sys) (x : Side) (id : Nat) : Sys × Res :=
  match (s.me x).find id with
  | none => (s, .missing)
  | some st =>
    if st.state = .closed then (s, .ok) else
    let e := (s.me x).upd id (fun y => { y with state := .closed, buffered := [], fbPending := false })
    let s1 := { s with retired := s.retired ++ st.buffered }.setMe x { e with table := e.table.filter (· ≠ id) }
    if st.state = .opened then
      let s2 := { s1 with closeSent := s1.closeSent ++ [(x, id)] }
      if st.inFb ∨ (s2.ch x).q.length ≥ s2.qcap then (s2.setCh x { s2.ch x with k := (s2.ch x).k ++ [.close id] }, .ok)
      else (s2.setCh x ({ s2.ch x with q := (s2.ch x).q ++ [{ sid := id, msg := 0, isClose := true }] } : Chan).wake, .ok)
    else (s1, .ok)

def getStream (e : MEnd) (id : Nat) (opened : Bool) : MEnd × Bool :=
  if e.registered id then (e, true)
  else if !e.isClient ∧ opened then
    ({ e with streams := (e.streams.filter (·.id ≠ id)) ++ [{ id }], table := e.table ++ [id] }, true)
  else (e, false)

/-- did getStream replace an older stream object with the same id? -/
def recreates (e : MEnd) (id : Nat) : Bool :=
  !e.registered id && !e.isClient && (e.find id).isSome

def halfClose (st : MStream) : MStream := if st.state = .opened then { st with state := .half } else st

/-- data `msg` for stream `id` of end `x` (handleStreamMessage / fillDataToReadBuffer) -/
def offer (s : Sys) (x : Side) (id msg : Nat) (viaConn : Bool := false) : Sys :=
  let (e', found) := getStream (s.me x) id true
  let s0 := { s with arrived := s.arrived ++ [(x, id, msg)],
                     recreated := if recreates (s.me x) id then s.recreated ++ [(x, id)] else s.recreated }
  let s1 := s0.setMe x e'
  if found then
    match (s1.me x).find id with
    | some st =>
      if st.state = .closed then { s1 with retired := s1.retired ++ [msg] }
      else { (s1.setMe x ((s1.me x).upd id (fun y => { y with buffered := y.buffered ++ [msg], fbPending := y.fbPending || viaConn }))) with
               got := s1.got ++ [(x, id, msg)] }
    | none => { s1 with retired := s1.retired ++ [msg] }
  else { s1 with retired := s1.retired ++ [msg] }      -- client: data for a stream that no longer exists is recycled

def closeNote (s : Sys) (x : Side) (id : Nat) : Sys :=
  if (s.me x).registered id then s.setMe x ((s.me x).upd id halfClose) else s

def drain : List QEl → Sys → Side → Sys
  | [], s, _ => s
  | el :: rest, s, x => drain rest (if el.isClose then closeNote s x el.sid else offer s x el.sid el.msg) x

/-- end `x` handles the next event its peer wrote -/
def deliver (s : Sys) (x : Side) : Sys × Res :=
  let c := s.ch x.peer
  match c.k with
  | [] => (s, .noop)
  | ev :: rest =>
    match ev with
    | .polling => (drain c.q (s.setCh x.peer { q := [], flag := false, k := rest }) x, .ok)
    | .close id => (closeNote (s.setCh x.peer { c with k := rest }) x id, .ok)
    | .fb id msg => (offer (s.setCh x.peer { c with k := rest }) x id msg true, .ok)

/-- pendingData.moveTo: pending fall-back data reaching the read buffer makes this end use the connection as well -/
def moved (s : Sys) (x : Side) (id : Nat) : Sys :=
  s.setMe x ((s.me x).upd id (fun y => { y with inFb := y.inFb || y.fbPending, fbPending := false }))

/-- the reader consumes and releases everything buffered on its stream -/
def consume (s : Sys) (x : Side) (id : Nat) : Sys :=
  match (s.me x).find id with
  | none => s
  | some st => { s with retired := s.retired ++ st.buffered }.setMe x ((s.me x).upd id (fun y => { y with buffered := [] }))

inductive Op where
  | open_ (x : Side)
  | flush (x : Side) (id : Nat) (heap : Bool)
  | close (x : Side) (id : Nat)
  | deliver (x : Side)
  | consume (x : Side) (id : Nat)
  | moved (x : Side) (id : Nat)
  deriving DecidableEq, Repr, Inhabited

def step (s : Sys) : Op → Sys
  | .open_ x => (openStream s x).1
  | .flush x id heap => (flush s x id heap).1
  | .close x id => (closeStream s x id).1
  | .deliver x => (deliver s x).1
  | .consume x id => consume s x id
  | .moved x id => moved s x id

def run (s : Sys) (ops : List Op) : Sys := ops.foldl step s

end Mux
