/-
  Model of the hot-restart hand-over and of session healing:
    listener.go        : Listener.HotRestart, checkHotRestart (ticker / time-out), resetState, the session table
    protocol_manager.go: handleHotRestartAck (server side of an ack)
    session_manager.go : handleSessionManagerHotRestart, checkHotRestart, the per-pool watcher goroutine of background()
                         (wait for the session to close, close the pool, rebuild timer, epoch comparison, reconnect), Close
  Timers are inputs: `tick` / `timeout` / `fire` are steps the environment takes.  Connecting to the server
  (newClientSession) is an input too: it succeeds or fails as the step says.
-/
namespace Restart

inductive SS where
  | default | hot | hotDone
  deriving DecidableEq, Repr, Inhabited

def SS.num : SS → Nat | .default => 0 | .hot => 1 | .hotDone => 2

/-! ## server -/

structure SSess where
  uid    : Nat                 -- identity (ghost)
  state  : SS := .default
  hsDone : Bool := true
  deriving DecidableEq, Repr, Inhabited

def SSess.isHot (s : SSess) : Bool := s.state == .hot
def SSess.hasUid (u : Nat) (s : SSess) : Bool := s.uid == u

structure Listener where
  state    : SS := .default
  epoch    : Nat := 0
  ackCount : Int := 0
  sess     : List SSess := []
  checker  : Bool := false              -- the checkHotRestart goroutine is alive
  nextUid  : Nat := 0
  sent     : List (Nat × Nat) := []     -- (session uid, epoch): HotRestart events written, in order
  okCount  : Nat := 0                   -- completed hand-overs (onHotRestart(true))
  failCount : Nat := 0
  lostHot  : Nat := 0                   -- ghost: sessions that closed while their ack was awaited
  deriving DecidableEq, Repr, Inhabited

def Listener.hotCount (l : Listener) : Nat := l.sess.countP SSess.isHot

inductive LRes where
  | ok | inProgress | inHandshake | noop
  deriving DecidableEq, Repr, Inhabited

/-- Listener.HotRestart(epoch) (repaired code: the handshake check precedes every change) -/
def Listener.hotRestart (l : Listener) (e : Nat) : Listener × LRes :=
  if l.state = .hot then (l, .inProgress)
  else if l.sess.any (fun s => !s.hsDone) then (l, .inHandshake)
  else
    let targets := l.sess.filter (fun s => s.state = .default)
    let sess' := l.sess.map (fun s => if s.state = .default then { s with state := .hot } else s)
    ({ l with state := .hot, epoch := e, sess := sess', ackCount := l.ackCount + targets.length,
              sent := l.sent ++ targets.map (fun s => (s.uid, e)), checker := true }, .ok)

/-- handleHotRestartAck on the session with identity `uid` (repaired code: only an expected ack counts) -/
def Listener.ack (l : Listener) (uid e : Nat) : Listener :=
  match l.sess.find? (·.uid = uid) with
  | none => l
  | some s =>
    if e = l.epoch ∧ l.state = .hot ∧ s.state = .hot then
      { l with ackCount := l.ackCount - 1, sess := l.sess.map (fun x => if x.uid = uid then { x with state := .hotDone } else x) }
    else l

/-- the ticker case of checkHotRestart -/
def Listener.tick (l : Listener) : Listener :=
  if !l.checker then l
  else if l.state ≠ .hot then { l with checker := false }
  else if l.ackCount = 0 then { l with state := .hotDone, checker := false, okCount := l.okCount + 1 }
  else l

/-- the time-out case of checkHotRestart (resetState) -/
def Listener.timeout (l : Listener) : Listener :=
  if !l.checker then l
  else { l with state := .default, ackCount := 0, sess := l.sess.map (fun s => { s with state := .default }),
                checker := false, failCount := l.failCount + 1, lostHot := 0 }

/-- Listener.Run accepted a connection -/
def Listener.add (l : Listener) (hsDone : Bool) : Listener :=
  { l with sess := l.sess ++ [{ uid := l.nextUid, hsDone }], nextUid := l.nextUid + 1 }

/-- a session finished its handshake -/
def Listener.hsDone (l : Listener) (uid : Nat) : Listener :=
  { l with sess := l.sess.map (fun x => if x.uid = uid then { x with hsDone := true } else x) }

/-- a session closed (sessionCallback.OnShutdown -> removeShutdownSession) -/
def Listener.drop (l : Listener) (uid : Nat) : Listener :=
  { l with sess := l.sess.filter (fun s => !s.hasUid uid),
           lostHot := l.lostHot + l.sess.countP (fun s => s.hasUid uid && s.isHot) }

inductive LOp where
  | hotRestart (e : Nat) | ack (uid e : Nat) | tick | timeout | add (hs : Bool) | hsDone (uid : Nat) | drop (uid : Nat)
  deriving DecidableEq, Repr, Inhabited

def Listener.step (l : Listener) : LOp → Listener
  | .hotRestart e => (l.hotRestart e).1
  | .ack u e => l.ack u e
  | .tick => l.tick
  | .timeout => l.timeout
  | .add hs => l.add hs
  | .hsDone u => l.hsDone u
  | .drop u => l.drop u

def Listener.run (l : Listener) (ops : List LOp) : Listener := ops.foldl Listener.step l

/-! ## client -/

/-- a stream pool object with the session it currently holds -/
structure PoolObj where
  sess   : Nat            -- serial number of the session object it holds (ghost identity)
  epoch  : Nat            -- Session.epochID
  alive  : Bool := true   -- the session is not closed
  closes : Nat := 0       -- streamPool.close() calls (ghost)
  deriving DecidableEq, Repr, Inhabited

inductive WPc where
  | start                  -- goroutine created
  | sleep                  -- in hot-restart state: sleeping 500 ms
  | sel (obj : Nat)        -- waiting for pool object `obj`'s session to close, or for cancellation
  | timer (obj : Nat)      -- pool closed; waiting for the rebuild timer, or for cancellation
  | done
  deriving DecidableEq, Repr, Inhabited

structure Manager where
  state    : SS := .default
  epoch    : Nat := 0
  objs     : List PoolObj := []          -- every pool object ever created, by object id
  pools    : List Nat := []              -- sm.pools: object id per session index
  reserve  : List (Nat × Nat) := []      -- sm.reservePools: (session index, object id)
  checker  : Bool := false
  watchers : List WPc := []
  cancelled : Bool := false              -- ctx cancelled (Close)
  closed   : Bool := false               -- Close returned
  nextSess : Nat := 0
  acks     : List (Nat × Nat) := []      -- (session serial, epoch): acks written (sorted per completion by the driver)
  created  : List (Nat × Nat × Nat) := []   -- (session index, epoch, serial): sessions created after start-up
  deriving DecidableEq, Repr, Inhabited

def Manager.obj (m : Manager) (o : Nat) : PoolObj := m.objs.getD o default
def Manager.setObj (m : Manager) (o : Nat) (p : PoolObj) : Manager := { m with objs := m.objs.set o p }

/-- streamPool.close(): closes the session it holds -/
def Manager.closeObj (m : Manager) (o : Nat) : Manager :=
  m.setObj o { m.obj o with alive := false, closes := (m.obj o).closes + 1 }

def Manager.closeObjs (m : Manager) (os : List Nat) : Manager := os.foldl Manager.closeObj m

/-- NewSessionManager with `n` sessions (all connects succeed) -/
def Manager.init (n : Nat) : Manager :=
  { objs := (List.range n).map (fun i => { sess := i, epoch := 0 }), pools := List.range n,
    watchers := List.replicate n .start, nextSess := n }

/-- handleSessionManagerHotRestart for the event received on the session currently held by pool object `o`
    (whose Session.sessionID is `id`), carrying `e`; `conn` = newClientSession succeeds -/
def Manager.hotRestart (m : Manager) (id e : Nat) (conn : Bool) : Manager :=
  if m.cancelled then m else                       -- (repaired code) the manager is closed
  if m.state = .hot ∧ m.epoch ≠ e then m else
  let m1 := if m.state ≠ .hot then
      { (m.closeObjs (m.reserve.map (·.2))) with state := .hot, epoch := e, reserve := [], checker := true }
    else m
  if (m1.reserve.find? (·.1 = id)).isSome then m1
  else if !conn then m1
  else
    match m1.pools[id]? with
    | none => m1                                    -- (index out of range: the code would panic and recover)
    | some old =>
      let o := m1.objs.length
      { m1 with objs := m1.objs ++ [{ sess := m1.nextSess, epoch := m1.epoch }], nextSess := m1.nextSess + 1,
                created := m1.created ++ [(id, m1.epoch, m1.nextSess)],
                reserve := m1.reserve ++ [(id, old)], pools := m1.pools.set id o }

/-- the ticker case of SessionManager.checkHotRestart -/
def Manager.tick (m : Manager) : Manager :=
  if !m.checker then m
  else if m.reserve.length = m.pools.length then
    { m with state := .default, checker := false,
             acks := m.acks ++ m.reserve.map (fun r => ((m.obj r.2).sess, m.epoch)) }
  else m

/-- the time-out case -/
def Manager.timeout (m : Manager) : Manager :=
  if !m.checker then m
  else { (m.closeObjs (m.reserve.map (·.2))) with state := .default, checker := false, reserve := [] }

/-- the session held by pool object `o` dies (peer gone, connection broken, closed by the server) -/
def Manager.lose (m : Manager) (o : Nat) : Manager :=
  if o < m.objs.length then m.setObj o { m.obj o with alive := false } else m

def Manager.setW (m : Manager) (id : Nat) (pc : WPc) : Manager := { m with watchers := m.watchers.set id pc }

/-- loop top of the watcher goroutine of session index `id` -/
def Manager.wTop (m : Manager) (id : Nat) : Manager :=
  if m.state = .hot then m.setW id .sleep
  else match m.pools[id]? with
    | none => m.setW id .done
    | some o => m.setW id (.sel o)

/-- one step of the watcher of session index `id`. `fire` = its rebuild timer fired; `conn` = the reconnect succeeds;
    `ctx` = when both the event (closed session / timer) and the cancellation are ready, the select takes the
    cancellation (Go chooses at random).
    A watcher blocked in a select only moves when one of its channels is ready (otherwise the step is a no-op). -/
def Manager.watch (m : Manager) (id : Nat) (fire conn : Bool) (ctx : Bool := false) : Manager :=
  match m.watchers[id]? with
  | none => m
  | some pc =>
    match pc with
    | .start => m.wTop id
    | .sleep => m.wTop id
    | .sel o =>
      if !(m.obj o).alive ∧ !(m.cancelled ∧ ctx) then
        if m.state = .hot then m.wTop id
        else (m.closeObj o).setW id (.timer o)
      else if m.cancelled then m.setW id .done
      else m
    | .timer o =>
      if fire ∧ !(m.cancelled ∧ ctx) then
        match m.pools[id]? with
        | none => m.setW id .done
        | some cur =>
          if (m.obj cur).epoch ≠ (m.obj o).epoch then m.wTop id      -- replaced by a hot restart: no rebuild
          else if conn then
            ({ (m.setObj o { (m.obj o) with sess := m.nextSess, epoch := m.epoch, alive := true }) with
                nextSess := m.nextSess + 1, created := m.created ++ [(id, m.epoch, m.nextSess)] }).wTop id
          else m                                                      -- retry after another interval
      else if m.cancelled then m.setW id .done
      else m
    | .done => m

/-- SessionManager.Close (repaired code: the parked pools are closed too). The watchers must have exited. -/
def Manager.cancel (m : Manager) : Manager := { m with cancelled := true }

def Manager.finishClose (m : Manager) : Manager :=
  if m.cancelled ∧ m.watchers.all (· == .done) ∧ !m.closed then
    { (m.closeObjs (m.pools ++ m.reserve.map (·.2))) with closed := true, reserve := [] }
  else m

inductive MOp where
  | hotRestart (id e : Nat) (conn : Bool) | tick | timeout | lose (o : Nat) | watch (id : Nat) (fire conn ctx : Bool)
  | cancel | finishClose
  deriving DecidableEq, Repr, Inhabited

def Manager.step (m : Manager) : MOp → Manager
  | .hotRestart id e c => m.hotRestart id e c
  | .tick => m.tick
  | .timeout => m.timeout
  | .lose o => m.lose o
  | .watch id f c x => m.watch id f c x
  | .cancel => m.cancel
  | .finishClose => m.finishClose

def Manager.run (m : Manager) (ops : List MOp) : Manager := ops.foldl Manager.step m

/-! ### the names a client session derives from the configured prefix (newClientSession)

  `prefix ++ "_epoch_" ++ decimal epoch ++ "_" ++ decimal randID ++ "_queue_" ++ decimal sessionID`; for a file-backed
  mapping every derived name must fit `fileNameMaxLen`.  The check is made on the prefix alone, with a reserve for the
  longest suffixes, so that a configuration accepted for the first sessions is accepted for every later epoch. -/

/-- number of decimal digits (strconv.Itoa / FormatUint) -/
def digits (n : Nat) : Nat := (Nat.toDigits 10 n).length

def epochInfoMaxLen : Nat := 7 + 20 + 1 + 20
def queueInfoMaxLen : Nat := 7 + 20
def fileNameMaxLen : Nat := 255

/-- memfd_create(2): at most 249 bytes, and the library puts "shmipc" (6 bytes) in front -/
def memfdNameMaxLen : Nat := 249
def memfdCreateNameLen : Nat := 6

/-- the up-front check of newClientSession (file-backed mapping) -/
def prefixAccepted (prefixLen : Nat) : Bool := decide (prefixLen + epochInfoMaxLen + queueInfoMaxLen ≤ fileNameMaxLen)

/-- the up-front check of newClientSession (memfd mapping; repaired code) -/
def prefixAcceptedMemfd (prefixLen : Nat) : Bool :=
  decide (memfdCreateNameLen + prefixLen + epochInfoMaxLen + queueInfoMaxLen ≤ memfdNameMaxLen)

/-- length of the queue path newClientSession derives -/
def queuePathLen (prefixLen epoch rand id : Nat) : Nat :=
  prefixLen + (if epoch > 0 then 7 + digits epoch + 1 + digits rand else 0) + 7 + digits id

end Restart
