/-
  Model of the control-connection event parser after the handshake:
    session.go        : Session.onEventData, Session.handleEvents
    protocol_event.go : checkEventValid, header accessors
    protocol_manager.go : handlePolling / handleStreamClose / handleFallbackData / handleHotRestart / handleHotRestartAck
                          (length handling), Session.getStream / getStreamById / handleStreamMessage (dispatch)
  and of Session.extractShmMetadata (handshake).

  Bytes are `Nat`s below 256. Every byte the parser looks at is obtained by pattern matching on a prefix whose presence
  was established first, or by `take`/`drop` after an explicit length comparison — exactly the checks of the (repaired)
  code; there is no partial access in the model.
-/
namespace Events

def be16 (a b : Nat) : Nat := a * 256 + b
def be32 (a b c d : Nat) : Nat := ((a * 256 + b) * 256 + c) * 256 + d
def be64 (l : List Nat) : Nat := l.foldl (fun acc x => acc * 256 + x) 0

def headerSize : Nat := 8
def magicNumber : Nat := 0x7758
def typePolling : Nat := 1
def typeStreamClose : Nat := 2
def typeFallbackData : Nat := 3
def typeHotRestart : Nat := 8
def typeHotRestartAck : Nat := 9
def maxEventType : Nat := 9

inductive Effect where
  | poll
  | close (id : Nat)
  | data (id status : Nat) (payload : List Nat)
  | hotRestart (epoch : Nat)
  | hotRestartAck (epoch : Nat)
  deriving DecidableEq, Repr, Inhabited

/-- who the receiving session is -/
structure Cfg where
  isServer    : Bool       -- server sessions create a stream for data with an unknown id and state "opened"
  hasManager  : Bool       -- Session.manager != nil
  hasListener : Bool       -- Session.listener != nil
  listenerEpoch : Nat := 0
  deriving DecidableEq, Repr, Inhabited

inductive Next where
  | more                                   -- fewer bytes than the next event needs: wait (consumes nothing)
  | fail                                   -- protocol error: the session is closed
  | ev (e : Effect) (n : Nat)              -- one event handled, n bytes consumed
  deriving DecidableEq, Repr, Inhabited

/-- the handler dispatch for a complete 8-byte header `h` followed by `rest` -/
def nextH (cfg : Cfg) (h : List Nat) (rest : List Nat) : Next :=
  match h with
  | [l0, l1, l2, l3, m0, m1, ver, ty] =>
    if be16 m0 m1 ≠ magicNumber ∨ ver = 0 then .fail
    else if ty > maxEventType then .fail
    else if ty = typePolling then .ev .poll headerSize
    else if ty = typeStreamClose then
      if rest.length < 4 then .more
      else match rest.take 4 with
        | [a, b, c, d] => .ev (.close (be32 a b c d)) (headerSize + 4)
        | _ => .fail   -- unreachable
    else if ty = typeFallbackData then
      let eventLen := be32 l0 l1 l2 l3
      -- payloadLen := eventLen - headerSize (int); repaired code: payloadLen < 8 is an error
      if eventLen < headerSize + 8 then .fail
      else if rest.length < eventLen - headerSize then .more
      else
        match rest.take (eventLen - headerSize) with
        | s0 :: s1 :: s2 :: s3 :: t0 :: t1 :: t2 :: t3 :: payload =>
          .ev (.data (be32 s0 s1 s2 s3) (be32 t0 t1 t2 t3 % 256) payload) eventLen
        | _ => .fail   -- unreachable: the take has length eventLen - 8 ≥ 8
    else if ty = typeHotRestart then
      if rest.length < 8 then .more
      else if cfg.hasManager then .ev (.hotRestart (be64 (rest.take 8))) (headerSize + 8) else .fail
    else if ty = typeHotRestartAck then
      if rest.length < 8 then .more
      else if cfg.hasListener then .ev (.hotRestartAck (be64 (rest.take 8))) (headerSize + 8) else .fail
    else .fail     -- types without a handler after the handshake (0, 4, 5, 6, 7)
  | _ => .fail     -- unreachable: `h` always has 8 bytes

/-- one iteration of handleEvents on the unconsumed window `w`: fewer than 8 bytes → wait -/
def next (cfg : Cfg) (w : List Nat) : Next :=
  if w.length < headerSize then .more else nextH cfg (w.take headerSize) (w.drop headerSize)

inductive SState where
  | opened | halfClosed
  deriving DecidableEq, Repr, Inhabited

structure Stream where
  id : Nat
  state : SState := .opened
  pending : List (List Nat) := []       -- payloads offered to the stream, arrival order
  deriving DecidableEq, Repr, Inhabited

structure Sess where
  streams : List Stream := []           -- creation order
  polls   : Nat := 0
  posts   : Nat := 0                    -- hot-restart lambdas posted to the dispatcher
  acks    : Nat := 0                    -- acks counted by the listener (it is in hot-restart state, as is this session)
  deriving DecidableEq, Repr, Inhabited

def Sess.find (s : Sess) (id : Nat) : Option Stream := s.streams.find? (·.id = id)

def Sess.update (s : Sess) (id : Nat) (f : Stream → Stream) : Sess :=
  { s with streams := s.streams.map (fun x => if x.id = id then f x else x) }

def halfClose (x : Stream) : Stream := { x with state := .halfClosed }

def apply (cfg : Cfg) (s : Sess) : Effect → Sess
  | .poll => { s with polls := s.polls + 1 }
  | .close id => s.update id halfClose
  | .data id status payload =>
    let s1 := if (s.find id).isNone ∧ cfg.isServer ∧ status = 0 then { s with streams := s.streams ++ [{ id }] } else s
    if status = 1 then s1.update id halfClose
    else s1.update id (fun x => { x with pending := x.pending ++ [payload] })
  | .hotRestart _ => { s with posts := s.posts + 1 }
  | .hotRestartAck e =>
    -- (repaired code) only an ack the listener waits for counts: right epoch, and this session has not acked yet
    if e = cfg.listenerEpoch ∧ s.acks = 0 then { s with acks := s.acks + 1 } else s

/-- the loop of handleEvents on the whole window; returns the new session summary, the unconsumed rest, and whether
    the session was closed by a protocol error -/
def loop (cfg : Cfg) : Nat → Sess → List Nat → Sess × List Nat × Bool
  | 0, s, w => (s, w, false)
  | f + 1, s, w =>
    match next cfg w with
    | .more => (s, w, false)
    | .fail => (s, [], true)
    | .ev e n => loop cfg f (apply cfg s e) (w.drop n)

structure Conn where
  sess   : Sess := {}
  win    : List Nat := []      -- received and not yet consumed
  closed : Bool := false
  deriving DecidableEq, Repr, Inhabited

/-- Session.onEventData for one kernel read of `chunk` bytes -/
def feed (cfg : Cfg) (c : Conn) (chunk : List Nat) : Conn :=
  if c.closed then c else
  let w := c.win ++ chunk
  let (s', rest, err) := loop cfg (w.length + 1) c.sess w
  { sess := s', win := rest, closed := err }

def feedAll (cfg : Cfg) (c : Conn) (chunks : List (List Nat)) : Conn := chunks.foldl (feed cfg) c

/-! ### encoders (header.encode, fallbackDataEvent.encode, stream close / hot restart events) -/
def enc32 (x : Nat) : List Nat := [x / 16777216 % 256, x / 65536 % 256, x / 256 % 256, x % 256]
def enc64 (x : Nat) : List Nat := enc32 (x / 4294967296 % 4294967296) ++ enc32 (x % 4294967296)
def encHeader (length version ty : Nat) : List Nat := enc32 length ++ [0x77, 0x58, version, ty]

def encode (version : Nat) : Effect → List Nat
  | .poll => encHeader headerSize version typePolling
  | .close id => encHeader (headerSize + 4) version typeStreamClose ++ enc32 id
  | .data id status payload => encHeader (headerSize + 8 + payload.length) version typeFallbackData ++ enc32 id ++ enc32 status ++ payload
  | .hotRestart e => encHeader (headerSize + 8) version typeHotRestart ++ enc64 e
  | .hotRestartAck e => encHeader (headerSize + 8) version typeHotRestartAck ++ enc64 e

/-! ### handshake: Session.extractShmMetadata (repaired code) -/
def extractShmMetadata (body : List Nat) : Option (List Nat × List Nat) :=   -- (bufferPath, queuePath)
  match body with
  | q0 :: q1 :: r1 =>
    let qlen := be16 q0 q1
    if r1.length < qlen + 2 then none else
    match r1.drop qlen with
    | b0 :: b1 :: r2 =>
      let blen := be16 b0 b1
      if r2.length < blen then none else some (r2.take blen, r1.take qlen)
    | _ => none
  | _ => none

def generateShmMetadata (queuePath bufferPath : List Nat) : List Nat :=
  [queuePath.length / 256 % 256, queuePath.length % 256] ++ queuePath ++
  [bufferPath.length / 256 % 256, bufferPath.length % 256] ++ bufferPath

end Events
