/-
  Model of session shutdown and the process-wide buffer-manager table:
    session.go        : Session.Close (CAS on `shutdown`, notify, post the clean-up), the posted clean-up (close the
                        connection, drop the stream table, release the buffer-manager reference, unmap the queue),
                        exitErr, OpenStream (check, then insert into the stream table), IsClosed
    buffer_manager.go : getGlobalBufferManager* / addGlobalBufferManagerRefCount (reference counts per path; the mapping
                        goes away with the last reference)
  The posted clean-up runs later on the event loop: it is a separate step.  OpenStream is two steps (the checks, then
  the insertion under the lock) so that a Close can fall between them.
-/
namespace Lifecycle

structure Sess where
  path      : Nat                 -- which shared buffer memory it uses
  shutdown  : Bool := false       -- Session.shutdown
  posted    : Bool := false       -- the clean-up has been posted and not yet run
  cleaned   : Bool := false       -- the clean-up has run: streams == nil, reference released, queue unmapped
  streams   : Nat := 0            -- entries in the stream table
  connOpen  : Bool := true
  holdsRef  : Bool := true        -- holds one reference on its buffer manager
  queueMapped : Bool := true
  notified  : Nat := 0            -- OnShutdown callbacks delivered
  opening   : Bool := false       -- an OpenStream passed its checks and has not yet inserted
  deriving DecidableEq, Repr, Inhabited

structure Sys where
  sess : List Sess := []
  refs : Nat → Nat := fun _ => 0      -- reference count per path (0 = not mapped)
  unmaps : Nat → Nat := fun _ => 0    -- number of times each path's mapping was released (ghost)

def Sys.setRef (s : Sys) (p : Nat) (n : Nat) : Sys := { s with refs := fun q => if q = p then n else s.refs q }

/-- newSession succeeded on a session using path `p`: one more reference -/
def newSess (s : Sys) (p : Nat) : Sys :=
  { (s.setRef p (s.refs p + 1)) with sess := s.sess ++ [{ path := p }] }

def upd (s : Sys) (k : Nat) (f : Sess → Sess) : Sys :=
  match s.sess[k]? with
  | none => s
  | some x => { s with sess := s.sess.set k (f x) }

/-- Session.Close (also what exitErr ends in): only the first call does anything -/
def close (s : Sys) (k : Nat) : Sys :=
  match s.sess[k]? with
  | none => s
  | some x =>
    if x.shutdown then s
    else upd s k (fun x => { x with shutdown := true, posted := true, notified := x.notified + 1 })

/-- what the clean-up leaves of a session -/
def Sess.cleanedUp (x : Sess) : Sess :=
  { x with posted := false, cleaned := true, streams := 0, connOpen := false, holdsRef := false, queueMapped := false }

/-- the posted clean-up of session `k` runs on the event loop -/
def cleanup (s : Sys) (k : Nat) : Sys :=
  match s.sess[k]? with
  | none => s
  | some x =>
    if !x.posted then s
    else
      let s1 := upd s k Sess.cleanedUp
      let n := s1.refs x.path
      if n ≤ 1 then
        { (s1.setRef x.path 0) with unmaps := fun q => if q = x.path then s1.unmaps q + 1 else s1.unmaps q }
      else s1.setRef x.path (n - 1)

inductive OpenRes where
  | ok | closed | noop
  deriving DecidableEq, Repr, Inhabited

/-- OpenStream, first half: IsClosed / IsHealthy -/
def openCheck (s : Sys) (k : Nat) : Sys × OpenRes :=
  match s.sess[k]? with
  | none => (s, .noop)
  | some x =>
    if x.opening then (s, .noop)
    else if x.shutdown then (s, .closed)
    else (upd s k (fun x => { x with opening := true }), .ok)

/-- OpenStream, second half: insertion into the stream table under the lock
    (repaired code: a table already dropped by Close yields the shutdown error instead of a nil-map panic) -/
def openInsert (s : Sys) (k : Nat) : Sys × OpenRes :=
  match s.sess[k]? with
  | none => (s, .noop)
  | some x =>
    if !x.opening then (s, .noop)
    else if x.cleaned then (upd s k (fun x => { x with opening := false }), .closed)
    else (upd s k (fun x => { x with opening := false, streams := x.streams + 1 }), .ok)

inductive Op where
  | newSess (p : Nat) | close (k : Nat) | cleanup (k : Nat) | openCheck (k : Nat) | openInsert (k : Nat)
  deriving DecidableEq, Repr, Inhabited

def step (s : Sys) : Op → Sys
  | .newSess p => newSess s p
  | .close k => close s k
  | .cleanup k => cleanup s k
  | .openCheck k => (openCheck s k).1
  | .openInsert k => (openInsert s k).1

def run (s : Sys) (ops : List Op) : Sys := ops.foldl step s

end Lifecycle
