/-
  Model of session shutdown and the process-wide buffer-manager table:
    session.go        : Session.Close (CAS on `shutdown`, notify, post the clean-up), the posted clean-up (close the
                        connection, drop the stream table, release the buffer-manager reference, unmap the queue),
                        exitErr, OpenStream (check, then insert into the stream table), IsClosed
    buffer_manager.go : getGlobalBufferManager* / addGlobalBufferManagerRefCount (reference counts per path; the mapping
                        goes away with the last reference)
  The posted clean-up runs later on the event loop: it is a separate step.  OpenStream is two steps (the checks, then
  the insertion under the lock) so that a Close can fall between them.
-/
namespace Lifecycle

structure Sess where
  path      : Nat                 -- which shared buffer memory it uses
  shutdown  : Bool := false       -- Session.shutdown
  posted    : Bool := false       -- the clean-up has been posted and not yet run
  cleaned   : Bool := false       -- the clean-up has run: streams == nil, reference released, queue unmapped
  streams   : Nat := 0            -- entries in the stream table
  connOpen  : Bool := true
  holdsRef  : Bool := true        -- holds one reference on its buffer manager
  queueMapped : Bool := true
  notified  : Nat := 0            -- OnShutdown callbacks delivered
  opening   : Bool := false       -- an OpenStream passed its checks and has not yet inserted
  deriving DecidableEq, Repr, Inhabited

structure Sys where
  sess : List Sess := []
  refs : Nat → Nat := fun _ => 0      -- reference count per path (0 = not mapped)
  unmaps : Nat → Nat := fun _ => 0    -- number of times each path's mapping was released (ghost)

def Sys.setRef (s : Sys) (p : Nat) (n : Nat) : Sys := { s with refs := fun q => if q = p then n else s.refs q }

/-- newSession succeeded on a session using path `p`: one more reference -/
def newSess (s : Sys) (p : Nat) : Sys :=
  { (s.setRef p (s.refs p + 1)) with sess := s.sess ++ [{ path := p }] }

def upd (s : Sys) (k : Nat) (f : Sess → Sess) : Sys :=
  match s.sess[k]? with
  | none => s
  | some x => { s with sess := s.sess.set k (f x) }

/-- Session.Close (also what exitErr ends in): only the first call does anything -/
def close (s : Sys) (k : Nat) : Sys :=
  match s.sess[k]? with
  | none => s
  | some x =>
    if x.shutdown then s
    else upd s k (fun x => { x with shutdown := true, posted := true, notified := x.notified + 1 })

/-- what the clean-up leaves of a session -/
def Sess.cleanedUp (x : Sess) : Sess :=
  { x with posted := false, cleaned := true, streams := 0, connOpen := false, holdsRef := false, queueMapped := false }

/-- the posted clean-up of session `k` runs on the event loop -/
def cleanup (s : Sys) (k : Nat) : Sys :=
  match s.sess[k]? with
  | none => s
  | some x =>
    if !x.posted then s
    else
      let s1 := upd s k Sess.cleanedUp
      let n := s1.refs x.path
      if n ≤ 1 then
        { (s1.setRef x.path 0) with unmaps := fun q => if q = x.path then s1.unmaps q + 1 else s1.unmaps q }
      else s1.setRef x.path (n - 1)

inductive OpenRes where
  | ok | closed | noop
  deriving DecidableEq, Repr, Inhabited

/-- OpenStream, first half: IsClosed / IsHealthy -/
def openCheck (s : Sys) (k : Nat) : Sys × OpenRes :=
  match s.sess[k]? with
  | none => (s, .noop)
  | some x =>
    if x.opening then (s, .noop)
    else if x.shutdown then (s, .closed)
    else (upd s k (fun x => { x with opening := true }), .ok)

/-- OpenStream, second half: insertion into the stream table under the lock
    (repaired code: a table already dropped by Close yields the shutdown error instead of a nil-map panic) -/
def openInsert (s : Sys) (k : Nat) : Sys × OpenRes :=
  match s.sess[k]? with
  | none => (s, .noop)
  | some x =>
    if !x.opening then (s, .noop)
    else if x.cleaned then (upd s k (fun x => { x with opening := false }), .closed)
    else (upd s k (fun x => { x with opening := false, streams := x.streams + 1 }), .ok)

inductive Op where
  | newSess (p : Nat) | close (k : Nat) | cleanup (k : Nat) | openCheck (k : Nat) | openInsert (k : Nat)
  deriving DecidableEq, Repr, Inhabited

def step (s : Sys) : Op → Sys
  | .newSess p => newSess s p
  | .close k => close s k
  | .cleanup k => cleanup s k
  | .openCheck k => (openCheck s k).1
  | .openInsert k => (openInsert s k).1

def run (s : Sys) (ops : List Op) : Sys := ops.foldl step s

end Lifecycle

namespace Estab
/-! The tail of `newSession` against the event loop (F23). The session thread runs its two steps in program order; the
    event loop can only act on a connection that has been registered with it; once the connection broke it closes the
    session and its posted clean-up drops the queue manager. Reading the queue manager's path after that is a nil
    dereference (the process dies). -/

inductive TStep where
  | name        -- s.name = s.queueManager.path
  | register    -- s.eventConn.setCallback(s): from here on the event loop sees the connection
  deriving DecidableEq, Repr

inductive Ev where
  | t           -- the session thread runs its next step
  | peerBreak   -- the connection breaks (peer closed it / sent an invalid event): the event loop closes the session
  | cleanup     -- the posted clean-up runs: queueManager = nil
  deriving DecidableEq, Repr

inductive Pc where
  | first | second | done
  deriving DecidableEq, Repr

structure St where
  pc : Pc := .first
  qm : Bool := true          -- queueManager != nil
  registered : Bool := false
  closing : Bool := false
  panicked : Bool := false
  deriving DecidableEq, Repr

def Pc.next : Pc → Pc
  | .first => .second
  | _ => .done

def instr (prog : TStep × TStep) : Pc → Option TStep
  | .first => some prog.1
  | .second => some prog.2
  | .done => none

def step (prog : TStep × TStep) (s : St) : Ev → St
  | .t =>
    match instr prog s.pc with
    | none => s
    | some .name => if s.qm then { s with pc := s.pc.next } else { s with pc := s.pc.next, panicked := true }
    | some .register => { s with pc := s.pc.next, registered := true }
  | .peerBreak => if s.registered then { s with closing := true } else s
  | .cleanup => if s.closing then { s with qm := false } else s

def run (prog : TStep × TStep) (l : List Ev) : St := l.foldl (step prog) {}

/-- the order of the repaired code (checked against the source by the skeleton tie of `newSession`) -/
def fixedProg : TStep × TStep := (.name, .register)
/-- the order before the repair -/
def oldProg : TStep × TStep := (.register, .name)

end Estab
