/-
  Model of a blocking read and what releases it (stream.go):
    Stream.readMore          : move pending data, return if enough; otherwise wait in a select on the data-notification
                               channel (capacity 1), the close-notification channel (closed once) and the deadline timer,
                               re-checking the buffered data after every wake-up
    fillDataToReadBuffer     : pending.add | load the state: closed -> drop everything, otherwise asyncNotify (a
                               non-blocking send into the capacity-1 channel)
    halfClose / Close / Session.Close : state change and safeCloseNotify (closing the close-notification channel)
    Flush's queue-full loop  : at most ten retries, or the write deadline, or the close notification
  The reader and the event loop are separate threads whose steps interleave arbitrarily; closes are atomic events.
-/
namespace ReadWait

inductive St where
  | opened | closed | half
  deriving DecidableEq, Repr, Inhabited

inductive Res where
  | ok | eos | closedErr | timeout
  deriving DecidableEq, Repr, Inhabited

inductive RPc where
  | idle                       -- no read in progress
  | start (min : Nat)          -- readMore(min) called, nothing executed yet
  | chkOpen (min : Nat)        -- buffer empty: about to load the state for the end-of-stream test
  | sel (min : Nat)            -- blocked in the select
  | closeChk (min : Nat)       -- woken by the close notification, not enough data: about to load the state
  | done (r : Res)
  deriving DecidableEq, Repr, Inhabited

inductive WPc where
  | idle | loaded              -- `loaded`: pending.add done, about to load the state
  deriving DecidableEq, Repr, Inhabited

structure State where
  state    : St := .opened
  pending  : Nat := 0
  recv     : Nat := 0
  token    : Bool := false     -- recvNotifyCh holds a value
  closeCh  : Bool := false     -- closeNotifyCh is closed
  deadline : Bool := false     -- the read has a deadline (the timer may fire)
  r        : RPc := .idle
  w        : WPc := .idle
  arrived  : Nat := 0          -- ghost: bytes delivered while the stream was not closed
  deriving DecidableEq, Repr, Inhabited

def moveTo (s : State) : State := { s with recv := s.recv + s.pending, pending := 0 }

/-- which ready branch of the select runs (Go chooses at random among the ready ones) -/
inductive Pick where | tok | close | timer
  deriving DecidableEq, Repr, Inhabited

/-- one step of the reader thread -/
def stepR (s : State) (pick : Pick) : State :=
  match s.r with
  | .idle => s
  | .done _ => s
  | .start min =>
    -- pendingData.moveTo(recvBuf), then the checks
    if min ≤ s.recv + s.pending then { s with recv := s.recv + s.pending, pending := 0, r := .done .ok }
    else if s.recv + s.pending = 0 then { s with recv := s.recv + s.pending, pending := 0, r := .chkOpen min }
    else { s with recv := s.recv + s.pending, pending := 0, r := .sel min }
  | .chkOpen min =>
    if s.state ≠ .opened then { s with r := .done .eos } else { s with r := .sel min }
  | .sel min =>
    match pick with
    | .tok =>
      if s.token then
        if min ≤ s.recv + s.pending then { s with token := false, recv := s.recv + s.pending, pending := 0, r := .done .ok }
        else { s with token := false, recv := s.recv + s.pending, pending := 0 }
      else s
    | .close =>
      if s.closeCh then
        if min ≤ s.recv + s.pending then { s with recv := s.recv + s.pending, pending := 0, r := .done .ok }
        else { s with recv := s.recv + s.pending, pending := 0, r := .closeChk min }
      else s
    | .timer => if s.deadline then { s with r := .done .timeout } else s
  | .closeChk _ =>
    if s.state = .half then { s with r := .done .eos } else { s with r := .done .closedErr }

/-- one step of the event loop delivering `n` bytes (first step) or finishing the delivery (second step) -/
def stepW (s : State) (n : Nat) : State :=
  match s.w with
  | .idle => { s with pending := s.pending + n, w := .loaded }
  | .loaded =>
    if s.state = .closed then { s with pending := 0, recv := 0, w := .idle }
    else { s with token := true, w := .idle, arrived := s.arrived }

/-- the peer closes the stream (halfClose): state change and notification -/
def peerClose (s : State) : State :=
  if s.state = .opened then { s with state := .half, closeCh := true } else s

/-- Stream.Close from another goroutine: everything buffered is dropped, readers are notified -/
def localClose (s : State) : State :=
  if s.state = .closed then s else { s with state := .closed, pending := 0, recv := 0, closeCh := true }

/-- Session.Close / exitErr: every stream's close notification fires (the state changes in the later clean-up) -/
def sessionClose (s : State) : State := { s with closeCh := true }

def startRead (s : State) (min : Nat) (deadline : Bool) : State :=
  match s.r with
  | .idle => { s with r := .start min, deadline := deadline }
  | .done _ => { s with r := .start min, deadline := deadline }
  | _ => s

inductive Op where
  | read (min : Nat) (deadline : Bool) | r (pick : Pick) | w (n : Nat) | peerClose | localClose | sessionClose
  deriving DecidableEq, Repr, Inhabited

def step (s : State) : Op → State
  | .read m d => startRead s m d
  | .r p => stepR s p
  | .w n => stepW s n
  | .peerClose => peerClose s
  | .localClose => localClose s
  | .sessionClose => sessionClose s

def run (s : State) (ops : List Op) : State := ops.foldl step s

/-! ### Flush on a full queue -/

/-- outcome of one wait of the retry loop -/
inductive Wake where
  | retryFull | retryOk | deadline | closed
  deriving DecidableEq, Repr, Inhabited

inductive FRes where
  | ok | queueFull | timeout | closedErr
  deriving DecidableEq, Repr, Inhabited

/-- the loop `for i := 0; err == ErrQueueFull && i < 10; i++ { select {...} }`: returns the result and how many waits it
    made -/
def flushLoop : Nat → List Wake → Nat → FRes × Nat
  | 0, _, n => (.queueFull, n)
  | _ + 1, [], n => (.queueFull, n)
  | fuel + 1, w :: ws, n =>
    match w with
    | .retryFull => flushLoop fuel ws (n + 1)
    | .retryOk => (.ok, n + 1)
    | .deadline => (.timeout, n + 1)
    | .closed => (.closedErr, n + 1)

def flushFull (ws : List Wake) : FRes × Nat := flushLoop 10 ws 0

end ReadWait
