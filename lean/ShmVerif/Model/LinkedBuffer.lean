/-
  Statement-level model of buffer_slice.go (bufferSlice, sliceList), buffer.go (linkedBuffer), the sequential-atomic
  view of the allocator (buffer_manager.go: allocShmBuffer(s), recycleBuffer(s), readBufferSlice; justified by C02's
  sequential refinement), and the data path of stream.go (Flush on the shared-memory and the fall-back transport,
  pendingData.moveTo with its empty-slice cases).

  Bytes are `Nat`s. Shared memory is a list of slots (header + payload); a slot id stands for its offset.
  Nil dereferences / out-of-range slices of the Go code are the outcome `none` ("panic") of the operations below.
-/
namespace LB

structure Hdr where
  size    : Nat := 0
  start   : Nat := 0
  next    : Nat := 0
  hasNext : Bool := false
  inUsed  : Bool := false
  deriving DecidableEq, Repr, Inhabited

structure MSlot where
  cap  : Nat
  cls  : Nat
  hdr  : Hdr := {}
  data : List Nat              -- payload, length = cap
  deriving DecidableEq, Repr, Inhabited

structure Mem where
  slots : List MSlot
  free  : List (List Nat)      -- per size class (ascending capPerBuffer): free slot ids, head first
  caps  : List Nat             -- capPerBuffer per class
  deriving DecidableEq, Repr, Inhabited

/-- createBufferManager's result for classes (capPerBuffer, number of slots) -/
def Mem.create (classes : List (Nat × Nat)) : Mem :=
  let rec go (cs : List (Nat × Nat)) (ci base : Nat) (slots : List MSlot) (free : List (List Nat)) : List MSlot × List (List Nat) :=
    match cs with
    | [] => (slots, free)
    | (cap, n) :: r =>
      go r (ci + 1) (base + n) (slots ++ List.replicate n { cap, cls := ci, data := List.replicate cap 0 })
        (free ++ [(List.range n).map (· + base)])
  let (slots, free) := go classes 0 0 [] []
  { slots, free, caps := classes.map (·.1) }

/-- a Go *bufferSlice -/
structure BS where
  slot  : Option Nat := none     -- header/payload in shared memory (isFromShm)
  heap  : List Nat := []         -- payload when not from shared memory
  cap   : Nat := 0
  start : Nat := 0
  ri    : Nat := 0               -- readIndex
  wi    : Nat := 0               -- writeIndex
  deriving DecidableEq, Repr, Inhabited

def BS.isShm (s : BS) : Bool := s.slot.isSome
def BS.size (s : BS) : Nat := s.wi - s.ri
def BS.remain (s : BS) : Nat := s.cap - s.wi

def Mem.slot (m : Mem) (i : Nat) : MSlot := m.slots.getD i default
def Mem.setSlot (m : Mem) (i : Nat) (f : MSlot → MSlot) : Mem := { m with slots := m.slots.modify i f }

/-- the bytes backing a slice -/
def BS.bytes (m : Mem) (s : BS) : List Nat :=
  match s.slot with
  | some i => (m.slot i).data
  | none => s.heap

def writeAt (l : List Nat) (at_ : Nat) (d : List Nat) : List Nat :=
  l.take at_ ++ d ++ l.drop (at_ + d.length)

/-- bufferSlice.append: copy as much of `d` as fits; returns (mem, slice, copied) -/
def BS.append (m : Mem) (s : BS) (d : List Nat) : Mem × BS × Nat :=
  let n := min d.length (s.cap - s.wi)
  let chunk := d.take n
  match s.slot with
  | some i => (m.setSlot i (fun x => { x with data := writeAt x.data s.wi chunk }), { s with wi := s.wi + n }, n)
  | none => (m, { s with heap := writeAt s.heap s.wi chunk, wi := s.wi + n }, n)

/-- bufferSlice.read(size): (data, short?) and advances readIndex -/
def BS.read (m : Mem) (s : BS) (size : Nat) : BS × List Nat × Bool :=
  let n := min size s.size
  ({ s with ri := s.ri + n }, ((s.bytes m).drop s.ri).take n, decide (s.size < size))

def BS.peek (m : Mem) (s : BS) (size : Nat) : List Nat :=
  ((s.bytes m).drop s.ri).take (min size s.size)

def BS.skip (s : BS) (size : Nat) : BS × Nat :=
  let n := min size s.size
  ({ s with ri := s.ri + n }, n)

/-! ### allocator, sequential-atomic view -/

/-- bufferList.pop: the last free slot is never handed out; the popped header is cleared and marked in use -/
def Mem.pop (m : Mem) (c : Nat) : Option (Mem × BS) :=
  match m.free.getD c [] with
  | i :: j :: r =>
    let m1 : Mem := { m with free := m.free.set c (j :: r) }
    let m2 := m1.setSlot i (fun x => { x with hdr := { x.hdr with hasNext := false, inUsed := true } })
    let h := (m2.slot i).hdr
    some (m2, { slot := some i, cap := (m2.slot i).cap, start := h.start, ri := h.start, wi := h.start + h.size })
  | _ => none

/-- bufferManager.allocShmBuffer(size): first class that is large enough and not exhausted -/
def Mem.allocOne (m : Mem) (size : Nat) : Option (Mem × BS) :=
  if size ≤ m.caps.getLast?.getD 0 then
    (List.range m.caps.length).findSome? (fun c => if size ≤ m.caps.getD c 0 then m.pop c else none)
  else none

/-- bufferManager.allocShmBuffers: from the largest class downwards until `size` is covered; returns allocated bytes -/
def Mem.allocMany (m : Mem) (size : Nat) : Mem × List BS × Nat :=
  let rec cls (fuel : Nat) (m : Mem) (c : Nat) (remain : Int) (acc : List BS) (got : Nat) : Mem × List BS × Nat × Int :=
    match fuel with
    | 0 => (m, acc, got, remain)
    | f + 1 =>
      if remain > 0 then
        match m.pop c with
        | some (m', b) => cls f m' c (remain - b.cap) (acc ++ [b]) (got + b.cap)
        | none => (m, acc, got, remain)
      else (m, acc, got, remain)
  let rec down (k : Nat) (m : Mem) (remain : Int) (acc : List BS) (got : Nat) : Mem × List BS × Nat :=
    match k with
    | 0 => (m, acc, got)
    | c + 1 =>
      if remain > 0 then
        let (m', acc', got', remain') := cls (m.slots.length + 1) m c remain acc got
        down c m' remain' acc' got'
      else (m, acc, got)
  down m.caps.length m size [] 0

/-- bufferList.push via bufferManager.recycleBuffer: reset the header, append to the free list of the first class with
    the same capPerBuffer -/
def Mem.recycle (m : Mem) (s : BS) : Mem :=
  match s.slot with
  | none => m
  | some i =>
    match (List.range m.caps.length).find? (fun c => m.caps.getD c 0 = s.cap) with
    | none => m
    | some c =>
      let m1 := m.setSlot i (fun x => { x with hdr := { x.hdr with size := 0, start := 0, hasNext := false, inUsed := false } })
      { m1 with free := m1.free.set c (m1.free.getD c [] ++ [i]) }

/-- bufferManager.readBufferSlice(offset): a slice over the slot, indices from its header -/
def Mem.readSlice (m : Mem) (i : Nat) : Option BS :=
  if i < m.slots.length then
    let x := m.slot i
    some { slot := some i, cap := x.cap, start := x.hdr.start, ri := x.hdr.start, wi := x.hdr.start + x.hdr.size }
  else none

/-- bufferManager.recycleBuffers: follow the message chain -/
def Mem.recycleChain (m : Mem) : Nat → Nat → Mem
  | 0, _ => m
  | f + 1, i =>
    match m.readSlice i with
    | none => m
    | some s =>
      let h := (m.slot i).hdr
      let m' := m.recycle s
      if h.hasNext then Mem.recycleChain m' f h.next else m'

/-! ### linkedBuffer -/

structure LBuf where
  sl        : List BS := []          -- sliceList, front first
  w         : Option Nat := none     -- index of sliceList.writeSlice
  pinned    : List BS := []
  curPinned : Bool := false
  fromShm   : Bool := true
  len       : Nat := 0
  deriving DecidableEq, Repr, Inhabited

def defaultSingleBufferSize : Nat := 4096

def heapSlice (n : Nat) : BS := { heap := List.replicate n 0, cap := n }

/-- linkedBuffer.alloc(size) -/
def LBuf.alloc (m : Mem) (l : LBuf) (size : Nat) : Mem × LBuf :=
  match m.allocOne size with
  | some (m', b) => (m', { l with sl := l.sl ++ [b] })
  | none =>
    let (m', bs, got) := m.allocMany size
    let l1 := { l with sl := l.sl ++ bs }
    if got < size then
      let remain := size - got
      (m', { l1 with sl := l1.sl ++ [heapSlice (max remain defaultSingleBufferSize)], fromShm := false })
    else (m', l1)

def LBuf.setAt (l : LBuf) (i : Nat) (b : BS) : LBuf := { l with sl := l.sl.set i b }

/-- linkedBuffer.WriteBytes -/
def LBuf.writeBytes (m : Mem) (l : LBuf) (d : List Nat) : Option (Mem × LBuf) :=
  if d.isEmpty then some (m, l) else
  let (m, l) := match l.w with
    | some _ => (m, l)
    | none => let (m', l') := l.alloc m d.length; (m', { l' with w := if l'.sl.isEmpty then none else some 0 })
  let rec go (fuel : Nat) (m : Mem) (l : LBuf) (d : List Nat) (n : Nat) : Option (Mem × LBuf) :=
    match fuel with
    | 0 => none
    | f + 1 =>
      match l.w with
      | none => none                                   -- nil writeSlice dereference
      | some wi =>
        match l.sl[wi]? with
        | none => none
        | some ws =>
          let (m1, ws1, k) := ws.append m d
          let l1 := l.setAt wi ws1
          let d1 := d.drop k
          if d1.isEmpty then some (m1, { l1 with len := l1.len + n + k })
          else
            let (m2, l2) := if wi + 1 < l1.sl.length then (m1, l1) else l1.alloc m1 d1.length
            go f m2 { l2 with w := if wi + 1 < l2.sl.length then some (wi + 1) else none } d1 (n + k)
  go (d.length + 2) m l d 0

/-- linkedBuffer.WriteByte -/
def LBuf.writeByte (m : Mem) (l : LBuf) (b : Nat) : Option (Mem × LBuf) :=
  let (m, l) := match l.w with
    | some _ => (m, l)
    | none => let (m', l') := l.alloc m 1; (m', { l' with w := if l'.sl.isEmpty then none else some 0 })
  match l.w with
  | none => none
  | some wi =>
    match l.sl[wi]? with
    | none => none
    | some ws =>
      let (m1, ws1, k) := ws.append m [b]
      if k = 1 then some (m1, { (l.setAt wi ws1) with len := l.len + 1 })
      else
        let (m2, l2) := l.alloc m1 1
        if wi + 1 < l2.sl.length then
          match l2.sl[wi + 1]? with
          | none => none
          | some ns =>
            let (m3, ns1, _) := ns.append m2 [b]
            some (m3, { (l2.setAt (wi + 1) ns1) with w := some (wi + 1), len := l2.len + 1 })
        else none

/-- bufferSlice.reserve -/
def BS.reserve (s : BS) (size : Nat) : Option BS :=
  if s.remain ≥ size then some { s with wi := s.wi + size } else none

/-- linkedBuffer.Reserve(size) followed by the caller filling the reserved bytes with `d` (size = d.length) -/
def LBuf.reserve (m : Mem) (l : LBuf) (d : List Nat) : Option (Mem × LBuf) :=
  let size := d.length
  let (m, l) := match l.w with
    | some _ => (m, l)
    | none => let (m', l') := l.alloc m size; (m', { l' with w := if l'.sl.isEmpty then none else some 0 })
  match l.w with
  | none => none
  | some wi =>
    match l.sl[wi]? with
    | none => none
    | some ws =>
      let fill (m : Mem) (s : BS) (at_ : Nat) : Mem × BS :=
        match s.slot with
        | some i => (m.setSlot i (fun x => { x with data := writeAt x.data at_ d }), s)
        | none => (m, { s with heap := writeAt s.heap at_ d })
      match ws.reserve size with
      | some ws1 =>
        let (m1, ws2) := fill m ws1 ws.wi
        some (m1, { (l.setAt wi ws2) with len := l.len + size })
      | none =>
        let tryNext : Option (Mem × LBuf) :=
          match l.sl[wi + 1]? with
          | some e =>
            match e.reserve size with
            | some e1 => let (m1, e2) := fill m e1 e.wi; some (m1, { (l.setAt (wi + 1) e2) with w := some (wi + 1), len := l.len + size })
            | none => none
          | none => none
        match tryNext with
        | some r => some r
        | none =>
          let (m1, l1) := match m.allocOne size with
            | some (m', b) => (m', { l with sl := l.sl ++ [b] })
            | none => (m, { l with sl := l.sl ++ [heapSlice (max size defaultSingleBufferSize)], fromShm := false })
          let bi := l1.sl.length - 1
          match l1.sl[bi]? with
          | none => none
          | some bk =>
            match bk.reserve size with
            | some bk1 => let (m2, bk2) := fill m1 bk1 bk.wi; some (m2, { (l1.setAt bi bk2) with w := some bi, len := l1.len + size })
            | none => some (m1, { l1 with w := some bi, len := l1.len + size })   -- Reserve returns (nil, ErrNoMoreBuffer): len already bumped

/-- bufferSlice.update -/
def updateHdr (m : Mem) (s : BS) (next : Option BS) : Mem :=
  match s.slot with
  | none => m
  | some i =>
    m.setSlot i (fun x =>
      let h := { x.hdr with size := s.size, start := s.start }
      match next with
      | some n => { x with hdr := { h with next := n.slot.getD 0, hasNext := true } }   -- linkNext(nextSlice.offsetInShm)
      | none => { x with hdr := h })

/-- linkedBuffer.done -/
def LBuf.done (m : Mem) (l : LBuf) : Option (Mem × LBuf) :=
  if !l.fromShm then some (m, l) else
  match l.w with
  | none => none                                       -- writeSlice.next() on nil
  | some wi =>
    let upd := (List.range (wi + 1)).foldl (fun m i =>
      match l.sl[i]? with
      | some s => updateHdr m s l.sl[i + 1]?
      | none => m) m
    let unused := l.sl.drop (wi + 1)
    let m' := unused.foldl (fun m s => m.recycle s) upd
    some (m', { l with sl := l.sl.take (wi + 1) })

/-- linkedBuffer.underlyingData -/
def LBuf.underlying (m : Mem) (l : LBuf) : List Nat :=
  match l.w with
  | none => l.sl.flatMap (fun s => ((s.bytes m).drop s.ri).take s.size)
  | some wi => (l.sl.take (wi + 1)).flatMap (fun s => ((s.bytes m).drop s.ri).take s.size)

/-- linkedBuffer.recycle : parked and listed slices back (shared-memory ones to the allocator), then clean -/
def LBuf.recycle (m : Mem) (l : LBuf) : Mem × LBuf :=
  -- (repaired code) cleanPinnedList first: parked slices go back too
  let m1 := l.pinned.foldl (fun m s => m.recycle s) m
  (l.sl.foldl (fun m s => m.recycle s) m1, {})

/-- linkedBuffer.clean -/
def LBuf.clean (l : LBuf) : LBuf := { pinned := l.pinned }

/-- linkedBuffer.appendBufferSlice -/
def LBuf.appendSlice (l : LBuf) (s : BS) : LBuf :=
  { l with sl := l.sl ++ [s], fromShm := l.fromShm && s.isShm, len := l.len + s.size, w := some l.sl.length }

/-- linkedBuffer.readNextSlice -/
def LBuf.readNext (m : Mem) (l : LBuf) : Option (Mem × LBuf) :=
  match l.sl with
  | [] => none                                         -- popFront() returns nil, slice.isFromShm dereferences it
  | s :: r =>
    let w' := match l.w with | some (i + 1) => some i | _ => none
    if s.isShm then
      if l.curPinned then some (m, { l with sl := r, w := w', pinned := l.pinned ++ [s], curPinned := false })
      else some (m.recycle s, { l with sl := r, w := w', curPinned := false })
    else some (m, { l with sl := r, w := w', curPinned := false })

def LBuf.front? (l : LBuf) : Option BS := l.sl.head?
def LBuf.setFront (l : LBuf) (s : BS) : LBuf := { l with sl := s :: l.sl.tail }

/-- linkedBuffer.ReadBytes(size) once readMore has succeeded (len ≥ size) -/
def LBuf.readBytes (m : Mem) (l : LBuf) (size : Nat) : Option (Mem × LBuf × List Nat) :=
  if size = 0 then some (m, l, []) else
  match l.front? with
  | none => none
  | some f0 =>
    let r0 := if f0.size = 0 then l.readNext m else some (m, l)
    match r0 with
    | none => none
    | some (m, l) =>
      match l.front? with
      | none => none
      | some f =>
        if f.size ≥ size then
          let (f', d, _) := f.read m size
          some (m, { (l.setFront f') with curPinned := true, len := l.len - size }, d)
        else
          let rec slow (fuel : Nat) (m : Mem) (l : LBuf) (need : Nat) (acc : List Nat) : Option (Mem × LBuf × List Nat) :=
            match fuel with
            | 0 => none
            | k + 1 =>
              if need = 0 then some (m, l, acc) else
              match l.front? with
              | none => none
              | some f =>
                let (f', d, _) := f.read m need
                let l1 := l.setFront f'
                if d.length ≠ need then
                  match l1.readNext m with
                  | none => none
                  | some (m2, l2) => slow k m2 l2 (need - d.length) (acc ++ d)
                else slow k m l1 (need - d.length) (acc ++ d)
          slow (l.sl.length + size + 2) m { l with len := l.len - size } size []

/-- linkedBuffer.Peek(size) once readMore has succeeded -/
def LBuf.peekBytes (m : Mem) (l : LBuf) (size : Nat) : Option (LBuf × List Nat) :=
  if size = 0 then some (l, []) else
  match l.front? with
  | none => none
  | some f =>
    let d := f.peek m size
    if d.length = size then some ({ l with curPinned := true }, d)
    else
      let rest := l.sl.tail.foldl (fun (acc : List Nat × Nat) e =>
        if acc.2 > 0 then let x := e.peek m acc.2; (acc.1 ++ x, acc.2 - x.length) else acc) (d, size - d.length)
      some (l, rest.1)

/-- linkedBuffer.Discard(size) once readMore has succeeded -/
def LBuf.discard (m : Mem) (l : LBuf) (size : Nat) : Option (Mem × LBuf × Nat) :=
  if size = 0 then some (m, l, 0) else
  let rec go (fuel : Nat) (m : Mem) (l : LBuf) (need n : Nat) : Option (Mem × LBuf × Nat) :=
    match fuel with
    | 0 => none
    | k + 1 =>
      match l.front? with
      | none => none
      | some f =>
        let (f', sk) := f.skip need
        let l1 := l.setFront f'
        if need - sk = 0 then some (m, { l1 with len := l1.len - (n + sk) }, n + sk)
        else
          match l1.readNext m with
          | none => none
          | some (m2, l2) => go k m2 l2 (need - sk) (n + sk)
  go (l.sl.length + 2) m l size 0

/-- linkedBuffer.ReadByte once readMore has succeeded: pop used-up slices until one has a byte -/
def LBuf.readByte.go : Nat → Mem → LBuf → Option (Mem × LBuf × Nat)
  | 0, _, _ => none
  | fuel + 1, m, l =>
    match l.front? with
    | none => none                                   -- front() == nil
    | some f =>
      let (f', d, short) := f.read m 1
      if !short then some (m, { (l.setFront f') with len := l.len - 1 }, d.headD 0)
      else
        match (l.setFront f').readNext m with
        | none => none
        | some (m2, l2) => LBuf.readByte.go fuel m2 l2

def LBuf.readByte (m : Mem) (l : LBuf) : Option (Mem × LBuf × Nat) := LBuf.readByte.go (l.sl.length + 1) m l

/-- linkedBuffer.ReadString(size) once readMore has succeeded -/
def LBuf.readString (m : Mem) (l : LBuf) (size : Nat) : Option (Mem × LBuf × List Nat) :=
  if size = 0 then some (m, l, []) else
  match l.front? with
  | none => none
  | some f =>
    if f.size ≥ size then
      let (f', d, _) := f.read m size
      some (m, { (l.setFront f') with len := l.len - size }, d)
    else
      let rec slow (fuel : Nat) (m : Mem) (l : LBuf) (written : Nat) (acc : List Nat) : Option (Mem × LBuf × List Nat) :=
        match fuel with
        | 0 => none
        | k + 1 =>
          if written ≥ size then some (m, { l with len := l.len - size }, acc) else
          match l.front? with
          | none => none
          | some f =>
            let r := if f.size = 0 then l.readNext m else some (m, l)
            match r with
            | none => none
            | some (m1, l1) =>
              match l1.front? with
              | none => none
              | some g =>
                let (g', d, _) := g.read m1 (size - written)
                slow k m1 (l1.setFront g') (written + d.length) (acc ++ d)
      slow (2 * l.sl.length + size + 2) m l 0 []

/-- linkedBuffer.read(p) (Stream.Read) once at least one byte is buffered -/
def LBuf.readInto (m : Mem) (l : LBuf) (size : Nat) : Option (Mem × LBuf × List Nat) :=
  if size = 0 then some (m, l, []) else
  let rec go (fuel : Nat) (m : Mem) (l : LBuf) (written : Nat) (acc : List Nat) : Option (Mem × LBuf × List Nat) :=
    match fuel with
    | 0 => none
    | k + 1 =>
      match l.front? with
      | none => some (m, { l with len := l.len - written }, acc)
      | some f =>
        if size > written then
          let (f', d, short) := f.read m (size - written)
          let l1 := l.setFront f'
          if !short then some (m, { l1 with len := l1.len - (written + d.length) }, acc ++ d)
          else
            match l1.readNext m with
            | none => none
            | some (m2, l2) => go k m2 l2 (written + d.length) (acc ++ d)
        else some (m, { l with len := l.len - written }, acc)
  go (l.sl.length + 2) m l 0 []

/-- linkedBuffer.cleanPinnedList -/
def LBuf.cleanPinned (m : Mem) (l : LBuf) : Mem × LBuf :=
  if l.pinned.isEmpty then (m, l)
  else (l.pinned.foldl (fun m s => m.recycle s) m, { l with pinned := [], curPinned := false })

/-- linkedBuffer.ReleasePreviousRead -/
def LBuf.release (m : Mem) (l : LBuf) : Mem × LBuf :=
  let (m, l) := l.cleanPinned m
  match l.sl with
  | [] => (m, l)
  | f :: r =>
    if f.size = 0 ∧ l.w = some 0 then (m.recycle f, { l with sl := r, w := none })
    else (m, l)

end LB
