/-
  Model of the net.Listener adapter (net_listener.go): per-session reference counting (one reference for the listener,
  one per stream wrapper), the backlog of wrapped streams, Accept, streamWrapper.Close, listener.Close, a session ending
  because its peer went away.  A session is closed by the adapter when its wait group drains.
-/
namespace NetL

structure Conn where
  sess   : Nat
  sid    : Nat                 -- which stream of that session (ghost identity)
  closed : Bool := false
  deriving DecidableEq, Repr, Inhabited

structure Sess where
  refs     : Nat := 1          -- wait-group counter
  listed   : Bool := true      -- still in listener.sessions (the listener's reference is outstanding)
  closed   : Bool := false     -- Session.Close has been called by the adapter
  accepting : Bool := true     -- its accept loop is running
  nextSid  : Nat := 0
  deriving DecidableEq, Repr, Inhabited

structure L where
  closed  : Bool := false
  sess    : List Sess := []
  conns   : List Conn := []    -- every wrapper ever created (index = identity)
  backlog : List Nat := []     -- wrapper ids waiting for Accept, oldest first
  handed  : List Nat := []     -- wrapper ids returned by Accept, in order
  cap     : Nat := 4096
  deriving DecidableEq, Repr, Inhabited

def updS (l : L) (k : Nat) (f : Sess → Sess) : L :=
  match l.sess[k]? with
  | none => l
  | some x => { l with sess := l.sess.set k (f x) }

/-- wg.Done(): the session is closed when the counter reaches zero -/
def done (l : L) (k : Nat) : L :=
  updS l k (fun x => let r := x.refs - 1; { x with refs := r, closed := x.closed || r == 0 })

/-- a connection was accepted and its session established -/
def newSess (l : L) : L :=
  if l.closed then { l with sess := l.sess ++ [{ refs := 0, listed := false, closed := true, accepting := false }] }
  else { l with sess := l.sess ++ [{}] }

def closeConn (l : L) (c : Nat) : L :=
  match l.conns[c]? with
  | none => l
  | some x => if x.closed then l else done { l with conns := l.conns.set c { x with closed := true } } x.sess

/-- repaired code: wrappers nobody can reach any more are closed -/
def drain (l : L) : L := { (l.backlog.foldl closeConn l) with backlog := [] }

/-- session `k`'s accept loop got a stream: wrap it (one more reference) and queue it, unless the listener is closed -/
def stream (l : L) (k : Nat) : L :=
  match l.sess[k]? with
  | none => l
  | some x =>
    if !x.accepting ∨ l.backlog.length ≥ l.cap then l
    else if l.closed then
      -- (repaired code) the wrapper is closed at once instead of being dropped with its reference (net effect on the
      -- counter: none); the loop ends
      updS l k (fun x => { x with accepting := false })
    else
      let c := l.conns.length
      let l1 := updS { l with conns := l.conns ++ [{ sess := k, sid := x.nextSid }] } k
                  (fun x => { x with refs := x.refs + 1, nextSid := x.nextSid + 1 })
      { l1 with backlog := l1.backlog ++ [c] }

/-- the listener gives its reference on a session back -/
def unlist (x : Sess) : Sess :=
  if x.listed then { x with listed := false, refs := x.refs - 1, closed := x.closed || (x.refs - 1 == 0) } else x

/-- AcceptStream failed (the peer went away / the session closed): the loop closes the session and gives the
    listener's reference back -/
def sessGone (l : L) (k : Nat) : L :=
  match l.sess[k]? with
  | none => l
  | some x =>
    if !x.accepting then updS l k (fun x => { x with closed := true })
    else updS l k (fun x => { (unlist x) with accepting := false, closed := true })

def accept (l : L) : L × Option Nat :=
  match l.backlog with
  | c :: rest => ({ l with backlog := rest, handed := l.handed ++ [c] }, some c)
  | [] => (l, none)

/-- listener.Close: mark closed, give back the listener's reference of every session still listed, (repaired) drain -/
def close (l : L) : L :=
  let l1 := drain l
  { l1 with closed := true, sess := l1.sess.map unlist }

inductive Op where
  | newSess | stream (k : Nat) | sessGone (k : Nat) | accept | closeConn (c : Nat) | close
  deriving DecidableEq, Repr, Inhabited

def step (l : L) : Op → L
  | .newSess => newSess l
  | .stream k => stream l k
  | .sessGone k => sessGone l k
  | .accept => (accept l).1
  | .closeConn c => closeConn l c
  | .close => close l

def run (l : L) (ops : List Op) : L := ops.foldl step l

end NetL
