/-
  Model of bufferList.pop / bufferList.push (buffer_manager.go) and the bufferHeader accessors (buffer_slice.go)
  at the granularity of single shared-memory accesses (one model step = the access the instrumented source yields
  before + local computation up to the next access).

  Slots are identified by their index (byte offset = index * (capPerBuffer + bufferHeaderSize)).
  Threads may belong to either process: both run this code on the same words.
-/
namespace FreeListC

structure Slot where
  next    : Nat
  hasNext : Bool     -- flag byte bit 0
  inUsed  : Bool     -- flag byte bit 1 (no other bit of the flag byte is ever set by the code)
  deriving DecidableEq, Repr, Inhabited

def Slot.flag (x : Slot) : Nat := (if x.hasNext then 1 else 0) + (if x.inUsed then 2 else 0)

inductive Op where
  | pop
  | push (k : Nat)  -- recycle the k-th slot this thread currently holds (skipped if it holds fewer)
  deriving DecidableEq, Repr, Inhabited

inductive Pc where
  | idle
  -- pop
  | pLdHead | pDec | pIncFail | pHasNext | pNext | pCas | pClear | pSetUsed | pCnt | pPlainSize | pReload
  -- push
  | uReset | uLdTail | uCas | uLink0 | uLink1 | uIncSize | uDecCnt
  deriving DecidableEq, Repr, Inhabited

inductive Res where
  | got (i : Nat) | nomore | pushed (i : Nat) | skipped
  deriving DecidableEq, Repr, Inhabited

structure Th where
  pc      : Pc := .idle
  prog    : List Op := []
  held    : List Nat := []
  oldHead : Nat := 0
  nxt     : Nat := 0
  retry   : Nat := 0
  ot      : Nat := 0      -- old tail (push)
  o       : Nat := 0      -- slot being pushed
  lver    : Nat := 0      -- ghost: head version when oldHead was loaded
  res     : List Res := []
  deriving DecidableEq, Repr, Inhabited

structure State where
  head    : Nat
  tail    : Nat
  size    : Int
  counter : Int
  slots   : List Slot
  ths     : List Th
  hver    : Nat := 0      -- ghost: number of successful head CASes
  aba     : Bool := false -- ghost: some head CAS succeeded although head had changed since the load
  deriving DecidableEq, Repr, Inhabited

/-- the state createFreeBufferList builds: chain 0 → 1 → … → n-1, last flag cleared -/
def initSlots (n : Nat) : List Slot :=
  (List.range n).map (fun i => if i + 1 < n then { next := i + 1, hasNext := true, inUsed := false }
                              else { next := 0, hasNext := false, inUsed := false })

def init (n : Nat) (progs : List (List Op)) : State :=
  { head := 0, tail := n - 1, size := n, counter := 0, slots := initSlots n,
    ths := progs.map (fun p => { prog := p }) }

def retryBound : Nat := 200

def getSlot (s : State) (i : Nat) : Slot := s.slots.getD i default
def clearFlag (s : State) (i : Nat) : List Slot := s.slots.modify i (fun x => { x with hasNext := false, inUsed := false })
def setInUsed (s : State) (i : Nat) : List Slot := s.slots.modify i (fun x => { x with inUsed := true })
def setHasNext (s : State) (i : Nat) : List Slot := s.slots.modify i (fun x => { x with hasNext := true })
def setNext (s : State) (i : Nat) (v : Nat) : List Slot := s.slots.modify i (fun x => { x with next := v })

/-- begin the next operation of the program (no shared access: part of the previous step's local computation) -/
def startNextAux (t : Th) : List Op → Th
  | [] => { t with pc := .idle, prog := [] }
  | .pop :: r => { t with pc := .pLdHead, prog := r }
  | .push k :: r =>
    match t.held[k]? with
    | none => startNextAux { t with res := t.res ++ [.skipped] } r
    | some o => { t with pc := .uReset, prog := r, o := o, held := t.held.eraseIdx k }

def startNext (t : Th) : Th := startNextAux t t.prog

def finishOp (t : Th) (r : Res) : Th := startNext { t with res := t.res ++ [r] }

/-- one step of thread `t` (its local state `th`), returning new shared state pieces and new thread state + label -/
def stepTh (s : State) (th : Th) : State × Th × String :=
  match th.pc with
  | .idle => (s, th, "idle")
  | .pLdHead => (s, { th with oldHead := s.head, lver := s.hver, pc := .pDec }, "ld_head")
  | .pDec =>
    let s' := { s with size := s.size - 1 }
    if s'.size ≤ 0 then (s', { th with pc := .pIncFail }, "dec_size")
    else (s', { th with pc := .pHasNext, retry := 0 }, "dec_size")
  | .pIncFail => ({ s with size := s.size + 1 }, finishOp th .nomore, "inc_size")
  | .pHasNext =>
    if (getSlot s th.oldHead).hasNext then (s, { th with pc := .pNext }, "hasNext")
    else (s, { th with pc := .pPlainSize }, "hasNext")
  | .pNext => (s, { th with nxt := (getSlot s th.oldHead).next, pc := .pCas }, "next")
  | .pCas =>
    if s.head = th.oldHead then
      ({ s with head := th.nxt, hver := s.hver + 1, aba := s.aba || (th.lver != s.hver) }, { th with pc := .pClear }, "cas_head")
    else (s, { th with pc := .pReload }, "cas_head")
  | .pClear => ({ s with slots := clearFlag s th.oldHead }, { th with pc := .pSetUsed }, "clearFlag")
  | .pSetUsed => ({ s with slots := setInUsed s th.oldHead }, { th with pc := .pCnt }, "setInUsed")
  | .pCnt =>
    ({ s with counter := s.counter + 1 }, finishOp { th with held := th.held ++ [th.oldHead] } (.got th.oldHead), "inc_counter")
  | .pPlainSize =>
    if s.size ≤ 1 then (s, { th with pc := .pIncFail }, "plain_size")
    else (s, { th with pc := .pReload }, "plain_size")
  | .pReload =>
    let th' := { th with oldHead := s.head, lver := s.hver, retry := th.retry + 1 }
    if th.retry + 1 < retryBound then (s, { th' with pc := .pHasNext }, "ld_head")
    else (s, { th' with pc := .pIncFail }, "ld_head")
  | .uReset => ({ s with slots := clearFlag s th.o }, { th with pc := .uLdTail }, "clearFlag")
  | .uLdTail => (s, { th with ot := s.tail, pc := .uCas }, "ld_tail")
  | .uCas =>
    if s.tail = th.ot then ({ s with tail := th.o }, { th with pc := .uLink0 }, "cas_tail")
    else (s, { th with pc := .uLdTail }, "cas_tail")
  | .uLink0 => ({ s with slots := setNext s th.ot th.o }, { th with pc := .uLink1 }, "link_next")
  | .uLink1 => ({ s with slots := setHasNext s th.ot }, { th with pc := .uIncSize }, "link_flag")
  | .uIncSize => ({ s with size := s.size + 1 }, { th with pc := .uDecCnt }, "inc_size")
  | .uDecCnt => ({ s with counter := s.counter - 1 }, finishOp th (.pushed th.o), "dec_counter")

/-- every thread starts its first operation before the first step (the harness primes threads the same way) -/
def prime (s : State) : State := { s with ths := s.ths.map startNext }

def step (s : State) (t : Nat) : State × String :=
  match s.ths[t]? with
  | none => (s, "idle")
  | some th =>
    let (s', th', lab) := stepTh s th
    ({ s' with ths := s'.ths.set t th' }, lab)

def run (s : State) (sched : List Nat) : State := sched.foldl (fun s t => (step s t).1) s

/-- run thread t until it is idle (bounded by fuel) -/
def runToIdle : Nat → State → Nat → State
  | 0, s, _ => s
  | f + 1, s, t =>
    match s.ths[t]? with
    | none => s
    | some th => if th.pc = .idle then s else runToIdle f (step s t).1 t

/-- run the current operation of thread `t` to completion without interference (sequential-atomic execution):
    step `t` until its result list grows -/
def opRun : Nat → State → Nat → State
  | 0, s, _ => s
  | f + 1, s, t =>
    match s.ths[t]? with
    | none => s
    | some th =>
      if th.pc = .idle then s else
      let s' := (step s t).1
      match s'.ths[t]? with
      | none => s'
      | some th' => if th.res.length < th'.res.length then s' else opRun f s' t

/-- a sequential-atomic history: the listed threads perform their next operation one after the other -/
def seqRun (s : State) (ts : List Nat) : State := ts.foldl (fun s t => opRun 16 s t) s

def allHeld (s : State) : List Nat := s.ths.flatMap (·.held)

/-- walk the free chain from `head` following hasNext/next (computeFreeSliceNum's walk), bounded by fuel -/
def walk : Nat → State → Nat → List Nat
  | 0, _, _ => []
  | f + 1, s, i =>
    if (getSlot s i).hasNext then i :: walk f s (getSlot s i).next else [i]

end FreeListC
