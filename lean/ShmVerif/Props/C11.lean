import ShmVerif.Model.ReadWait
/-!
  C11 — no stream or session call blocks forever.

  `Reachable s`: the stream after ANY interleaving of reads being started (any minimum size, with or without deadline),
  reader steps (including any choice among the ready branches of its select), the event loop's two-step deliveries of any
  sizes, the peer's close, a local Close from another goroutine and the session's close notification.
  "Blocks forever" is read as: the reader is asleep in its select and no branch of the select is ready.  The theorems
  show that whenever the releasing event has happened a branch IS ready and taking it ends the read (or, for data that
  is still insufficient, re-arms correctly).  Wall-clock bounds are checked on the real code by the scenario monitors.
-/
namespace Props.C11
open ReadWait

def Reachable (s : State) : Prop := ∃ ops, s = run {} ops

structure Inv (s : State) : Prop where
  selShort : ∀ m, (s.r = .sel m ∨ s.r = .chkOpen m) → s.recv < m
  noLost : 0 < s.pending → s.w = .loaded ∨ s.token = true
  closedNotified : s.state ≠ .opened → s.closeCh = true

theorem inv_init : Inv {} := by constructor <;> simp

theorem inv_step {s : State} (h : Inv s) (op : Op) : Inv (step s op) := by
  obtain ⟨h1, h2, h3⟩ := h
  rcases s with ⟨state, pending, recv, token, closeCh, deadline, r, w, arrived⟩
  simp only at h1 h2 h3
  cases op with
  | read m d =>
    simp only [step, startRead]
    cases r <;> simp only [] <;> first | exact ⟨h1, h2, h3⟩ | (refine ⟨?_, h2, h3⟩; intro m' hm; simp at hm)
  | r p =>
    simp only [step, stepR]
    cases r with
    | idle => exact ⟨h1, h2, h3⟩
    | done res => exact ⟨h1, h2, h3⟩
    | start m =>
      simp only [moveTo]
      by_cases c1 : m ≤ recv + pending
      · simp only [c1, if_true]; refine ⟨?_, ?_, h3⟩ <;> simp
      · simp only [c1, if_false]
        by_cases c2 : recv + pending = 0
        · simp only [c2, if_true]; refine ⟨?_, ?_, h3⟩
          · intro m' hm; simp at hm; subst hm; simp; omega
          · simp
        · simp only [c2, if_false]; refine ⟨?_, ?_, h3⟩
          · intro m' hm; simp at hm; subst hm; simp; omega
          · simp
    | chkOpen m =>
      simp only []
      split
      · refine ⟨?_, h2, h3⟩; intro m' hm; simp at hm
      · refine ⟨?_, h2, h3⟩
        intro m' hm; simp at hm; subst hm
        exact h1 m (Or.inr rfl)
    | sel m =>
      have hlt := h1 m (Or.inl rfl)
      cases p with
      | tok =>
        simp only [moveTo]
        split
        · by_cases c2 : m ≤ recv + pending
          · simp only [c2, if_true]; refine ⟨?_, ?_, h3⟩ <;> simp
          · simp only [c2, if_false]; refine ⟨?_, ?_, h3⟩
            · intro m' hm; simp at hm; subst hm; simp; omega
            · simp
        · exact ⟨h1, h2, h3⟩
      | close =>
        simp only [moveTo]
        split
        · by_cases c2 : m ≤ recv + pending
          · simp only [c2, if_true]; refine ⟨?_, ?_, h3⟩ <;> simp
          · simp only [c2, if_false]; refine ⟨?_, ?_, h3⟩ <;> simp
        · exact ⟨h1, h2, h3⟩
      | timer =>
        simp only []
        split
        · refine ⟨?_, h2, h3⟩; intro m' hm; simp at hm
        · exact ⟨h1, h2, h3⟩
    | closeChk m =>
      simp only []
      split <;> (refine ⟨?_, h2, h3⟩; intro m' hm; simp at hm)
  | w n =>
    simp only [step, stepW]
    cases w with
    | idle => exact ⟨h1, fun _ => Or.inl rfl, h3⟩
    | loaded =>
      simp only []
      split
      · refine ⟨?_, by simp, h3⟩
        intro m hm; have := h1 m hm; simp; omega
      · exact ⟨h1, fun _ => Or.inr rfl, h3⟩
  | peerClose =>
    simp only [step, peerClose]
    split
    · exact ⟨h1, h2, fun _ => rfl⟩
    · exact ⟨h1, h2, h3⟩
  | localClose =>
    simp only [step, localClose]
    split
    · exact ⟨h1, h2, h3⟩
    · refine ⟨?_, by simp, fun _ => rfl⟩
      intro m hm; have := h1 m hm; simp; omega
  | sessionClose => exact ⟨h1, h2, fun _ => rfl⟩

theorem inv_run (ops : List Op) : ∀ s, Inv s → Inv (run s ops) := by
  induction ops with
  | nil => intro s h; exact h
  | cons op rest ih => intro s h; exact ih _ (inv_step h op)

theorem reachable_inv {s : State} (h : Reachable s) : Inv s := by
  obtain ⟨ops, rfl⟩ := h; exact inv_run ops _ inv_init

/-- A read returns when enough data arrives: a reader asleep in its select, with the event loop not in the middle of a
    delivery and enough bytes received (buffered + pending), has the data notification queued — its select is ready —
    and taking that branch ends the read successfully.  (No lost wake-up between pending.add / asyncNotify and the
    reader's re-check.) -/
theorem c11_read_wakes_on_data {s : State} (hr : Reachable s) (m : Nat) (hsel : s.r = .sel m) (hw : s.w = .idle)
    (hdata : m ≤ s.recv + s.pending) : s.token = true ∧ (stepR s .tok).r = .done .ok := by
  have h := reachable_inv hr
  have hshort := h.selShort m (Or.inl hsel)
  have htok : s.token = true := by
    rcases h.noLost (by omega) with h1 | h1
    · rw [hw] at h1; cases h1
    · exact h1
  refine ⟨htok, ?_⟩
  simp [stepR, hsel, htok, moveTo, hdata]

/-- ... and a wake-up with still too little data puts the reader back to sleep with everything moved and nothing lost -/
theorem c11_spurious_wake_rearms {s : State} (m : Nat) (hsel : s.r = .sel m) (htok : s.token = true)
    (hshort : s.recv + s.pending < m) :
    (stepR s .tok).r = .sel m ∧ (stepR s .tok).recv = s.recv + s.pending ∧ (stepR s .tok).pending = 0 := by
  have : ¬ m ≤ s.recv + s.pending := by omega
  simp [stepR, hsel, htok, moveTo, this]

/-- A read returns when either end closes the stream or the session dies: whenever the stream has left the open state,
    or the session's close notification fired, a sleeping reader's select is ready on the close channel, and within two
    steps the read has ended. -/
theorem c11_read_wakes_on_close {s : State} (hr : Reachable s) (m : Nat) (hsel : s.r = .sel m)
    (hcl : s.state ≠ .opened ∨ s.closeCh = true) :
    s.closeCh = true ∧ ∃ res, (stepR (stepR s .close) .close).r = .done res := by
  have h := reachable_inv hr
  have hc : s.closeCh = true := by
    rcases hcl with h1 | h1
    · exact h.closedNotified h1
    · exact h1
  refine ⟨hc, ?_⟩
  by_cases hm : m ≤ s.recv + s.pending
  · exact ⟨.ok, by simp [stepR, hsel, hc, moveTo, hm]⟩
  · by_cases hh : s.state = .half
    · exact ⟨.eos, by simp [stepR, hsel, hc, moveTo, hm, hh]⟩
    · exact ⟨.closedErr, by simp [stepR, hsel, hc, moveTo, hm, hh]⟩

/-- the three close events all make the close channel ready -/
theorem c11_closes_notify (s : State) :
    (sessionClose s).closeCh = true ∧ (s.state ≠ .closed → (localClose s).closeCh = true) ∧
    (s.state = .opened → (peerClose s).closeCh = true) := by
  refine ⟨rfl, ?_, ?_⟩
  · intro h; simp [localClose, h]
  · intro h; simp [peerClose, h]

/-- a read never times out unless it has a deadline, and then only through the timer branch -/
theorem c11_timeout_needs_deadline (s : State) (p : Pick) (hnd : s.r ≠ .done .timeout)
    (ht : (stepR s p).r = .done .timeout) : s.deadline = true ∧ p = .timer := by
  unfold stepR at ht
  rcases s with ⟨state, pending, recv, token, closeCh, deadline, r, w, arrived⟩
  cases r with
  | idle => simp at ht
  | done res => simp at ht hnd; exact absurd ht hnd
  | start m =>
    simp only [moveTo] at ht
    repeat' split at ht
    all_goals simp at ht
  | chkOpen m => simp only [] at ht; split at ht <;> simp at ht
  | closeChk m => simp only [] at ht; split at ht <;> simp at ht
  | sel m =>
    cases p with
    | tok =>
      simp only [moveTo] at ht
      by_cases c0 : token = true
      · by_cases c1 : m ≤ recv + pending <;> simp [c0, c1] at ht
      · simp [c0] at ht
    | close =>
      simp only [moveTo] at ht
      by_cases c0 : closeCh = true
      · by_cases c1 : m ≤ recv + pending <;> simp [c0, c1] at ht
      · simp [c0] at ht
    | timer =>
      simp only [] at ht
      by_cases c0 : deadline = true
      · exact ⟨c0, rfl⟩
      · simp [c0] at ht

/-- a read with a deadline returns when the deadline passes: the timer branch of a sleeping reader is always ready -/
theorem c11_deadline_releases (s : State) (m : Nat) (hsel : s.r = .sel m) (hd : s.deadline = true) :
    (stepR s .timer).r = .done .timeout := by
  simp [stepR, hsel, hd]

/-- a successful read has enough data buffered -/
theorem c11_ok_means_enough (s : State) (p : Pick) (m : Nat) (hr : s.r = .start m ∨ s.r = .sel m)
    (hok : (stepR s p).r = .done .ok) : m ≤ (stepR s p).recv := by
  rcases s with ⟨state, pending, recv, token, closeCh, deadline, r, w, arrived⟩
  simp only at hr
  rcases hr with hr | hr <;> subst hr
  · simp only [stepR, moveTo] at hok ⊢
    by_cases c1 : m ≤ recv + pending
    · simp [c1]
    · exfalso
      repeat' split at hok
      all_goals simp at hok
      all_goals omega
  · cases p with
    | tok =>
      simp only [stepR, moveTo] at hok ⊢
      by_cases c0 : token = true
      · by_cases c1 : m ≤ recv + pending
        · simp [c0, c1]
        · simp [c0, c1] at hok
      · simp [c0] at hok
    | close =>
      simp only [stepR, moveTo] at hok ⊢
      by_cases c0 : closeCh = true
      · by_cases c1 : m ≤ recv + pending
        · simp [c0, c1]
        · simp [c0, c1] at hok
      · simp [c0] at hok
    | timer =>
      simp only [stepR] at hok
      by_cases c0 : deadline = true <;> simp [c0] at hok

/-- Flush returns although the queue stays full: the retry loop waits at most ten times, whatever happens, and reports
    success only after a retry that succeeded -/
theorem c11_flush_bounded (ws : List Wake) : (flushFull ws).2 ≤ 10 := by
  have key : ∀ (fuel : Nat) (ws : List Wake) (n : Nat), (flushLoop fuel ws n).2 ≤ n + fuel := by
    intro fuel
    induction fuel with
    | zero => intro ws n; simp [flushLoop]
    | succ f ih =>
      intro ws n
      cases ws with
      | nil => simp [flushLoop]
      | cons w rest =>
        cases w <;> simp only [flushLoop]
        · have := ih rest (n + 1); omega
        all_goals omega
  have := key 10 ws 0
  simpa [flushFull] using this

theorem c11_flush_ok_needs_success (ws : List Wake) (h : (flushFull ws).1 = .ok) : Wake.retryOk ∈ ws := by
  have key : ∀ (fuel : Nat) (ws : List Wake) (n : Nat), (flushLoop fuel ws n).1 = .ok → Wake.retryOk ∈ ws := by
    intro fuel
    induction fuel with
    | zero => intro ws n h; simp [flushLoop] at h
    | succ f ih =>
      intro ws n h
      cases ws with
      | nil => simp [flushLoop] at h
      | cons w rest =>
        cases w <;> simp only [flushLoop] at h
        · exact List.mem_cons_of_mem _ (ih rest (n + 1) h)
        · exact List.mem_cons_self
        · cases h
        · cases h
  exact key 10 ws 0 h

/-! ### non-vacuity -/

-- the window: the reader found too little, the event loop delivers before the reader reaches its select
example :
    let s := run {} [.read 5 false, .w 3, .r .tok, .w 3, .w 4, .w 4]
    s.r = .sel 5 ∧ s.w = .idle ∧ s.recv = 3 ∧ s.pending = 4 ∧ s.token = true ∧ (stepR s .tok).r = .done .ok := by decide

example : (flushFull (List.replicate 20 .retryFull)) = (.queueFull, 10) := by decide

end Props.C11
