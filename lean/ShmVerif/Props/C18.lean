import ShmVerif.Proof.EventConn
/-!
  C18 — the event connection moves bytes exactly once and in order under any kernel IO.

  The kernel is an input: EVERY list of read results (EAGAIN, EOF, any number of bytes up to the room offered), EVERY
  consumer pacing, EVERY list of write results (EAGAIN, any partial count), EVERY schedule of the writers.
-/
namespace Props.C18
open EventConn List

/-- Read side: whatever the kernel delivers and however little the callback consumes, the buffer-based implementation
    (growth by doubling with compaction, the 1 MiB early callback, the shrink rule of commitRead) shows the callback exactly
    the windows of a plain byte queue — the unconsumed bytes followed by the new ones — and keeps
    `0 ≤ readStartOff ≤ readEndOff ≤ len(readBuffer)`. -/
theorem c18_read_window (cfg : RCfg) (hthr : 2 ≤ cfg.shrinkThreshold) (fuel : Nat) (s : RState)
    (reads : List KRead) (cs : Consumer) (shown : List (List Nat)) (h : RInv s) :
    RInv (onReadReady cfg fuel s reads cs shown).1 ∧
    abs (onReadReady cfg fuel s reads cs shown).1 = (specReady cfg fuel (abs s) reads cs shown).1 ∧
    (onReadReady cfg fuel s reads cs shown).2.1 = (specReady cfg fuel (abs s) reads cs shown).2.1 :=
  let r := onReadReady_refines cfg hthr fuel s reads cs shown h
  ⟨r.1, r.2.1, r.2.2.1⟩

/-- the real thresholds satisfy the side condition -/
example : 2 ≤ ({} : RCfg).shrinkThreshold := by decide

/-- Write side: for every list of partial-write results the bytes accepted by the kernel are a prefix of the data, each
    byte once and in order; `write` reports success only if that prefix is the whole data. -/
theorem c18_write_exact (fuel : Nat) (data : List Nat) (res : List KWrite) :
    ∃ k, k ≤ data.length ∧ (write fuel data res [] 0).1 = data.take k ∧
      ((write fuel data res [] 0).2.2 = true → k = data.length) := by
  obtain ⟨k, h1, h2, h3⟩ := write_spec fuel data res [] 0
  exact ⟨k, h1, by simpa using h2, h3⟩

/-- The same for writev with its iovec advance arithmetic and 256-slice batches. -/
theorem c18_writev_exact (fuel : Nat) (data : List (List Nat)) (res : List KWrite) :
    ∃ k, k ≤ data.flatten.length ∧ (writev fuel data res [] 0).1 = data.flatten.take k ∧
      ((writev fuel data res [] 0).2.2 = true → k = data.flatten.length) := by
  obtain ⟨k, h1, h2, h3⟩ := writev_spec fuel data res [] 0
  exact ⟨k, h1, by simpa using h2, h3⟩

def wInit (n : Nat) (queued : Nat) : WState := { ws := List.replicate n .idle, sendCh := queued }

theorem winv_init (n queued : Nat) : WInv (wInit n queued) := by
  refine ⟨?_, by simp [wInit], by simp [wInit], by simp [wInit], by simp [wInit]⟩
  simp only [wInit, holders]
  have : (List.replicate n WPc.idle).countP (· == .holding) = 0 := by
    rw [List.countP_eq_zero]; intro x hx; rw [List.eq_of_mem_replicate hx]; decide
  simp [this]

/-- Writer mutex: for any number of fast-path writers (wakeUpPeer / hotRestart) and the send loop, in every interleaving,
    at most one of them is ever inside the connection's write — events never interleave. -/
theorem c18_writer_mutex (n queued : Nat) (sched : List Who) :
    (runWS (wInit n queued) sched).maxInside ≤ 1 ∧ (runWS (wInit n queued) sched).inside ≤ 1 :=
  let h := runWS_inv _ sched (winv_init n queued)
  ⟨h.maxle, h.le⟩

/-- No lost wake-up for the send loop: whenever it is parked on notifyContinueWriteCh, either somebody still holds
    `writing` (and will post a token when releasing) or a token is already waiting. -/
theorem c18_sendloop_no_lost_wakeup (n queued : Nat) (sched : List Who) :
    (runWS (wInit n queued) sched).sl = .parked →
    (runWS (wInit n queued) sched).writing = true ∨ (runWS (wInit n queued) sched).token = true :=
  (runWS_inv _ sched (winv_init n queued)).wake

-- non-vacuity: a read with growth and partial consumption; a write with EAGAIN and partial counts; contention on `writing`
example :
    (onReadReady {} 10 { buf := [0, 0, 0, 0] } [.data [1, 2, 3], .data [4, 5, 6], .data [7, 8], .eagain] [4] []).2.1 = [[1, 2, 3, 4, 7, 8]] ∧
    (write 10 [1, 2, 3, 4, 5] [.n 2, .eagain, .n 9] [] 0) = ([1, 2, 3, 4, 5], 3, true) ∧
    (runWS (wInit 2 1) [some 0, none, none, some 1, some 0, none, none, none]).written = 2 := by decide


/-! ### one epoll event: write-ready is never lost, whatever else the event carries -/

/-- a writer parked on EAGAIN waits for one `writeReady`; what the kernel reports is the union of what happened since
    the last report (edge triggered), so the token must be posted whatever else the event carries -/
theorem c18_write_ready_not_lost (e : Events) (h : e.rdhup = false) (ho : e.out = true) :
    EvAct.writeReady ∈ handleEvent e := by
  simp [handleEvent, h, ho]

theorem c18_read_ready_not_lost (e : Events) (h : e.rdhup = false) (hi : e.in_ = true) :
    EvAct.readReady ∈ handleEvent e := by
  simp [handleEvent, h, hi]

/-- nothing is done that the event did not ask for, and a hang-up does nothing else -/
theorem c18_event_exact (e : Events) :
    (EvAct.writeReady ∈ handleEvent e ↔ e.rdhup = false ∧ e.out = true) ∧
    (EvAct.readReady ∈ handleEvent e ↔ e.rdhup = false ∧ e.in_ = true) ∧
    (EvAct.remoteClose ∈ handleEvent e ↔ e.rdhup = true) := by
  cases e with
  | mk r i o => cases r <;> cases i <;> cases o <;> simp [handleEvent]

example : handleEvent { in_ := true, out := true } = [.readReady, .writeReady] := by decide

end Props.C18
