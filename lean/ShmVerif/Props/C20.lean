import ShmVerif.Proof.CallbackNotify
/-!
  C20 — callback mode offers every received byte to OnData once, in order, serially.

  `Reachable s`: the state after ANY schedule of
    * event-loop steps (pending.add | load state | CAS callbackInProcess (+ spawn) ; the peer's close: CAS opened→half),
      for ANY sequence of message sizes and a peer close at ANY point,
    * steps of ANY of the spawned goroutines (moveTo ; IsOpen/Len test + a whole OnData call that consumes ANY number of
      the offered bytes and may call Close, whose three accesses are separate steps ; Store 0 ; Load close state ;
      re-check + CAS ; the deferred close()),
    * steps of a user Close() issued from outside a callback at ANY point.
  Bytes are counted in arrival order (`arrived`, `offered`, `consumed`): the read buffer is a FIFO by C06, so
  "in order, never twice" is the arithmetic of these counters; the byte VALUES are compared by the harness monitor.
-/
namespace Props.C20
open Callback

def Reachable (s : State) : Prop := ∃ sched, s = run init sched

theorem reachable_inv {s : State} (h : Reachable s) : Inv s := by
  obtain ⟨sched, rfl⟩ := h; exact inv_run sched _ inv_init

theorem reachable_ninv {s : State} (h : Reachable s) : NInv s := by
  obtain ⟨sched, rfl⟩ := h; exact ninv_run sched _ ninv_init

theorem quiescent_counts {s : State} (hq : s.quiescent = true) (P : GPc → Bool) (hP : P .done = false) :
    s.e = .idle ∧ s.gs.countP P = 0 ∧ (s.u = .start ∨ s.u = .done) := by
  simp [State.quiescent] at hq
  refine ⟨hq.1.1, countP_all_done P hP s.gs (by simpa using hq.1.2), hq.2⟩

/-- OnData is never running twice at the same time: over every schedule the number of goroutines inside an OnData call
    never exceeds one. -/
theorem c20_serial {s : State} (hr : Reachable s) : s.maxOnData ≤ 1 ∧ s.inOnData ≤ 1 := by
  have h := reachable_inv hr
  refine ⟨h.maxOn, ?_⟩
  have h1 := h.inOn
  have h2 := countP_le_of_imp isIn GPc.active (by intro x; cases x <;> simp [GPc.active, isIn]) s.gs
  have h3 := h.act
  unfold b2n at h3; split at h3 <;> omega

/-- at most one goroutine owns the read buffer, exactly when callbackInProcess is set -/
theorem c20_single_owner {s : State} (hr : Reachable s) : s.gs.countP GPc.active = if s.inProcess then 1 else 0 :=
  (reachable_inv hr).act

/-- No lost wake-up: when nothing is in progress (event loop idle, every goroutine finished, no Close under way) and the
    stream is open, nothing is left in the pending list or the read buffer — every byte has been taken by an OnData
    call, without any further traffic. -/
theorem c20_no_stranded {s : State} (hr : Reachable s) (hq : s.quiescent = true) (ho : s.state = .opened) :
    s.pending = 0 ∧ s.recv = 0 := by
  have h := reachable_inv hr
  obtain ⟨he, hA, _⟩ := quiescent_counts hq GPc.active rfl
  obtain ⟨_, hB, _⟩ := quiescent_counts hq wB rfl
  obtain ⟨_, hC, _⟩ := quiescent_counts hq wC rfl
  have hp : s.inProcess = false := by
    have := h.act; rw [hA] at this; unfold b2n at this
    cases hh : s.inProcess <;> simp [hh] at this ⊢
  constructor
  · rcases Nat.eq_zero_or_pos s.pending with h0 | hpos
    · exact h0
    · rcases h.wc ho hpos hp with h1 | h1
      · rcases h1 with h1 | h1 <;> simp [he] at h1
      · omega
  · rcases Nat.eq_zero_or_pos s.recv with h0 | hpos
    · exact h0
    · have := h.wb ho hpos; omega

/-- every byte is accounted for exactly once: consumed by OnData, still buffered, or released at close; OnData was
    never shown a byte that had not arrived, nor consumed one it was not shown -/
theorem c20_conservation {s : State} (hr : Reachable s) :
    s.arrived = s.consumed + s.recv + s.pending + s.dropped ∧ s.consumed ≤ s.offered ∧ s.offered ≤ s.arrived := by
  have h := reachable_inv hr
  refine ⟨h.cons, h.off1, ?_⟩
  obtain ⟨sched, rfl⟩ := hr
  exact off2_run sched _ inv_init (by simp [init])

/-- PARTIAL (the peer has not closed and nobody closed locally): at quiescence every byte that arrived has been offered
    to, and consumed by, OnData.  The full statement ("or peer close at any point") is false of the code: see
    `c20_peer_close_witness`. -/
theorem c20_all_offered_partial {s : State} (hr : Reachable s) (hq : s.quiescent = true) (ho : s.state = .opened) :
    s.consumed = s.arrived ∧ s.offered = s.arrived := by
  have h := reachable_inv hr
  obtain ⟨hp, hrv⟩ := c20_no_stranded hr hq ho
  have hd := h.drop0 (by simp [ho])
  have hc := c20_conservation hr
  omega

/-- once the stream is closed it stays closed and OnData is not called again, whatever happens next -/
theorem c20_stops_when_closed {s : State} (hc : s.state = .closed) (sched : List Step) :
    (run s sched).state = .closed ∧ (run s sched).calls = s.calls := by
  induction sched generalizing s with
  | nil => exact ⟨hc, rfl⟩
  | cons st rest ih =>
    have h1 := closed_step hc st
    have h2 := ih h1.1
    exact ⟨h2.1, h2.2.trans h1.2⟩

/-- Close is final (repaired code): whenever a Close was requested — from inside OnData or from outside, at any point —
    and nothing is in progress any more, the stream is closed. -/
theorem c20_close_final {s : State} (hr : Reachable s) (hq : s.quiescent = true) (hreq : s.closeReq = true) :
    s.state = .closed := by
  have h := reachable_inv hr
  obtain ⟨_, hJ, hu⟩ := quiescent_counts hq wJ rfl
  cases hs : s.state with
  | closed => rfl
  | _ =>
    all_goals
      rcases h.wj hreq (by simp [hs]) with h1 | h1
      · omega
      · rcases hu with hu | hu <;> simp [hu, uWJ] at h1

/-- The peer is told exactly once (repaired code): the close notification and OnLocalClose are never issued twice, and a
    stream closed locally while the peer had not closed has issued exactly one of each. -/
theorem c20_close_notifies_once {s : State} (hr : Reachable s) :
    s.notified ≤ 1 ∧ s.onLocal = s.notified ∧
    (s.quiescent = true → s.state = .closed → s.onRemote = 0 → s.notified = 1) := by
  have h := reachable_ninv hr
  refine ⟨h.n2.2.2, h.nl, ?_⟩
  intro hq hc hrm
  obtain ⟨_, hK, hu⟩ := quiescent_counts hq isClosing rfl
  have := h.n4 hc hrm
  rcases hu with hu | hu <;> simp [hu, hK, uClosing, b2n] at this <;> exact this

/-- OnRemoteClose fires at most once, and only for a close by the peer that found the stream open -/
theorem c20_closed_only_by_cas {s : State} (hr : Reachable s) (hnc : s.state ≠ .closed) : s.notified = 0 ∧ s.onLocal = 0 := by
  have h := reachable_ninv hr
  have := h.n1 hnc
  exact ⟨this.2.2, by rw [h.nl]; exact this.2.2⟩

/-! ### the known finding (F12), kernel-checked on the model -/

/-- data arrives, the goroutine is spawned, the peer's close is handled before the goroutine's first test of IsOpen():
    at quiescence the stream is half-closed, nobody asked for a local close, and 5 arrived bytes were never offered. -/
theorem c20_peer_close_witness :
    let s := run init [.e (.data 5), .e .none, .e .none, .e .pclose, .e .none,
                       .g 0 ⟨1000, false⟩, .g 0 ⟨1000, false⟩, .g 0 ⟨1000, false⟩, .g 0 ⟨1000, false⟩]
    s.quiescent = true ∧ s.state = .half ∧ s.closeReq = false ∧ s.arrived = 5 ∧ s.offered = 0 ∧ s.calls = 0 := by decide

/-! ### non-vacuity -/

-- the lost-wake-up window: a second message arrives between Store(callbackInProcess, 0) and the re-check; the ending
-- goroutine re-takes the flag and offers it
example :
    let od : OnData := ⟨1000, false⟩
    let s := run init [.e (.data 10), .e .none, .e .none, .g 0 od, .g 0 od, .g 0 od, .e (.data 7), .e .none, .e .none,
                       .g 0 od, .g 0 od, .g 0 od, .g 0 od, .g 0 od, .g 0 od, .g 0 od]
    s.quiescent = true ∧ s.state = .opened ∧ s.arrived = 17 ∧ s.consumed = 17 ∧ s.calls = 2 ∧ s.gs.length = 1 := by decide

-- Close inside OnData: one notification, OnLocalClose once, stream closed
example :
    let s := run init [.e (.data 26), .e .none, .e .none, .g 0 ⟨0, false⟩, .g 0 ⟨1000, true⟩, .g 0 ⟨0, false⟩, .g 0 ⟨0, false⟩,
                       .g 0 ⟨0, false⟩, .g 0 ⟨0, false⟩, .g 0 ⟨0, false⟩, .g 0 ⟨0, false⟩, .g 0 ⟨0, false⟩, .g 0 ⟨0, false⟩, .g 0 ⟨0, false⟩, .g 0 ⟨0, false⟩]
    s.quiescent = true ∧ s.closeReq = true ∧ s.state = .closed ∧ s.notified = 1 ∧ s.onLocal = 1 ∧ s.maxOnData = 1 := by decide


/-! ### why `moveTo` is one step: the lock is held across the whole walk -/

/-- an arrival (pendingData.add) -/
def arrive (s : State) (n : Nat) : State := { s with pending := s.pending + n, arrived := s.arrived + n }

/-- the atomic `moveTo` of the model loses nothing, whatever arrives before or after it -/
theorem c20_moveTo_conserves (s : State) (n k : Nat) :
    (arrive (moveTo (arrive s n)) k).recv + (arrive (moveTo (arrive s n)) k).pending = s.recv + s.pending + n + k := by
  simp [arrive, moveTo]; omega

/-- a `moveTo` that walks what is pending now, lets the event loop in, and then truncates the list (the C20e seed): -/
def moveToWalk (s : State) : State × Nat := (s, s.pending)
def moveToTruncate (s : State) (walked : Nat) : State := { s with recv := s.recv + walked, pending := 0 }

/-- ... drops every byte that arrived in between -/
theorem split_moveTo_loses (s : State) (n : Nat) (hn : 0 < n) :
    let (s1, w) := moveToWalk s
    let s2 := moveToTruncate (arrive s1 n) w
    s2.recv + s2.pending + n = s.recv + s.pending + n ∧ s2.recv + s2.pending < s.recv + s.pending + n := by
  simp [moveToWalk, moveToTruncate, arrive]; omega

end Props.C20
