import ShmVerif.Proof.Events
/-!
  C13 — nothing received on the control connection can crash the process.

  The model `Events` mirrors the (repaired) parser; it contains no partial access: every byte it looks at is covered by a
  length test that the code performs too (tie 1 pins those tests, tie 2 compares behaviour incl. "no panic" on the real code).
-/
namespace Props.C13
open Events List

/-- For EVERY byte string and EVERY way of cutting it into successive reads, a fresh connection ends in the same state
    (streams, their pending payloads and half-close flags, polling/hot-restart counts, closed-by-error flag, unconsumed
    rest) as if all the bytes had arrived in a single read. -/
theorem c13_chunk_independent (cfg : Cfg) (chunks : List (List Nat)) :
    feedAll cfg {} chunks = feed cfg {} chunks.flatten := by
  apply feedAll_eq_feed
  right
  simp [next, headerSize]

/-- The same from any state the connection can be in between reads (closed, or holding an incomplete event). -/
theorem c13_chunk_independent_from (cfg : Cfg) (c : Conn) (hc : Stable cfg c) (chunks : List (List Nat)) :
    feedAll cfg c chunks = feed cfg c chunks.flatten := feedAll_eq_feed cfg chunks c hc

/-- Every handled event consumes at least one byte and never more than what was received: the consumed count handed to
    commitRead is always within the window. -/
theorem c13_consumed_in_range (cfg : Cfg) (w : List Nat) (e : Effect) (n : Nat) (h : next cfg w = .ev e n) :
    0 < n ∧ n ≤ w.length := (next_ev_append cfg w [] e n h).2

/-- A protocol error is final and independent of what follows. -/
theorem c13_error_stable (cfg : Cfg) (w x : List Nat) (h : next cfg w = .fail) : next cfg (w ++ x) = .fail :=
  next_fail_append cfg w x h

theorem be32_enc32 (x : Nat) (h : x < 4294967296) :
    be32 (x / 16777216 % 256) (x / 65536 % 256) (x / 256 % 256) (x % 256) = x := by
  unfold be32; omega

/-- well-formed events: field widths of the wire format -/
def WF (cfg : Cfg) : Effect → Prop
  | .poll => True
  | .close id => id < 4294967296
  | .data id status payload => id < 4294967296 ∧ status < 256 ∧ payload.length + 16 < 4294967296
  | .hotRestart e => e < 18446744073709551616 ∧ cfg.hasManager = true
  | .hotRestartAck e => e < 18446744073709551616 ∧ cfg.hasListener = true

theorem be64_enc64 (e : Nat) (h : e < 18446744073709551616) : be64 (enc64 e) = e := by
  unfold be64 enc64 enc32
  simp only [List.cons_append, List.nil_append, List.foldl_cons, List.foldl_nil]
  omega

theorem enc32_length (x : Nat) : (enc32 x).length = 4 := rfl
theorem enc64_length (x : Nat) : (enc64 x).length = 8 := rfl
theorem encHeader_length (l v t : Nat) : (encHeader l v t).length = 8 := rfl

theorem next_of_header (cfg : Cfg) (h rest : List Nat) (hh : h.length = 8) :
    next cfg (h ++ rest) = nextH cfg h rest := by
  unfold next
  have hlen : ¬ ((h ++ rest).length < headerSize) := by simp [headerSize]; omega
  rw [if_neg hlen]
  have e8 : headerSize = h.length := by rw [hh]; rfl
  rw [e8, List.take_left', List.drop_left'] <;> rfl

/-- Round trip: what the encoders of the code produce is parsed back to the same event, consuming exactly its bytes,
    whatever follows it in the stream. -/
theorem c13_wellformed_roundtrip (cfg : Cfg) (v : Nat) (hv : v ≠ 0) (e : Effect) (hwf : WF cfg e) (x : List Nat) :
    next cfg (encode v e ++ x) = .ev e (encode v e).length := by
  have hmagic : ¬ (be16 0x77 0x58 ≠ magicNumber ∨ v = 0) := by simp [be16, magicNumber, hv]
  cases e with
  | poll =>
    simp only [encode]
    rw [next_of_header cfg _ _ (encHeader_length _ _ _)]
    simp only [encHeader, enc32, List.cons_append, List.nil_append, nextH, hmagic, if_false]
    simp [typePolling, maxEventType, headerSize]
  | close id =>
    have hid : id < 4294967296 := hwf
    simp only [encode, List.append_assoc]
    rw [next_of_header cfg _ _ (encHeader_length _ _ _)]
    simp only [encHeader, enc32, List.cons_append, List.nil_append, nextH, hmagic, if_false]
    have := be32_enc32 id hid
    simp [typePolling, typeStreamClose, maxEventType, headerSize, this]
  | data id status payload =>
    obtain ⟨hid, hst, hlen⟩ : id < 4294967296 ∧ status < 256 ∧ payload.length + 16 < 4294967296 := hwf
    have hL := be32_enc32 (8 + 8 + payload.length) (by omega)
    simp only [encode, headerSize, List.append_assoc]
    rw [next_of_header cfg _ _ (encHeader_length _ _ _)]
    simp only [encHeader, enc32, List.cons_append, List.nil_append, nextH, hmagic, if_false, hL, headerSize]
    have c2 : ¬ (typeFallbackData > maxEventType) := by decide
    have c3 : ¬ (typeFallbackData = typePolling) := by decide
    have c4 : ¬ (typeFallbackData = typeStreamClose) := by decide
    simp only [c2, c3, c4, if_false, if_true]
    have c5 : ¬ (8 + 8 + payload.length < 8 + 8) := by omega
    simp only [c5, if_false]
    have e1 : 8 + 8 + payload.length - 8 = payload.length + 8 := by omega
    rw [e1]
    have c6 : ¬ ((id / 16777216 % 256 :: id / 65536 % 256 :: id / 256 % 256 :: id % 256 :: status / 16777216 % 256 ::
        status / 65536 % 256 :: status / 256 % 256 :: status % 256 :: (payload ++ x)).length < payload.length + 8) := by
      simp only [List.length_cons, List.length_append]; omega
    simp only [c6, if_false, List.take_succ_cons]
    have ht : (payload ++ x).take payload.length = payload := by simp
    rw [ht]
    have hs := be32_enc32 status (by omega)
    have hi := be32_enc32 id hid
    simp only [hi, hs]
    rw [Nat.mod_eq_of_lt hst]
    simp only [List.length_cons, List.length_append, List.length_nil, Next.ev.injEq, true_and]
    omega
  | hotRestart ep =>
    obtain ⟨hep, hm⟩ : ep < 18446744073709551616 ∧ cfg.hasManager = true := hwf
    simp only [encode, List.append_assoc]
    rw [next_of_header cfg _ _ (encHeader_length _ _ _)]
    simp only [encHeader, enc32, List.cons_append, List.nil_append, nextH, hmagic, if_false]
    have c6 : ¬ ((enc64 ep ++ x).length < 8) := by simp [enc64_length]
    have ht : (enc64 ep ++ x).take 8 = enc64 ep := by
      rw [take_append_of_le_length (by simp [enc64_length])]; simp [← enc64_length ep]
    simp [typePolling, typeStreamClose, typeFallbackData, typeHotRestart, maxEventType, headerSize, c6, ht, hm, be64_enc64 ep hep, enc64_length]
  | hotRestartAck ep =>
    obtain ⟨hep, hm⟩ : ep < 18446744073709551616 ∧ cfg.hasListener = true := hwf
    simp only [encode, List.append_assoc]
    rw [next_of_header cfg _ _ (encHeader_length _ _ _)]
    simp only [encHeader, enc32, List.cons_append, List.nil_append, nextH, hmagic, if_false]
    have c6 : ¬ ((enc64 ep ++ x).length < 8) := by simp [enc64_length]
    have ht : (enc64 ep ++ x).take 8 = enc64 ep := by
      rw [take_append_of_le_length (by simp [enc64_length])]; simp [← enc64_length ep]
    simp [typePolling, typeStreamClose, typeFallbackData, typeHotRestart, typeHotRestartAck, maxEventType, headerSize, c6, ht, hm, be64_enc64 ep hep, enc64_length]

/-- extractShmMetadata (handshake): what generateShmMetadata writes is read back, for all path lengths that fit the
    16-bit length fields. -/
theorem c13_metadata_roundtrip (q b : List Nat) (hq : q.length < 65536) (hb : b.length < 65536) :
    extractShmMetadata (generateShmMetadata q b) = some (b, q) := by
  unfold extractShmMetadata generateShmMetadata
  have e1 : be16 (q.length / 256 % 256) (q.length % 256) = q.length := by unfold be16; omega
  have e2 : be16 (b.length / 256 % 256) (b.length % 256) = b.length := by unfold be16; omega
  simp only [List.cons_append, List.nil_append, List.append_assoc, e1]
  have c1 : ¬ ((q ++ (b.length / 256 % 256 :: b.length % 256 :: b)).length < q.length + 2) := by
    simp only [List.length_append, List.length_cons]; omega
  simp only [c1, if_false]
  rw [drop_append_of_le_length (Nat.le_refl _)]
  simp only [List.drop_length, List.nil_append, e2]
  simp

-- non-vacuity of the chunking theorem: a byte stream with a complete fallback-data event and a truncated close event
example :
    (feed { isServer := true, hasManager := false, hasListener := false } {}
      (encode 2 (.data 5 0 [1, 2, 3]) ++ [0, 0, 0, 12, 0x77, 0x58, 2, 2, 0, 0])).sess.streams =
      [{ id := 5, state := .opened, pending := [[1, 2, 3]] }] := by decide

end Props.C13
