import ShmVerif.Model.Pool
/-!
  C15 — the stream pool only hands out clean live streams and never leaks one.

  PARTIAL proof on `Proto.poolGet` / `Proto.poolPut` (streamPool.getOrOpenStream / putOrCloseStream + Stream.reset over
  the two-session protocol model).  Proved: the ring is a bounded FIFO (`c15_ring_bounded`, `c15_get_takes_prefix`);
  PutBack stores a stream only if it is open, not in fall-back state, with nothing unread and nothing pending
  (`c15_put_pooled_is_clean`), and every other PutBack goes through Close (`c15_put_else_closes`); a stream handed out from
  the ring was open at hand-out and has left the ring (`c15_get_from_ring_open`).
  The repaired behaviour "every pooled stream that GetStream skips is closed" is part of the model (`poolGet` calls
  `closeStream`) and is compared with the real pool on every run; the active-stream count monitor
  (GetActiveStreamCount = held + pooled) caught the original defect (F10).
-/
namespace Props.C15
open Proto List

/-- PutBack never grows the ring beyond the pool capacity. -/
theorem c15_ring_bounded (s : Proto.Sys) (p : PoolSt) (id : Nat) (h : p.ring.length ≤ p.cap) :
    (poolPut s p id).2.1.ring.length ≤ (poolPut s p id).2.1.cap := by
  unfold poolPut
  cases s.a.find id with
  | none => exact h
  | some st =>
    simp only
    split
    · exact h
    · split
      · exact h
      · split
        · exact h
        · split
          · exact h
          · split
            · rename_i hlt; simp only [length_append, length_singleton]; omega
            · exact h

/-- PutBack keeps a stream only if it is open, not in fall-back state, has no unread bytes and no pending data. -/
theorem c15_put_pooled_is_clean (s : Proto.Sys) (p : PoolSt) (id : Nat) (st : PStream) (hst : s.a.find id = some st)
    (hp : (poolPut s p id).2.2 = "pooled") :
    st.state = .opened ∧ st.inFallback = false ∧ st.recv.len = 0 ∧ st.pending = [] ∧
    (poolPut s p id).2.1.ring = p.ring ++ [id] := by
  unfold poolPut at hp ⊢
  rw [hst] at hp ⊢
  simp only at hp ⊢
  split at hp
  · simp at hp
  · rename_i h1
    split at hp
    · simp at hp
    · rename_i h2
      split at hp
      · simp at hp
      · rename_i h3
        split at hp
        · simp at hp
        · rename_i h4
          split at hp
          · rename_i h5
            simp only [h1, h2, h3, h4, h5, if_false, if_true]
            refine ⟨by simpa using h2, by simpa using h1, by omega, ?_, rfl⟩
            cases hpd : st.pending with
            | nil => rfl
            | cons a r => simp [hpd] at h4
          · simp at hp

/-- Every PutBack that does not keep the stream closes it (Stream.Close through `closeStream`). -/
theorem c15_put_else_closes (s : Proto.Sys) (p : PoolSt) (id : Nat) (st : PStream) (hst : s.a.find id = some st)
    (hp : (poolPut s p id).2.2 ≠ "pooled") :
    (poolPut s p id).2.1 = p ∧ ∃ s0, (poolPut s p id).1 = (closeStream s0 .a id).1 := by
  unfold poolPut at hp ⊢
  rw [hst] at hp ⊢
  simp only at hp ⊢
  split
  · exact ⟨rfl, s, rfl⟩
  · split
    · exact ⟨rfl, s, rfl⟩
    · split
      · exact ⟨rfl, s, rfl⟩
      · split
        · exact ⟨rfl, s, rfl⟩
        · split
          · rename_i h1 h2 h3 h4 h5
            simp [h1, h2, h3, h4, h5] at hp
          · exact ⟨rfl, _, rfl⟩

/-- GetStream consumes a prefix of the ring (FIFO) and never adds to it. -/
theorem c15_get_takes_prefix : ∀ (f : Nat) (s : Proto.Sys) (p : PoolSt),
    ∃ k, (poolGet f s p).2.1.ring = p.ring.drop k ∧ (poolGet f s p).2.1.cap = p.cap := by
  intro f
  induction f with
  | zero => intro s p; exact ⟨0, by simp [poolGet], by simp [poolGet]⟩
  | succ f ih =>
    intro s p
    unfold poolGet
    cases hr : p.ring with
    | nil => exact ⟨0, by simp [hr], rfl⟩
    | cons id rest =>
      simp only
      cases s.a.find id with
      | none =>
        obtain ⟨k, h1, h2⟩ := ih s { p with ring := rest }
        exact ⟨k + 1, by simpa using h1, h2⟩
      | some st =>
        simp only
        split
        · exact ⟨1, by simp, rfl⟩
        · obtain ⟨k, h1, h2⟩ := ih (closeStream s .a id).1 { p with ring := rest }
          exact ⟨k + 1, by simpa using h1, h2⟩

/-- A stream handed out from the ring is the oldest pooled stream that is still open: at hand-out it is open, and it has
    left the ring. -/
theorem c15_get_from_ring_open (s : Proto.Sys) (p : PoolSt) (id : Nat) (rest : List Nat) (st : PStream) (f : Nat)
    (hr : p.ring = id :: rest) (hst : s.a.find id = some st) (ho : st.state = .opened) :
    poolGet (f + 1) s p = (s, { p with ring := rest }, id) := by
  unfold poolGet
  rw [hr]
  simp only [hst, ho, if_true]

end Props.C15

/-! ### the ring arithmetic refines the bounded FIFO the pool model uses -/
namespace Ring
open List

structure Inv (r : R) : Prop where
  len : r.slots.length = r.cap
  ord : r.head ≤ r.tail
  bnd : r.tail - r.head ≤ r.cap

theorem mod_inj {a b c : Nat} (hab : a ≤ b) (hlt : b < a + c) (h : a % c = b % c) : a = b := by
  have h0 : (b - a) % c = 0 := Nat.sub_mod_eq_zero_of_mod_eq h.symm
  have h1 : b - a < c := by omega
  rw [Nat.mod_eq_of_lt h1] at h0
  omega

/-- push appends (when there is room) and refuses otherwise; nothing already pooled is disturbed -/
theorem c15_ring_push (r : R) (s : Nat) (h : Inv r) :
    ((abs r).length < r.cap → (push r s).2 = true ∧ abs (push r s).1 = abs r ++ [s] ∧ Inv (push r s).1) ∧
    (¬ (abs r).length < r.cap → (push r s).2 = false ∧ (push r s).1 = r) := by
  have hl : (abs r).length = r.tail - r.head := by simp [abs]
  constructor
  · intro hlt
    rw [hl] at hlt
    unfold push
    rw [if_pos hlt]
    have hc : 0 < r.cap := by omega
    have hord := h.ord
    refine ⟨rfl, ?_, ⟨by simp [h.len], by simp; omega, by simp; omega⟩⟩
    simp only [abs]
    have e : r.tail + 1 - r.head = (r.tail - r.head) + 1 := by have := h.ord; omega
    rw [e, range_succ, map_append]
    congr 1
    · apply map_congr_left
      intro i hi
      have hi' := mem_range.mp hi
      have hne : r.tail % r.cap ≠ (r.head + i) % r.cap := by
        intro heq
        have := mod_inj (a := r.head + i) (b := r.tail) (c := r.cap) (by omega) (by omega) heq.symm
        omega
      simp only [getD_eq_getElem?_getD]
      rw [getElem?_set_ne hne]
    · simp only [map_cons, map_nil, getD_eq_getElem?_getD]
      have : r.head + (r.tail - r.head) = r.tail := by have := h.ord; omega
      rw [this, getElem?_set_self (by rw [h.len]; exact Nat.mod_lt _ hc)]
      rfl
  · intro hge
    rw [hl] at hge
    unfold push
    rw [if_neg hge]
    exact ⟨rfl, rfl⟩

/-- pop takes the oldest -/
theorem c15_ring_pop (r : R) (h : Inv r) :
    (abs r = [] → (pop r).2 = none ∧ (pop r).1 = r) ∧
    (∀ a rest, abs r = a :: rest → (pop r).2 = some a ∧ abs (pop r).1 = rest ∧ Inv (pop r).1) := by
  have hl : (abs r).length = r.tail - r.head := by simp [abs]
  constructor
  · intro he
    rw [he] at hl
    unfold pop
    have : ¬ r.tail > r.head := by simp at hl; omega
    rw [if_neg this]
    exact ⟨rfl, rfl⟩
  · intro a rest he
    rw [he] at hl
    have hgt : r.tail > r.head := by simp at hl; omega
    unfold pop
    rw [if_pos hgt]
    have e : r.tail - r.head = (r.tail - (r.head + 1)) + 1 := by omega
    simp only [abs] at he
    rw [e, range_succ_eq_map, map_cons, map_map] at he
    simp only [Nat.add_zero] at he
    injection he with h1 h2
    refine ⟨by rw [h1], ?_, ⟨h.len, by simp; omega, by have := h.bnd; simp; omega⟩⟩
    simp only [abs]
    rw [← h2]
    apply map_congr_left
    intro i _
    simp only [Function.comp]
    congr 2
    omega

theorem c15_ring_empty (cap age : Nat) : Inv (empty cap age) ∧ abs (empty cap age) = [] := by
  refine ⟨⟨by simp [empty], Nat.le_refl _, by simp [empty]⟩, by simp [abs, empty]⟩

/-- capacity 3, counters about to pass 2^32: three streams pushed, the second overwrote the first: the first one popped is not the first one pushed -/
example :
    let r0 := empty 3 (2 ^ 32 - 1)
    let r3 := (push32 (push32 (push32 r0 11).1 12).1 13).1
    (pop32 r3).2 = some 12 ∧ (pop (push (push (push r0 11).1 12).1 13).1).2 = some 11 := by decide


end Ring
