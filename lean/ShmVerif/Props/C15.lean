import ShmVerif.Model.Pool
/-!
  C15 — the stream pool only hands out clean live streams and never leaks one.

  PARTIAL proof on `Proto.poolGet` / `Proto.poolPut` (streamPool.getOrOpenStream / putOrCloseStream + Stream.reset over
  the two-session protocol model).  Proved: the ring is a bounded FIFO (`c15_ring_bounded`, `c15_get_takes_prefix`);
  PutBack stores a stream only if it is open, not in fall-back state, with nothing unread and nothing pending
  (`c15_put_pooled_is_clean`), and every other PutBack goes through Close (`c15_put_else_closes`); a stream handed out from
  the ring was open at hand-out and has left the ring (`c15_get_from_ring_open`).
  The repaired behaviour "every pooled stream that GetStream skips is closed" is part of the model (`poolGet` calls
  `closeStream`) and is compared with the real pool on every run; the active-stream count monitor
  (GetActiveStreamCount = held + pooled) caught the original defect (F10).
-/
namespace Props.C15
open Proto List

/-- PutBack never grows the ring beyond the pool capacity. -/
theorem c15_ring_bounded (s : Proto.Sys) (p : PoolSt) (id : Nat) (h : p.ring.length ≤ p.cap) :
    (poolPut s p id).2.1.ring.length ≤ (poolPut s p id).2.1.cap := by
  unfold poolPut
  cases s.a.find id with
  | none => exact h
  | some st =>
    simp only
    split
    · exact h
    · split
      · exact h
      · split
        · exact h
        · split
          · exact h
          · split
            · rename_i hlt; simp only [length_append, length_singleton]; omega
            · exact h

/-- PutBack keeps a stream only if it is open, not in fall-back state, has no unread bytes and no pending data. -/
theorem c15_put_pooled_is_clean (s : Proto.Sys) (p : PoolSt) (id : Nat) (st : PStream) (hst : s.a.find id = some st)
    (hp : (poolPut s p id).2.2 = "pooled") :
    st.state = .opened ∧ st.inFallback = false ∧ st.recv.len = 0 ∧ st.pending = [] ∧
    (poolPut s p id).2.1.ring = p.ring ++ [id] := by
  unfold poolPut at hp ⊢
  rw [hst] at hp ⊢
  simp only at hp ⊢
  split at hp
  · simp at hp
  · rename_i h1
    split at hp
    · simp at hp
    · rename_i h2
      split at hp
      · simp at hp
      · rename_i h3
        split at hp
        · simp at hp
        · rename_i h4
          split at hp
          · rename_i h5
            simp only [h1, h2, h3, h4, h5, if_false, if_true]
            refine ⟨by simpa using h2, by simpa using h1, by omega, ?_, rfl⟩
            cases hpd : st.pending with
            | nil => rfl
            | cons a r => simp [hpd] at h4
          · simp at hp

/-- Every PutBack that does not keep the stream closes it (Stream.Close through `closeStream`). -/
theorem c15_put_else_closes (s : Proto.Sys) (p : PoolSt) (id : Nat) (st : PStream) (hst : s.a.find id = some st)
    (hp : (poolPut s p id).2.2 ≠ "pooled") :
    (poolPut s p id).2.1 = p ∧ ∃ s0, (poolPut s p id).1 = (closeStream s0 .a id).1 := by
  unfold poolPut at hp ⊢
  rw [hst] at hp ⊢
  simp only at hp ⊢
  split
  · exact ⟨rfl, s, rfl⟩
  · split
    · exact ⟨rfl, s, rfl⟩
    · split
      · exact ⟨rfl, s, rfl⟩
      · split
        · exact ⟨rfl, s, rfl⟩
        · split
          · rename_i h1 h2 h3 h4 h5
            simp [h1, h2, h3, h4, h5] at hp
          · exact ⟨rfl, _, rfl⟩

/-- GetStream consumes a prefix of the ring (FIFO) and never adds to it. -/
theorem c15_get_takes_prefix : ∀ (f : Nat) (s : Proto.Sys) (p : PoolSt),
    ∃ k, (poolGet f s p).2.1.ring = p.ring.drop k ∧ (poolGet f s p).2.1.cap = p.cap := by
  intro f
  induction f with
  | zero => intro s p; exact ⟨0, by simp [poolGet], by simp [poolGet]⟩
  | succ f ih =>
    intro s p
    unfold poolGet
    cases hr : p.ring with
    | nil => exact ⟨0, by simp [hr], rfl⟩
    | cons id rest =>
      simp only
      cases s.a.find id with
      | none =>
        obtain ⟨k, h1, h2⟩ := ih s { p with ring := rest }
        exact ⟨k + 1, by simpa using h1, h2⟩
      | some st =>
        simp only
        split
        · exact ⟨1, by simp, rfl⟩
        · obtain ⟨k, h1, h2⟩ := ih (closeStream s .a id).1 { p with ring := rest }
          exact ⟨k + 1, by simpa using h1, h2⟩

/-- A stream handed out from the ring is the oldest pooled stream that is still open: at hand-out it is open, and it has
    left the ring. -/
theorem c15_get_from_ring_open (s : Proto.Sys) (p : PoolSt) (id : Nat) (rest : List Nat) (st : PStream) (f : Nat)
    (hr : p.ring = id :: rest) (hst : s.a.find id = some st) (ho : st.state = .opened) :
    poolGet (f + 1) s p = (s, { p with ring := rest }, id) := by
  unfold poolGet
  rw [hr]
  simp only [hst, ho, if_true]

end Props.C15
