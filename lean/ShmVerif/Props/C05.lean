import ShmVerif.Proof.Wake
/-!
  C05 — an enqueued element is never stranded without a wake-up.

  `Reachable s`: the state after ANY schedule of producer steps (put | CAS workingFlag (+ `writing`) | write the event)
  and consumer steps (take an event | pop | store 0 | re-check | store 1), for ANY number of producers, ANY number of
  operations per producer and ANY queue capacity.
-/
namespace Props.C05
open Wake

def Reachable (s : State) : Prop := ∃ cap counts sched, s = run (init cap counts) sched

theorem reachable_inv {s : State} (h : Reachable s) : Inv s := by
  obtain ⟨cap, counts, sched, rfl⟩ := h
  exact run_inv _ sched (inv_init cap counts)

/-- A non-empty queue with an idle consumer always has a notification still in flight, or a producer that has enqueued
    and is about to test-and-set the flag / about to write the event it owes. -/
theorem c05_no_stranded {s : State} (hr : Reachable s) (hq : s.qlen > 0) :
    s.cons ≠ .idle ∨ s.inflight > 0 ∨ HasPc s.prods .cas ∨ HasPc s.prods .write := by
  have h := reachable_inv hr
  by_cases hc : s.cons = .idle
  · cases hf : s.flag with
    | false =>
      rcases h.clearCovered hq hf with h1 | h1
      · exact Or.inl h1
      · exact Or.inr (Or.inr (Or.inl h1))
    | true =>
      rcases h.flagBacked hf (Or.inl hc) with h1 | h1
      · exact Or.inr (Or.inl h1)
      · exact Or.inr (Or.inr (Or.inr h1))
  · exact Or.inl hc

/-- Quiescence: once producers have stopped, every notification was delivered and handled and the consumer returned,
    the queue is empty — no element needs a later, unrelated send to dislodge it. -/
theorem c05_quiescent_empty {s : State} (hr : Reachable s) (hdone : ∀ p ∈ s.prods, p.pc = .done)
    (hin : s.inflight = 0) (hidle : s.cons = .idle) : s.qlen = 0 := by
  rcases Nat.eq_zero_or_pos s.qlen with h0 | hpos
  · exact h0
  · rcases c05_no_stranded hr hpos with h1 | h1 | ⟨p, hp, hpc⟩ | ⟨p, hp, hpc⟩
    · exact absurd hidle h1
    · omega
    · have := hdone p hp; rw [this] at hpc; cases hpc
    · have := hdone p hp; rw [this] at hpc; cases hpc

-- non-vacuity: the slow-path schedule of the corpus reaches a state with qlen > 0, consumer not idle
example :
    let s := run (init 8 [2, 1]) [some 0, some 0, some 0, none, none, none, none, some 0, some 0, none, none, none, none, none, some 1, some 1]
    s.qlen = 1 ∧ s.inflight = 1 ∧ s.events = 2 ∧ s.writing = true := by decide

end Props.C05
