import ShmVerif.Proof.LBWrite
import ShmVerif.Proof.PipeSys
/-!
  C06 — a stream is a faithful byte pipe whatever the write and read granularity.

  Proved here (writer half, both transports, reader half, and their composition `c06_pipe`), for every slice configuration, every position of slice boundaries (including
  empty slices in the chain), every mix of shared-memory and heap slices and every sequence of sizes:
    * `c06_reader_refines_bytequeue` : any sequence of ReadBytes / Peek / Discard calls (each asking for at most what is
      buffered) returns exactly what `take`/`drop` on the buffered byte sequence return; Peek consumes nothing; `Len` decreases
      by exactly the bytes consumed.
    * `c06_writer_refines_bytequeue` : any sequence of WriteBytes / WriteByte calls of any sizes, on any well-formed
      allocator state (any size classes, any free lists, exhausted or not, heap fall-back): no call panics, the buffered
      byte sequence (the same `content` the reader half consumes) grows by exactly the written bytes, in order, `Len` by
      their number; slices of other buffers and free slots are never written (`Proof/LBWrite`: allocator invariant
      `Mem.WF`, established by `create_wf` for the state createBufferManager builds).
    * `transport_shm`, `transport_fb` (`Proof/LBWrite`) : Flush + the peer's moveTo carry the buffered byte sequence to the
      peer's receive buffer unchanged, through the slot headers (`done` / readBufferSlice / moveChain) or copied into
      the event; `c06_pipe` composes writer, transport and reader into the statement of the property.
  NOT proved (covered by the lock-step correspondence and the byte-pipe monitor on the real streams only): Reserve,
  ReadByte / ReadString / Read, several flushes accumulating in one receive buffer, slices left empty in a chain.
-/
namespace Props.C06
open LB List

inductive ReadOp where
  | readBytes (n : Nat)
  | peek (n : Nat)
  | discard (n : Nat)
  deriving DecidableEq, Repr

/-- the specification: a plain byte queue -/
def specStep (c : List Nat) : ReadOp → List Nat × List Nat
  | .readBytes n => (c.drop n, c.take n)
  | .peek n => (c, c.take n)
  | .discard n => (c.drop n, [])

def specRun (c : List Nat) : List ReadOp → List Nat × List (List Nat)
  | [] => (c, [])
  | op :: r => let (c1, o) := specStep c op; let (c2, os) := specRun c1 r; (c2, o :: os)

/-- the implementation model: linkedBuffer reader operations over shared memory `m` -/
def implStep (m : Mem) (l : LBuf) : ReadOp → Option (Mem × LBuf × List Nat)
  | .readBytes n => l.readBytes m n
  | .peek n => (l.peekBytes m n).map (fun (l', d) => (m, l', d))
  | .discard n => (l.discard m n).map (fun (m', l', _) => (m', l', []))

def implRun (m : Mem) (l : LBuf) : List ReadOp → Option (Mem × LBuf × List (List Nat))
  | [] => some (m, l, [])
  | op :: r =>
    match implStep m l op with
    | none => none
    | some (m1, l1, o) =>
      match implRun m1 l1 r with
      | none => none
      | some (m2, l2, os) => some (m2, l2, o :: os)

def opSize : ReadOp → Nat
  | .readBytes n => n | .peek n => n | .discard n => n

/-- every operation asks for at least one and at most the buffered number of bytes (otherwise the call blocks in readMore) -/
def Enabled : List Nat → List ReadOp → Prop
  | _, [] => True
  | c, op :: r => 0 < opSize op ∧ opSize op ≤ c.length ∧ Enabled (specStep c op).1 r

theorem c06_reader_refines_bytequeue (ops : List ReadOp) : ∀ (m : Mem) (l : LBuf),
    SlicesWF m l.sl → l.len = (content m l.sl).length → Enabled (content m l.sl) ops →
    ∃ m' l' outs, implRun m l ops = some (m', l', outs) ∧
      outs = (specRun (content m l.sl) ops).2 ∧ content m' l'.sl = (specRun (content m l.sl) ops).1 ∧
      l'.len = (content m' l'.sl).length ∧ SlicesWF m' l'.sl ∧ (∀ j, (m'.slot j).data = (m.slot j).data) := by
  induction ops with
  | nil => intro m l hwf hlen _; exact ⟨m, l, [], rfl, rfl, rfl, hlen, hwf, fun _ => rfl⟩
  | cons op r ih =>
    intro m l hwf hlen hen
    obtain ⟨hpos, hle, hrest⟩ := hen
    cases op with
    | readBytes n =>
      obtain ⟨m1, l1, d, e1, e2, e3, e4, e5, e6⟩ := readBytes_spec m l n hwf hpos hle
      have hlen1 : l1.len = (content m1 l1.sl).length := by rw [e5, e3, length_drop, hlen]
      obtain ⟨m2, l2, os, g1, g2, g3, g4, g5, g6⟩ := ih m1 l1 e4 hlen1 (by rw [e3]; exact hrest)
      refine ⟨m2, l2, d :: os, ?_, ?_, ?_, g4, g5, fun j => (g6 j).trans (e6 j)⟩
      · simp only [implRun, implStep, e1, g1]
      · simp only [specRun, specStep]; rw [e2, g2, e3]
      · simp only [specRun, specStep]; rw [g3, e3]
    | peek n =>
      obtain ⟨l1, d, e1, e2, e3, e4⟩ := peek_spec m l n hwf hpos hle
      have hlen1 : l1.len = (content m l1.sl).length := by rw [e4, e3, hlen]
      obtain ⟨m2, l2, os, g1, g2, g3, g4, g5, g6⟩ := ih m l1 (by rw [e3]; exact hwf) hlen1 (by rw [e3]; exact hrest)
      refine ⟨m2, l2, d :: os, ?_, ?_, ?_, g4, g5, g6⟩
      · simp only [implRun, implStep, e1, Option.map_some, g1]
      · simp only [specRun, specStep]; rw [e2, g2, e3]
      · simp only [specRun, specStep]; rw [g3, e3]
    | discard n =>
      obtain ⟨m1, l1, e1, e3, e4, e5, e6⟩ := discard_spec m l n hwf hpos hle
      have hlen1 : l1.len = (content m1 l1.sl).length := by rw [e5, e3, length_drop, hlen]
      obtain ⟨m2, l2, os, g1, g2, g3, g4, g5, g6⟩ := ih m1 l1 e4 hlen1 (by rw [e3]; exact hrest)
      refine ⟨m2, l2, [] :: os, ?_, ?_, ?_, g4, g5, fun j => (g6 j).trans (e6 j)⟩
      · simp only [implRun, implStep, e1, Option.map_some, g1]
      · simp only [specRun, specStep]; rw [g2, e3]
      · simp only [specRun, specStep]; rw [g3, e3]

/-- Peek consumes nothing (special case, stated outright) -/
theorem c06_peek_consumes_nothing (m : Mem) (l : LBuf) (n : Nat) (hwf : SlicesWF m l.sl)
    (hpos : 0 < n) (hle : n ≤ (content m l.sl).length) :
    ∃ l' d, l.peekBytes m n = some (l', d) ∧ d = (content m l.sl).take n ∧ content m l'.sl = content m l.sl ∧ l'.len = l.len := by
  obtain ⟨l1, d, e1, e2, e3, e4⟩ := peek_spec m l n hwf hpos hle
  exact ⟨l1, d, e1, e2, by rw [e3], e4⟩

-- non-vacuity: a three-slice chain (a 4-byte shared slot, an empty heap slice, a 3-byte heap slice) read across boundaries
example :
    let m : Mem := { slots := [{ cap := 4, cls := 0, data := [1, 2, 3, 4] }], free := [[]], caps := [4] }
    let l : LBuf := { sl := [{ slot := some 0, cap := 4, wi := 4 }, { heap := [], cap := 0 }, { heap := [5, 6, 7], cap := 3, wi := 3 }], len := 7 }
    (implRun m l [.peek 6, .readBytes 3, .discard 2, .readBytes 2]).map (·.2.2) = some [[1, 2, 3, 4, 5, 6], [1, 2, 3], [], [6, 7]] := by
  decide

/-! ### the writer half -/

inductive WriteOp where
  | bytes (d : List Nat)     -- BufferWriter.WriteBytes / WriteString
  | byte (b : Nat)           -- BufferWriter.WriteByte
  deriving DecidableEq, Repr

/-- the specification: the written bytes, in call order -/
def wspec : List WriteOp → List Nat
  | [] => []
  | .bytes d :: r => d ++ wspec r
  | .byte b :: r => b :: wspec r

/-- the implementation model: linkedBuffer writer operations over shared memory `m` (allocating slices of any size class,
    spilling to heap slices when the memory is exhausted) -/
def wimpl (m : Mem) (l : LBuf) : List WriteOp → Option (Mem × LBuf)
  | [] => some (m, l)
  | .bytes d :: r => match l.writeBytes m d with | none => none | some (m1, l1) => wimpl m1 l1 r
  | .byte b :: r => match l.writeByte m b with | none => none | some (m1, l1) => wimpl m1 l1 r

/-- Any sequence of WriteBytes / WriteByte calls, with any sizes, on any well-formed allocator state (any number of size
    classes, any free lists, exhausted or not): no call panics, and the buffered byte sequence (the same `content` the
    reader half consumes) grows by exactly the written bytes, in order; `Len` grows by their number. -/
theorem c06_writer_refines_bytequeue (ops : List WriteOp) : ∀ (m : Mem) (l : LBuf), m.WF → WBuf m l →
    ∃ m' l', wimpl m l ops = some (m', l') ∧ content m' l'.sl = content m l.sl ++ wspec ops ∧
      l'.len = l.len + (wspec ops).length ∧ m'.WF ∧ WBuf m' l' ∧ Frame m l m' l' := by
  induction ops with
  | nil => intro m l hw hb; exact ⟨m, l, rfl, by simp [wspec], by simp [wspec], hw, hb, Frame.refl m l⟩
  | cons op r ih =>
    intro m l hw hb
    cases op with
    | bytes d =>
      by_cases hd : d = []
      · subst hd
        have e : l.writeBytes m [] = some (m, l) := by unfold LBuf.writeBytes; simp
        obtain ⟨m', l', e', hc, hl, hw', hb', hfr⟩ := ih m l hw hb
        exact ⟨m', l', by simp only [wimpl, e, e'], by simpa [wspec] using hc, by simpa [wspec] using hl, hw', hb', hfr⟩
      · obtain ⟨m1, l1, e1, hw1, hb1, hc1, hl1, hf1⟩ := writeBytes_spec m l d hw hb hd
        obtain ⟨m', l', e', hc, hl, hw', hb', hfr⟩ := ih m1 l1 hw1 hb1
        refine ⟨m', l', by simp only [wimpl, e1, e'], ?_, ?_, hw', hb', hf1.trans hfr⟩
        · rw [hc, hc1]; simp [wspec, append_assoc]
        · rw [hl, hl1]; simp [wspec]; omega
    | byte b =>
      obtain ⟨m1, l1, e1, hw1, hb1, hc1, hl1, hf1⟩ := writeByte_spec m l b hw hb
      obtain ⟨m', l', e', hc, hl, hw', hb', hfr⟩ := ih m1 l1 hw1 hb1
      refine ⟨m', l', by simp only [wimpl, e1, e'], ?_, ?_, hw', hb', hf1.trans hfr⟩
      · rw [hc, hc1]; simp [wspec, append_assoc]
      · rw [hl, hl1]; simp [wspec]; omega

-- non-vacuity: two size classes (4-byte and 8-byte slices), writes that cross slice boundaries, exhaust the shared
-- memory and spill into a heap slice; the composed bytes are then read back across the same boundaries
example :
    let m := Mem.create [(4, 3), (8, 2)]
    (wimpl m {} [.bytes [1, 2, 3], .byte 4, .bytes [5, 6, 7, 8, 9, 10, 11, 12, 13, 14, 15, 16, 17]]).map
      (fun (m', l') => (content m' l'.sl, l'.len, l'.fromShm, (l'.readBytes m' 17).map (·.2.2))) =
    some ([1, 2, 3, 4, 5, 6, 7, 8, 9, 10, 11, 12, 13, 14, 15, 16, 17], 17, false,
          some [1, 2, 3, 4, 5, 6, 7, 8, 9, 10, 11, 12, 13, 14, 15, 16, 17]) := by
  decide

/-- the initial state is covered: whatever classes createBufferManager lays out (positive slice sizes), the memory is well
    formed and an empty send buffer is a writer buffer -/
theorem c06_writer_initial (classes : List (Nat × Nat)) (hpos : ∀ c ∈ classes, 0 < c.1) :
    (Mem.create classes).WF ∧ WBuf (Mem.create classes) {} :=
  ⟨create_wf classes hpos, Or.inl ⟨rfl, rfl⟩⟩

/-! ### the whole pipe: write, flush, deliver, read -/

/-- **A stream is a faithful byte pipe.** Starting from the memory createBufferManager lays out (any size classes), any
    sequence of WriteBytes / WriteByte calls followed by Flush hands the written bytes to the peer - through shared memory
    (the chain `done` writes into the slot headers, re-read by the peer's `moveTo`) when every slice could be allocated
    there, through the connection (payload copied into the event) otherwise - and any enabled sequence of ReadBytes / Peek
    / Discard calls on the peer returns exactly what a plain byte queue holding the written bytes returns, whatever the
    write sizes, the read sizes and the slice boundaries. -/
theorem c06_pipe (classes : List (Nat × Nat)) (hpos : ∀ c ∈ classes, 0 < c.1) (ops : List WriteOp) (rops : List ReadOp)
    (m' : Mem) (l' : LBuf) (hwr : wimpl (Mem.create classes) {} ops = some (m', l'))
    (hne : wspec ops ≠ []) (hen : Enabled (wspec ops) rops) :
    ∃ m1 x' peer' peer'' res, flush m' { send := l' } {} = (m1, x', peer', res) ∧ (res = .shm ∨ res = .fallback) ∧
      moveTo m1 peer' = some (m1, peer'') ∧
      ∃ m2 r2 outs, implRun m1 peer''.recv rops = some (m2, r2, outs) ∧ outs = (specRun (wspec ops) rops).2 ∧
        content m2 r2.sl = (specRun (wspec ops) rops).1 := by
  obtain ⟨hw0, hb0⟩ := c06_writer_initial classes hpos
  obtain ⟨m'', l'', e, hc, hl, hw', hb', _⟩ := c06_writer_refines_bytequeue ops (Mem.create classes) {} hw0 hb0
  rw [hwr] at e
  simp only [Option.some.injEq, Prod.mk.injEq] at e
  obtain ⟨rfl, rfl⟩ := e
  have hc' : content m' l'.sl = wspec ops := by simpa [content] using hc
  have hlen : l'.len ≠ 0 := by
    have : 0 < (wspec ops).length := length_pos_iff.mpr hne
    simp only at hl; omega
  rcases hb' with ⟨_, hsl⟩ | ⟨wi, hi, ht, hnz⟩
  · rw [hsl] at hc'; exact absurd hc'.symm (by simpa [content] using hne)
  · -- what the reader half needs, for either transport
    have fin : ∀ (m1 : Mem) (peer'' : StreamM), content m1 peer''.recv.sl = wspec ops → SlicesWF m1 peer''.recv.sl →
        peer''.recv.len = (content m1 peer''.recv.sl).length →
        ∃ m2 r2 outs, implRun m1 peer''.recv rops = some (m2, r2, outs) ∧ outs = (specRun (wspec ops) rops).2 ∧
          content m2 r2.sl = (specRun (wspec ops) rops).1 := by
      intro m1 peer'' h1 h2 h3
      obtain ⟨m2, r2, outs, g1, g2, g3, _, _, _⟩ := c06_reader_refines_bytequeue rops m1 peer''.recv h2 h3 (by rw [h1]; exact hen)
      exact ⟨m2, r2, outs, g1, by rw [g2, h1], by rw [g3, h1]⟩
    have hempty : ∀ m1 : Mem, content m1 ({} : StreamM).recv.sl = [] := fun _ => rfl
    by_cases hf : l'.fromShm = true
    · obtain ⟨m1, x', peer', peer'', e1, e2, e3, _, e5, e6, _⟩ :=
        transport_shm m' { send := l' } {} wi hw' hi ht hnz hlen rfl hf rfl
      refine ⟨m1, x', peer', peer'', .shm, e1, Or.inl rfl, e2, ?_⟩
      exact fin m1 peer'' (by rw [e3, hempty, nil_append]; exact hc') (e5 (fun _ h => absurd h (by simp))) (e6 rfl)
    · obtain ⟨m1, x', peer', peer'', e1, e2, e3, _, e5, e6, _, _⟩ :=
        transport_fb m' { send := l' } {} wi hi ht hlen (Or.inr (by simpa using hf)) rfl
      refine ⟨m1, x', peer', peer'', .fallback, e1, Or.inr rfl, e2, ?_⟩
      exact fin m1 peer'' (by rw [e3, hempty, nil_append]; exact hc') (e5 (fun _ h => absurd h (by simp))) (e6 rfl)

-- non-vacuity, shared-memory transport: three writes across two size classes, flushed, read back in other sizes
example :
    let m := Mem.create [(4, 3), (8, 3)]
    (wimpl m {} [.bytes [1, 2, 3], .byte 4, .bytes [5, 6, 7, 8, 9, 10]]).map (fun (m', l') =>
      let (m1, _, peer', res) := flush m' { send := l' } {}
      (res, (moveTo m1 peer').map (fun (m2, p) => (implRun m2 p.recv [.peek 2, .readBytes 7, .discard 1, .readBytes 2]).map (·.2.2)))) =
    some (.shm, some (some [[1, 2], [1, 2, 3, 4, 5, 6, 7], [], [9, 10]])) := by
  decide

/-! ### a stream PAIR, any number of messages, both directions, both transports: two byte queues -/

open LB in
/-- **A pair of streams refines two byte queues.** From the memory createBufferManager lays out (any size classes): for
    EVERY sequence of WriteBytes, WriteByte, Flush (shared-memory transport, or fall-back once the allocator ran dry - the
    stream then stays in fall-back), readMore, ReadBytes, ReadByte, ReadString, Read, Peek, Discard, ReleasePreviousRead and
    Close (which empties the closing end's own buffers and leaves the other direction's flushed bytes alone) calls on either end, in any
    order - any number of messages composed, in flight and half read at the same time, in both directions - in which every
    reader call finds its bytes buffered (what Stream.readMore waits for): each ReadBytes / Peek returns exactly the next
    bytes the peer flushed, in flush order; nothing is lost, duplicated, reordered or leaks from the other direction; and at
    the end the receive buffer plus what is in flight is exactly what was flushed and not yet consumed, the send buffer
    exactly what was written and not yet flushed. -/
theorem c06_pair_refines_queues (classes : List (Nat × Nat)) (hpos : ∀ c ∈ classes, 0 < c.1) (ops : List POp)
    (s : PSys) (outs : List (List Nat)) (hadm : Admissible { m := Mem.create classes } ops)
    (hrun : prunOut { m := Mem.create classes } ops = some (s, outs)) :
    outs = (qrunOut {} ops).2 ∧
    content s.m s.b.recv.sl ++ flightBytes s.m s.b.pending = (qrunOut {} ops).1.ab.flushed ∧
    content s.m s.a.send.sl = (qrunOut {} ops).1.ab.composed ∧
    content s.m s.a.recv.sl ++ flightBytes s.m s.a.pending = (qrunOut {} ops).1.ba.flushed ∧
    content s.m s.b.send.sl = (qrunOut {} ops).1.ba.composed := by
  obtain ⟨h, ho⟩ := pq_run ops _ s {} outs (PQS.init classes hpos) hadm hrun
  exact ⟨ho, h.xy.fl, h.xy.co, h.yx.fl, h.yx.co⟩

open LB in
/-- writer calls never fail and never need a guard: only reader calls are conditioned (on their bytes being buffered) -/
theorem c06_pair_writer_total {N : Nat} {s : PSys} {q : QSys} (h : PQS N s q) (x : Bool) (d : List Nat) (b : Nat) :
    (pstep s (.write x d)).isSome = true ∧ (pstep s (.writeByte x b)).isSome = true ∧ (pstep s (.more x)).isSome = true := by
  obtain ⟨hx, _, _⟩ := h.side x
  refine ⟨?_, ?_, ?_⟩
  · by_cases hd : d = []
    · subst hd
      have : (s.get x).send.writeBytes s.m [] = some (s.m, (s.get x).send) := by unfold LBuf.writeBytes; simp
      simp [pstep, this]
    · obtain ⟨m1, l1, e1, _⟩ := writeBytes_spec s.m (s.get x).send d hx.pi.wf hx.pi.x.wbuf hd
      simp [pstep, e1]
  · obtain ⟨m1, l1, e1, _⟩ := writeByte_spec s.m (s.get x).send b hx.pi.wf hx.pi.x.wbuf
    simp [pstep, e1]
  · obtain ⟨X', e1, _⟩ := hx.moreStep
    simp [pstep, e1]

-- non-vacuity: both directions interleaved, three messages from a (13 bytes over two slices, 3 bytes, 1 byte), one from b;
-- a reads b's message while its own are in flight; b reads across message boundaries
example :
    let s0 : LB.PSys := { m := LB.Mem.create [(4, 4), (8, 4)] }
    let ops : List LB.POp := [.write false [1, 2, 3, 4, 5, 6, 7, 8, 9, 10, 11, 12, 13], .flush false, .write true [50, 51],
      .write false [21, 22, 23], .flush false, .flush true, .more true, .readBytes true 9, .writeByte false 31, .flush false,
      .more false, .peek false 2, .readBytes false 2, .more true, .readBytes true 8, .release true]
    (LB.prunOut s0 ops).map (·.2) = some (LB.qrunOut {} ops).2 ∧
    (LB.qrunOut {} ops).2 = [[], [], [], [], [], [], [], [1, 2, 3, 4, 5, 6, 7, 8, 9], [], [], [], [50, 51], [50, 51], [],
      [10, 11, 12, 13, 21, 22, 23, 31], []] := by
  decide

-- ReadString and Read (with the requested bytes buffered) across slice and message boundaries
example :
    let s0 : LB.PSys := { m := LB.Mem.create [(4, 6)] }
    let ops : List LB.POp := [.write false [1, 2, 3, 4, 5, 6], .flush false, .write false [7, 8, 9], .flush false, .more true,
      .readString true 5, .readInto true 3, .readBytes true 1]
    (LB.prunOut s0 ops).map (·.2) = some (LB.qrunOut {} ops).2 ∧
    (LB.qrunOut {} ops).2 = [[], [], [], [], [], [1, 2, 3, 4, 5], [6, 7, 8], [9]] := by
  decide

-- ReadByte across a slice boundary: the exhausted front slice is dropped and the byte comes from the next one
example :
    let s0 : LB.PSys := { m := LB.Mem.create [(4, 6)] }
    let ops : List LB.POp := [.write false [1, 2, 3, 4, 5, 6], .flush false, .more true, .readBytes true 3, .readByte true,
      .readByte true, .readByte true]
    (LB.prunOut s0 ops).map (·.2) = some (LB.qrunOut {} ops).2 ∧
    (LB.qrunOut {} ops).2 = [[], [], [], [1, 2, 3], [4], [5], [6]] := by
  decide

-- F24 in the model: an empty slice (a fall-back event with an empty payload) between two data slices; ReadByte finds the byte
example :
    let m : LB.Mem := LB.Mem.create [(4, 2)]
    let l : LB.LBuf := { sl := [{ heap := [65], cap := 1, wi := 1 }, { heap := [], cap := 0, wi := 0 }, { heap := [66], cap := 1, wi := 1 }], len := 2 }
    ((l.readByte m).bind (fun (m1, l1, b1) => (l1.readByte m1).map (fun (_, l2, b2) => (b1, b2, l2.len)))) = some (65, 66, 0) := by
  decide

-- Close in the middle: b closes while a message is in flight towards it and it has composed bytes; a's own unread data stays
example :
    let s0 : LB.PSys := { m := LB.Mem.create [(4, 4), (8, 4)] }
    let ops : List LB.POp := [.write true [9, 9], .flush true, .write false [1, 2, 3, 4, 5], .flush false, .write true [7],
      .close true, .more false, .readBytes false 2, .write false [6], .flush false, .more true, .readBytes true 1]
    (LB.prunOut s0 ops).map (·.2) = some (LB.qrunOut {} ops).2 ∧
    (LB.qrunOut {} ops).2 = [[], [], [], [], [], [], [], [9, 9], [], [], [], [6]] := by
  decide

-- ... and with the allocator exhausted: the second message spills into a heap slice and travels by the connection, the
-- stream stays in fall-back for the third; order is kept across the switch of transport
example :
    let s0 : LB.PSys := { m := LB.Mem.create [(4, 3)] }
    let ops : List LB.POp := [.write false [1, 2, 3], .flush false, .write false [4, 5, 6, 7, 8, 9, 10, 11, 12, 13], .flush false,
      .write false [14], .flush false, .more true, .readBytes true 14]
    (LB.prunOut s0 ops).map (fun r => (r.2, r.1.a.inFallback)) = some ((LB.qrunOut {} ops).2, true) ∧
    ((LB.qrunOut {} ops).2.getLast? = some [1, 2, 3, 4, 5, 6, 7, 8, 9, 10, 11, 12, 13, 14]) := by
  decide

end Props.C06
