import ShmVerif.Proof.NetL
/-!
  C19 — the net.Listener / net.Conn adapter behaves like a stream socket (the listener side: accounting of sessions,
  wrapped streams, backlog, Accept, Close).  `Reachable l`: the adapter after ANY sequence of sessions being established,
  streams arriving on any session, Accept calls, conns being closed, sessions ending because the peer went away, and
  listener.Close at any moment.  The io.Reader / io.Writer contracts of Read / Write on a conn are those of the stream's
  buffer operations (C06); the harness checks them, and end-to-end delivery, on real unix sockets.
-/
namespace Props.C19
open NetL

def Reachable (l : L) : Prop := ∃ cap ops, l = run { cap := cap } ops

theorem reachable_inv {l : L} (h : Reachable l) : Inv l := by
  obtain ⟨cap, ops, rfl⟩ := h; exact inv_run ops _ (inv_init cap)

/-- every wrapped stream surfaces at most once: what is waiting in the backlog and what Accept has handed out never
    overlap and never repeat -/
theorem c19_surfaces_once {l : L} (hr : Reachable l) :
    (l.backlog ++ l.handed).Nodup ∧ ∀ c ∈ l.backlog ++ l.handed, c < l.conns.length :=
  ⟨(reachable_inv hr).nodup, (reachable_inv hr).bound⟩

/-- ... and none is lost: a wrapped stream that is not closed is waiting in the backlog or was handed out by Accept -/
theorem c19_none_lost {l : L} (hr : Reachable l) (c : Nat) (x : Conn) (hx : l.conns[c]? = some x) (ho : x.closed = false) :
    c ∈ l.backlog ∨ c ∈ l.handed := by
  rcases (reachable_inv hr).cover c x hx with h | h
  · rw [ho] at h; cases h
  · exact h

/-- Accept returns the oldest waiting conn (FIFO) -/
theorem c19_accept_fifo (l : L) (c : Nat) (rest : List Nat) (hb : l.backlog = c :: rest) :
    (accept l).2 = some c ∧ (accept l).1.backlog = rest ∧ (accept l).1.handed = l.handed ++ [c] := by
  simp [accept, hb]

/-- the reference count of a session is exactly: the listener's reference while it is listed, plus one per wrapped
    stream of that session that has not been closed -/
theorem c19_refs_exact {l : L} (hr : Reachable l) (k : Nat) (x : Sess) (hx : l.sess[k]? = some x) :
    x.refs = (if x.listed then 1 else 0) + l.conns.countP (isOpen k) :=
  (reachable_inv hr).refs k x hx

/-- closing the listener unblocks Accept: afterwards nothing is waiting and no session is listed, so Accept finds the
    closed channel (the model's `none`) -/
theorem c19_close_unblocks {l : L} (hr : Reachable l) (hc : l.closed = true) :
    l.backlog = [] ∧ (accept l).2 = none ∧ ∀ x ∈ l.sess, x.listed = false := by
  have h := (reachable_inv hr).shut hc
  exact ⟨h.1, by simp [accept, h.1], h.2⟩

theorem c19_close_closes (l : L) : (close l).closed = true := by simp [close]

/-- closing the listener lets sessions end once their conns are closed (repaired code): with the listener closed, a
    session none of whose handed-out conns is still open has a zero count and is closed -/
theorem c19_sessions_end {l : L} (hr : Reachable l) (hc : l.closed = true) (k : Nat) (x : Sess) (hx : l.sess[k]? = some x)
    (hall : ∀ c ∈ l.handed, ∀ y, l.conns[c]? = some y → y.sess = k → y.closed = true) : x.refs = 0 ∧ x.closed = true := by
  have h := reachable_inv hr
  have hs := h.shut hc
  have hl : x.listed = false := hs.2 x (List.mem_of_getElem? hx)
  have hcnt : l.conns.countP (isOpen k) = 0 := by
    apply List.countP_eq_zero.mpr
    intro y hy
    obtain ⟨c, hlt, hcy⟩ := List.getElem_of_mem hy
    have hcy' : l.conns[c]? = some y := by simp [hlt, hcy]
    simp only [isOpen, Bool.and_eq_true, beq_iff_eq, Bool.not_eq_true', not_and, Bool.not_eq_false]
    intro hyk
    rcases h.cover c y hcy' with h1 | h1 | h1
    · exact h1
    · rw [hs.1] at h1; cases h1
    · exact hall c h1 y hcy' hyk
  have hr' := h.refs k x hx
  simp [hl, b2n, hcnt] at hr'
  exact ⟨hr', h.zero k x hx hr'⟩

/-- a session's counter never goes negative and the session is closed exactly when it may be: at zero -/
theorem c19_zero_means_closed {l : L} (hr : Reachable l) (k : Nat) (x : Sess) (hx : l.sess[k]? = some x) (h0 : x.refs = 0) :
    x.closed = true := (reachable_inv hr).zero k x hx h0

/-! ### non-vacuity -/

example :
    let l := run { cap := 8 } [.newSess, .stream 0, .stream 0, .accept, .close]
    l.closed = true ∧ l.backlog = [] ∧ l.handed = [0] ∧ (l.sess.map (·.refs)) = [1] ∧ (l.sess.map (·.closed)) = [false] := by decide

example :
    let l := run { cap := 8 } [.newSess, .stream 0, .stream 0, .accept, .close, .closeConn 0]
    (l.sess.map (·.refs)) = [0] ∧ (l.sess.map (·.closed)) = [true] := by decide

end Props.C19
