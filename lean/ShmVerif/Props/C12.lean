import ShmVerif.Model.Handshake
/-!
  C12 — the handshake yields one shared memory and the lower version, or errors on both ends.

  `client memType mem inp tail` / `server inp tail` are the two real ends as functions of EVERY possible input: any
  list of messages from the peer (honest, reordered, of the wrong type or version, unmappable memory) followed by the
  connection closing or by silence until the time-out.
-/
namespace Props.C12
open Handshake

/-- both real ends, memfd mapping: success on both, version 3 = min(3, 3), and the server maps the client's memory -/
theorem c12_pair_memfd (mem : Nat) :
    (pair .memfd mem).1.res = none ∧ (pair .memfd mem).2.res = none ∧
    (pair .memfd mem).1.version = 3 ∧ (pair .memfd mem).2.version = 3 ∧
    (pair .memfd mem).1.mapped = some mem ∧ (pair .memfd mem).2.mapped = some mem := by
  simp [pair, client, server, next, maxVersion, canReply]

/-- both real ends, file mapping (version-2 exchange): success on both with version 2 and the same memory -/
theorem c12_pair_file (mem : Nat) :
    (pair .file mem).1.res = none ∧ (pair .file mem).2.res = none ∧
    (pair .file mem).1.version = 2 ∧ (pair .file mem).2.version = 2 ∧
    (pair .file mem).1.mapped = some mem ∧ (pair .file mem).2.mapped = some mem := by
  simp [pair, client, server, next, canReply]

/-- a version-3 client reports success only after it has read, in this order, the server's version, the go-ahead for the
    descriptors and the final acknowledgement — whatever else the peer sends, closes or withholds -/
theorem c12_v3_client_ok_needs_ack (mem : Nat) (inp : List Msg) (tail : Tail)
    (hok : (client .memfd mem inp tail).res = none) (hv : (client .memfd mem inp tail).version = 3) :
    ∃ sv rest, inp = .exVer sv :: .ackReadyFd :: .ackShm :: rest ∧ 3 ≤ sv := by
  unfold client at hok hv
  simp only [next] at hok hv
  cases inp with
  | nil => simp at hok
  | cons m r1 =>
    cases m <;> simp at hok hv
    rename_i sv
    split at hok
    · rename_i hch
      cases r1 with
      | nil => simp at hok
      | cons m2 r2 =>
        simp at hok
        split at hok
        · rename_i hm2
          cases r2 with
          | nil => simp at hok
          | cons m3 r3 =>
            simp at hok
            split at hok
            · rename_i hm3
              refine ⟨sv, r3, ?_, ?_⟩
              · rw [hm2, hm3]
              · simp [maxVersion] at hch; omega
            · simp at hok
        · simp at hok
    · split at hok
      · rename_i h3 h2; simp [h3, h2] at hv
      · simp at hok

/-- the shape every server result has -/
def AckMeansMapped (r : Result) : Prop := Msg.ackShm ∈ r.sent → r.res = none ∧ r.mapped.isSome = true

/-- the server writes the final acknowledgement only when it has succeeded and mapped memory: with
    `c12_v3_client_ok_needs_ack`, in the version-3 exchange the client cannot succeed against a server that failed -/
theorem c12_server_ack_means_mapped (inp : List Msg) (tail : Tail) : AckMeansMapped (server inp tail) := by
  unfold server
  simp only [next]
  repeat' split
  all_goals simp_all [AckMeansMapped]

/-- failure always ends with nothing mapped on that end (newSession's clean-up; the real descriptors, mappings and files
    are counted by the harness) -/
def FailMapsNothing (r : Result) : Prop := ∀ e, r.res = some e → r.mapped = none

theorem c12_failure_maps_nothing_client (mt : Mem) (mem : Nat) (inp : List Msg) (tail : Tail) :
    FailMapsNothing (client mt mem inp tail) := by
  unfold client
  simp only [next]
  repeat' split
  all_goals simp [FailMapsNothing]

theorem c12_failure_maps_nothing_server (inp : List Msg) (tail : Tail) : FailMapsNothing (server inp tail) := by
  unfold server
  simp only [next]
  repeat' split
  all_goals simp [FailMapsNothing]

/-- in particular when the acknowledgement itself cannot be written (the client stopped receiving, or died, after handing
    over its memory): the server had mapped the memory, fails, and ends with nothing mapped -/
theorem c12_ack_write_failure_unmaps (v mem : Nat) :
    (server [.exVer 3, .metaFile v mem true] .deaf).res = some .eof ∧ (server [.exVer 3, .metaFile v mem true] .deaf).mapped = none ∧
    (server [.exVer 3, .metaMemfd v mem, .fds mem true] .deaf).res = some .eof ∧
    (server [.exVer 3, .metaMemfd v mem, .fds mem true] .deaf).mapped = none := by
  simp [server, next, canReply, maxVersion]

/-- the negotiated version is the lower of the two: the server stamps min(client's, 3) -/
def ServerVersionMin (cv : Nat) (r : Result) : Prop := r.version = min cv maxVersion

theorem c12_version_is_min_server (rest : List Msg) (tail : Tail) : ServerVersionMin 3 (server (.exVer 3 :: rest) tail) := by
  unfold server
  simp only [next]
  repeat' split
  all_goals simp_all [ServerVersionMin, maxVersion]

/-- ... and a version-3 client that succeeds runs version min(3, server's) -/
theorem c12_version_is_min_client (mem : Nat) (sv : Nat) (rest : List Msg) (tail : Tail)
    (hok : (client .memfd mem (.exVer sv :: rest) tail).res = none) :
    (client .memfd mem (.exVer sv :: rest) tail).version = min maxVersion sv := by
  unfold client at hok ⊢
  simp only [next] at hok ⊢
  repeat' split at hok
  all_goals simp_all

/-- a peer that never answers ends in the time-out class, a peer that closes in the end-of-stream class (the descriptor
    read reports a closed connection as a protocol error) — never in success -/
theorem c12_no_input_fails (mt : Mem) (mem : Nat) (tail : Tail) :
    (mt = .memfd → (client mt mem [] tail).res = some tail.err) ∧ (server [] tail).res = some tail.err := by
  constructor
  · intro h; subst h; simp [client, next]
  · simp [server, next]

/-! ### known finding (F7): the version-2 exchange has no reply, so the client succeeds alone -/

/-- file mapping: the client reports success having read nothing, while the server it talks to fails to map the paths -/
theorem c12_v2_one_sided_witness :
    (client .file 1 [] .eof).res = none ∧ (server [.metaFile 2 1 false] .eof).res = some .mapping := by decide

end Props.C12
