import ShmVerif.Proof.QueueC
/-!
  C04 — the IO queue delivers every element exactly once, intact and in order.

  `Reachable s`: `s` is the state after ANY schedule (list of single-access steps of any producer / the consumer),
  from the initial state of ANY capacity (0 and 1 included), ANY initial cursor value (wrap-around), ANY number of
  producers with ANY programs and ANY number of pops.
  `enq` is the ghost list of published elements in publication order (index = cursor value), `deq` the list of
  elements the consumer returned.
-/
namespace Props.C04
open QueueC

def Reachable (s : State) : Prop :=
  ∃ cap base prods pops sched, s = run (init cap base prods pops) sched

theorem reachable_inv {s : State} (h : Reachable s) : Inv s := by
  obtain ⟨cap, base, prods, pops, sched, rfl⟩ := h
  exact run_inv _ sched (inv_init cap base prods pops)

/-- Everything the consumer has returned is exactly the first `head` published elements, in publication order:
    no loss, no duplicate, no tearing (elements compare on all three fields), no reordering. -/
theorem c04_fifo {s : State} (hr : Reachable s) :
    s.deq = s.enq.take s.head ∧ s.deq <+: s.enq := by
  have h := reachable_inv hr
  exact ⟨h.deqEq, by rw [h.deqEq]; exact List.take_prefix _ _⟩

/-- The number of outstanding elements never exceeds the capacity (and cursors never cross). -/
theorem c04_bounded {s : State} (hr : Reachable s) :
    s.head ≤ s.tail ∧ s.tail - s.head ≤ s.cap ∧ s.enq.length = s.tail := by
  have h := reachable_inv hr
  exact ⟨h.hle, by have := h.bounded; omega, h.enqLen⟩

/-- A slot inside the published window always holds the published element: the consumer can only ever read
    completely written slots, and a producer never overwrites an unread one. -/
theorem c04_window_intact {s : State} (hr : Reachable s) :
    ∀ i, s.head ≤ i → i < s.tail → rget s.ring (i % s.cap) = s.enq.getD i default :=
  (reachable_inv hr).window

/-- What the consumer is about to return (`addHead` step) is the published element at cursor `head`. -/
theorem c04_returns_published {s : State} (hr : Reachable s) (hpc : s.cons.pc = .addHead) :
    s.cons.e = s.enq.getD s.head default ∧ s.head < s.tail := by
  have h := (reachable_inv hr).cons
  simp only [ConsInv, hpc] at h
  exact ⟨h.2.2, h.2.1⟩

/-- `put` reports "full" only when the queue really is full at the instant it loads `head`:
    in any reachable state, the step that sends the lock holder to the full-exit sees `tail - head ≥ cap`. -/
theorem c04_full_is_full {s : State} (hr : Reachable s) (t : Nat) (c c' : Crit) :
    s.crit = some c → c.pc = .ldHead → (stepProd s t).1.crit = some c' → c'.pc = .unlockFull →
    s.tail - s.head ≥ s.cap := by
  intro hc hpc hc' hpc'
  have hcrit := (reachable_inv hr).crit
  simp only [CritInv, hc, hpc] at hcrit
  unfold stepProd at hc'
  simp only [hc, hpc] at hc'
  by_cases htid : c.tid ≠ t
  · rw [if_pos htid] at hc'
    split at hc' <;> (simp only at hc'; rw [hc] at hc'; cases hc'; rw [hpc] at hpc'; cases hpc')
  · rw [if_neg htid] at hc'
    split at hc'
    · rename_i hfull; rw [hcrit] at hfull; exact hfull
    · simp only [Option.some.injEq] at hc'; rw [← hc'] at hpc'; cases hpc'

-- non-vacuity: a concrete schedule with wrap-around (cap 1, cursors starting at 3) that publishes and consumes
example :
    let s := run (init 1 3 [[⟨7, 8, 9⟩, ⟨1, 2, 3⟩]] 2)
      [some 0, some 0, some 0, some 0, some 0, some 0, some 0, some 0, none, none, none, none, none, none]
    s.deq.drop 3 = [⟨7, 8, 9⟩] ∧ s.head = 4 ∧ s.tail = 4 := by decide

end Props.C04
