import ShmVerif.Model.QueueC
namespace Props.C04
theorem placeholder : True := trivial
end Props.C04
