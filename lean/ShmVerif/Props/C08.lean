import ShmVerif.Props.C06
import ShmVerif.Proof.Payload
/-!
  C08 — zero-copy read results stay valid until they are released.

  PARTIAL proof (see the end of this comment). A zero-copy result of ReadBytes/Peek is a view `[lo, hi)` of the payload of one shared-memory slot.
  Proved: no BufferReader operation of the holder, no recycling of consumed slices, no ReleasePreviousRead ever changes a
  payload byte of ANY slot (`c08_reader_ops_preserve_payload`, `c08_release_preserves_payload`); a slice that has
  handed out a zero-copy view (`curPinned`) is parked in the pinned list, never recycled, when the reader moves past it
  (`c08_pinned_not_recycled`); ReleasePreviousRead empties the pinned list, returning those slots to the allocator
  (`c08_release_returns`).
  `c08_writers_leave_foreign_payload`: writes by OTHER holders cannot reach a parked slot - any sequence of WriteBytes /
  WriteByte calls on any send buffer touches only the payload of that buffer's own slices and of slots it takes from the
  free lists (frame conclusion of the writer theorems of `Proof/LBWrite`).
  NOT yet proved: the global ownership partition (every slot outside the free lists is referenced by exactly one
  container) as ONE invariant over readers, writers and messages in flight; Reserve; covered on the real code by the
  borrow monitor (every outstanding view is re-compared after every later operation, including unrelated
  allocate-and-scribble).
-/
namespace Props.C08
open LB List Props.C06

/-- Whatever the reader does next (any enabled sequence of ReadBytes / Peek / Discard, across any slice boundaries, with the
    recycling of every slice it consumes), no payload byte of any slot changes: outstanding zero-copy views keep their
    contents. -/
theorem c08_reader_ops_preserve_payload (ops : List ReadOp) (m : Mem) (l : LBuf)
    (hwf : SlicesWF m l.sl) (hlen : l.len = (content m l.sl).length) (hen : Enabled (content m l.sl) ops) :
    ∃ m' l' outs, implRun m l ops = some (m', l', outs) ∧ ∀ j, (m'.slot j).data = (m.slot j).data := by
  obtain ⟨m', l', outs, h1, _, _, _, _, h6⟩ := c06_reader_refines_bytequeue ops m l hwf hlen hen
  exact ⟨m', l', outs, h1, h6⟩

theorem foldl_recycle_data (ss : List BS) : ∀ (m : Mem) (j : Nat),
    ((ss.foldl (fun m s => m.recycle s) m).slot j).data = (m.slot j).data := by
  induction ss with
  | nil => intro m j; rfl
  | cons s r ih => intro m j; simp only [foldl_cons]; rw [ih, recycle_data]

/-- ReleasePreviousRead recycles slots but never alters a payload byte. -/
theorem c08_release_preserves_payload (m : Mem) (l : LBuf) (j : Nat) :
    ((l.release m).1.slot j).data = (m.slot j).data := by
  unfold LBuf.release LBuf.cleanPinned
  by_cases hp : l.pinned.isEmpty = true
  · simp only [hp, if_true]
    cases hsl : l.sl with
    | nil => rfl
    | cons f r =>
      simp only
      split
      · exact recycle_data m f j
      · rfl
  · simp only [hp]
    cases hsl : l.sl with
    | nil => simp only [Bool.false_eq_true, if_false]; exact foldl_recycle_data _ _ _
    | cons f r =>
      simp only [Bool.false_eq_true, if_false]
      split
      · rw [recycle_data]; exact foldl_recycle_data _ _ _
      · exact foldl_recycle_data _ _ _

/-- When the reader moves past a shared-memory slice that has handed out a zero-copy view, the slice is parked in the
    pinned list and shared memory (headers, free lists, payloads) is left untouched: it is not recycled. -/
theorem c08_pinned_not_recycled (m : Mem) (l : LBuf) (s : BS) (r : List BS) (hsl : l.sl = s :: r)
    (hshm : s.isShm = true) (hpin : l.curPinned = true) :
    ∃ l', l.readNext m = some (m, l') ∧ l'.pinned = l.pinned ++ [s] ∧ l'.sl = r := by
  unfold LBuf.readNext
  rw [hsl]
  simp only [hshm, hpin, if_true]
  exact ⟨_, rfl, rfl, rfl⟩

/-- The fast paths of ReadBytes and Peek mark the front slice as pinned before returning the view. -/
theorem c08_fast_path_pins (m : Mem) (l : LBuf) (n : Nat) (f : BS) (r : List BS) (hsl : l.sl = f :: r)
    (hpos : 0 < n) (hf : f.size ≥ n) (hne : f.size ≠ 0) :
    ∃ m' l' d, l.readBytes m n = some (m', l', d) ∧ l'.curPinned = true := by
  unfold LBuf.readBytes
  have h0 : ¬ n = 0 := by omega
  simp only [h0, if_false, LBuf.front?, hsl, head?_cons, hne, hf, if_true]
  exact ⟨_, _, _, rfl, rfl⟩

/-- After ReleasePreviousRead nothing is parked any more: every parked slot went back through recycleBuffer. -/
theorem c08_release_returns (m : Mem) (l : LBuf) : (l.release m).2.pinned = [] := by
  unfold LBuf.release LBuf.cleanPinned
  by_cases hp : l.pinned.isEmpty = true
  · have : l.pinned = [] := List.isEmpty_iff.mp hp
    simp only [hp, if_true]
    cases l.sl with
    | nil => exact this
    | cons f r => simp only; split <;> exact this
  · simp only [hp]
    cases l.sl with
    | nil => rfl
    | cons f r => simp only [Bool.false_eq_true, if_false]; split <;> rfl

/-- Writes by OTHER holders cannot reach a borrowed slice: whatever sequence of WriteBytes / WriteByte calls any send
    buffer of the session performs - allocating from the free lists, spilling to the heap - the payload of a slot that is
    neither one of that buffer's own slices nor in a free list is not touched.  A slice parked in a reader's pinned list
    (`c08_pinned_not_recycled`) is exactly such a slot until ReleasePreviousRead returns it. -/
theorem c08_writers_leave_foreign_payload (ops : List WriteOp) (m : Mem) (l : LBuf) (hw : m.WF) (hb : WBuf m l) :
    ∃ m' l', wimpl m l ops = some (m', l') ∧
      ∀ p, p ∉ l.sl.filterMap (·.slot) → p ∉ m.free.flatten → (m'.slot p).data = (m.slot p).data := by
  obtain ⟨m', l', e, _, _, _, _, hfr⟩ := c06_writer_refines_bytequeue ops m l hw hb
  exact ⟨m', l', e, hfr.data⟩

/-! ### in a stream pair nobody else writes what a reader holds -/

open LB in
/-- **No foreign write.** In a pair of streams over one memory (`LB.PSys`; any reachable state, i.e. any state satisfying the
    pair invariant), whatever operation either end performs - writer calls allocating and filling buffers, Flush on either
    transport, readMore, any reader call, ReleasePreviousRead, Close - the payload of every slot that a receive buffer lists
    or has parked (what ReadBytes / Peek results point into) and of every slot of a message still in flight is left
    byte for byte as it was.  So a zero-copy result can only change after its own slot has left the receive buffer, which
    the buffer-level theorems above tie to ReleasePreviousRead / Close. -/
theorem c08_pair_no_foreign_write {N : Nat} {s s' : PSys} {op : POp} (h : PInv N s) (e : pstep s op = some s') (p : Nat)
    (hp : p ∈ heldL s.a.recv ∨ p ∈ heldL s.b.recv ∨ p ∈ flight s.m s.a.pending ∨ p ∈ flight s.m s.b.pending) :
    (s'.m.slot p).data = (s.m.slot p).data := by
  have h7 := PI.seven h p
  have pos : 0 < (heldL s.a.recv).count p + (heldL s.b.recv).count p + (flight s.m s.a.pending).count p +
      (flight s.m s.b.pending).count p := by
    rcases hp with hp | hp | hp | hp <;> (have := List.count_pos_iff.mpr hp; omega)
  exact pstep_payload h e p (fc_zero.mp (by omega)) (List.count_eq_zero.mp (by omega)) (List.count_eq_zero.mp (by omega))

open LB in
/-- the same along a whole run, for a slot that stays where it is: as long as slot `p` is held by a receive buffer or in
    flight after every step, its payload at the end is its payload at the start -/
theorem c08_pair_view_stable {N : Nat} : ∀ (ops : List POp) (s s' : PSys), PInv N s → prun s ops = some s' →
    (∀ (k : Nat) (sk : PSys), k ≤ ops.length → prun s (ops.take k) = some sk →
      (p ∈ heldL sk.a.recv ∨ p ∈ heldL sk.b.recv ∨ p ∈ flight sk.m sk.a.pending ∨ p ∈ flight sk.m sk.b.pending)) →
    (s'.m.slot p).data = (s.m.slot p).data
  | [], s, s', _, e, _ => by
    simp only [prun, Option.some.injEq] at e
    subst e; rfl
  | op :: r, s, s', h, e, hall => by
    unfold prun at e
    cases hs : pstep s op with
    | none => rw [hs] at e; cases e
    | some s1 =>
      rw [hs] at e
      have h0 := hall 0 s (Nat.zero_le _) (by simp [prun])
      have d1 := c08_pair_no_foreign_write h hs p h0
      have d2 := c08_pair_view_stable r s1 s' (pstep_inv h hs) e (fun k sk hk hrun => by
        apply hall (k + 1) sk (by simp; omega)
        simp only [List.take_succ_cons, prun, hs]
        exact hrun)
      rw [d2, d1]

end Props.C08
