import ShmVerif.Props.C16
/-!
  C16, composed: a complete hand-over, for ANY number of sessions and ANY arrival order of the per-session restart events
  and of the acknowledgements.

  Server: `n` established sessions, HotRestart(e), then every session's ack (epoch `e`) in any order, then the checker's tick.
  Client: a manager of `n` sessions receives the restart event of every session index in any order (the new server is
  reachable), then its checker's tick.
-/
namespace Props.C16
open Restart List

/-! ### client side -/

theorem hot_step (m : Manager) (id e : Nat) (hc : m.cancelled = false) (hs : m.state = .hot) (he : m.epoch = e)
    (hid : id < m.pools.length) (hnew : ∀ r ∈ m.reserve, r.1 ≠ id) :
    (m.hotRestart id e true).state = .hot ∧ (m.hotRestart id e true).epoch = e ∧ (m.hotRestart id e true).cancelled = false ∧
    (m.hotRestart id e true).pools.length = m.pools.length ∧
    (m.hotRestart id e true).reserve.map (·.1) = m.reserve.map (·.1) ++ [id] := by
  have hfind : (m.reserve.find? (·.1 = id)).isSome = false := by
    cases hf : m.reserve.find? (·.1 = id) with
    | none => rfl
    | some r =>
      have := List.find?_some hf
      have hm := List.mem_of_find?_eq_some hf
      simp at this; exact absurd this (hnew r hm)
  obtain ⟨old, hold⟩ : ∃ old, m.pools[id]? = some old := ⟨m.pools[id], by simp [hid]⟩
  unfold Manager.hotRestart
  simp [hc, hs, he, hfind, hold]

theorem first_step (m : Manager) (id e : Nat) (hc : m.cancelled = false) (hs : m.state ≠ .hot)
    (hid : id < m.pools.length) :
    (m.hotRestart id e true).state = .hot ∧ (m.hotRestart id e true).epoch = e ∧ (m.hotRestart id e true).cancelled = false ∧
    (m.hotRestart id e true).pools.length = m.pools.length ∧
    (m.hotRestart id e true).reserve.map (·.1) = [id] := by
  have ss := closeObjs_same (m.reserve.map (·.2)) m
  obtain ⟨old, hold⟩ : ∃ old, m.pools[id]? = some old := ⟨m.pools[id], by simp [hid]⟩
  have hold' : (m.closeObjs (m.reserve.map (·.2))).pools[id]? = some old := by rw [ss.pools]; exact hold
  unfold Manager.hotRestart
  simp [hc, hs, hold, hold', ss.pools, ss.cancelled]

theorem fold_events (n e : Nat) : ∀ (rest : List Nat) (m : Manager) (done : List Nat),
    m.cancelled = false → m.pools.length = n →
    ((m.state ≠ .hot ∧ done = []) ∨ (m.state = .hot ∧ m.epoch = e ∧ m.reserve.map (·.1) = done)) →
    rest.Nodup → (∀ id ∈ rest, id < n ∧ id ∉ done) →
    (rest.foldl (fun m id => m.hotRestart id e true) m).cancelled = false ∧
    (rest.foldl (fun m id => m.hotRestart id e true) m).pools.length = n ∧
    (((rest.foldl (fun m id => m.hotRestart id e true) m).state ≠ .hot ∧ done ++ rest = []) ∨
     ((rest.foldl (fun m id => m.hotRestart id e true) m).state = .hot ∧
      (rest.foldl (fun m id => m.hotRestart id e true) m).epoch = e ∧
      (rest.foldl (fun m id => m.hotRestart id e true) m).reserve.map (·.1) = done ++ rest)) := by
  intro rest
  induction rest with
  | nil => intro m done hc hp hst _ _; simpa using ⟨hc, hp, hst⟩
  | cons id rest ih =>
    intro m done hc hp hst hnd hlt
    simp only [List.foldl_cons]
    have hid := hlt id List.mem_cons_self
    have hnd' := (List.nodup_cons.mp hnd)
    -- one event
    have step : (m.hotRestart id e true).state = .hot ∧ (m.hotRestart id e true).epoch = e ∧
        (m.hotRestart id e true).cancelled = false ∧ (m.hotRestart id e true).pools.length = n ∧
        (m.hotRestart id e true).reserve.map (·.1) = done ++ [id] := by
      rcases hst with ⟨h1, h2⟩ | ⟨h1, h2, h3⟩
      · have := first_step m id e hc h1 (by omega)
        subst h2
        exact ⟨this.1, this.2.1, this.2.2.1, by omega, by simpa using this.2.2.2.2⟩
      · have hnew : ∀ r ∈ m.reserve, r.1 ≠ id := by
          intro r hr hri
          have : id ∈ m.reserve.map (·.1) := List.mem_map.mpr ⟨r, hr, hri⟩
          rw [h3] at this; exact hid.2 this
        have := hot_step m id e hc h1 h2 (by omega) hnew
        exact ⟨this.1, this.2.1, this.2.2.1, by omega, by rw [this.2.2.2.2, h3]⟩
    have := ih (m.hotRestart id e true) (done ++ [id]) step.2.2.1 step.2.2.2.1
      (Or.inr ⟨step.1, step.2.1, step.2.2.2.2⟩) hnd'.2
      (by
        intro x hx
        have hx' := hlt x (List.mem_cons_of_mem _ hx)
        refine ⟨hx'.1, ?_⟩
        intro hmem
        rcases List.mem_append.mp hmem with h | h
        · exact hx'.2 h
        · simp at h; subst h; exact hnd'.1 hx)
    simpa [List.append_assoc] using this

theorem hotRestart_acks (m : Manager) (id e : Nat) (c : Bool) : (m.hotRestart id e c).acks = m.acks := by
  have ss := closeObjs_same (m.reserve.map (·.2)) m
  unfold Manager.hotRestart
  repeat' split
  all_goals (first | rfl | (simp only []; repeat' split) | skip)
  all_goals (first | rfl | exact ss.acks | simp_all [ss.acks])

theorem fold_acks (e : Nat) (ids : List Nat) : ∀ m : Manager, (ids.foldl (fun m id => m.hotRestart id e true) m).acks = m.acks := by
  induction ids with
  | nil => intro m; rfl
  | cons id rest ih => intro m; simp only [List.foldl_cons]; rw [ih, hotRestart_acks]

theorem run_fold_events (e : Nat) (ids : List Nat) (m : Manager) :
    ids.foldl (fun m id => m.hotRestart id e true) m = m.run (ids.map (fun id => MOp.hotRestart id e true)) := by
  induction ids generalizing m with
  | nil => rfl
  | cons id rest ih => simp only [List.foldl_cons, List.map_cons, Manager.run, List.foldl_cons, Manager.step]; exact ih _

/-- Client side of a complete hand-over: a manager of `n` sessions receives the restart event (epoch `e`, new server
    reachable) of every session index exactly once, in ANY order; then its checker ticks.  The manager leaves the
    hot-restart state, every pool holds a session of epoch `e`, and exactly `n` acknowledgements (epoch `e`) were written,
    one on each old session. -/
theorem c16_client_handover (n e : Nat) (hn : 0 < n) (ids : List Nat) (hnd : ids.Nodup) (hlt : ∀ id ∈ ids, id < n)
    (hlen : ids.length = n) :
    let m := ((Manager.init n).run (ids.map (fun id => MOp.hotRestart id e true))).tick
    m.state = .default ∧ m.checker = false ∧ m.acks.length = n ∧ (∀ a ∈ m.acks, a.2 = e) ∧
    ∀ id, id < n → (m.obj (m.pools.getD id 0)).epoch = e := by
  intro m
  have h0 : (Manager.init n).cancelled = false ∧ (Manager.init n).pools.length = n ∧ (Manager.init n).state ≠ .hot := by
    simp [Manager.init]
  have hf := fold_events n e ids (Manager.init n) [] h0.1 h0.2.1 (Or.inl ⟨h0.2.2, rfl⟩) hnd
    (fun id hid => ⟨hlt id hid, by simp⟩)
  have hacks0 := fold_acks e ids (Manager.init n)
  rw [run_fold_events] at hf hacks0
  have hacks0 : ((Manager.init n).run (ids.map (fun id => MOp.hotRestart id e true))).acks = [] := by
    rw [hacks0]; simp [Manager.init]
  have hne : ids ≠ [] := by intro h; rw [h] at hlen; simp at hlen; omega
  obtain ⟨_, hp, hst⟩ := hf
  rcases hst with ⟨_, h2⟩ | ⟨hs, hep, hres⟩
  · simp at h2; exact absurd h2 hne
  · have hr : MReachable ((Manager.init n).run (ids.map (fun id => MOp.hotRestart id e true))) := ⟨n, _, rfl⟩
    have hall : ((Manager.init n).run (ids.map (fun id => MOp.hotRestart id e true))).reserve.length =
        ((Manager.init n).run (ids.map (fun id => MOp.hotRestart id e true))).pools.length := by
      have := congrArg List.length hres
      simp at this; omega
    have hc := c16_manager_completion hr hs hall
    have hm : m = ((Manager.init n).run (ids.map (fun id => MOp.hotRestart id e true))).tick := rfl
    generalize ((Manager.init n).run (ids.map (fun id => MOp.hotRestart id e true))) = m1 at *
    have hacks : m1.acks = [] := hacks0
    refine ⟨by rw [hm]; exact hc.1, by rw [hm]; exact hc.2.1, ?_, ?_, ?_⟩
    · rw [hm, hc.2.2.1, hacks]; simp; omega
    · intro a ha
      rw [hm, hc.2.2.1, hacks] at ha
      simp only [List.nil_append, List.mem_map] at ha
      obtain ⟨r, _, hra⟩ := ha
      rw [← hra]; exact hep
    · intro id hid
      have htick_same : m1.tick.pools = m1.pools ∧ m1.tick.objs = m1.objs := by
        have hchk := (mreachable_inv hr).chk.mpr hs
        simp [Manager.tick, hchk, hall]
      rw [hm]
      simp only [Manager.obj, htick_same.1, htick_same.2]
      have := hc.2.2.2 id (by omega)
      simp only [Manager.obj] at this
      rw [this, hep]

/-! ### server side -/

def NoHot (u : Nat) (l : Listener) : Prop := ∀ s ∈ l.sess, s.uid = u → s.state ≠ .hot

theorem ack_fields (l : Listener) (u e : Nat) :
    (l.ack u e).state = l.state ∧ (l.ack u e).epoch = l.epoch ∧ (l.ack u e).lostHot = l.lostHot ∧
    (l.ack u e).checker = l.checker ∧ (l.ack u e).okCount = l.okCount ∧
    ∀ s' ∈ (l.ack u e).sess, ∃ s ∈ l.sess, s.uid = s'.uid ∧ (s'.state = .hot → s.state = .hot) := by
  unfold Listener.ack
  split
  · exact ⟨rfl, rfl, rfl, rfl, rfl, fun s' hs' => ⟨s', hs', rfl, id⟩⟩
  · split
    · refine ⟨rfl, rfl, rfl, rfl, rfl, ?_⟩
      intro s' hs'
      simp only [] at hs'
      obtain ⟨x, hx, rfl⟩ := List.mem_map.mp hs'
      refine ⟨x, hx, ?_, ?_⟩
      · split <;> rfl
      · split
        · intro h; simp at h
        · exact id
    · exact ⟨rfl, rfl, rfl, rfl, rfl, fun s' hs' => ⟨s', hs', rfl, id⟩⟩

theorem ack_noHot_self {l : Listener} (h : LInv l) (u e : Nat) (hs : l.state = .hot) (he : e = l.epoch) : NoHot u (l.ack u e) := by
  intro s' hs' hu hhot
  unfold Listener.ack at hs'
  cases hf : l.sess.find? (·.uid = u) with
  | none =>
    simp only [hf] at hs'
    have := List.find?_eq_none.mp hf s' hs'
    simp [hu] at this
  | some s =>
    simp only [hf] at hs'
    have hsu : s.uid = u := by have := List.find?_some hf; simpa using this
    have hsm : s ∈ l.sess := List.mem_of_find?_eq_some hf
    by_cases hc : e = l.epoch ∧ l.state = .hot ∧ s.state = .hot
    · rw [if_pos hc] at hs'
      simp only [] at hs'
      obtain ⟨x, hx, rfl⟩ := List.mem_map.mp hs'
      by_cases hxu : x.uid = u
      · simp [hxu] at hhot
      · simp [hxu] at hu
    · rw [if_neg hc] at hs'
      have hsn : s.state ≠ .hot := fun hh => hc ⟨he, hs, hh⟩
      -- s (not hot) and s' (hot) both carry uid u: two sessions with one uid
      have h1 : 0 < l.sess.countP (fun x => x.hasUid u && x.isHot) :=
        List.countP_pos_iff.mpr ⟨s', hs', by simp [SSess.hasUid, SSess.isHot, hu, hhot]⟩
      have h2 : 0 < l.sess.countP (fun x => x.hasUid u && !x.isHot) :=
        List.countP_pos_iff.mpr ⟨s, hsm, by simp [SSess.hasUid, SSess.isHot, hsu, hsn]⟩
      have h3 := countP_split_pred (SSess.hasUid u) SSess.isHot l.sess
      have h4 := h.uniq u
      omega

theorem ack_noHot_mono {l : Listener} (u' u e : Nat) (h : NoHot u' l) : NoHot u' (l.ack u e) := by
  intro s' hs' hu hhot
  obtain ⟨s, hs, hsu, hmono⟩ := (ack_fields l u e).2.2.2.2.2 s' hs'
  exact h s hs (hsu.trans hu) (hmono hhot)

theorem fold_acks_noHot (e : Nat) : ∀ (us : List Nat) (l : Listener), LInv l → l.state = .hot → l.epoch = e →
    LInv (us.foldl (fun l u => l.ack u e) l) ∧ (us.foldl (fun l u => l.ack u e) l).state = .hot ∧
    (us.foldl (fun l u => l.ack u e) l).lostHot = l.lostHot ∧ (us.foldl (fun l u => l.ack u e) l).okCount = l.okCount ∧
    (∀ u ∈ us, NoHot u (us.foldl (fun l u => l.ack u e) l)) ∧
    (∀ s' ∈ (us.foldl (fun l u => l.ack u e) l).sess, ∃ s ∈ l.sess, s.uid = s'.uid) := by
  intro us
  induction us with
  | nil => intro l h hs he; exact ⟨h, hs, rfl, rfl, by simp, fun s' hs' => ⟨s', hs', rfl⟩⟩
  | cons u rest ih =>
    intro l h hs he
    simp only [List.foldl_cons]
    have hf := ack_fields l u e
    have h1 : LInv (l.ack u e) := linv_ack h u e
    have hs1 : (l.ack u e).state = .hot := hf.1.trans hs
    have he1 : (l.ack u e).epoch = e := hf.2.1.trans he
    obtain ⟨i1, i2, i3, i4, i5, i6⟩ := ih (l.ack u e) h1 hs1 he1
    refine ⟨i1, i2, i3.trans hf.2.2.1, i4.trans hf.2.2.2.2.1, ?_, ?_⟩
    · intro u' hu'
      rcases List.mem_cons.mp hu' with h2 | h2
      · subst h2
        -- acked first, stays not-hot through the remaining acks
        have base := ack_noHot_self h u' e hs he.symm
        have : ∀ (us : List Nat) (l : Listener), NoHot u' l → NoHot u' (us.foldl (fun l u => l.ack u e) l) := by
          intro us
          induction us with
          | nil => intro l h; exact h
          | cons v vs ihv => intro l h; exact ihv _ (ack_noHot_mono u' v e h)
        exact this rest _ base
      · exact i5 u' h2
    · intro s' hs'
      obtain ⟨s1, hs1', hu1⟩ := i6 s' hs'
      obtain ⟨s, hs0, hu0, _⟩ := hf.2.2.2.2.2 s1 hs1'
      exact ⟨s, hs0, hu0.trans hu1⟩

theorem addN (n : Nat) :
    LInv ((List.replicate n (LOp.add true)).foldl Listener.step {}) ∧
    ((List.replicate n (LOp.add true)).foldl Listener.step {}).state = .default ∧
    ((List.replicate n (LOp.add true)).foldl Listener.step {}).lostHot = 0 ∧
    ((List.replicate n (LOp.add true)).foldl Listener.step {}).okCount = 0 ∧
    ((List.replicate n (LOp.add true)).foldl Listener.step {}).sess.any (fun s => !s.hsDone) = false ∧
    (∀ s ∈ ((List.replicate n (LOp.add true)).foldl Listener.step {}).sess, s.uid < n) ∧
    ((List.replicate n (LOp.add true)).foldl Listener.step {}).nextUid = n := by
  induction n with
  | zero => exact ⟨linv_init, rfl, rfl, rfl, rfl, by simp, rfl⟩
  | succ n ih =>
    rw [List.replicate_succ', List.foldl_append]
    obtain ⟨i1, i2, i3, i4, i5, i6, i7⟩ := ih
    generalize (List.replicate n (LOp.add true)).foldl Listener.step {} = l at *
    simp only [List.foldl_cons, List.foldl_nil, Listener.step, Listener.add]
    refine ⟨linv_add i1 true, i2, i3, i4, ?_, ?_, by simp [i7]⟩
    · simp [List.any_append, i5]
    · intro s hs
      rcases List.mem_append.mp hs with h | h
      · have := i6 s h; omega
      · simp at h; subst h; simp [i7]

theorem hotRestart_ok_fields (l : Listener) (e : Nat) (h1 : l.state ≠ .hot) (h2 : l.sess.any (fun s => !s.hsDone) = false) :
    (l.hotRestart e).1.lostHot = l.lostHot ∧ (l.hotRestart e).1.okCount = l.okCount ∧
    (l.hotRestart e).1.sess = l.sess.map (fun s => if s.state = .default then { s with state := SS.hot } else s) := by
  simp [Listener.hotRestart, h1, h2]

/-- Server side of a complete hand-over: `n` established sessions, HotRestart(e), then the acknowledgement (epoch `e`) of
    every session exactly once, in ANY order, then the checker's tick: the listener has notified every session once and
    reaches hotRestartDone. -/
theorem c16_server_handover (n e : Nat) (uids : List Nat) (hnd : uids.Nodup) (hlt : ∀ u ∈ uids, u < n) (hlen : uids.length = n) :
    let l0 := (List.replicate n (LOp.add true)).foldl Listener.step {}
    let l1 := (l0.hotRestart e).1
    let l3 := (uids.foldl (fun l u => l.ack u e) l1).tick
    (l0.hotRestart e).2 = .ok ∧ l1.sent.length = n ∧ l3.state = .hotDone ∧ l3.okCount = 1 ∧ l3.checker = false := by
  intro l0 l1 l3
  obtain ⟨a1, a2, a3, a4, a5, a6, a7⟩ := addN n
  have hnot : l0.state ≠ .hot := by rw [show l0.state = .default from a2]; simp
  have hn := c16_hotRestart_notifies l0 e hnot a5
  have hl1 : LInv l1 := linv_hotRestart a1 e
  have hof := hotRestart_ok_fields l0 e hnot a5
  have hl1lost : l1.lostHot = 0 := hof.1.trans a3
  have hl1ok : l1.okCount = 0 := hof.2.1.trans a4
  have hl1uids : ∀ s ∈ l1.sess, s.uid < n := by
    intro s hs
    have hs' : s ∈ l0.sess.map (fun s => if s.state = .default then { s with state := SS.hot } else s) := by
      rw [← hof.2.2]; exact hs
    obtain ⟨x, hx, rfl⟩ := List.mem_map.mp hs'
    have := a6 x hx
    split <;> exact this
  obtain ⟨f1, f2, f3, f4, f5, f6⟩ := fold_acks_noHot e uids l1 hl1 hn.2.1 hn.2.2.1
  have hsent : l1.sent.length = n := by
    rw [hn.2.2.2.2]
    have hs0 : l0.sent = [] := by
      have : ∀ k, ((List.replicate k (LOp.add true)).foldl Listener.step {}).sent = [] := by
        intro k
        induction k with
        | zero => rfl
        | succ k ih => rw [List.replicate_succ', List.foldl_append]; simpa [Listener.step, Listener.add] using ih
      exact this n
    have hdef : ∀ k, ∀ s ∈ ((List.replicate k (LOp.add true)).foldl Listener.step {}).sess, s.state = .default := by
      intro k
      induction k with
      | zero => intro s hs; simp at hs
      | succ k ih =>
        rw [List.replicate_succ', List.foldl_append]
        intro s hs
        simp only [List.foldl_cons, List.foldl_nil, Listener.step, Listener.add] at hs
        rcases List.mem_append.mp hs with h | h
        · exact ih s h
        · simp at h; subst h; rfl
    have hlen0 : ∀ k, ((List.replicate k (LOp.add true)).foldl Listener.step {}).sess.length = k := by
      intro k
      induction k with
      | zero => rfl
      | succ k ih => rw [List.replicate_succ', List.foldl_append]; simp [Listener.step, Listener.add, ih]
    rw [hs0]
    simp only [List.nil_append, List.length_map]
    rw [List.filter_eq_self.mpr (by intro s hs; simpa using hdef n s hs)]
    exact hlen0 n
  -- after every ack no session is hot
  have hhot0 : (uids.foldl (fun l u => l.ack u e) l1).hotCount = 0 := by
    unfold Listener.hotCount
    apply List.countP_eq_zero.mpr
    intro s hs
    obtain ⟨s1, hs1, hu⟩ := f6 s hs
    have hlt' : s.uid < n := by rw [← hu]; exact hl1uids s1 hs1
    have hmem : s.uid ∈ uids := Pigeon.complete n uids hnd hlt hlen s.uid hlt'
    have := f5 s.uid hmem s hs rfl
    simpa [SSess.isHot] using this
  have hcnt := f1.cnt
  rw [hhot0, f3, hl1lost] at hcnt
  have hchk := f1.chk.mpr f2
  refine ⟨hn.1, hsent, ?_, ?_, ?_⟩
  · show (Listener.tick _).state = .hotDone
    simp [Listener.tick, hchk, f2, hcnt]
  · show (Listener.tick _).okCount = 1
    simp [Listener.tick, hchk, f2, hcnt, f4, hl1ok]
  · show (Listener.tick _).checker = false
    simp [Listener.tick, hchk, f2, hcnt]

end Props.C16
