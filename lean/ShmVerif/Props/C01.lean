import ShmVerif.Model.FreeListC
namespace Props.C01
theorem placeholder : True := trivial
end Props.C01
