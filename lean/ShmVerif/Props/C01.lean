import ShmVerif.Proof.FreeListConc
/-!
  C01 — a shared-memory buffer never has two owners at once.

  Model: `FreeListC` (one step = one shared-memory access of bufferList.pop / push / the bufferHeader accessors).
  * `c01_geometry`        : EVERY interleaving, any number of threads/slots/operations — every buffer handed out is one
                            of the `n` slots of the class (inside the region, at a slot boundary).
  * `c01_exclusive_seq`   : every sequential-atomic history (operations do not overlap; unbounded length, threads, slots) —
                            every slot is in the free chain or owned by exactly one thread, never both, never twice.
  * `c01_aba_witness`     : the unrestricted statement is FALSE of the model (and of the code: the same schedule is replayed
                            on the real pop/push on every run, known finding F1): a concrete 2-thread schedule after which
                            `head` designates a slot that another thread still holds.
  * `c01_exclusive_noaba` : EVERY interleaving (any number of threads / slots / operations, one step = one shared-memory
                            access) in which no head CAS succeeds on a stale snapshot: at every step the slots of the free
                            queue and the slots owned by the threads (held, or in transit between the CAS and the
                            bookkeeping) are exactly the `n` slots, each exactly once. Together with the witness: the ONLY
                            way two owners can arise is the stale-head CAS of finding F1.
-/
namespace Props.C01
open FreeListC

/-- Geometry, all interleavings: every slot ever returned by `pop` (and every slot held) is `< n`. -/
theorem c01_geometry (n : Nat) (hn : 0 < n) (progs : List (List Op)) (sched : List Nat) :
    let s := run (prime (init n progs)) sched
    ∀ th ∈ s.ths, (∀ i, Res.got i ∈ th.res → i < n) ∧ (∀ h ∈ th.held, h < n) := by
  intro s th hth
  have g : Geom s := run_geom _ sched (prime_geom _ (geom_init n hn progs))
  have hlen : s.slots.length = n := by
    -- slots.length is preserved by every step
    have hstep : ∀ (s0 : State) (g0 : Geom s0) (t : Nat), (step s0 t).1.slots.length = s0.slots.length := by
      intro s0 g0 t
      unfold step
      cases ht : s0.ths[t]? with
      | none => rfl
      | some th0 =>
        have := (stepTh_geom s0 th0 g0 (g0.ths th0 (List.mem_of_getElem? ht))).1
        simpa using this
    have hrun : ∀ (sched : List Nat) (s0 : State), Geom s0 → (run s0 sched).slots.length = s0.slots.length := by
      intro sched
      induction sched with
      | nil => intro s0 _; rfl
      | cons t r ih =>
        intro s0 g0
        have := ih (step s0 t).1 (step_geom s0 t g0)
        simp only [run, List.foldl_cons] at this ⊢
        rw [this, hstep s0 g0 t]
    have := hrun sched (prime (init n progs)) (prime_geom _ (geom_init n hn progs))
    have e : (prime (init n progs)).slots.length = n := by simp [prime, init, initSlots_length]
    exact this.trans e
  have hok := g.ths th hth
  rw [hlen] at hok
  exact ⟨fun i hi => hok.res _ hi, hok.held⟩

/-- Exclusive ownership for every sequential-atomic history: the free chain and the slots owned by the threads
    partition `{0..n-1}` (no slot twice, none lost), after any number of non-overlapping pops and pushes. -/
theorem c01_exclusive_seq (n : Nat) (hn : 0 < n) (progs : List (List Op)) (ts : List Nat) :
    let s := seqRun (prime (init n progs)) ts
    ∃ free, Chain s.slots free ∧ free.head? = some s.head ∧
      (free ++ s.ths.flatMap owned).Nodup ∧ (free ++ s.ths.flatMap owned).length = n ∧
      (∀ i ∈ free ++ s.ths.flatMap owned, i < n) := by
  intro s
  obtain ⟨free, h⟩ := seqRun_rep _ ts _ (rep_init n hn progs)
  have hlen : s.slots.length = n := by
    -- total count + Nodup + bound force slots.length = n through `Rep` of the initial and final states
    have := h.total
    have h0 := (rep_init n hn progs)
    -- slots.length never changes: every opRun equation above only `modify`s slots
    have hpres : ∀ (ts : List Nat) (s0 : State) (f0 : List Nat), Rep s0 f0 → (seqRun s0 ts).slots.length = s0.slots.length := by
      intro ts
      induction ts with
      | nil => intro s0 f0 _; rfl
      | cons t r ih =>
        intro s0 f0 r0
        obtain ⟨f1, r1⟩ := opRun_rep s0 t f0 r0
        have e1 := ih (opRun 16 s0 t) f1 r1
        simp only [seqRun, List.foldl_cons] at e1 ⊢
        rw [e1]
        -- one atomic op preserves the number of slots
        cases hth : s0.ths[t]? with
        | none => rw [opRun_none s0 t hth]
        | some th =>
          rcases r0.boundary th (List.mem_of_getElem? hth) with hpc | hpc | hpc
          · rw [opRun_idle s0 t th hth hpc]
          · by_cases hsz : s0.size ≤ 1
            · rw [opRun_pop_fail s0 t th hth hpc hsz]
            · cases hf : f0 with
              | nil => have := r0.chain; simp [hf, Chain] at this
              | cons a rest =>
                cases hr : rest with
                | nil => have := r0.size; simp [hf, hr] at this; omega
                | cons b r' =>
                  have hc := r0.chain; rw [hf, hr] at hc
                  have ha : s0.head = a := by have := r0.head; simpa [hf] using this.symm
                  rw [opRun_pop_ok s0 t th a b hth hpc ha (by omega) hc.1 hc.2.1]; simp
          · rw [opRun_push s0 t th hth hpc]; simp
    have := hpres ts _ _ h0
    have e : (prime (init n progs)).slots.length = n := by simp [prime, init, initSlots_length]
    exact this.trans e
  refine ⟨free, h.chain, h.head, h.nodup, by rw [h.total, hlen], ?_⟩
  intro i hi
  rw [← hlen]; exact h.bound i hi

/-- Exclusive ownership for EVERY interleaving without a stale-head CAS (ghost flag `aba`, set by the model exactly when a
    head CAS succeeds although another head CAS succeeded since the popper loaded `head`): the free queue `Q`
    (from `head` to `tail`) and the slots the threads own partition `{0 … n-1}`. -/
theorem c01_exclusive_noaba (n : Nat) (hn : 0 < n) (progs : List (List Op)) (sched : List Nat) :
    let s := run (prime (init n progs)) sched
    s.aba = false →
    ∃ Q, Q.head? = some s.head ∧ Q.getLast? = some s.tail ∧
      (Q ++ s.ths.flatMap ownedC).Nodup ∧ (Q ++ s.ths.flatMap ownedC).length = n ∧
      (∀ i ∈ Q ++ s.ths.flatMap ownedC, i < n) := by
  intro s ha
  obtain ⟨Q, I⟩ := run_cinv n sched _ _ (cinv_init n hn progs) ha
  have P := I.partition
  refine ⟨Q, I.head, I.last, P.nodup_iff.mpr List.nodup_range, by rw [P.length_eq, List.length_range], ?_⟩
  intro i hi
  exact List.mem_range.mp (P.mem_iff.mp hi)

/-- in such an interleaving nobody is ever handed (or holds) a slot that is still in the free queue, and no two
    threads hold the same slot -/
theorem c01_no_two_owners_noaba (n : Nat) (hn : 0 < n) (progs : List (List Op)) (sched : List Nat) :
    let s := run (prime (init n progs)) sched
    s.aba = false →
    ∀ (t t' : Nat) (th th' : Th), t ≠ t' → s.ths[t]? = some th → s.ths[t']? = some th' →
      ∀ x ∈ ownedC th, x ∉ ownedC th' := by
  intro s ha t t' th th' hne h h' x hx
  obtain ⟨Q, I⟩ := run_cinv n sched _ _ (cinv_init n hn progs) ha
  exact I.owned_disjoint hne h h' hx

-- non-vacuity: a genuinely interleaved run (two threads alternate access by access) that stays ABA-free
set_option maxRecDepth 100000 in
example :
    let s := run (prime (init 4 [[.pop, .push 0, .pop], [.pop, .pop, .push 1]])) ((List.replicate 40 [0, 1]).flatten)
    s.aba = false ∧ (s.ths.map (·.held)) = [[3], [1]] ∧ s.head = 0 ∧ s.tail = 2 ∧ s.size = 2 := by
  decide

/-- The ABA schedule (finding F1). Thread 0 stalls in `pop` between reading `head.next` and the head CAS; thread 1
    performs pop, pop, push, pop, push, pop; thread 0's CAS then succeeds with a stale `next`:
    `head` = slot 1, which thread 1 still holds — the full statement of C01 is false of the model. -/
def abaProgs : List (List Op) := [[.pop], [.pop, .pop, .push 0, .pop, .push 1, .pop]]
def abaSched : List Nat := [0, 0, 0, 0] ++ List.replicate 46 1 ++ [0]

set_option maxRecDepth 100000 in
theorem c01_aba_witness :
    let s := run (prime (init 4 abaProgs)) abaSched
    s.aba = true ∧ s.head = 1 ∧ (s.ths.getD 1 default).held = [1, 3] ∧ (s.ths.getD 1 default).pc = .idle := by
  decide

-- non-vacuity of the sequential theorem: a concrete history in which slots are handed out and recycled
set_option maxRecDepth 100000 in
example :
    let s := seqRun (prime (init 3 [[.pop, .pop, .push 0], [.pop, .pop]])) [0, 1, 0, 1, 0]
    (s.ths.map (·.res)) = [[.got 0, .nomore, .pushed 0], [.got 1, .nomore]] ∧ s.size = 2 := by
  decide

end Props.C01
