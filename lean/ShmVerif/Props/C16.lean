import ShmVerif.Proof.RestartL
import ShmVerif.Proof.RestartM
import ShmVerif.Proof.Pigeon
/-!
  C16 — hot restart moves every session to the new server without a stuck state.

  Server: `LReachable l` — the listener after ANY sequence of accepted connections (handshake finished or not), sessions
  closing, HotRestart calls with any epoch, acks on any session with any epoch, ticker and time-out firings.
  Client: `MReachable m` — the session manager of ANY number of sessions after ANY sequence of hot-restart events (any
  session index, any epoch, new server reachable or not), ticker / time-out firings, sessions dying, watcher steps, Close.
  Timers and connection attempts are inputs (steps), so "within a bounded time" reads: the state is left by the time-out
  step of a checker goroutine that is provably alive whenever the state is hot-restart.
-/
namespace Props.C16
open Restart

def LReachable (l : Listener) : Prop := ∃ ops, l = Listener.run {} ops
def MReachable (m : Manager) : Prop := ∃ n ops, m = (Manager.init n).run ops

theorem lreachable_inv {l : Listener} (h : LReachable l) : LInv l := by
  obtain ⟨ops, rfl⟩ := h; exact linv_run ops _ linv_init

theorem mreachable_inv {m : Manager} (h : MReachable m) : MInv m := by
  obtain ⟨n, ops, rfl⟩ := h; exact minv_run ops _ (minv_init n)

/-! ### server -/

/-- No stuck state: whenever the listener is in hot-restart state its checker goroutine is alive, and that goroutine's
    time-out (or its tick with every ack in) ends the state. (On the original code HotRestart could return
    ErrInHandshakeStage with the state set and no checker: repaired.) -/
theorem c16_listener_not_stuck {l : Listener} (hr : LReachable l) (hh : l.state = .hot) :
    l.checker = true ∧ l.timeout.state = .default ∧ (l.ackCount = 0 → l.tick.state = .hotDone) := by
  have h := lreachable_inv hr
  have hc := h.chk.mpr hh
  refine ⟨hc, ?_, ?_⟩
  · simp [Listener.timeout, hc]
  · intro h0; simp [Listener.tick, hc, hh, h0]

/-- outside a hand-over nothing is pending: no session waits for an ack and the counter is zero -/
theorem c16_listener_idle_clean {l : Listener} (hr : LReachable l) (hh : l.state ≠ .hot) :
    l.checker = false ∧ l.ackCount = 0 ∧ l.hotCount = 0 := by
  have h := lreachable_inv hr
  have h1 := h.idle hh
  refine ⟨?_, ?_, h1.1⟩
  · cases hc : l.checker with
    | false => rfl
    | true => exact absurd (h.chk.mp hc) hh
  · rw [h.cnt, h1.1, h1.2]; rfl

/-- the counter is exactly the number of notified sessions still to ack plus those that closed meanwhile: the tick
    completes the hand-over exactly when every notified session has acknowledged and none was lost -/
theorem c16_ack_count_exact {l : Listener} (hr : LReachable l) :
    l.ackCount = ((l.hotCount + l.lostHot : Nat) : Int) ∧
    (l.state = .hot → (l.tick.state = .hotDone ↔ l.hotCount = 0 ∧ l.lostHot = 0)) := by
  have h := lreachable_inv hr
  refine ⟨h.cnt, ?_⟩
  intro hh
  have hc := h.chk.mpr hh
  have hcnt := h.cnt
  constructor
  · intro ht
    by_cases h0 : l.ackCount = 0
    · omega
    · simp [Listener.tick, hc, hh, h0] at ht
  · intro h0
    have : l.ackCount = 0 := by omega
    simp [Listener.tick, hc, hh, this]

/-- a stale or foreign ack changes nothing: wrong epoch, listener not in a hand-over, or a session not waiting -/
theorem c16_stale_ack_ignored (l : Listener) (uid e : Nat) (hs : e ≠ l.epoch ∨ l.state ≠ .hot) : l.ack uid e = l := by
  unfold Listener.ack
  split
  · rfl
  · split
    · rename_i hc; rcases hs with h | h
      · exact absurd hc.1 h
      · exact absurd hc.2.1 h
    · rfl

theorem c16_ack_of_unknown_or_done_session_ignored (l : Listener) (uid e : Nat)
    (hs : ∀ s ∈ l.sess, s.uid = uid → s.state ≠ .hot) : l.ack uid e = l := by
  unfold Listener.ack
  split
  · rfl
  · rename_i s hf
    split
    · rename_i hc
      have hp := List.find?_some hf
      simp at hp
      exact absurd hc.2.2 (hs s (List.mem_of_find?_eq_some hf) hp)
    · rfl

/-- HotRestart during a hand-over, or with a session still in its handshake, changes nothing at all -/
theorem c16_hotRestart_refused_is_noop (l : Listener) (e : Nat) :
    (l.state = .hot → l.hotRestart e = (l, .inProgress)) ∧
    (l.state ≠ .hot → l.sess.any (fun s => !s.hsDone) = true → l.hotRestart e = (l, .inHandshake)) := by
  constructor
  · intro h; simp [Listener.hotRestart, h]
  · intro h1 h2; simp only [Listener.hotRestart, h1, if_false, h2, if_true]

/-- a started hand-over notifies exactly the sessions in default state, once each, with the announced epoch -/
theorem c16_hotRestart_notifies (l : Listener) (e : Nat) (h1 : l.state ≠ .hot) (h2 : l.sess.any (fun s => !s.hsDone) = false) :
    (l.hotRestart e).2 = .ok ∧ (l.hotRestart e).1.state = .hot ∧ (l.hotRestart e).1.epoch = e ∧ (l.hotRestart e).1.checker = true ∧
    (l.hotRestart e).1.sent = l.sent ++ (l.sess.filter (fun s => s.state = .default)).map (fun s => (s.uid, e)) := by
  simp [Listener.hotRestart, h1, h2]

/-! ### client -/

/-- No stuck state on the client: in hot-restart state the checker goroutine is alive and its time-out ends the state -/
theorem c16_manager_not_stuck {m : Manager} (hr : MReachable m) (hh : m.state = .hot) :
    m.checker = true ∧ m.timeout.state = .default ∧ m.timeout.reserve = [] := by
  have h := mreachable_inv hr
  have hc := h.chk.mpr hh
  refine ⟨hc, ?_, ?_⟩ <;> simp [Manager.timeout, hc]

/-- an event of another epoch during a hand-over changes nothing -/
theorem c16_foreign_epoch_ignored (m : Manager) (id e : Nat) (conn : Bool) (hh : m.state = .hot) (he : m.epoch ≠ e) :
    m.hotRestart id e conn = m := by
  unfold Manager.hotRestart
  split
  · rfl
  · simp [hh, he]

/-- at every moment every session index has a pool object that exists: GetStream always finds a pool with a session -/
theorem c16_pools_always_valid {m : Manager} (hr : MReachable m) :
    m.watchers.length = m.pools.length ∧ ∀ id, id < m.pools.length → m.pools.getD id 0 < m.objs.length := by
  have h := mreachable_inv hr
  exact ⟨h.wlen, fun id hid => h.pv _ (getD_mem _ _ _ hid)⟩

/-- completion: when every session index has been swapped, the tick ends the hand-over, acknowledges on every parked
    (old) session with the announced epoch, and EVERY pool holds a session of the announced epoch -/
theorem c16_manager_completion {m : Manager} (hr : MReachable m) (hh : m.state = .hot)
    (hall : m.reserve.length = m.pools.length) :
    m.tick.state = .default ∧ m.tick.checker = false ∧
    m.tick.acks = m.acks ++ m.reserve.map (fun r => ((m.obj r.2).sess, m.epoch)) ∧
    ∀ id, id < m.pools.length → (m.obj (m.pools.getD id 0)).epoch = m.epoch := by
  have h := mreachable_inv hr
  have hc := h.chk.mpr hh
  refine ⟨by simp [Manager.tick, hc, hall], by simp [Manager.tick, hc, hall], by simp [Manager.tick, hc, hall], ?_⟩
  intro id hid
  have hmem := Pigeon.complete m.pools.length (m.reserve.map (·.1)) h.rnd
    (by intro x hx; obtain ⟨r, hr', rfl⟩ := List.mem_map.mp hx; exact (h.rv r hr').1) (by simpa using hall) id hid
  obtain ⟨r, hr', hri⟩ := List.mem_map.mp hmem
  have := h.ep hh r hr'
  rw [hri] at this; exact this

/-- a hand-over that does not swap every index cannot complete by tick (it ends by time-out) -/
theorem c16_manager_partial_waits (m : Manager) (hne : m.reserve.length ≠ m.pools.length) : m.tick = m := by
  unfold Manager.tick
  split
  · rfl
  · rfl

/-! ### non-vacuity -/

-- two sessions, a full hand-over on the server: notify both, both ack, tick completes
example :
    let l := Listener.run {} [.add true, .add true, .hotRestart 7, .ack 0 7, .ack 1 9, .ack 1 7, .tick]
    l.state = .hotDone ∧ l.ackCount = 0 ∧ l.okCount = 1 ∧ l.sent = [(0, 7), (1, 7)] ∧ l.checker = false := by decide

-- the repaired defects: in-handshake refusal leaves the listener idle; a late ack after a time-out changes nothing
example :
    let l := Listener.run {} [.add true, .add false, .hotRestart 1]
    l.state = .default ∧ l.sent = [] ∧ l.checker = false := by decide
example :
    let l := Listener.run {} [.add true, .add true, .hotRestart 1, .ack 0 1, .timeout, .ack 1 1, .hotRestart 2, .ack 0 2, .ack 1 2, .tick]
    l.state = .hotDone ∧ l.ackCount = 0 ∧ l.okCount = 1 ∧ l.failCount = 1 := by decide

-- client: two pools, both swapped, tick completes with two acks on the old sessions
example :
    let m := (Manager.init 2).run [.hotRestart 0 3 true, .hotRestart 1 3 true, .hotRestart 0 4 true, .tick]
    m.state = .default ∧ m.pools = [2, 3] ∧ m.reserve = [(0, 0), (1, 1)] ∧ m.acks = [(0, 3), (1, 3)] ∧
    (m.obj 2).epoch = 3 ∧ (m.obj 3).epoch = 3 := by decide

/-! ### configurations: a prefix accepted once is accepted for every epoch -/

theorem toDigits_length_le (k : Nat) : ∀ n, n < 10 ^ (k + 1) → (Nat.toDigits 10 n).length ≤ k + 1 := by
  induction k with
  | zero =>
    intro n hn
    have : n < 10 := by simpa using hn
    rw [Nat.toDigits_of_lt_base this]; simp
  | succ k ih =>
    intro n hn
    by_cases h10 : n < 10
    · rw [Nat.toDigits_of_lt_base h10]; simp
    · have hq : n / 10 < 10 ^ (k + 1) := by
        rw [Nat.div_lt_iff_lt_mul (by decide)]
        rw [Nat.pow_succ] at hn; exact hn
      have := ih (n / 10) hq
      rw [Nat.toDigits_of_base_le (by decide) (by omega)]  -- toDigits b n = toDigits b (n / b) ++ [digit]
      simp only [List.length_append, List.length_cons, List.length_nil]
      omega

/-- The name budget: if the prefix passes newClientSession's check once, then for EVERY epoch and random id (64-bit) and
    every session id (below 10^20, as any Go int is) the derived queue path - the longest name - fits the file-name limit;
    so a hand-over cannot fail on names for a configuration that was accepted when the manager was created. -/
theorem c16_names_fit (prefixLen epoch rand id : Nat) (ha : Restart.prefixAccepted prefixLen = true)
    (he : epoch < 2 ^ 64) (hr : rand < 2 ^ 64) (hi : id < 10 ^ 20) :
    Restart.queuePathLen prefixLen epoch rand id ≤ Restart.fileNameMaxLen := by
  have d20 : ∀ n, n < 10 ^ 20 → Restart.digits n ≤ 20 := fun n hn => toDigits_length_le 19 n hn
  have h64 : (2 : Nat) ^ 64 < 10 ^ 20 := by decide
  have d1 := d20 epoch (by omega)
  have d2 := d20 rand (by omega)
  have d3 := d20 id hi
  have ha' : prefixLen + 48 + 27 ≤ 255 := by
    unfold Restart.prefixAccepted at ha
    exact of_decide_eq_true ha
  unfold Restart.queuePathLen Restart.fileNameMaxLen
  split <;> omega

/-- the same for a memfd mapping (repaired code): the name handed to memfd_create, "shmipc" included, fits its 249 bytes -/
theorem c16_names_fit_memfd (prefixLen epoch rand id : Nat) (ha : Restart.prefixAcceptedMemfd prefixLen = true)
    (he : epoch < 2 ^ 64) (hr : rand < 2 ^ 64) (hi : id < 10 ^ 20) :
    Restart.memfdCreateNameLen + Restart.queuePathLen prefixLen epoch rand id ≤ Restart.memfdNameMaxLen := by
  have d20 : ∀ n, n < 10 ^ 20 → Restart.digits n ≤ 20 := fun n hn => toDigits_length_le 19 n hn
  have h64 : (2 : Nat) ^ 64 < 10 ^ 20 := by decide
  have d1 := d20 epoch (by omega)
  have d2 := d20 rand (by omega)
  have d3 := d20 id hi
  have ha' : 6 + prefixLen + 48 + 27 ≤ 249 := by
    unfold Restart.prefixAcceptedMemfd at ha
    exact of_decide_eq_true ha
  unfold Restart.queuePathLen Restart.memfdNameMaxLen Restart.memfdCreateNameLen
  split <;> omega

/-- and the reserve is not wasteful by more than the digits not used: a prefix that is rejected would indeed overflow for
    some epoch (the largest ids) -/
example : Restart.prefixAccepted 180 = true ∧ Restart.prefixAccepted 181 = false ∧
    Restart.queuePathLen 181 (2 ^ 64 - 1) (2 ^ 64 - 1) (10 ^ 19) = 256 := by decide

end Props.C16
