import ShmVerif.Proof.Mux
import ShmVerif.Proof.MuxCons
import ShmVerif.Props.C08
/-!
  C09 — all shared memory comes back once streams are finished.

  PARTIAL proof.  At message level (`Mux`, tied to the real sessions by the shared two-session harness) every exit path that
  ends a message's life releases it: a Flush that fails on a closed stream or on a full queue releases the message at once;
  a local Close releases everything buffered on the stream; data arriving for a client stream that no longer exists, or for
  a stream that is already closed, is released on arrival.  At buffer level (`LinkedBuffer`): ReleasePreviousRead empties the
  parked list (C08), `recycle` (used by Close) returns parked and listed slices alike (repaired code).
  Global conservation at message level (`c09_conservation`): for every operation sequence, every message ever flushed is,
  at all times, in exactly one of: a send queue, a control connection, one stream's buffer, or released — never lost,
  never duplicated; hence at quiescence everything is released (`c09_quiescent_all_released`).
  NOT yet proved: the slot-level refinement (that "released" means every slot of the message's chain went back to its
  free list exactly once — C02 at allocator level, the leak monitor of the harness on the real code: every stream
  closed on both ends, nothing in flight ⇒ every size class offers its full capacity, AllInUsedShareMemoryInBytes = 0).
-/
namespace Props.C09
open Mux List

/-- Flush on a stream that is not open releases the message immediately. -/
theorem c09_flush_closed_releases (s : Sys) (x : Side) (i : Nat) (heap : Bool) (st : MStream)
    (h : (s.me x).find i = some st) (hst : st.state ≠ .opened) :
    (flush s x i heap).1.retired = s.retired ++ [s.fresh] ∧ (flush s x i heap).1.ch = s.ch := by
  unfold flush; rw [h]
  simp only [hst, ne_eq, not_false_eq_true, if_true]
  exact ⟨trivial, trivial⟩

/-- Flush that finds the queue full (write deadline passed) releases the message immediately. -/
theorem c09_queue_full_releases (s : Sys) (x : Side) (i : Nat) (st : MStream)
    (h : (s.me x).find i = some st) (ho : st.state = .opened) (hfb : st.inFb = false)
    (hfull : (s.ch x).q.length ≥ s.qcap) :
    (flush s x i false).2 = .timeout ∧ (flush s x i false).1.retired = s.retired ++ [s.fresh] ∧ (flush s x i false).1.ch = s.ch := by
  unfold flush; rw [h]
  simp only [ho, ne_eq, not_true_eq_false, if_false, hfb, Bool.false_eq_true, or_self, hfull, if_true]
  exact ⟨trivial, trivial, trivial⟩

/-- A local Close releases everything that was buffered on the stream (pending and unread). -/
theorem c09_close_releases_buffered (s : Sys) (x : Side) (i : Nat) (st : MStream)
    (h : (s.me x).find i = some st) (hne : st.state ≠ .closed) :
    (closeStream s x i).1.retired = s.retired ++ st.buffered := by
  unfold closeStream; rw [h]
  simp only [hne, if_false]
  split
  · split <;> simp [Sys.setCh, Sys.setMe]
  · simp [Sys.setMe]

/-- Data arriving at a client for a stream that no longer exists is released on arrival, not offered. -/
theorem c09_unknown_stream_releases (s : Sys) (y : Side) (i m : Nat) (hcl : (s.me y).isClient = true)
    (hreg : (s.me y).registered i = false) :
    (offer s y i m).retired = s.retired ++ [m] ∧ (offer s y i m).got = s.got := by
  unfold offer getStream
  simp only [hreg, Bool.false_eq_true, if_false, hcl, Bool.not_true, false_and]
  exact ⟨rfl, rfl⟩

/-- buffer level: ReleasePreviousRead and (repaired) recycle leave nothing parked -/
theorem c09_release_empties_parked (m : LB.Mem) (l : LB.LBuf) : (l.release m).2.pinned = [] :=
  Props.C08.c08_release_returns m l

theorem c09_recycle_empties_buffer (m : LB.Mem) (l : LB.LBuf) : (l.recycle m).2.pinned = [] ∧ (l.recycle m).2.sl = [] := by
  unfold LB.LBuf.recycle; exact ⟨rfl, rfl⟩

/-! ### global conservation (message level) -/

def Reachable (s : Sys) : Prop := ∃ ops, s = run {} ops

/-- every message ever flushed (tokens `0 … fresh-1`) is in exactly one place, every other token nowhere -/
theorem c09_conservation {s : Sys} (hr : Reachable s) (t : Nat) : occ s t = if t < s.fresh then 1 else 0 := by
  obtain ⟨ops, rfl⟩ := hr
  exact (cinv_run ops _ cinv_init).cons t

/-- nothing is duplicated: no message is released twice, queued twice, or both buffered and released -/
theorem c09_no_duplication {s : Sys} (hr : Reachable s) (t : Nat) :
    s.retired.count t ≤ 1 ∧ (bufAll (s.me .a)).count t + (bufAll (s.me .b)).count t + s.retired.count t ≤ 1 := by
  have := c09_conservation hr t
  unfold occ at this
  split at this <;> omega

/-- quiescence: with both queues and both connections empty and no stream buffering anything, every message ever
    flushed has been released exactly once -/
theorem c09_quiescent_all_released {s : Sys} (hr : Reachable s)
    (hq : (s.ch .a).q = [] ∧ (s.ch .b).q = []) (hk : (s.ch .a).k = [] ∧ (s.ch .b).k = [])
    (hb : bufAll (s.me .a) = [] ∧ bufAll (s.me .b) = []) (t : Nat) (ht : t < s.fresh) : s.retired.count t = 1 := by
  have := c09_conservation hr t
  simp [occ, hq.1, hq.2, hk.1, hk.2, hb.1, hb.2, qTokens, kTokens, ht] at this
  exact this

/-- stream ids are unique per end, and a stream that left the table buffers nothing (what makes `find` / `upd` exact) -/
theorem c09_ids_unique {s : Sys} (hr : Reachable s) (x : Side) : Uniq (s.me x) ∧ Clean (s.me x) := by
  obtain ⟨ops, rfl⟩ := hr
  exact ⟨(cinv_run ops _ cinv_init).uniq x, (cinv_run ops _ cinv_init).clean x⟩

-- non-vacuity: two messages flushed, one delivered and consumed, one still queued
example :
    let s := run {} [.open_ .a, .flush .a 2 false, .deliver .b, .consume .b 2, .flush .a 2 false]
    s.fresh = 2 ∧ s.retired = [0] ∧ qTokens (s.ch .a).q = [1] ∧ occ s 0 = 1 ∧ occ s 1 = 1 ∧ occ s 2 = 0 := by decide

end Props.C09
