import ShmVerif.Model.Proto
namespace Props.C09
theorem placeholder : True := trivial
end Props.C09
