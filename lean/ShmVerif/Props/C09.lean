import ShmVerif.Proof.Mux
import ShmVerif.Proof.MuxCons
import ShmVerif.Props.C08
import ShmVerif.Proof.SlotSys
/-!
  C09 — all shared memory comes back once streams are finished.

  PARTIAL proof.  At message level (`Mux`, tied to the real sessions by the shared two-session harness) every exit path that
  ends a message's life releases it: a Flush that fails on a closed stream or on a full queue releases the message at once;
  a local Close releases everything buffered on the stream; data arriving for a client stream that no longer exists, or for
  a stream that is already closed, is released on arrival.  At buffer level (`LinkedBuffer`): ReleasePreviousRead empties the
  parked list (C08), `recycle` (used by Close) returns parked and listed slices alike (repaired code).
  Global conservation at message level (`c09_conservation`): for every operation sequence, every message ever flushed is,
  at all times, in exactly one of: a send queue, a control connection, one stream's buffer, or released — never lost,
  never duplicated; hence at quiescence everything is released (`c09_quiescent_all_released`).
  Slot level (`Proof/SlotAcct`, `Proof/SlotSys`; system `LB.PSys` / `LB.pstep` of `Model/Pipe`: two streams - send buffer,
  receive buffer, pending list each - over one memory, operations WriteBytes, WriteByte, Flush (both transports), readMore,
  ReadBytes, Peek, Discard, ReadByte, ReadString, Read, ReleasePreviousRead, Close, in ANY order, ANY number of times, for
  ANY size classes): at every moment every slot of the memory is in exactly one place - a free list, a slice listed or
  parked by one of the four buffers, or the header chain of exactly one message in flight (`c09_slot_partition`); hence once
  both streams are closed, or have consumed and released everything, every slot is back in a free list
  (`c09_all_slots_back_after_close`, `c09_quiescent_all_slots_free`).  The per-buffer accounting (`c09_buffer_ops_conserve_slots`)
  needs no functional invariant at all: it holds from any state whose slices point at real slots.
  Outside these theorems: Reserve and ReleaseReadAndReuse (not in `POp`), the allocator's own concurrency (C01/C02), and
  streams of more than one pair sharing the memory (the theorem is stated for one pair; other holders appear only in the
  per-buffer form).
-/
namespace Props.C09
open Mux List

/-- Flush on a stream that is not open releases the message immediately. -/
theorem c09_flush_closed_releases (s : Sys) (x : Side) (i : Nat) (heap : Bool) (st : MStream)
    (h : (s.me x).find i = some st) (hst : st.state ≠ .opened) :
    (flush s x i heap).1.retired = s.retired ++ [s.fresh] ∧ (flush s x i heap).1.ch = s.ch := by
  unfold flush; rw [h]
  simp only [hst, ne_eq, not_false_eq_true, if_true]
  exact ⟨trivial, trivial⟩

/-- Flush that finds the queue full (write deadline passed) releases the message immediately. -/
theorem c09_queue_full_releases (s : Sys) (x : Side) (i : Nat) (st : MStream)
    (h : (s.me x).find i = some st) (ho : st.state = .opened) (hfb : st.inFb = false)
    (hfull : (s.ch x).q.length ≥ s.qcap) :
    (flush s x i false).2 = .timeout ∧ (flush s x i false).1.retired = s.retired ++ [s.fresh] ∧ (flush s x i false).1.ch = s.ch := by
  unfold flush; rw [h]
  simp only [ho, ne_eq, not_true_eq_false, if_false, hfb, Bool.false_eq_true, or_self, hfull, if_true]
  exact ⟨trivial, trivial, trivial⟩

/-- A local Close releases everything that was buffered on the stream (pending and unread). -/
theorem c09_close_releases_buffered (s : Sys) (x : Side) (i : Nat) (st : MStream)
    (h : (s.me x).find i = some st) (hne : st.state ≠ .closed) :
    (closeStream s x i).1.retired = s.retired ++ st.buffered := by
  unfold closeStream; rw [h]
  simp only [hne, if_false]
  split
  · split <;> simp [Sys.setCh, Sys.setMe]
  · simp [Sys.setMe]

/-- Data arriving at a client for a stream that no longer exists is released on arrival, not offered. -/
theorem c09_unknown_stream_releases (s : Sys) (y : Side) (i m : Nat) (hcl : (s.me y).isClient = true)
    (hreg : (s.me y).registered i = false) :
    (offer s y i m).retired = s.retired ++ [m] ∧ (offer s y i m).got = s.got := by
  unfold offer getStream
  simp only [hreg, Bool.false_eq_true, if_false, hcl, Bool.not_true, false_and]
  exact ⟨rfl, rfl⟩

/-- buffer level: ReleasePreviousRead and (repaired) recycle leave nothing parked -/
theorem c09_release_empties_parked (m : LB.Mem) (l : LB.LBuf) : (l.release m).2.pinned = [] :=
  Props.C08.c08_release_returns m l

theorem c09_recycle_empties_buffer (m : LB.Mem) (l : LB.LBuf) : (l.recycle m).2.pinned = [] ∧ (l.recycle m).2.sl = [] := by
  unfold LB.LBuf.recycle; exact ⟨rfl, rfl⟩

/-! ### global conservation (message level) -/

def Reachable (s : Sys) : Prop := ∃ ops, s = run {} ops

/-- every message ever flushed (tokens `0 … fresh-1`) is in exactly one place, every other token nowhere -/
theorem c09_conservation {s : Sys} (hr : Reachable s) (t : Nat) : occ s t = if t < s.fresh then 1 else 0 := by
  obtain ⟨ops, rfl⟩ := hr
  exact (cinv_run ops _ cinv_init).cons t

/-- nothing is duplicated: no message is released twice, queued twice, or both buffered and released -/
theorem c09_no_duplication {s : Sys} (hr : Reachable s) (t : Nat) :
    s.retired.count t ≤ 1 ∧ (bufAll (s.me .a)).count t + (bufAll (s.me .b)).count t + s.retired.count t ≤ 1 := by
  have := c09_conservation hr t
  unfold occ at this
  split at this <;> omega

/-- quiescence: with both queues and both connections empty and no stream buffering anything, every message ever
    flushed has been released exactly once -/
theorem c09_quiescent_all_released {s : Sys} (hr : Reachable s)
    (hq : (s.ch .a).q = [] ∧ (s.ch .b).q = []) (hk : (s.ch .a).k = [] ∧ (s.ch .b).k = [])
    (hb : bufAll (s.me .a) = [] ∧ bufAll (s.me .b) = []) (t : Nat) (ht : t < s.fresh) : s.retired.count t = 1 := by
  have := c09_conservation hr t
  simp [occ, hq.1, hq.2, hk.1, hk.2, hb.1, hb.2, qTokens, kTokens, ht] at this
  exact this

/-- stream ids are unique per end, and a stream that left the table buffers nothing (what makes `find` / `upd` exact) -/
theorem c09_ids_unique {s : Sys} (hr : Reachable s) (x : Side) : Uniq (s.me x) ∧ Clean (s.me x) := by
  obtain ⟨ops, rfl⟩ := hr
  exact ⟨(cinv_run ops _ cinv_init).uniq x, (cinv_run ops _ cinv_init).clean x⟩

-- non-vacuity: two messages flushed, one delivered and consumed, one still queued
example :
    let s := run {} [.open_ .a, .flush .a 2 false, .deliver .b, .consume .b 2, .flush .a 2 false]
    s.fresh = 2 ∧ s.retired = [0] ∧ qTokens (s.ch .a).q = [1] ∧ occ s 0 = 1 ∧ occ s 1 = 1 ∧ occ s 2 = 0 := by decide

/-! ### slot level -/

open LB in
/-- every place a slot can be in: the free lists, the four buffers, the two pending lists -/
def places (s : LB.PSys) : List Nat := s.m.free.flatten ++ LB.heldSt s.m s.a ++ LB.heldSt s.m s.b

open LB in
/-- **Slot conservation for a stream pair.** From the memory createBufferManager lays out (any size classes), after any
    sequence of stream operations on either end (any the implementation completes without a panic): the free lists, the
    slices of the two send and the two receive buffers (listed or parked) and the header chains of the messages in flight
    together hold every slot of the memory exactly once. -/
theorem c09_slot_partition (classes : List (Nat × Nat)) (hpos : ∀ c ∈ classes, 0 < c.1) (ops : List POp) (s : PSys)
    (h : prun { m := Mem.create classes } ops = some s) :
    s.m.slots.length = (Mem.create classes).slots.length ∧ (places s).Perm (List.range s.m.slots.length) := by
  have inv : PInv (Mem.create classes).slots.length s := prun_inv ops { m := Mem.create classes } s (PI.init classes hpos) h
  refine ⟨inv.len, ?_⟩
  rw [perm_iff_count]
  intro j
  have := inv.part j
  unfold fc at this
  simp only [places, count_append]
  rw [this]
  by_cases hj : j < s.m.slots.length
  · rw [if_pos hj, (nodup_range).count, if_pos (mem_range.mpr hj)]
  · rw [if_neg hj]; exact (count_eq_zero.mpr (fun hm => hj (mem_range.mp hm))).symm

open LB in
/-- Quiescence: when no buffer lists or parks a slice and nothing is in flight, every slot is in a free list. -/
theorem c09_quiescent_all_slots_free (classes : List (Nat × Nat)) (hpos : ∀ c ∈ classes, 0 < c.1) (ops : List POp) (s : PSys)
    (h : prun { m := Mem.create classes } ops = some s)
    (ha : heldSt s.m s.a = []) (hb : heldSt s.m s.b = []) :
    s.m.free.flatten.Perm (List.range (Mem.create classes).slots.length) := by
  obtain ⟨hl, hp⟩ := c09_slot_partition classes hpos ops s h
  simp only [places, ha, hb, append_nil] at hp
  rw [← hl]; exact hp

open LB in
/-- Closing both streams gives everything back, whatever was buffered, parked or in flight. -/
theorem c09_all_slots_back_after_close (classes : List (Nat × Nat)) (hpos : ∀ c ∈ classes, 0 < c.1) (ops : List POp) (s : PSys)
    (h : prun { m := Mem.create classes } (ops ++ [.close false, .close true]) = some s) :
    s.m.free.flatten.Perm (List.range (Mem.create classes).slots.length) := by
  apply c09_quiescent_all_slots_free classes hpos _ s h
  all_goals
    -- the last two operations leave both streams empty
    have key : ∀ (ops : List POp) (s0 : PSys), prun s0 (ops ++ [.close false, .close true]) = some s →
        heldSt s.m s.a = [] ∧ heldSt s.m s.b = [] := by
      intro ops
      induction ops with
      | nil =>
        intro s0 e
        simp only [nil_append, prun, pstep, Option.some.injEq] at e
        subst e
        exact ⟨rfl, rfl⟩
      | cons op r ih =>
        intro s0 e
        simp only [cons_append, prun] at e
        cases hs : pstep s0 op with
        | none => rw [hs] at e; cases e
        | some s1 => rw [hs] at e; exact ih s1 e
    first
      | exact (key ops _ h).1
      | exact (key ops _ h).2

open LB in
/-- One buffer, any state whose slices point at real slots: every operation keeps "free + held" (as multisets). -/
theorem c09_buffer_ops_conserve_slots (m : Mem) (l : LBuf) (hs : Shape m) (ho : BufOK m l) :
    (∀ d m' l', l.writeBytes m d = some (m', l') → (m'.free.flatten ++ heldL l').Perm (m.free.flatten ++ heldL l)) ∧
    (∀ b m' l', l.writeByte m b = some (m', l') → (m'.free.flatten ++ heldL l').Perm (m.free.flatten ++ heldL l)) ∧
    (∀ m' l', l.done m = some (m', l') → (m'.free.flatten ++ heldL l').Perm (m.free.flatten ++ heldL l)) ∧
    (∀ n m' l' d, l.readBytes m n = some (m', l', d) → (m'.free.flatten ++ heldL l').Perm (m.free.flatten ++ heldL l)) ∧
    (∀ n m' l' k, l.discard m n = some (m', l', k) → (m'.free.flatten ++ heldL l').Perm (m.free.flatten ++ heldL l)) ∧
    (∀ n m' l' d, l.readString m n = some (m', l', d) → (m'.free.flatten ++ heldL l').Perm (m.free.flatten ++ heldL l)) ∧
    (∀ n m' l' d, l.readInto m n = some (m', l', d) → (m'.free.flatten ++ heldL l').Perm (m.free.flatten ++ heldL l)) ∧
    (∀ m' l' b, l.readByte m = some (m', l', b) → (m'.free.flatten ++ heldL l').Perm (m.free.flatten ++ heldL l)) ∧
    ((l.release m).1.free.flatten ++ heldL (l.release m).2).Perm (m.free.flatten ++ heldL l) ∧
    ((l.recycle m).1.free.flatten).Perm (m.free.flatten ++ heldL l) := by
  have cv : ∀ {m' : Mem} {l' : LBuf}, Acct m l m' l' → (m'.free.flatten ++ heldL l').Perm (m.free.flatten ++ heldL l) := by
    intro m' l' a
    rw [perm_iff_count]
    intro j
    have := a.bal j
    unfold fc at this
    simp only [count_append]; exact this
  refine ⟨fun d m' l' e => cv (writeBytes_acct m l d m' l' hs ho e), fun b m' l' e => cv (writeByte_acct m l b m' l' hs ho e),
    fun m' l' e => cv (done_acct m l m' l' hs ho e), fun n m' l' d e => cv (readBytes_acct m l n m' l' d hs ho e).toAcct,
    fun n m' l' k e => cv (discard_acct m l n m' l' k hs ho e).toAcct, fun n m' l' d e => cv (readString_acct m l n m' l' d hs ho e).toAcct,
    fun n m' l' d e => cv (readInto_acct m l n m' l' d hs ho e).toAcct, fun m' l' b e => cv (readByte_acct m l m' l' b hs ho e).toAcct,
    cv (release_acct m l hs ho).1.toAcct, ?_⟩
  obtain ⟨a, hh⟩ := lrecycle_acct m l hs ho
  have := cv a.toAcct
  rw [hh, append_nil] at this
  exact this

-- non-vacuity: two size classes; a 13-byte message through shared memory (two 8-byte slices), read past the first slice;
-- a second message still in flight; a third one composed but not flushed: 8 slots - 5 free, one in a's send buffer, one in
-- b's receive buffer, one in flight - then everything back
example :
    let s0 : LB.PSys := { m := LB.Mem.create [(4, 4), (8, 4)] }
    (LB.prun s0 [.write false [1, 2, 3, 4, 5, 6, 7, 8, 9, 10, 11, 12, 13], .flush false, .more true, .readBytes true 9,
        .write false [21, 22, 23], .flush false, .writeByte false 31]).map
      (fun s => (s.m.free.map (·.length), LB.heldL s.a.send, LB.heldL s.b.recv, LB.flight s.m s.b.pending)) =
    some ([2, 3], [1], [5], [0]) := by
  decide

example :
    let s0 : LB.PSys := { m := LB.Mem.create [(4, 4), (8, 4)] }
    (LB.prun s0 [.write false [1, 2, 3, 4, 5, 6, 7, 8, 9, 10, 11, 12, 13], .flush false, .more true, .readBytes true 9,
        .write false [21, 22, 23], .flush false, .writeByte false 31, .close false, .close true]).map
      (fun s => (s.m.free.map (·.length), places s |>.length)) = some ([4, 4], 8) := by
  decide

end Props.C09
