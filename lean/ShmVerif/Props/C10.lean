import ShmVerif.Model.Proto
namespace Props.C10
theorem placeholder : True := trivial
end Props.C10
