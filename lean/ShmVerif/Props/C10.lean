import ShmVerif.Proof.Mux
/-!
  C10 — stream close is final, propagates to the peer and is reported exactly once (synchronous mode).

  PARTIAL proof on the message-level protocol model `Mux` (tied to the real sessions through the shared two-session
  harness).  Proved: a local Close makes the stream closed and unregistered whatever its state was; later flushes fail with
  the closed-stream outcome and touch no channel; the close notification is issued exactly when the stream was still open
  (repeated Close and Close after a peer close issue nothing more); delivering the notification half-closes the peer's
  stream, after which the peer cannot send; states only move forward.
  NOT covered here: callback mode (Close from inside OnData, OnLocalClose/OnRemoteClose counting) — see C20 and DESIGN §6 F6.
-/
namespace Props.C10
open Mux List

theorem filter_ne_not_contains (l : List Nat) (i : Nat) : (l.filter (· ≠ i)).contains i = false := by
  induction l with
  | nil => rfl
  | cons a r ih =>
    simp only [filter_cons]
    by_cases h : a = i
    · simp [h]
    · simp [h]; exact fun e => h e.symm

/-- After a local Close the stream is closed, holds no buffered message any more and no longer counts as active. -/
theorem c10_close_final (s : Sys) (x : Side) (i : Nat) (st : MStream) (h : (s.me x).find i = some st)
    (hne : st.state ≠ .closed) :
    ∃ st', ((closeStream s x i).1.me x).find i = some st' ∧ st'.state = .closed ∧ st'.buffered = [] ∧
      ((closeStream s x i).1.me x).registered i = false := by
  have hidf : ∀ y : MStream, ({ y with state := St.closed, buffered := [], fbPending := false } : MStream).id = y.id := fun _ => rfl
  have hfind' : ∀ (e : MEnd), e = { (s.me x).upd i (fun y => { y with state := St.closed, buffered := [], fbPending := false }) with
        table := ((s.me x).upd i (fun y => { y with state := St.closed, buffered := [], fbPending := false })).table.filter (· ≠ i) } →
      e.find i = some { st with state := .closed, buffered := [], fbPending := false } ∧ e.registered i = false := by
    intro e he
    subst he
    constructor
    · have := find_upd (s.me x) i i (fun y => { y with state := St.closed, buffered := [], fbPending := false }) hidf
      simp only [if_true, h, Option.map_some] at this
      exact this
    · exact filter_ne_not_contains _ i
  unfold closeStream
  rw [h]
  simp only [hne, if_false]
  split
  · split
    · obtain ⟨a, b⟩ := hfind' _ rfl
      exact ⟨_, by simpa [Sys.setCh, Sys.setMe, Sys.me] using a, rfl, rfl, by simpa [Sys.setCh, Sys.setMe, Sys.me] using b⟩
    · obtain ⟨a, b⟩ := hfind' _ rfl
      exact ⟨_, by simpa [Sys.setCh, Sys.setMe, Sys.me] using a, rfl, rfl, by simpa [Sys.setCh, Sys.setMe, Sys.me] using b⟩
  · obtain ⟨a, b⟩ := hfind' _ rfl
    exact ⟨_, by simpa [Sys.setMe, Sys.me] using a, rfl, rfl, by simpa [Sys.setMe, Sys.me] using b⟩

/-- Every later Flush on a stream that is not open fails with the closed-stream outcome, sends nothing, and the message
    it carried is released at once. -/
theorem c10_flush_after_close (s : Sys) (x : Side) (i : Nat) (heap : Bool) (st : MStream)
    (h : (s.me x).find i = some st) (hst : st.state ≠ .opened) :
    (flush s x i heap).2 = .closed ∧ (flush s x i heap).1.ch = s.ch ∧ (flush s x i heap).1.sent = s.sent ∧
    (flush s x i heap).1.retired = s.retired ++ [s.fresh] := by
  unfold flush
  rw [h]
  simp only [hst, ne_eq, not_false_eq_true, if_true]
  exact ⟨trivial, trivial, trivial, trivial⟩

/-- The close notification is issued exactly when the stream was still open: a repeated Close, or a Close after the peer's
    close was received, announces nothing more. -/
theorem c10_notifies_exactly_once (s : Sys) (x : Side) (i : Nat) (st : MStream) (h : (s.me x).find i = some st) :
    (closeStream s x i).1.closeSent = if st.state = .opened then s.closeSent ++ [(x, i)] else s.closeSent := by
  unfold closeStream
  rw [h]
  simp only
  by_cases hc : st.state = .closed
  · have : ¬ st.state = .opened := by rw [hc]; simp
    simp [hc, this]
  · simp only [hc, if_false]
    by_cases ho : st.state = .opened
    · simp only [ho, if_true]
      split <;> simp [Sys.setCh, Sys.setMe]
    · simp [ho, Sys.setMe]

/-- Delivering a close notification: the peer's registered stream leaves the open state (and stays where it was if it had
    left it already); afterwards the peer cannot send on it any more. -/
theorem c10_peer_half_closes (s : Sys) (y : Side) (i : Nat) (st : MStream) (hreg : (s.me y).registered i = true)
    (h : (s.me y).find i = some st) :
    ∃ st', ((closeNote s y i).me y).find i = some st' ∧ st'.state ≠ .opened ∧
      (flush (closeNote s y i) y i false).2 = .closed := by
  have hst' : ((closeNote s y i).me y).find i = some (halfClose st) := by
    unfold closeNote
    rw [if_pos hreg, setMe_me_same, find_upd _ _ _ _ halfClose_id]
    simp [h]
  have hne : (halfClose st).state ≠ .opened := by
    unfold halfClose; split <;> simp_all
  exact ⟨_, hst', hne, (c10_flush_after_close _ y i false _ hst' hne).1⟩

/-- States only move forward: open → half-closed → closed, open → closed. -/
def rank : St → Nat | .opened => 0 | .half => 1 | .closed => 2

theorem c10_monotone_halfClose (st : MStream) : rank st.state ≤ rank (halfClose st).state := by
  unfold halfClose; split
  · rename_i h; simp [h, rank]
  · exact Nat.le_refl _

theorem c10_monotone_close (st : MStream) : rank st.state ≤ rank St.closed := by
  cases st.state <;> simp [rank]

-- non-vacuity: Close on both ends of one stream; each end announces once; both end up closed and inactive
example :
    let s := run { qcap := 4 } [.open_ .a, .flush .a 2 false, .deliver .b, .close .a 2, .close .a 2, .deliver .b, .close .b 2]
    s.closeSent = [(.a, 2)] ∧ (s.ends .a).table = [] ∧ (s.ends .b).table = [] ∧
    ((s.ends .b).streams.map (·.state)) = [.closed] := by decide

end Props.C10
