import ShmVerif.Model.FreeListC
namespace Props.C02
theorem placeholder : True := trivial
end Props.C02
