import ShmVerif.Proof.FreeListConc
/-!
  C02 — the allocator neither loses nor duplicates buffers.

  * `c02_conservation_seq` : every sequential-atomic history — free count = length of the free chain, free count + number
      of owned slots = capacity; the chain from `head` (computeFreeSliceNum's walk) is duplicate-free and ends at `tail`.
  * `c02_quiescent_full_seq` : whenever every buffer has been recycled (nobody owns anything): size = cap and the walk from
      `head` visits every slot exactly once and ends at `tail`.
  * `c02_failed_alloc_consumes_nothing` : a pop that fails (class down to its last slot) leaves every shared word unchanged.
  * `c02_aba_witness` : the unrestricted concurrent statement is FALSE of the model (and the code, finding F1): the ABA
      schedule followed by everybody recycling gives size = cap = 4 but a walk that visits 2 slots.
  * `c02_conservation_noaba`, `c02_quiescent_noaba`, `c02_quiescent_full_noaba` : the same for EVERY interleaving (one
      step = one shared-memory access, any number of threads / slots / operations) in which no head CAS succeeds on a
      stale snapshot: at every step free queue + owned slots are exactly the `n` slots and `size` is the queue length
      minus the operations in flight; whenever nobody is inside pop/push, `size` = length of the walk from `head`, the
      walk ends at `tail`, walk + held slots are exactly the `n` slots; with everything recycled the walk is all of them.
  Together with the witness: losing or duplicating a buffer REQUIRES the stale-head CAS of finding F1.
-/
namespace Props.C02
open FreeListC

theorem c02_conservation_seq (n : Nat) (hn : 0 < n) (progs : List (List Op)) (ts : List Nat) :
    let s := seqRun (prime (init n progs)) ts
    ∃ free, s.size = free.length ∧ free.length + (s.ths.flatMap owned).length = s.slots.length ∧
      walk (free.length + 1) s s.head = free ∧ free.Nodup ∧ free.getLast? = some s.tail := by
  intro s
  obtain ⟨free, h⟩ := seqRun_rep _ ts _ (rep_init n hn progs)
  refine ⟨free, h.size, by have := h.total; simpa using this, ?_, (List.nodup_append.mp h.nodup).1, h.tail⟩
  cases hf : free with
  | nil => have := h.chain; simp [hf, Chain] at this
  | cons a rest =>
    have ha : s.head = a := by have := h.head; simpa [hf] using this.symm
    have hc := h.chain; rw [hf] at hc
    rw [ha]
    exact walk_chain s rest a _ hc (by simp only [List.length_cons]; omega)

theorem c02_quiescent_full_seq (n : Nat) (hn : 0 < n) (progs : List (List Op)) (ts : List Nat) :
    let s := seqRun (prime (init n progs)) ts
    s.ths.flatMap owned = [] →
    s.size = s.slots.length ∧
    ∃ free, walk (s.slots.length + 1) s s.head = free ∧ free.Nodup ∧ free.length = s.slots.length ∧
            (∀ i, i < s.slots.length → i ∈ free) ∧ free.getLast? = some s.tail := by
  intro s hq
  obtain ⟨free, h⟩ := seqRun_rep _ ts _ (rep_init n hn progs)
  have htot := h.total
  have hnd := h.nodup
  have hbd := h.bound
  simp only [show (seqRun (prime (init n progs)) ts).ths.flatMap owned = [] from hq, List.append_nil] at htot hnd hbd
  refine ⟨by rw [h.size, htot], free, ?_, hnd, htot, ?_, h.tail⟩
  · cases hf : free with
    | nil => have := h.chain; simp [hf, Chain] at this
    | cons a rest =>
      have ha : s.head = a := by have := h.head; simpa [hf] using this.symm
      have hc := h.chain; rw [hf] at hc
      rw [ha, ← htot, hf]
      exact walk_chain s rest a _ hc (by simp only [List.length_cons]; omega)
  · intro i hi
    have := h.complete i hi
    simpa [show (seqRun (prime (init n progs)) ts).ths.flatMap owned = [] from hq] using this

theorem c02_failed_alloc_consumes_nothing (s : State) (t : Nat) (th : Th) (hth : s.ths[t]? = some th)
    (hpc : th.pc = .pLdHead) (hsz : s.size ≤ 1) :
    let s' := opRun 16 s t
    s'.head = s.head ∧ s'.tail = s.tail ∧ s'.size = s.size ∧ s'.slots = s.slots ∧ s'.counter = s.counter ∧
    ∃ th', s'.ths[t]? = some th' ∧ (owned th').Perm (owned th) ∧ th'.res.length > th.res.length := by
  intro s'
  have e := opRun_pop_fail s t th hth hpc hsz
  have ht : t < s.ths.length := by
    rcases Nat.lt_or_ge t s.ths.length with h | h
    · exact h
    · simp [List.getElem?_eq_none h] at hth
  have hs' : s' = _ := e
  refine ⟨by rw [hs'], by rw [hs'], by rw [hs'], by rw [hs'], by rw [hs'], ?_⟩
  refine ⟨finishOp { th with oldHead := s.head, lver := s.hver, pc := .pIncFail } .nomore, ?_, ?_, ?_⟩
  · rw [hs']; simp [ht]
  · have := owned_finishOp { th with oldHead := s.head, lver := s.hver, pc := .pIncFail } .nomore
    have hown : owned th = th.held := by simp [owned, hpc]
    rw [hown]; exact this
  · exact finishOp_res_len { th with oldHead := s.head, lver := s.hver, pc := .pIncFail } .nomore

/-- ABA (finding F1), then everybody recycles: the counter says "full" but the chain has lost two of four slots. -/
def abaProgs : List (List Op) := [[.pop, .push 0], [.pop, .pop, .push 0, .pop, .push 1, .pop, .push 0, .push 0]]
def abaSched : List Nat := [0, 0, 0, 0] ++ List.replicate 46 1 ++ List.replicate 11 0 ++ List.replicate 14 1

set_option maxRecDepth 100000 in
theorem c02_aba_witness :
    let s := run (prime (init 4 abaProgs)) abaSched
    s.aba = true ∧ s.size = 4 ∧ s.slots.length = 4 ∧ (s.ths.map (·.pc)) = [.idle, .idle] ∧
    (s.ths.flatMap owned) = [] ∧ (walk 5 s s.head).length = 2 := by
  decide

-- non-vacuity: a sequential history that empties the class down to its last slot and refills it
set_option maxRecDepth 100000 in
example :
    let s := seqRun (prime (init 3 [[.pop, .pop, .pop, .push 0, .push 0]])) [0, 0, 0, 0, 0]
    s.ths.flatMap owned = [] ∧ s.size = 3 ∧ walk 4 s s.head = [2, 0, 1] ∧ s.tail = 1 := by
  decide

/-- conservation at every step of every interleaving without a stale-head CAS -/
theorem c02_conservation_noaba (n : Nat) (hn : 0 < n) (progs : List (List Op)) (sched : List Nat) :
    let s := run (prime (init n progs)) sched
    s.aba = false →
    ∃ Q, Q.head? = some s.head ∧ Q.getLast? = some s.tail ∧ (Q ++ s.ths.flatMap ownedC).Perm (List.range n) ∧
      s.size + (s.ths.countP resv : Int) + (s.ths.countP linking : Int) = (Q.length : Int) := by
  intro s ha
  obtain ⟨Q, I, J⟩ := run_cq n sched _ _ (cinv_init n hn progs) (qinv_init n hn progs) ha
  exact ⟨Q, I.head, I.last, I.partition, J.size⟩

/-- quiescence (nobody inside pop / push) after any such interleaving: `size` is the number of slots the walk from
    `head` (computeFreeSliceNum's walk) visits, the walk ends at `tail`, and walk + held slots are exactly the `n` slots -/
theorem c02_quiescent_noaba (n : Nat) (hn : 0 < n) (progs : List (List Op)) (sched : List Nat) :
    let s := run (prime (init n progs)) sched
    s.aba = false → Quiet s →
    ∃ free, walk (n + 1) s s.head = free ∧ s.size = (free.length : Int) ∧ free.getLast? = some s.tail ∧
      (free ++ s.ths.flatMap (·.held)).Perm (List.range n) := by
  intro s ha hq
  obtain ⟨Q, I, J⟩ := run_cq n sched _ _ (cinv_init n hn progs) (qinv_init n hn progs) ha
  obtain ⟨hc, hs, hp⟩ := quiet_chain I J hq
  refine ⟨Q, ?_, hs, I.last, hp⟩
  have hlen : Q.length ≤ n := by
    have := hp.length_eq
    simp only [List.length_append, List.length_range] at this
    omega
  cases hQ : Q with
  | nil => rw [hQ] at hc; simp [Chain] at hc
  | cons a rest =>
    have ha0 : s.head = a := by have := I.head; rw [hQ] at this; simpa using this.symm
    rw [hQ] at hc hlen
    rw [ha0]
    exact walk_chain s rest a _ hc (by simp only [List.length_cons] at hlen; omega)

/-- … and when every buffer has been recycled the free list is full again: `size = n`, the walk visits every slot once -/
theorem c02_quiescent_full_noaba (n : Nat) (hn : 0 < n) (progs : List (List Op)) (sched : List Nat) :
    let s := run (prime (init n progs)) sched
    s.aba = false → Quiet s → (∀ th ∈ s.ths, th.held = []) →
    s.size = (n : Int) ∧ (walk (n + 1) s s.head).Perm (List.range n) := by
  intro s ha hq hh
  obtain ⟨free, hw, hs, _, hp⟩ := c02_quiescent_noaba n hn progs sched ha hq
  have e : s.ths.flatMap (·.held) = [] := by
    rw [List.flatMap_eq_nil_iff]; exact hh
  rw [e, List.append_nil] at hp
  refine ⟨?_, hw ▸ hp⟩
  rw [hs, hp.length_eq, List.length_range]

-- non-vacuity: an interleaved, ABA-free run that ends quiescent with everything recycled
set_option maxRecDepth 100000 in
example :
    let s := run (prime (init 3 [[.pop, .push 0], [.pop, .push 0]])) ((List.replicate 30 [0, 1]).flatten)
    s.aba = false ∧ (∀ th ∈ s.ths, th.pc = .idle) ∧ (∀ th ∈ s.ths, th.held = []) ∧ s.size = 3 := by
  decide

end Props.C02
