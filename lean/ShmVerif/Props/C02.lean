import ShmVerif.Proof.FreeListInit
/-!
  C02 — the allocator neither loses nor duplicates buffers.

  * `c02_conservation_seq` : every sequential-atomic history — free count = length of the free chain, free count + number
      of owned slots = capacity; the chain from `head` (computeFreeSliceNum's walk) is duplicate-free and ends at `tail`.
  * `c02_quiescent_full_seq` : whenever every buffer has been recycled (nobody owns anything): size = cap and the walk from
      `head` visits every slot exactly once and ends at `tail`.
  * `c02_failed_alloc_consumes_nothing` : a pop that fails (class down to its last slot) leaves every shared word unchanged.
  * `c02_aba_witness` : the unrestricted concurrent statement is FALSE of the model (and the code, finding F1): the ABA
      schedule followed by everybody recycling gives size = cap = 4 but a walk that visits 2 slots.
  The concurrent statement restricted to ABA-free interleavings is NOT proved: the claim is partial.
-/
namespace Props.C02
open FreeListC

theorem c02_conservation_seq (n : Nat) (hn : 0 < n) (progs : List (List Op)) (ts : List Nat) :
    let s := seqRun (prime (init n progs)) ts
    ∃ free, s.size = free.length ∧ free.length + (s.ths.flatMap owned).length = s.slots.length ∧
      walk (free.length + 1) s s.head = free ∧ free.Nodup ∧ free.getLast? = some s.tail := by
  intro s
  obtain ⟨free, h⟩ := seqRun_rep _ ts _ (rep_init n hn progs)
  refine ⟨free, h.size, by have := h.total; simpa using this, ?_, (List.nodup_append.mp h.nodup).1, h.tail⟩
  cases hf : free with
  | nil => have := h.chain; simp [hf, Chain] at this
  | cons a rest =>
    have ha : s.head = a := by have := h.head; simpa [hf] using this.symm
    have hc := h.chain; rw [hf] at hc
    rw [ha]
    exact walk_chain s rest a _ hc (by simp only [List.length_cons]; omega)

theorem c02_quiescent_full_seq (n : Nat) (hn : 0 < n) (progs : List (List Op)) (ts : List Nat) :
    let s := seqRun (prime (init n progs)) ts
    s.ths.flatMap owned = [] →
    s.size = s.slots.length ∧
    ∃ free, walk (s.slots.length + 1) s s.head = free ∧ free.Nodup ∧ free.length = s.slots.length ∧
            (∀ i, i < s.slots.length → i ∈ free) ∧ free.getLast? = some s.tail := by
  intro s hq
  obtain ⟨free, h⟩ := seqRun_rep _ ts _ (rep_init n hn progs)
  have htot := h.total
  have hnd := h.nodup
  have hbd := h.bound
  simp only [show (seqRun (prime (init n progs)) ts).ths.flatMap owned = [] from hq, List.append_nil] at htot hnd hbd
  refine ⟨by rw [h.size, htot], free, ?_, hnd, htot, ?_, h.tail⟩
  · cases hf : free with
    | nil => have := h.chain; simp [hf, Chain] at this
    | cons a rest =>
      have ha : s.head = a := by have := h.head; simpa [hf] using this.symm
      have hc := h.chain; rw [hf] at hc
      rw [ha, ← htot, hf]
      exact walk_chain s rest a _ hc (by simp only [List.length_cons]; omega)
  · intro i hi
    have := h.complete i hi
    simpa [show (seqRun (prime (init n progs)) ts).ths.flatMap owned = [] from hq] using this

theorem c02_failed_alloc_consumes_nothing (s : State) (t : Nat) (th : Th) (hth : s.ths[t]? = some th)
    (hpc : th.pc = .pLdHead) (hsz : s.size ≤ 1) :
    let s' := opRun 16 s t
    s'.head = s.head ∧ s'.tail = s.tail ∧ s'.size = s.size ∧ s'.slots = s.slots ∧ s'.counter = s.counter ∧
    ∃ th', s'.ths[t]? = some th' ∧ (owned th').Perm (owned th) ∧ th'.res.length > th.res.length := by
  intro s'
  have e := opRun_pop_fail s t th hth hpc hsz
  have ht : t < s.ths.length := by
    rcases Nat.lt_or_ge t s.ths.length with h | h
    · exact h
    · simp [List.getElem?_eq_none h] at hth
  have hs' : s' = _ := e
  refine ⟨by rw [hs'], by rw [hs'], by rw [hs'], by rw [hs'], by rw [hs'], ?_⟩
  refine ⟨finishOp { th with oldHead := s.head, lver := s.hver, pc := .pIncFail } .nomore, ?_, ?_, ?_⟩
  · rw [hs']; simp [ht]
  · have := owned_finishOp { th with oldHead := s.head, lver := s.hver, pc := .pIncFail } .nomore
    have hown : owned th = th.held := by simp [owned, hpc]
    rw [hown]; exact this
  · exact finishOp_res_len { th with oldHead := s.head, lver := s.hver, pc := .pIncFail } .nomore

/-- ABA (finding F1), then everybody recycles: the counter says "full" but the chain has lost two of four slots. -/
def abaProgs : List (List Op) := [[.pop, .push 0], [.pop, .pop, .push 0, .pop, .push 1, .pop, .push 0, .push 0]]
def abaSched : List Nat := [0, 0, 0, 0] ++ List.replicate 46 1 ++ List.replicate 11 0 ++ List.replicate 14 1

set_option maxRecDepth 100000 in
theorem c02_aba_witness :
    let s := run (prime (init 4 abaProgs)) abaSched
    s.aba = true ∧ s.size = 4 ∧ s.slots.length = 4 ∧ (s.ths.map (·.pc)) = [.idle, .idle] ∧
    (s.ths.flatMap owned) = [] ∧ (walk 5 s s.head).length = 2 := by
  decide

-- non-vacuity: a sequential history that empties the class down to its last slot and refills it
set_option maxRecDepth 100000 in
example :
    let s := seqRun (prime (init 3 [[.pop, .pop, .pop, .push 0, .push 0]])) [0, 0, 0, 0, 0]
    s.ths.flatMap owned = [] ∧ s.size = 3 ∧ walk 4 s s.head = [2, 0, 1] ∧ s.tail = 1 := by
  decide

end Props.C02
