import ShmVerif.Proof.MuxEos
/-!
  C07 — multiplexed streams stay isolated and ordered.

  Model `Mux`: the message-level abstraction of the two-session protocol model `Proto` (the driver runs both side by side
  against the real sessions and reports any disagreement).  `run {qcap} ops` ranges over EVERY sequence of opens, flushes
  (shared-memory or fall-back transport, queue full), closes from either end, deliveries of control-connection events to
  either end, reader moves/releases, for ANY number of streams and ANY queue capacity.

  For sender `x`, stream `j`: `tagOf x j sent` = the messages `x` flushed successfully on `j`, in flush order;
  `tagOf x.peer j arrived` = the messages that reached the peer's stream `j`, in arrival order.
  The guard `(x, j) ∉ recreated` excludes stream ids for which the SERVER re-created a stream object after closing one
  with the same id (two different streams then share an id).

  `c07_eos_after_data`, `c07_no_data_behind_close`, `c07_no_flush_after_close` (invariant `Eos` of `Proof/MuxEos`): the
  close notification of a stream never overtakes that stream's data - within the queue, within the connection, and across
  the two - and once the peer has consumed it everything flushed on the stream has arrived.

  Operations are atomic here.  The sub-operation race "the wake-up is published (flag CAS) before the polling event is
  written" (DESIGN §6 F5a) is outside this model.
-/
namespace Props.C07
open Mux List

/-- Per-stream order across the two channels: what has arrived, followed by what is still in the shared queue, followed by
    what is still on the control connection, is exactly what was flushed, in flush order. -/
theorem c07_order (qcap : Nat) (ops : List Op) (x : Side) (j : Nat) :
    let s := run { qcap := qcap } ops
    (x, j) ∉ s.recreated →
    tagOf x.peer j s.arrived ++ qdata j (s.ch x).q ++ kdata j (s.ch x).k = tagOf x j s.sent :=
  (run_inv _ ops x j (inv_init qcap x j)).ord

/-- Hence the arrivals on a stream are a PREFIX of the flushes on that stream: in order, nothing skipped, nothing repeated,
    nothing from another stream or direction. -/
theorem c07_arrivals_prefix (qcap : Nat) (ops : List Op) (x : Side) (j : Nat) :
    let s := run { qcap := qcap } ops
    (x, j) ∉ s.recreated → tagOf x.peer j s.arrived <+: tagOf x j s.sent := by
  intro s hr
  have := c07_order qcap ops x j hr
  exact ⟨qdata j (s.ch x).q ++ kdata j (s.ch x).k, by rw [← this, append_assoc]⟩

/-- Isolation: a message that arrived on stream `j` of end `y` was flushed by the peer on stream `j`. -/
theorem c07_isolation (qcap : Nat) (ops : List Op) (y : Side) (j m : Nat) :
    let s := run { qcap := qcap } ops
    (y.peer, j) ∉ s.recreated → m ∈ tagOf y j s.arrived → m ∈ tagOf y.peer j s.sent := by
  intro s hr hm
  have := c07_arrivals_prefix qcap ops y.peer j hr
  rw [peer_peer] at this
  exact this.subset hm

/-- Once nothing of the stream is in flight any more, everything that was flushed on it has arrived. -/
theorem c07_complete_when_drained (qcap : Nat) (ops : List Op) (x : Side) (j : Nat) :
    let s := run { qcap := qcap } ops
    (x, j) ∉ s.recreated → qdata j (s.ch x).q = [] → kdata j (s.ch x).k = [] →
    tagOf x.peer j s.arrived = tagOf x j s.sent := by
  intro s hr h1 h2
  have := c07_order qcap ops x j hr
  rw [h1, h2, append_nil, append_nil] at this
  exact this

/-- The wake-up discipline at operation level: a non-empty shared queue always has its polling event on the connection. -/
theorem c07_queue_has_polling (qcap : Nat) (ops : List Op) (x : Side) :
    let s := run { qcap := qcap } ops
    (s.ch x).q ≠ [] → Ev.polling ∈ (s.ch x).k := by
  intro s hq
  have h := (run_inv _ ops x 0 (inv_init qcap x 0)).core
  exact h.g1 (h.g2 hq)

/-- Close never overtakes data across the two channels (repaired code): while data of stream `j` is still in the shared
    queue, no event for `j` — in particular no close notification — sits on the connection ahead of the polling event
    that will drain that data.  (Inside one channel order is FIFO by construction.) -/
theorem c07_close_not_ahead_of_queued_data (qcap : Nat) (ops : List Op) (x : Side) (j : Nat) :
    let s := run { qcap := qcap } ops
    (x, j) ∉ s.recreated → qdata j (s.ch x).q ≠ [] → ∀ ev ∈ beforePoll (s.ch x).k, ev ≠ .close j ∧ ∀ m, ev ≠ .fb j m := by
  intro s hr hq ev hev
  have h := (run_inv _ ops x j (inv_init qcap x j)).core
  have hqf : qFor j (s.ch x).q ≠ [] := fun h0 => hq (qdata_nil_of_qFor_nil j _ h0)
  have := h.ij hr hqf ev hev
  constructor
  · intro he; subst he; simp [evFor] at this
  · intro m he; subst he; simp [evFor] at this

-- non-vacuity: one stream, a shared-memory message, then fall-back messages, delivered in steps
example :
    let s := run { qcap := 4 } [.open_ .a, .flush .a 2 false, .flush .a 2 true, .flush .a 2 false, .deliver .b, .deliver .b]
    tagOf .a 2 s.sent = [0, 1, 2] ∧ tagOf .b 2 s.arrived = [0, 1] ∧ kdata 2 (s.ch .a).k = [2] ∧ s.recreated = [] := by
  decide

/-- EOS after data: once the peer has consumed the close notification of stream `j` (it was issued and is no longer in
    flight), every message flushed on `j` has arrived at the peer — the notification never overtakes data, whichever of
    the two channels each of them took. -/
theorem c07_eos_after_data (qcap : Nat) (ops : List Op) (x : Side) (j : Nat) :
    let s := run { qcap := qcap } ops
    (x, j) ∉ s.recreated → (x, j) ∈ s.closeSent → ¬ PendClose j (s.ch x) →
    tagOf x.peer j s.arrived = tagOf x j s.sent := by
  intro s hr hc hp
  have h := run_einv _ ops x j (einv_init qcap x j)
  have e := h.eos hr
  have hq : qdata j (s.ch x).q = [] := by
    cases hq : qdata j (s.ch x).q with
    | nil => rfl
    | cons a r => exact absurd (e.e4 hc (Or.inl (by rw [hq]; simp))) hp
  have hk : kdata j (s.ch x).k = [] := by
    cases hk : kdata j (s.ch x).k with
    | nil => rfl
    | cons a r => exact absurd (e.e4 hc (Or.inr (by rw [hk]; simp))) hp
  have := h.inv.ord hr
  rw [hq, hk, append_nil, append_nil] at this
  exact this

/-- Nothing of stream `j` travels behind its close notification: not later in the shared queue, not later on the
    connection, and not on the connection while the notification sits in the queue. -/
theorem c07_no_data_behind_close (qcap : Nat) (ops : List Op) (x : Side) (j : Nat) :
    let s := run { qcap := qcap } ops
    (x, j) ∉ s.recreated →
    qdata j (afterCloseQ j (s.ch x).q) = [] ∧ kdata j (afterCloseK j (s.ch x).k) = [] ∧
    (closeInQ j (s.ch x).q → kdata j (s.ch x).k = []) := by
  intro s hr
  have e := (run_einv _ ops x j (einv_init qcap x j)).eos hr
  exact ⟨e.e2o, e.e3, e.e2q⟩

/-- After the close notification of `j` was issued no flush on `j` succeeds any more (so "flushed successfully before
    closing" is everything that was ever flushed), and a notification in flight was indeed issued. -/
theorem c07_no_flush_after_close (qcap : Nat) (ops : List Op) (x : Side) (j : Nat) (heap : Bool) :
    let s := run { qcap := qcap } ops
    (x, j) ∉ s.recreated → (x, j) ∈ s.closeSent → (flush s x j heap).2 = .closed := by
  intro s hr hc
  have e := (run_einv _ ops x j (einv_init qcap x j)).eos hr
  obtain ⟨st, a, b⟩ := e.e1 hc
  unfold flush
  rw [a]
  simp only
  rw [if_pos b]

-- non-vacuity: data through the queue, more data and the close through the connection; the close is consumed last
example :
    let s := run { qcap := 4 } [.open_ .a, .flush .a 2 false, .flush .a 2 true, .close .a 2, .deliver .b, .deliver .b, .deliver .b]
    (Side.a, 2) ∈ s.closeSent ∧ s.recreated = [] ∧ (s.ch .a).k = [] ∧ (s.ch .a).q = [] ∧ tagOf .b 2 s.arrived = [0, 1] := by
  decide

end Props.C07
