import ShmVerif.Model.Proto
namespace Props.C07
theorem placeholder : True := trivial
end Props.C07
