import ShmVerif.Proof.Layout
/-!
  C03 — both processes derive the same memory layout from any configuration.

  Model `Layout`: Go's typed arithmetic (uint32/uint64 wrap-around, int, uint16 truncation, divide by zero = panic).
  Quantification: every memory size `< 2^32` and every pair list accepted by VerifyConfig (`verifyConfig = true`:
  capacity ≥ 1 MiB, non-empty, every Size ≤ capacity, percents summing to 100), with ANY percentages and ANY order,
  under the single extra guard `36·k + 8 ≤ memLen` (the k list headers fit; i.e. fewer than ~29 000 size classes per MiB).
-/
namespace Props.C03
open Layout

theorem sane_of_verify (memLen : Nat) (pairs : List Pair) (hv : verifyConfig memLen pairs = true)
    (hmem : memLen < W32) (hk : bufferListHeaderSize * pairs.length + bufferManagerHeaderSize ≤ memLen) :
    Sane memLen pairs ∧ ∀ p ∈ pairs, p.percent ≤ 100 := by
  simp only [verifyConfig, Bool.and_eq_true, decide_eq_true_eq, Bool.not_eq_true', List.all_eq_true] at hv
  obtain ⟨⟨⟨h1, h2⟩, h3⟩, h4⟩ := hv
  refine ⟨⟨by omega, hmem, fun p hp => by have := h3 p hp; omega, hk, ?_⟩, ?_⟩
  · intro e; simp [e] at h2
  · intro p hp
    have hle : ∀ (l : List Pair), p ∈ l → p.percent ≤ (l.map (·.percent)).sum := by
      intro l
      induction l with
      | nil => intro h; cases h
      | cons a r ih =>
        intro h
        rcases List.mem_cons.mp h with rfl | h'
        · simp
        · have := ih h'; simp; omega
    have := hle pairs hp
    omega

/-- Layout: creation never panics; it fails with an error or yields classes laid out back to back behind the
    8-byte manager header, each region behind its 36-byte list header and inside the mapping, with the slice sizes
    of the configuration. -/
theorem c03_layout_ok (memLen : Nat) (pairs : List Pair) (hv : verifyConfig memLen pairs = true)
    (hmem : memLen < W32) (hk : bufferListHeaderSize * pairs.length + bufferManagerHeaderSize ≤ memLen) :
    match createBufferManager pairs memLen with
    | .ok m => WellLaid memLen bufferManagerHeaderSize m.lists ∧ m.lists.map (·.capPer) = pairs.map (·.size) ∧
               endOf bufferManagerHeaderSize m.lists ≤ memLen
    | .err _ => True
    | .panic _ => False := by
  obtain ⟨hs, hp⟩ := sane_of_verify memLen pairs hv hmem hk
  have := createBufferManager_sane pairs memLen hs hp
  cases hc : createBufferManager pairs memLen with
  | ok m => rw [hc] at this; exact ⟨this.1, this.2.1, this.2.2.2.1⟩
  | err w => trivial
  | panic w => rw [hc] at this; exact this

/-- Disjointness: classes occupy pairwise disjoint byte ranges (in order), and inside a class the slots
    (20-byte header + payload) are pairwise disjoint, at slot boundaries, inside the class region. -/
theorem c03_disjoint (memLen : Nat) (pairs : List Pair) (hv : verifyConfig memLen pairs = true)
    (hmem : memLen < W32) (hk : bufferListHeaderSize * pairs.length + bufferManagerHeaderSize ≤ memLen)
    (m : Mgr) (hc : createBufferManager pairs memLen = .ok m) :
    (∀ (i j : Nat) (hi : i < m.lists.length) (hj : j < m.lists.length), i < j →
        m.lists[i].regionOff + m.lists[i].regionLen ≤ m.lists[j].off ∧ m.lists[j].off + bufferListHeaderSize = m.lists[j].regionOff) ∧
    (∀ g ∈ m.lists, bufferManagerHeaderSize ≤ g.off ∧ g.regionOff + g.regionLen ≤ memLen ∧
        ∀ i j, i < j → j < g.num →
          slotEnd g i ≤ slotStart g j ∧ g.regionOff ≤ slotStart g i ∧ slotEnd g j ≤ g.regionOff + g.regionLen) := by
  have h := c03_layout_ok memLen pairs hv hmem hk
  rw [hc] at h
  obtain ⟨hw, _, hend⟩ := h
  have hd := wellLaid_disjoint memLen m.lists bufferManagerHeaderSize hw
  have hfields : ∀ (l : List ListGeom) (st : Nat), WellLaid memLen st l → ∀ g ∈ l,
      g.off + bufferListHeaderSize = g.regionOff ∧ g.regionLen = g.num * (g.capPer + bufferHeaderSize) ∧
      g.regionOff + g.regionLen ≤ memLen := by
    intro l
    induction l with
    | nil => intro _ _ g hg; cases hg
    | cons a r ih =>
      intro st hw g hg
      obtain ⟨a1, a2, a3, a4, a5, a6, a7, a8, a9⟩ := hw
      rcases List.mem_cons.mp hg with rfl | hg'
      · exact ⟨by omega, a3, a6⟩
      · exact ih _ a9 g hg'
  refine ⟨?_, ?_⟩
  · intro i j hi hj hij
    have hj' := hfields _ _ hw m.lists[j] (List.getElem_mem hj)
    exact ⟨(hd m.lists[j] (List.getElem_mem hj)).2.2 i j hi hj hij, hj'.1⟩
  · intro g hg
    have hg' := hfields _ _ hw g hg
    refine ⟨(hd g hg).1, hg'.2.2, ?_⟩
    intro i j hij hj
    exact slots_disjoint g hg'.2.1 i j hij hj

/-- Round trip: a peer that maps the memory the creator initialised reconstructs exactly the same classes,
    capacities, offsets, head and tail. -/
theorem c03_map_roundtrip (memLen : Nat) (pairs : List Pair) (hv : verifyConfig memLen pairs = true)
    (hmem : memLen < W32) (hk : bufferListHeaderSize * pairs.length + bufferManagerHeaderSize ≤ memLen)
    (hk16 : pairs.length < 65536) (m : Mgr) (hc : createBufferManager pairs memLen = .ok m) :
    mappingBufferManager m memLen = .ok m.lists := by
  obtain ⟨hs, hp⟩ := sane_of_verify memLen pairs hv hmem hk
  exact mappingBufferManager_roundtrip pairs memLen hs hp hk16 m hc

/-- Queues: for every capacity (0 and 1 included) whose ring fits in uint32, what the creator calls its send queue is
    the mapper's receive queue and vice versa, header words at the same offsets, and the two queues do not overlap. -/
theorem c03_queue_crosswired (cap : Nat) (hcap : queueHeaderLength + cap * queueElementLen < W32) :
    let c := createQueueManager cap
    let m := mappingQueueManager (countQueueMemSize cap * queueCount) cap cap
    c.send = m.recv ∧ c.recv = m.send ∧ c.send.ringEnd ≤ c.recv.base ∧
    c.recv.ringEnd ≤ countQueueMemSize cap * queueCount ∧ c.send.ringEnd - c.send.ringOff = cap * queueElementLen :=
  queue_crosswired cap hcap

/-- Excluded input (finding F9, repaired by a `fix:` commit): before the repair `Size = 2^32-20` reached an integer
    divide by zero; the repaired code — and this model — return an error. -/
theorem c03_oversize_rejected :
    (match createBufferManager [⟨4294967276, 100⟩] 4294967286 with | .err _ => true | _ => false) = true := by decide

-- non-vacuity: a VerifyConfig-accepted two-class configuration that is laid out successfully
example :
    verifyConfig 1048576 [⟨4096, 50⟩, ⟨16384, 50⟩] = true ∧
    (match createBufferManager [⟨4096, 50⟩, ⟨16384, 50⟩] 1048576 with
     | .ok m => decide (m.lists.map (fun g => (g.off, g.num, g.capPer)) = [(8, 127, 4096), (522776, 31, 16384)])
     | _ => false) = true := by decide


/-! ### what the entry points must establish -/

def _root_.Layout.Outcome.isOk {α : Type} : Outcome α → Bool
  | .ok _ => true
  | _ => false

/-- The hypothesis of `c03_map_roundtrip` that the ENTRY POINTS have to establish: creator and peer lay out / walk the SAME
    number of bytes - the creator the length it truncated the shared object to, the peer the length it reads from the
    object. A creator that lays out more than the object has (the C03e seed: capacity rounded up to a page multiple after
    the truncate) produces a layout the peer refuses: 1 MiB + 100 bytes, classes 64 and 256 -/
example :
    (match createBufferManager [⟨64, 50⟩, ⟨256, 50⟩] 1052672 with
      | .ok m => (mappingBufferManager m 1052672).isOk && !(mappingBufferManager m 1048676).isOk
      | _ => false) = true := by
  decide

end Props.C03
