import ShmVerif.Proof.RestartM
import ShmVerif.Props.C16
/-!
  C17 — the session manager heals lost sessions and only those.
  Same model and reachability as C16 (client side): the per-pool watcher goroutine of SessionManager.background is a
  thread whose steps interleave arbitrarily with hot-restart events, sessions dying, timers and Close.
-/
namespace Props.C17
open Restart Props.C16

/-! ### what a watcher step can do -/

/-- a watcher creates a session only when its rebuild timer fires, it is not pre-empted by cancellation, the reconnect
    succeeds, and the pool's current session has the epoch of the session it saw die -/
theorem c17_rebuild_only_from_timer (m : Manager) (id : Nat) (fire conn ctx : Bool)
    (hne : (m.watch id fire conn ctx).created ≠ m.created) :
    ∃ o cur, m.watchers[id]? = some (.timer o) ∧ fire = true ∧ conn = true ∧ m.pools[id]? = some cur ∧
      (m.obj cur).epoch = (m.obj o).epoch := by
  unfold Manager.watch at hne
  split at hne
  · exact absurd rfl hne
  rename_i pc hpc
  cases pc with
  | start => simp only [Manager.wTop, Manager.setW] at hne; (repeat' split at hne) <;> exact absurd rfl hne
  | sleep => simp only [Manager.wTop, Manager.setW] at hne; (repeat' split at hne) <;> exact absurd rfl hne
  | done => exact absurd rfl hne
  | sel o =>
    simp only [Manager.wTop, Manager.setW] at hne
    have := (closeObj_same m o).created
    (repeat' split at hne) <;> first | exact absurd rfl hne | exact absurd this hne
  | timer o =>
    simp only [] at hne
    split at hne
    · rename_i hf
      split at hne
      · simp only [Manager.setW] at hne; exact absurd rfl hne
      · rename_i cur hcur
        split at hne
        · simp only [Manager.wTop, Manager.setW] at hne; (repeat' split at hne) <;> exact absurd rfl hne
        · rename_i hep
          split at hne
          · rename_i hc
            exact ⟨o, cur, hpc, hf.1, hc, hcur, by simpa using hep⟩
          · exact absurd rfl hne
    · simp only [Manager.setW] at hne; (repeat' split at hne) <;> exact absurd rfl hne

/-- a pool replaced by a hot restart is not rebuilt a second time: when the timer fires and the pool's current session
    belongs to another epoch than the one the watcher saw die, nothing is created and no object changes -/
theorem c17_no_double_rebuild (m : Manager) (id o cur : Nat) (conn ctx : Bool)
    (hw : m.watchers[id]? = some (.timer o)) (hcur : m.pools[id]? = some cur)
    (hep : (m.obj cur).epoch ≠ (m.obj o).epoch) (hnc : m.cancelled = false) :
    (m.watch id true conn ctx).created = m.created ∧ (m.watch id true conn ctx).objs = m.objs ∧
    (m.watch id true conn ctx).nextSess = m.nextSess := by
  unfold Manager.watch
  simp only [hw, hcur]
  have hf : (True ∧ (!decide (m.cancelled = true ∧ ctx = true)) = true) := by simp [hnc]
  rw [if_pos hf, if_pos hep]
  simp only [Manager.wTop, Manager.setW]
  (repeat' split) <;> simp

/-- the watcher only enters its rebuild wait after it saw its pool's session closed outside a hot restart, and then it
    closes that pool -/
theorem c17_timer_entered_on_loss (m : Manager) (id o : Nat) (fire conn ctx : Bool)
    (hw : m.watchers[id]? = some (.sel o)) (hin : (m.watch id fire conn ctx).watchers[id]? = some (.timer o)) :
    (m.obj o).alive = false ∧ m.state ≠ .hot := by
  unfold Manager.watch at hin
  simp only [hw] at hin
  have hid : id < m.watchers.length := by
    have := List.getElem?_eq_some_iff.mp hw; exact this.1
  split at hin
  · rename_i hd
    split at hin
    · simp only [Manager.wTop, Manager.setW] at hin
      (repeat' split at hin) <;> simp [List.getElem?_set, hid] at hin
    · rename_i hs; exact ⟨by simpa using hd.1, hs⟩
  · split at hin
    · simp [Manager.setW, List.getElem?_set, hid] at hin
    · rw [hw] at hin; simp at hin

/-! ### healing -/

/-- what the next lemmas need to know about a manager state -/
structure Ready (m : Manager) (id cur : Nat) : Prop where
  pool : m.pools[id]? = some cur
  lt : cur < m.objs.length
  wlt : id < m.watchers.length
  nc : m.cancelled = false
  st : m.state = .default

theorem ready_setW {m : Manager} {id cur : Nat} (r : Ready m id cur) (pc : WPc) : Ready (m.setW id pc) id cur :=
  ⟨r.pool, r.lt, by simpa [Manager.setW] using r.wlt, r.nc, r.st⟩

theorem w_setW {m : Manager} {id : Nat} (h : id < m.watchers.length) (pc : WPc) : (m.setW id pc).watchers[id]? = some pc := by
  simp [Manager.setW, List.getElem?_set, h]

theorem obj_setW (m : Manager) (id x : Nat) (pc : WPc) : (m.setW id pc).obj x = m.obj x := rfl

theorem step_top {m : Manager} {id cur : Nat} (r : Ready m id cur) (f c x : Bool)
    (hw : m.watchers[id]? = some .start ∨ m.watchers[id]? = some .sleep) : m.watch id f c x = m.setW id (.sel cur) := by
  unfold Manager.watch
  rcases hw with hw | hw <;> simp [hw, Manager.wTop, r.st, r.pool]

theorem step_sel_dead {m : Manager} {id cur : Nat} (r : Ready m id cur) (f c x : Bool)
    (hw : m.watchers[id]? = some (.sel cur)) (hd : (m.obj cur).alive = false) :
    m.watch id f c x = (m.closeObj cur).setW id (.timer cur) := by
  unfold Manager.watch
  simp [hw, hd, r.nc, r.st]

theorem step_sel_alive {m : Manager} {id cur : Nat} (r : Ready m id cur) (f c x : Bool)
    (hw : m.watchers[id]? = some (.sel cur)) (hd : (m.obj cur).alive = true) : m.watch id f c x = m := by
  unfold Manager.watch
  simp [hw, hd, r.nc]

theorem ready_closeObj {m : Manager} {id cur : Nat} (r : Ready m id cur) (o : Nat) : Ready (m.closeObj o) id cur := by
  have ss := closeObj_same m o
  exact ⟨by rw [ss.pools]; exact r.pool, by rw [ss.olen]; exact r.lt, by rw [ss.watchers]; exact r.wlt,
         by rw [ss.cancelled]; exact r.nc, by rw [ss.state]; exact r.st⟩

/-- the rebuild step -/
theorem step_timer {m : Manager} {id cur : Nat} (r : Ready m id cur) (x : Bool) (hw : m.watchers[id]? = some (.timer cur)) :
    ∃ m', m.watch id true true x = m'.setW id (.sel cur) ∧ Ready m' id cur ∧ (m'.obj cur).alive = true := by
  unfold Manager.watch
  simp only [hw, r.pool, r.nc]
  refine ⟨{ (m.setObj cur { (m.obj cur) with sess := m.nextSess, epoch := m.epoch, alive := true }) with
            nextSess := m.nextSess + 1, created := m.created ++ [(id, m.epoch, m.nextSess)] }, ?_, ?_, ?_⟩
  · simp [Manager.wTop, Manager.setObj, r.st, r.pool]
  · exact ⟨r.pool, by simpa [Manager.setObj] using r.lt, r.wlt, r.nc, r.st⟩
  · simp [Manager.obj, Manager.setObj, List.getElem?_set, r.lt]

/-- Healing: with the manager open and not in a hand-over, whatever the watcher of a pool is doing (about to look,
    sleeping, waiting for the session to close, or in its rebuild wait), once its rebuild timer fires and the server is
    reachable the pool holds a live session again within three watcher steps — and still the same pool object. -/
theorem c17_heals (m : Manager) (id cur : Nat) (r : Ready m id cur)
    (hpc : m.watchers[id]? = some .start ∨ m.watchers[id]? = some .sleep ∨ m.watchers[id]? = some (.sel cur) ∨
           m.watchers[id]? = some (.timer cur)) :
    let m3 := ((m.watch id true true).watch id true true).watch id true true
    (m3.obj cur).alive = true ∧ m3.pools[id]? = some cur ∧ m3.watchers[id]? = some (.sel cur) := by
  -- from `sel cur`: at most two steps to a live session, then the watcher idles at `sel cur`
  have fromSel : ∀ m : Manager, Ready m id cur → m.watchers[id]? = some (.sel cur) →
      ∀ m2, m2 = (m.watch id true true).watch id true true →
      (m2.obj cur).alive = true ∧ Ready m2 id cur ∧ m2.watchers[id]? = some (.sel cur) := by
    intro m r hw m2 hm2
    cases hd : (m.obj cur).alive with
    | true =>
      rw [step_sel_alive r _ _ _ hw hd, step_sel_alive r _ _ _ hw hd] at hm2
      subst hm2; exact ⟨hd, r, hw⟩
    | false =>
      rw [step_sel_dead r _ _ _ hw hd] at hm2
      have r1 := ready_setW (ready_closeObj r cur) (.timer cur)
      obtain ⟨m', e', r', a'⟩ := step_timer r1 false (w_setW (ready_closeObj r cur).wlt _)
      rw [e'] at hm2; subst hm2
      exact ⟨a', ready_setW r' _, w_setW r'.wlt _⟩
  have idle : ∀ m : Manager, Ready m id cur → m.watchers[id]? = some (.sel cur) → (m.obj cur).alive = true →
      m.watch id true true = m := fun m r hw ha => step_sel_alive r _ _ _ hw ha
  intro m3
  rcases hpc with h | h | h | h
  · have e1 := step_top r true true false (Or.inl h)
    have r1 := ready_setW r (.sel cur)
    have := fromSel _ r1 (w_setW r.wlt _) _ rfl
    show (m3.obj cur).alive = true ∧ _
    simp only [m3, e1]
    exact ⟨this.1, this.2.1.pool, this.2.2⟩
  · have e1 := step_top r true true false (Or.inr h)
    have r1 := ready_setW r (.sel cur)
    have := fromSel _ r1 (w_setW r.wlt _) _ rfl
    simp only [m3, e1]
    exact ⟨this.1, this.2.1.pool, this.2.2⟩
  · have := fromSel _ r h _ rfl
    simp only [m3]
    rw [idle _ this.2.1 this.2.2 this.1]
    exact ⟨this.1, this.2.1.pool, this.2.2⟩
  · obtain ⟨m', e', r', a'⟩ := step_timer r false h
    have r1 := ready_setW r' (.sel cur)
    have w1 : (m'.setW id (.sel cur)).watchers[id]? = some (.sel cur) := w_setW r'.wlt _
    simp only [m3, e']
    rw [idle _ r1 w1 a', idle _ r1 w1 a']
    exact ⟨a', r1.pool, w1⟩

/-! ### Close -/

/-- once Close has returned nothing the manager does creates a session or moves a watcher -/
theorem c17_closed_is_final {m : Manager} (hr : MReachable m) (hc : m.closed = true) (op : MOp) :
    (m.step op).created = m.created ∧ (m.step op).watchers = m.watchers ∧ (m.step op).closed = true := by
  have h := mreachable_inv hr
  obtain ⟨hcan, hall⟩ := h.cd hc
  cases op with
  | hotRestart id e c => simp [Manager.step, Manager.hotRestart, hcan, hc]
  | tick =>
    simp only [Manager.step, Manager.tick]
    (repeat' split) <;> simp [hc]
  | timeout =>
    simp only [Manager.step, Manager.timeout]
    have ss := closeObjs_same (m.reserve.map (·.2)) m
    split
    · simp [hc]
    · exact ⟨ss.created, ss.watchers, by show (m.closeObjs _).closed = true; rw [ss.closed]; exact hc⟩
  | lose o =>
    simp only [Manager.step, Manager.lose, Manager.setObj]
    split <;> simp [hc]
  | watch id f c x =>
    simp only [Manager.step, Manager.watch]
    split
    · simp [hc]
    · rename_i pc hpc
      rw [List.all_eq_true] at hall
      have := hall pc (List.mem_of_getElem? hpc)
      simp at this; subst this
      simp [hc]
  | cancel => simp [Manager.step, Manager.cancel, hc]
  | finishClose => simp [Manager.step, Manager.finishClose, hc]

theorem alive_closeObj (m : Manager) (o x : Nat) :
    ((m.closeObj o).obj x).alive = true → (m.obj x).alive = true ∧ ¬ (x = o ∧ o < m.objs.length) := by
  unfold Manager.closeObj Manager.setObj Manager.obj
  simp only [List.getD_eq_getElem?_getD, List.getElem?_set]
  split
  · rename_i h; subst h
    split
    · simp
    · rename_i hl; intro h1; exact ⟨by simpa [List.getElem?_eq_none (Nat.le_of_not_lt hl)] using h1, fun hh => hl hh.2⟩
  · rename_i hne; intro h1; exact ⟨h1, fun hh => hne hh.1.symm⟩

theorem alive_closeObjs (os : List Nat) : ∀ (m : Manager) (x : Nat),
    ((m.closeObjs os).obj x).alive = true → (m.obj x).alive = true ∧ ¬ (x ∈ os ∧ x < m.objs.length) := by
  induction os with
  | nil => intro m x h; exact ⟨h, by simp⟩
  | cons o rest ih =>
    intro m x h
    have h1 := ih (m.closeObj o) x h
    have h2 := alive_closeObj m o x h1.1
    have hl := (closeObj_same m o).olen
    refine ⟨h2.1, ?_⟩
    intro hh
    rcases List.mem_cons.mp hh.1 with h3 | h3
    · exact h2.2 ⟨h3, h3 ▸ hh.2⟩
    · exact h1.2 ⟨h3, by rw [hl]; exact hh.2⟩

/-- Close (repaired code) closes the session of every pool, current and parked: closing the manager stops all of it -/
theorem c17_close_closes_everything {m : Manager} (hr : MReachable m)
    (hcond : m.cancelled = true ∧ m.watchers.all (· == .done) = true ∧ m.closed = false) :
    m.finishClose.closed = true ∧ m.finishClose.reserve = [] ∧
    (∀ o ∈ m.pools, (m.finishClose.obj o).alive = false) ∧ (∀ r ∈ m.reserve, (m.finishClose.obj r.2).alive = false) := by
  have h := mreachable_inv hr
  have hc : (m.cancelled = true ∧ m.watchers.all (· == .done) = true ∧ (!m.closed) = true) := by simpa using hcond
  unfold Manager.finishClose
  rw [if_pos hc]
  refine ⟨rfl, rfl, ?_, ?_⟩
  · intro o ho
    cases ha : (({ (m.closeObjs (m.pools ++ m.reserve.map (·.2))) with closed := true, reserve := [] } : Manager).obj o).alive with
    | false => rfl
    | true =>
      have := alive_closeObjs (m.pools ++ m.reserve.map (·.2)) m o ha
      exact absurd ⟨List.mem_append_left _ ho, h.pv o ho⟩ this.2
  · intro r hr'
    cases ha : (({ (m.closeObjs (m.pools ++ m.reserve.map (·.2))) with closed := true, reserve := [] } : Manager).obj r.2).alive with
    | false => rfl
    | true =>
      have := alive_closeObjs (m.pools ++ m.reserve.map (·.2)) m r.2 ha
      exact absurd ⟨List.mem_append_right _ (List.mem_map.mpr ⟨r, hr', rfl⟩), (h.rv r hr').2⟩ this.2

end Props.C17
