import ShmVerif.Proof.Lifecycle
/-!
  C14 — peer death and session close are contained and release every resource.

  `Reachable s`: the process after ANY sequence of sessions being established on any of the shared buffer memories,
  Session.Close calls on any session (as often as one likes; exitErr after a broken connection ends in Close), the posted
  clean-ups running at any later moment, and OpenStream calls whose two halves (checks / insertion) interleave freely
  with all of that.  What the real process holds (descriptors, mappings, files) and what pending / later calls return on
  real session pairs is checked by the scenario monitors of the harness.
-/
namespace Props.C14
open Lifecycle

def Reachable (s : Sys) : Prop := ∃ ops, s = run {} ops

theorem reachable_inv {s : Sys} (h : Reachable s) : Inv s := by
  obtain ⟨ops, rfl⟩ := h; exact inv_run ops _ inv_init

/-- Close is idempotent: a second Close (or an exitErr after Close, or two racing Closes — the CAS lets one through)
    changes nothing -/
theorem c14_close_idempotent (s : Sys) (k : Nat) : close (close s k) k = close s k := by
  unfold close
  cases hk : s.sess[k]? with
  | none => simp [hk]
  | some x =>
    simp only []
    by_cases hs : x.shutdown = true
    · simp [hs, hk]
    · have hlt : k < s.sess.length := (List.getElem?_eq_some_iff.mp hk).1
      simp [hs, upd, hk, List.getElem?_set, hlt]

/-- the table's reference counts are exactly the sessions holding a reference: nothing is counted twice, nothing is
    forgotten -/
theorem c14_refcount_exact {s : Sys} (hr : Reachable s) (p : Nat) : s.refs p = s.sess.countP (holds p) :=
  (reachable_inv hr).refs p

/-- once every session has been closed and cleaned up the table counts no reference for any memory: every mapping has
    been released (addGlobalBufferManagerRefCount unmaps at zero) -/
theorem c14_all_closed_releases_everything {s : Sys} (hr : Reachable s) (hall : ∀ x ∈ s.sess, x.cleaned = true) (p : Nat) :
    s.refs p = 0 := by
  have h := reachable_inv hr
  rw [h.refs p]
  apply List.countP_eq_zero.mpr
  intro x hx
  have := (h.each x hx).cleanedSd (hall x hx)
  simp [holds, this.2.2.2.1]

/-- a closed session ends up holding nothing: after Close its clean-up is pending or done, and once done the stream
    table is empty, the connection closed, the reference released, the queue unmapped; OnShutdown fired exactly once -/
theorem c14_closed_session_holds_nothing {s : Sys} (hr : Reachable s) (x : Sess) (hx : x ∈ s.sess) (hsd : x.shutdown = true) :
    x.notified = 1 ∧ (x.posted = true ∨ x.cleaned = true) ∧
    (x.cleaned = true → x.streams = 0 ∧ x.connOpen = false ∧ x.holdsRef = false ∧ x.queueMapped = false) := by
  have hi := (reachable_inv hr).each x hx
  refine ⟨by have := hi.notif; simpa [hsd] using this, hi.sdDone hsd, ?_⟩
  intro hc; exact (hi.cleanedSd hc).2

/-- a session that was never closed has lost nothing -/
theorem c14_open_session_intact {s : Sys} (hr : Reachable s) (x : Sess) (hx : x ∈ s.sess) (hsd : x.shutdown = false) :
    x.notified = 0 ∧ x.holdsRef = true ∧ x.queueMapped = true ∧ x.connOpen = true := by
  have hi := (reachable_inv hr).each x hx
  have hnc : x.cleaned = false := by
    cases hc : x.cleaned with
    | false => rfl
    | true => have := (hi.cleanedSd hc).1; simp [hsd] at this
  exact ⟨by have := hi.notif; simpa [hsd] using this, hi.live hnc⟩

/-- the clean-up runs at most once per session: running it again changes nothing -/
theorem c14_cleanup_once (s : Sys) (k : Nat) : cleanup (cleanup s k) k = cleanup s k := by
  cases hk : s.sess[k]? with
  | none => simp [cleanup, hk]
  | some x =>
    by_cases hp : x.posted = true
    · have hlt : k < s.sess.length := (List.getElem?_eq_some_iff.mp hk).1
      have hk' : (cleanup s k).sess[k]? = some x.cleanedUp := by
        unfold cleanup
        simp only [hk, hp]
        simp only [Bool.not_true, Bool.false_eq_true, if_false]
        have hxe : s.sess[k] = x := by
          have := (List.getElem?_eq_some_iff.mp hk).2; exact this
        split <;> simp [upd, hk, Sys.setRef, List.getElem?_set, hlt, hxe]
      generalize cleanup s k = s1 at hk' ⊢
      unfold cleanup
      simp [hk', Sess.cleanedUp]
    · have hp' : x.posted = false := by simpa using hp
      simp [cleanup, hk, hp']

/-- OpenStream on a closed session fails at its check; OpenStream whose insertion comes after the clean-up fails too
    (repaired code: no panic) and leaves the stream table empty -/
theorem c14_open_after_close_fails (s : Sys) (k : Nat) (x : Sess) (hk : s.sess[k]? = some x) :
    (x.shutdown = true → x.opening = false → openCheck s k = (s, .closed)) ∧
    (x.opening = true → x.cleaned = true → (openInsert s k).2 = .closed) := by
  constructor
  · intro h1 h2; simp [openCheck, hk, h1, h2]
  · intro h1 h2; simp [openInsert, hk, h1, h2]


/-! ### F23: the tail of newSession against the event loop -/
section Estab
open Estab

/-- nothing has gone wrong, and as long as the connection is not registered the queue manager is there and nobody is
    closing; the registration is the thread's last step -/
def inv (s : St) : Bool :=
  !s.panicked && (s.registered || (s.qm && !s.closing)) && (!s.registered || s.pc == .done)

theorem inv_step (s : St) (e : Ev) (h : inv s = true) : inv (Estab.step fixedProg s e) = true := by
  rcases s with ⟨pc, qm, reg, cl, pn⟩
  cases pc <;> cases qm <;> cases reg <;> cases cl <;> cases pn <;> cases e <;> first | rfl | (exact absurd h (by decide))

/-- **F23 cannot come back:** with the name recorded before the registration, no interleaving of the session thread with
    a connection that breaks at any moment, and the clean-up that follows, dereferences a dropped queue manager -/
theorem c14_newSession_never_derefs_dropped_qm (l : List Ev) : (Estab.run fixedProg l).panicked = false := by
  have : ∀ (l : List Ev) (s : St), inv s = true → inv (l.foldl (Estab.step fixedProg) s) = true := by
    intro l
    induction l with
    | nil => intro s h; exact h
    | cons e r ih => intro s h; exact ih _ (inv_step s e h)
  have h := this l {} (by decide)
  unfold Estab.run
  revert h
  generalize (List.foldl (Estab.step fixedProg) {} l) = s
  rcases s with ⟨pc, qm, reg, cl, pn⟩
  cases pn
  · intro _; rfl
  · intro h; simp [inv] at h

/-- ... and the order before the repair does: the schedule the harness scenario `early` replays -/
theorem old_order_panics : (Estab.run oldProg [.t, .peerBreak, .cleanup, .t]).panicked = true := by decide

end Estab

end Props.C14
