import ShmVerif.Proof.LBRead
import ShmVerif.Proof.Pigeon
/-!
  Writer half of the byte-pipe refinement.  Every BufferWriter operation of the linked buffer appends exactly the
  written bytes to the abstract content (the concatenation of the slices' unread parts), wherever slice boundaries
  fall, whichever size classes the allocator serves and whether or not it falls back to heap slices; slices of other
  buffers and free slots are never written.
-/
namespace LB
open List

/-! ### list facts -/

theorem writeAt_length (l : List Nat) (a : Nat) (d : List Nat) (h : a + d.length ≤ l.length) :
    (writeAt l a d).length = l.length := by
  unfold writeAt
  simp only [length_append, length_take, length_drop]
  omega

theorem writeAt_window (l : List Nat) (a r : Nat) (d : List Nat) (hr : r ≤ a) (h : a + d.length ≤ l.length) :
    ((writeAt l a d).drop r).take (a + d.length - r) = (l.drop r).take (a - r) ++ d := by
  unfold writeAt
  have h1 : (l.take a).length = a := by simp; omega
  rw [append_assoc, drop_app_le _ _ r (by rw [h1]; exact hr)]
  have h2 : ((l.take a).drop r).length = a - r := by simp; omega
  rw [take_app_ge _ _ _ (by rw [h2]; omega), h2]
  have h3 : a + d.length - r - (a - r) = d.length := by omega
  rw [h3, take_app_ge _ _ _ (Nat.le_refl _)]
  simp only [Nat.sub_self, take_zero, append_nil]
  congr 1
  rw [drop_take]

theorem flatten_set_split : ∀ (fr : List (List Nat)) (c : Nat) (x y : List Nat), fr[c]? = some x →
    ∃ A B, fr.flatten = A ++ x ++ B ∧ (fr.set c y).flatten = A ++ y ++ B
  | [], c, x, y, h => by simp at h
  | z :: r, 0, x, y, h => by
    simp at h; subst h
    exact ⟨[], r.flatten, by simp, by simp⟩
  | z :: r, c + 1, x, y, h => by
    simp at h
    obtain ⟨A, B, e1, e2⟩ := flatten_set_split r c x y h
    exact ⟨z ++ A, B, by simp [e1], by simp [e2]⟩

/-! ### the allocator's invariant and what one allocation guarantees -/

structure Mem.WF (m : Mem) : Prop where
  dataLen : ∀ i, i < m.slots.length → (m.slot i).data.length = (m.slot i).cap
  freeLt : ∀ i ∈ m.free.flatten, i < m.slots.length
  freeNodup : m.free.flatten.Nodup
  freeClean : ∀ i ∈ m.free.flatten, (m.slot i).hdr.size = 0 ∧ (m.slot i).hdr.start = 0
  capPos : ∀ i ∈ m.free.flatten, 0 < (m.slot i).cap

/-- a slice nobody has written yet -/
structure BS.Fresh (m0 m : Mem) (b : BS) : Prop where
  empty : b.ri = b.wi
  room : b.wi < b.cap
  len : (b.bytes m).length = b.cap
  own : ∀ i, b.slot = some i → i ∈ m0.free.flatten ∧ i ∉ m.free.flatten
  start : b.ri = b.start
  hn : ∀ i, b.slot = some i → (m.slot i).hdr.hasNext = false

structure AllocOK (m m' : Mem) (bs : List BS) : Prop where
  data : ∀ j, (m'.slot j).data = (m.slot j).data
  slen : m'.slots.length = m.slots.length
  fresh : ∀ b ∈ bs, b.Fresh m m'
  sub : ∀ i, i ∈ m'.free.flatten → i ∈ m.free.flatten
  nodup : (bs.filterMap (·.slot)).Nodup
  wf : m'.WF
  shm : ∀ b ∈ bs, b.slot.isSome = true
  hdrs : ∀ j, j ∉ m.free.flatten → (m'.slot j).hdr = (m.slot j).hdr

theorem slot_setSlot_hdr (m : Mem) (i j : Nat) (f : Hdr → Hdr) :
    ((m.setSlot i (fun x => { x with hdr := f x.hdr })).slot j).cap = (m.slot j).cap ∧
    (j ≠ i → ((m.setSlot i (fun x => { x with hdr := f x.hdr })).slot j).hdr = (m.slot j).hdr) := by
  unfold Mem.setSlot Mem.slot
  simp only [getD_eq_getElem?_getD, getElem?_modify]
  by_cases h : i = j
  · subst h
    constructor
    · cases hh : m.slots[i]? <;> simp [hh]
    · intro hne; exact absurd rfl hne
  · simp [h]

theorem pop_spec (m : Mem) (c : Nat) (m' : Mem) (b : BS) (hw : m.WF) (h : m.pop c = some (m', b)) :
    AllocOK m m' [b] := by
  unfold Mem.pop at h
  cases hf : m.free.getD c [] with
  | nil => rw [hf] at h; cases h
  | cons i r0 =>
    cases r0 with
    | nil => rw [hf] at h; cases h
    | cons j r =>
      rw [hf] at h
      simp only [Option.some.injEq, Prod.mk.injEq] at h
      obtain ⟨hm, hb⟩ := h
      have hc : m.free[c]? = some (i :: j :: r) := by
        rw [getD_eq_getElem?_getD] at hf
        cases hh : m.free[c]? with
        | none => rw [hh] at hf; cases hf
        | some v => rw [hh] at hf; simp at hf; rw [hf]
      obtain ⟨A, B, e1, e2⟩ := flatten_set_split m.free c (i :: j :: r) (j :: r) hc
      have hnd := hw.freeNodup
      rw [e1] at hnd
      have himem : i ∈ m.free.flatten := by rw [e1]; simp
      have hinot : i ∉ A ++ (j :: r) ++ B := by
        intro hm'
        have hnd' : (A ++ (i :: (j :: r ++ B))).Nodup := by simpa [append_assoc] using hnd
        rw [nodup_append] at hnd'
        obtain ⟨_, h2, h3⟩ := hnd'
        rcases mem_append.mp hm' with h4 | h4
        · rcases mem_append.mp h4 with h5 | h5
          · exact h3 i h5 i (by simp) rfl
          · exact (nodup_cons.mp h2).1 (by simp at h5 ⊢; rcases h5 with h5 | h5; exact Or.inl h5; exact Or.inr (Or.inl h5))
        · exact (nodup_cons.mp h2).1 (by simp; exact Or.inr (Or.inr h4))
      have hsub : ∀ k, k ∈ A ++ (j :: r) ++ B → k ∈ m.free.flatten := by
        intro k hk; rw [e1]
        simp only [mem_append, mem_cons] at hk ⊢
        rcases hk with (hk | hk | hk) | hk
        · exact Or.inl (Or.inl hk)
        · exact Or.inl (Or.inr (Or.inr (Or.inl hk)))
        · exact Or.inl (Or.inr (Or.inr (Or.inr hk)))
        · exact Or.inr hk
      have hfree' : m'.free.flatten = A ++ (j :: r) ++ B := by rw [← hm]; exact e2
      have hslots : ∀ k, (m'.slot k).data = (m.slot k).data ∧ (m'.slot k).cap = (m.slot k).cap ∧ (k ≠ i → (m'.slot k).hdr = (m.slot k).hdr) := by
        intro k
        rw [← hm]
        have h1 := slot_data_setSlot_hdr { m with free := m.free.set c (j :: r) } i k (fun h => { h with hasNext := false, inUsed := true })
        have h2 := slot_setSlot_hdr { m with free := m.free.set c (j :: r) } i k (fun h => { h with hasNext := false, inUsed := true })
        exact ⟨h1, h2.1, h2.2⟩
      have hlen : m'.slots.length = m.slots.length := by rw [← hm]; simp [Mem.setSlot]
      have hclean := hw.freeClean i himem
      refine ⟨fun k => (hslots k).1, hlen, ?_, ?_, ?_, ?_, by intro b' hb'; simp only [mem_singleton] at hb'; subst hb'; rw [← hb]; rfl,
        fun k hk => (hslots k).2.2 (fun e => hk (e ▸ himem))⟩
      · intro b' hb'
        simp only [mem_singleton] at hb'; subst hb'
        rw [← hb]
        have hcap := hw.capPos i himem
        have hsz : ((m'.slot i).hdr).size = 0 ∧ ((m'.slot i).hdr).start = 0 := by
          rw [← hm]
          unfold Mem.setSlot Mem.slot
          have := hw.freeLt i himem
          simp only [getD_eq_getElem?_getD, getElem?_modify, if_true]
          have hi : m.slots[i]? = some (m.slots[i]) := by simp [this]
          unfold Mem.slot at hclean
          simp only [getD_eq_getElem?_getD, hi, Option.getD_some] at hclean
          simp [hi, hclean]
        have hhn : ((m'.slot i).hdr).hasNext = false := by
          rw [← hm]
          unfold Mem.setSlot Mem.slot
          have := hw.freeLt i himem
          have hi : m.slots[i]? = some (m.slots[i]) := by simp [this]
          simp [getD_eq_getElem?_getD, getElem?_modify, hi]
        refine ⟨?_, ?_, ?_, ?_, rfl, fun k hk => by simp only [Option.some.injEq] at hk; subst hk; exact hhn⟩
        · simp only; rw [hm]; simp [hsz.1]
        · simp only; rw [hm, hsz.1, hsz.2, (hslots i).2.1]; simpa using hcap
        · simp only [BS.bytes]; rw [hm, (hslots i).1, (hslots i).2.1]
          exact hw.dataLen i (hw.freeLt i himem)
        · intro k hk
          simp only [Option.some.injEq] at hk; subst hk
          exact ⟨himem, by rw [hfree']; exact hinot⟩
      · intro k hk; rw [hfree'] at hk; exact hsub k hk
      · rw [← hb]; simp
      · refine ⟨?_, ?_, ?_, ?_, ?_⟩
        · intro k hk; rw [(hslots k).1, (hslots k).2.1]; exact hw.dataLen k (by rw [← hlen]; exact hk)
        · intro k hk; rw [hfree'] at hk; rw [hlen]; exact hw.freeLt k (hsub k hk)
        · rw [hfree']
          have hnd' : (A ++ (i :: (j :: r ++ B))).Nodup := by simpa [append_assoc] using hnd
          have : (A ++ (j :: r ++ B)).Nodup := by
            rw [nodup_append] at hnd' ⊢
            exact ⟨hnd'.1, (nodup_cons.mp hnd'.2.1).2, fun a ha b hb => hnd'.2.2 a ha b (mem_cons_of_mem _ hb)⟩
          simpa [append_assoc] using this
        · intro k hk; rw [hfree'] at hk
          have hki : k ≠ i := fun e => hinot (e ▸ hk)
          rw [(hslots k).2.2 hki]; exact hw.freeClean k (hsub k hk)
        · intro k hk; rw [hfree'] at hk
          rw [(hslots k).2.1]; exact hw.capPos k (hsub k hk)

theorem bytes_of_data_eq {m m' : Mem} (h : ∀ j, (m'.slot j).data = (m.slot j).data) (b : BS) : b.bytes m' = b.bytes m := by
  unfold BS.bytes
  cases b.slot with
  | none => rfl
  | some i => exact h i

theorem AllocOK.refl (m : Mem) (hw : m.WF) : AllocOK m m [] :=
  ⟨fun _ => rfl, rfl, fun _ hb => absurd hb (by simp), fun _ h => h, by simp, hw, fun _ hb => absurd hb (by simp), fun _ _ => rfl⟩

theorem AllocOK.trans {m m1 m2 : Mem} {bs1 bs2 : List BS} (h1 : AllocOK m m1 bs1) (h2 : AllocOK m1 m2 bs2) :
    AllocOK m m2 (bs1 ++ bs2) := by
  refine ⟨fun j => (h2.data j).trans (h1.data j), h2.slen.trans h1.slen, ?_, fun i hi => h1.sub i (h2.sub i hi), ?_, h2.wf,
    fun b hb => by rcases mem_append.mp hb with hb | hb; exact h1.shm b hb; exact h2.shm b hb,
    fun j hj => (h2.hdrs j (fun hh => hj (h1.sub j hh))).trans (h1.hdrs j hj)⟩
  · intro b hb
    rcases mem_append.mp hb with hb | hb
    · have f := h1.fresh b hb
      exact ⟨f.empty, f.room, by rw [bytes_of_data_eq h2.data]; exact f.len,
        fun i hi => ⟨(f.own i hi).1, fun hh => (f.own i hi).2 (h2.sub i hh)⟩, f.start,
        fun i hi => by rw [h2.hdrs i (f.own i hi).2]; exact f.hn i hi⟩
    · have f := h2.fresh b hb
      exact ⟨f.empty, f.room, f.len, fun i hi => ⟨h1.sub i (f.own i hi).1, (f.own i hi).2⟩, f.start, f.hn⟩
  · rw [filterMap_append, nodup_append]
    refine ⟨h1.nodup, h2.nodup, ?_⟩
    intro a ha b hb e
    subst e
    simp only [mem_filterMap] at ha hb
    obtain ⟨x, hx, ex⟩ := ha
    obtain ⟨y, hy, ey⟩ := hb
    exact ((h1.fresh x hx).own a ex).2 ((h2.fresh y hy).own a ey).1

theorem allocOne_spec (m : Mem) (size : Nat) (m' : Mem) (b : BS) (hw : m.WF) (h : m.allocOne size = some (m', b)) :
    AllocOK m m' [b] := by
  unfold Mem.allocOne at h
  split at h
  · obtain ⟨c, _, hc⟩ := exists_of_findSome?_eq_some h
    split at hc
    · exact pop_spec m c m' b hw hc
    · cases hc
  · cases h

/-- bookkeeping of allocShmBuffers: `got` is the capacity allocated so far, `remain = size - got`, and every slice but
    the last one was needed (a slice is only popped while `remain > 0`) -/
structure Slack (size : Nat) (acc : List BS) (got : Nat) (remain : Int) : Prop where
  gotEq : got = (acc.map (·.cap)).sum
  rem : remain = (size : Int) - (got : Int)
  need : acc = [] ∨ ((acc.map (·.cap)).dropLast).sum < size

theorem cls_spec (m0 : Mem) (size : Nat) : ∀ (fuel : Nat) (m : Mem) (c : Nat) (remain : Int) (acc : List BS) (got : Nat),
    AllocOK m0 m acc → Slack size acc got remain →
    AllocOK m0 (Mem.allocMany.cls fuel m c remain acc got).1 (Mem.allocMany.cls fuel m c remain acc got).2.1 ∧
    Slack size (Mem.allocMany.cls fuel m c remain acc got).2.1 (Mem.allocMany.cls fuel m c remain acc got).2.2.1
      (Mem.allocMany.cls fuel m c remain acc got).2.2.2 := by
  intro fuel
  induction fuel with
  | zero => intro m c remain acc got h hg; exact ⟨h, hg⟩
  | succ f ih =>
    intro m c remain acc got h hg
    unfold Mem.allocMany.cls
    split
    · rename_i hpos
      cases hp : m.pop c with
      | none => exact ⟨h, hg⟩
      | some r =>
        obtain ⟨m', b⟩ := r
        simp only
        have h1 := pop_spec m c m' b h.wf hp
        refine ih m' c (remain - b.cap) (acc ++ [b]) (got + b.cap) (h.trans h1) ⟨by simp [hg.gotEq], ?_, Or.inr ?_⟩
        · have := hg.rem; omega
        · rw [map_append, map_singleton, dropLast_concat, ← hg.gotEq]
          have := hg.rem; omega
    · exact ⟨h, hg⟩

theorem down_spec (m0 : Mem) (size : Nat) : ∀ (k : Nat) (m : Mem) (remain : Int) (acc : List BS) (got : Nat),
    AllocOK m0 m acc → Slack size acc got remain →
    AllocOK m0 (Mem.allocMany.down k m remain acc got).1 (Mem.allocMany.down k m remain acc got).2.1 ∧
    ∃ r', Slack size (Mem.allocMany.down k m remain acc got).2.1 (Mem.allocMany.down k m remain acc got).2.2 r' := by
  intro k
  induction k with
  | zero => intro m remain acc got h hg; exact ⟨h, remain, hg⟩
  | succ c ih =>
    intro m remain acc got h hg
    unfold Mem.allocMany.down
    split
    · have := cls_spec m0 size (m.slots.length + 1) m c remain acc got h hg
      rcases hr : Mem.allocMany.cls (m.slots.length + 1) m c remain acc got with ⟨m', acc', got', remain'⟩
      rw [hr] at this
      simp only
      exact ih m' remain' acc' got' this.1 this.2
    · exact ⟨h, remain, hg⟩

theorem allocMany_spec (m : Mem) (size : Nat) (hw : m.WF) :
    AllocOK m (m.allocMany size).1 (m.allocMany size).2.1 ∧
    ∃ r', Slack size (m.allocMany size).2.1 (m.allocMany size).2.2 r' := by
  unfold Mem.allocMany
  exact down_spec m size m.caps.length m size [] 0 (AllocOK.refl m hw) ⟨by simp, by simp, Or.inl rfl⟩

/-! ### slice lists of a send buffer -/

def BS.OK (m : Mem) (s : BS) : Prop := s.ri ≤ s.wi ∧ s.wi ≤ s.cap ∧ (s.bytes m).length = s.cap

structure SlInv (m : Mem) (sl : List BS) : Prop where
  ok : ∀ s ∈ sl, s.OK m
  nodup : (sl.filterMap (·.slot)).Nodup
  notFree : ∀ i ∈ sl.filterMap (·.slot), i ∉ m.free.flatten
  lt : ∀ i ∈ sl.filterMap (·.slot), i < m.slots.length
  snd : ∀ s ∈ sl, s.ri = s.start ∧ s.ri < s.cap
  hn : ∀ i ∈ sl.filterMap (·.slot), (m.slot i).hdr.hasNext = false

theorem slInv_alloc {m m' : Mem} {sl bs : List BS} (hw : m.WF) (h : SlInv m sl) (a : AllocOK m m' bs) : SlInv m' (sl ++ bs) := by
  refine ⟨?_, ?_, ?_, ?_, fun s hs => by
    rcases mem_append.mp hs with hs | hs
    · exact h.snd s hs
    · have f := a.fresh s hs
      exact ⟨f.start, by rw [f.empty]; exact f.room⟩, ?_⟩
  · intro s hs
    rcases mem_append.mp hs with hs | hs
    · obtain ⟨h1, h2, h3⟩ := h.ok s hs
      exact ⟨h1, h2, by rw [bytes_of_data_eq a.data]; exact h3⟩
    · have f := a.fresh s hs
      exact ⟨Nat.le_of_eq f.empty, Nat.le_of_lt f.room, f.len⟩
  · rw [filterMap_append, nodup_append]
    refine ⟨h.nodup, a.nodup, ?_⟩
    intro x hx y hy e
    subst e
    simp only [mem_filterMap] at hy
    obtain ⟨b, hb, eb⟩ := hy
    exact h.notFree x hx ((a.fresh b hb).own x eb).1
  · intro i hi
    rw [filterMap_append] at hi
    rcases mem_append.mp hi with hi | hi
    · exact fun hh => h.notFree i hi (a.sub i hh)
    · simp only [mem_filterMap] at hi
      obtain ⟨b, hb, eb⟩ := hi
      exact ((a.fresh b hb).own i eb).2
  · intro i hi
    rw [filterMap_append] at hi
    rw [a.slen]
    rcases mem_append.mp hi with hi | hi
    · exact h.lt i hi
    · simp only [mem_filterMap] at hi
      obtain ⟨b, hb, eb⟩ := hi
      exact hw.freeLt i ((a.fresh b hb).own i eb).1
  · intro i hi
    rw [filterMap_append] at hi
    rcases mem_append.mp hi with hi | hi
    · rw [a.hdrs i (h.notFree i hi)]; exact h.hn i hi
    · simp only [mem_filterMap] at hi
      obtain ⟨b, hb, eb⟩ := hi
      exact (a.fresh b hb).hn i eb

theorem heapSlice_fresh (m0 m : Mem) (n : Nat) (hn : 0 < n) : (heapSlice n).Fresh m0 m :=
  ⟨rfl, hn, by simp [heapSlice, BS.bytes], fun i hi => by simp [heapSlice] at hi, rfl, fun i hi => by simp [heapSlice] at hi⟩

/-- what `linkedBuffer.alloc` guarantees: at least one fresh slice is appended, nothing else changes -/
structure LAlloc (m : Mem) (l : LBuf) (m' : Mem) (l' : LBuf) (new : List BS) (size : Nat) : Prop where
  sl : l'.sl = l.sl ++ new
  ne : new ≠ []
  w : l'.w = l.w
  len : l'.len = l.len
  wf : m'.WF
  data : ∀ j, (m'.slot j).data = (m.slot j).data
  sub : ∀ i, i ∈ m'.free.flatten → i ∈ m.free.flatten
  fresh : ∀ b ∈ new, b.Fresh m m'
  nodup : (new.filterMap (·.slot)).Nodup
  slen : m'.slots.length = m.slots.length
  tight : ((new.map (·.cap)).dropLast).sum < size
  shm : l'.fromShm = true → l.fromShm = true ∧ ∀ b ∈ new, b.slot.isSome = true
  hdrs : ∀ j, j ∉ m.free.flatten → (m'.slot j).hdr = (m.slot j).hdr

theorem lalloc_spec (m : Mem) (l : LBuf) (size : Nat) (hw : m.WF) (hs : 0 < size) :
    ∃ new, LAlloc m l (l.alloc m size).1 (l.alloc m size).2 new size := by
  unfold LBuf.alloc
  cases h1 : m.allocOne size with
  | some r =>
    obtain ⟨m', b⟩ := r
    simp only
    have a := allocOne_spec m size m' b hw h1
    exact ⟨[b], rfl, by simp, rfl, rfl, a.wf, a.data, a.sub, a.fresh, a.nodup, a.slen, by simpa using hs, fun h => ⟨h, a.shm⟩, a.hdrs⟩
  | none =>
    simp only
    have a := allocMany_spec m size hw
    rcases hr : m.allocMany size with ⟨m', bs, got⟩
    rw [hr] at a
    simp only at a ⊢
    obtain ⟨a, r', hg⟩ := a
    by_cases hlt : got < size
    · rw [if_pos hlt]
      refine ⟨bs ++ [heapSlice (max (size - got) defaultSingleBufferSize)], by simp, by simp, rfl, rfl, a.wf, a.data, a.sub, ?_, ?_, a.slen, ?_, fun h => by simp at h, a.hdrs⟩
      · intro b hb
        rcases mem_append.mp hb with hb | hb
        · exact a.fresh b hb
        · simp only [mem_singleton] at hb; subst hb
          exact heapSlice_fresh m m' _ (by unfold defaultSingleBufferSize; omega)
      · rw [filterMap_append]
        have : filterMap (fun x => x.slot) [heapSlice (max (size - got) defaultSingleBufferSize)] = [] := by simp [heapSlice]
        rw [this, append_nil]; exact a.nodup
      · rw [map_append, map_singleton, dropLast_concat, ← hg.gotEq]; exact hlt
    · rw [if_neg hlt]
      have hne : bs ≠ [] := by
        intro e
        have := hg.gotEq
        rw [e] at this
        simp at this
        omega
      refine ⟨bs, rfl, hne, rfl, rfl, a.wf, a.data, a.sub, a.fresh, a.nodup, a.slen, ?_, fun h => ⟨h, a.shm⟩, a.hdrs⟩
      rcases hg.need with h0 | h0
      · exact absurd h0 hne
      · exact h0

theorem slInv_lalloc {m m' : Mem} {l l' : LBuf} {new : List BS} {size : Nat} (hw : m.WF) (h : SlInv m l.sl) (a : LAlloc m l m' l' new size) :
    SlInv m' (l.sl ++ new) := by
  refine ⟨?_, ?_, ?_, ?_, fun s hs => by
    rcases mem_append.mp hs with hs | hs
    · exact h.snd s hs
    · have f := a.fresh s hs
      exact ⟨f.start, by rw [f.empty]; exact f.room⟩, fun i hi => by
    rw [filterMap_append] at hi
    rcases mem_append.mp hi with hi | hi
    · rw [a.hdrs i (h.notFree i hi)]; exact h.hn i hi
    · simp only [mem_filterMap] at hi
      obtain ⟨b, hb, eb⟩ := hi
      exact (a.fresh b hb).hn i eb⟩
  · intro s hs
    rcases mem_append.mp hs with hs | hs
    · obtain ⟨h1, h2, h3⟩ := h.ok s hs
      exact ⟨h1, h2, by rw [bytes_of_data_eq a.data]; exact h3⟩
    · have f := a.fresh s hs
      exact ⟨Nat.le_of_eq f.empty, Nat.le_of_lt f.room, f.len⟩
  · rw [filterMap_append, nodup_append]
    refine ⟨h.nodup, a.nodup, ?_⟩
    intro x hx y hy e
    subst e
    simp only [mem_filterMap] at hy
    obtain ⟨b, hb, eb⟩ := hy
    exact h.notFree x hx ((a.fresh b hb).own x eb).1
  · intro i hi
    rw [filterMap_append] at hi
    rcases mem_append.mp hi with hi | hi
    · exact fun hh => h.notFree i hi (a.sub i hh)
    · simp only [mem_filterMap] at hi
      obtain ⟨b, hb, eb⟩ := hi
      exact ((a.fresh b hb).own i eb).2
  · intro i hi
    rw [filterMap_append] at hi
    rw [a.slen]
    rcases mem_append.mp hi with hi | hi
    · exact h.lt i hi
    · simp only [mem_filterMap] at hi
      obtain ⟨b, hb, eb⟩ := hi
      exact hw.freeLt i ((a.fresh b hb).own i eb).1

/-! ### writing into one slice -/

theorem filterMap_nodup_index {α β : Type} [DecidableEq β] (f : α → Option β) : ∀ (l : List α) (a b : Nat) (x y : α) (v : β),
    (l.filterMap f).Nodup → l[a]? = some x → l[b]? = some y → f x = some v → f y = some v → a = b
  | [], a, b, x, y, v, _, h, _, _, _ => by simp at h
  | z :: r, 0, 0, x, y, v, _, _, _, _, _ => rfl
  | z :: r, 0, b + 1, x, y, v, hn, hx, hy, fx, fy => by
    simp at hx hy; subst hx
    rw [filterMap_cons, fx] at hn
    have : v ∈ r.filterMap f := mem_filterMap.mpr ⟨y, mem_of_getElem? hy, fy⟩
    exact absurd this (nodup_cons.mp hn).1
  | z :: r, a + 1, 0, x, y, v, hn, hx, hy, fx, fy => by
    simp at hx hy; subst hy
    rw [filterMap_cons, fy] at hn
    have : v ∈ r.filterMap f := mem_filterMap.mpr ⟨x, mem_of_getElem? hx, fx⟩
    exact absurd this (nodup_cons.mp hn).1
  | z :: r, a + 1, b + 1, x, y, v, hn, hx, hy, fx, fy => by
    simp at hx hy
    have hn' : (r.filterMap f).Nodup := by
      rw [filterMap_cons] at hn
      split at hn
      · exact hn
      · exact (nodup_cons.mp hn).2
    have := filterMap_nodup_index f r a b x y v hn' hx hy fx fy
    omega

theorem slot_setSlot_data (m : Mem) (i j : Nat) (g : List Nat → List Nat) :
    ((m.setSlot i (fun x => { x with data := g x.data })).slot j) =
      if i = j ∧ j < m.slots.length then { (m.slot j) with data := g (m.slot j).data } else m.slot j := by
  unfold Mem.setSlot Mem.slot
  simp only [getD_eq_getElem?_getD, getElem?_modify]
  by_cases h : i = j
  · subst h
    by_cases hl : i < m.slots.length
    · simp [hl]
    · have : m.slots[i]? = none := by simp; omega
      simp [this, hl]
  · simp [h]

theorem content_split (m : Mem) (sl : List BS) (wi : Nat) (s : BS) (h : sl[wi]? = some s) :
    content m sl = content m (sl.take wi) ++ s.unread m ++ content m (sl.drop (wi + 1)) := by
  have hl : wi < sl.length := by
    rcases Nat.lt_or_ge wi sl.length with h1 | h1
    · exact h1
    · have : sl[wi]? = none := by simp; omega
      rw [this] at h; cases h
  have e : sl = sl.take wi ++ s :: sl.drop (wi + 1) := by
    have h1 : sl[wi] = s := by rw [getElem?_eq_getElem hl] at h; simpa using h
    rw [← h1]; simp
  conv => lhs; rw [e]
  unfold content
  simp [flatMap_append]

theorem content_set (m : Mem) (sl : List BS) (wi : Nat) (s1 : BS) (h : wi < sl.length) :
    content m (sl.set wi s1) = content m (sl.take wi) ++ s1.unread m ++ content m (sl.drop (wi + 1)) := by
  have := content_split m (sl.set wi s1) wi s1 (by simp [h])
  rw [this]
  congr 2
  · rw [take_set_of_le (Nat.le_refl _)]
  · rw [drop_set_of_lt (Nat.lt_succ_self _)]

theorem filterMap_set_same {α β : Type} (f : α → Option β) : ∀ (l : List α) (i : Nat) (x y : α), l[i]? = some x → f y = f x →
    (l.set i y).filterMap f = l.filterMap f
  | [], i, x, y, h, _ => by simp at h
  | z :: r, 0, x, y, h, e => by
    simp at h; subst h
    simp [filterMap_cons, e]
  | z :: r, i + 1, x, y, h, e => by
    simp at h
    simp only [set_cons_succ, filterMap_cons]
    rw [filterMap_set_same f r i x y h e]

structure AppendOK (m : Mem) (sl : List BS) (wi : Nat) (s : BS) (d : List Nat) (m1 : Mem) (s1 : BS) (k : Nat) : Prop where
  kdef : k = min d.length (s.cap - s.wi)
  wf : m1.WF
  inv : SlInv m1 (sl.set wi s1)
  free : m1.free = m.free
  unread : s1.unread m1 = s.unread m ++ d.take k
  others : ∀ j t, j ≠ wi → sl[j]? = some t → t.unread m1 = t.unread m
  ri : s1.ri = s.ri
  wi' : s1.wi = s.wi + k
  cap : s1.cap = s.cap
  slots : m1.slots.length = m.slots.length
  data0 : k = 0 → ∀ j, (m1.slot j).data = (m.slot j).data
  slot : s1.slot = s.slot
  hdr : ∀ j, (m1.slot j).hdr = (m.slot j).hdr
  frame : ∀ j, s.slot ≠ some j → (m1.slot j).data = (m.slot j).data

theorem unread_write (l : List Nat) (ri wi k : Nat) (c : List Nat) (h1 : ri ≤ wi) (h2 : wi + k ≤ l.length) (hc : c.length = k) :
    ((writeAt l wi c).drop ri).take (wi + k - ri) = (l.drop ri).take (wi - ri) ++ c := by
  have := writeAt_window l wi ri c h1 (by rw [hc]; exact h2)
  rw [hc] at this; exact this

theorem append_spec (m : Mem) (sl : List BS) (wi : Nat) (s : BS) (d : List Nat) (hsl : sl[wi]? = some s)
    (hw : m.WF) (hi : SlInv m sl) :
    AppendOK m sl wi s d (s.append m d).1 (s.append m d).2.1 (s.append m d).2.2 := by
  have hmem : s ∈ sl := mem_of_getElem? hsl
  obtain ⟨o1, o2, o3⟩ := hi.ok s hmem
  have hk : min d.length (s.cap - s.wi) ≤ s.cap - s.wi := Nat.min_le_right _ _
  have hlen : (d.take (min d.length (s.cap - s.wi))).length = min d.length (s.cap - s.wi) := by
    rw [length_take]; omega
  unfold BS.append
  cases hs : s.slot with
  | none =>
    simp only
    have hb : s.bytes m = s.heap := by simp [BS.bytes, hs]
    rw [hb] at o3
    have hfm := filterMap_set_same (fun x : BS => x.slot) sl wi s
      { s with heap := writeAt s.heap s.wi (d.take (min d.length (s.cap - s.wi))), wi := s.wi + min d.length (s.cap - s.wi) } hsl rfl
    simp only [hs] at hfm
    have hsnd : ∀ (s1 : BS), s1.ri = s.ri → s1.start = s.start → s1.cap = s.cap → ∀ t ∈ sl.set wi s1, t.ri = t.start ∧ t.ri < t.cap := by
      intro s1 e1 e2 e3 t ht
      rcases mem_or_eq_of_mem_set ht with ht | ht
      · exact hi.snd t ht
      · subst ht
        have := hi.snd s hmem
        rw [e1, e2, e3]; exact this
    refine ⟨rfl, hw, ⟨?_, ?_, ?_, ?_, hsnd _ rfl rfl rfl, by rw [hfm]; exact hi.hn⟩, rfl, ?_, fun j t _ _ => rfl, rfl, rfl, rfl, rfl, fun _ _ => rfl, hs.symm, fun _ => rfl, fun _ _ => rfl⟩
    · intro t ht
      rcases mem_or_eq_of_mem_set ht with ht | ht
      · exact hi.ok t ht
      · subst ht
        refine ⟨by simp only; omega, by simp only; omega, ?_⟩
        simp only [BS.bytes, hs]
        rw [writeAt_length _ _ _ (by rw [hlen]; omega)]; exact o3
    · rw [hfm]; exact hi.nodup
    · rw [hfm]; exact hi.notFree
    · rw [hfm]; exact hi.lt
    · simp only [BS.unread, BS.bytes, hs, BS.size]
      have := unread_write s.heap s.ri s.wi (min d.length (s.cap - s.wi)) (d.take (min d.length (s.cap - s.wi))) o1 (by omega) hlen
      rw [show s.wi + min d.length (s.cap - s.wi) - s.ri = s.wi + min d.length (s.cap - s.wi) - s.ri from rfl] at this
      exact this
  | some i =>
    simp only
    have hb : s.bytes m = (m.slot i).data := by simp [BS.bytes, hs]
    rw [hb] at o3
    have hiN : i ∈ sl.filterMap (·.slot) := mem_filterMap.mpr ⟨s, hmem, hs⟩
    have hiNF := hi.notFree i hiN
    have hil : i < m.slots.length := hi.lt i hiN
    have hfm := filterMap_set_same (fun x : BS => x.slot) sl wi s
      { s with wi := s.wi + min d.length (s.cap - s.wi) } hsl rfl
    simp only [hs] at hfm
    -- the memory after the write
    have hslot := fun j => slot_setSlot_data m i j (fun dd => writeAt dd s.wi (d.take (min d.length (s.cap - s.wi))))
    have hother : ∀ j, j ≠ i → (m.setSlot i (fun x => { x with data := writeAt x.data s.wi (d.take (min d.length (s.cap - s.wi))) })).slot j = m.slot j := by
      intro j hj; rw [hslot j]; simp [Ne.symm hj]
    have hself : (m.setSlot i (fun x => { x with data := writeAt x.data s.wi (d.take (min d.length (s.cap - s.wi))) })).slot i =
        { (m.slot i) with data := writeAt (m.slot i).data s.wi (d.take (min d.length (s.cap - s.wi))) } := by
      rw [hslot i]; simp [hil]
    have hbytes : ∀ t : BS, t.slot ≠ some i →
        t.bytes (m.setSlot i (fun x => { x with data := writeAt x.data s.wi (d.take (min d.length (s.cap - s.wi))) })) = t.bytes m := by
      intro t ht
      unfold BS.bytes
      cases hts : t.slot with
      | none => rfl
      | some j =>
        simp only
        rw [hother j (fun e => ht (by rw [hts, e]))]
    have hdl : (writeAt (m.slot i).data s.wi (d.take (min d.length (s.cap - s.wi)))).length = (m.slot i).data.length :=
      writeAt_length _ _ _ (by rw [hlen]; omega)
    have hnotwi : ∀ j t, j ≠ wi → sl[j]? = some t → t.slot ≠ some i := by
      intro j t hj ht e
      exact hj (filterMap_nodup_index (fun x : BS => x.slot) sl j wi t s i hi.nodup ht hsl e hs)
    have hsnd : ∀ (s1 : BS), s1.ri = s.ri → s1.start = s.start → s1.cap = s.cap → ∀ t ∈ sl.set wi s1, t.ri = t.start ∧ t.ri < t.cap := by
      intro s1 e1 e2 e3 t ht
      rcases mem_or_eq_of_mem_set ht with ht | ht
      · exact hi.snd t ht
      · subst ht
        have := hi.snd s hmem
        rw [e1, e2, e3]; exact this
    have hhdr : ∀ j, ((m.setSlot i (fun x => { x with data := writeAt x.data s.wi (d.take (min d.length (s.cap - s.wi))) })).slot j).hdr = (m.slot j).hdr := by
      intro j
      by_cases e : j = i
      · subst e; rw [hself]
      · rw [hother j e]
    refine ⟨rfl, ?_, ⟨?_, ?_, ?_, ?_, hsnd _ rfl rfl rfl, by rw [hfm]; intro j hj; rw [hhdr j]; exact hi.hn j hj⟩, rfl, ?_, ?_, rfl, rfl, rfl, by simp [Mem.setSlot], ?_, hs.symm, hhdr, fun j hj => by rw [hother j (fun e => hj (by rw [hs, e]))]⟩
    · -- Mem.WF
      refine ⟨?_, ?_, hw.freeNodup, ?_, ?_⟩
      · intro j hj
        have hj' : j < m.slots.length := by simpa [Mem.setSlot] using hj
        by_cases e : j = i
        · subst e; rw [hself]; simp only; rw [hdl]; exact hw.dataLen j hil
        · rw [hother j e]; exact hw.dataLen j hj'
      · intro j hj; simp only [Mem.setSlot, length_modify]; exact hw.freeLt j hj
      · intro j hj
        have : j ≠ i := fun e => hiNF (e ▸ hj)
        rw [hother j this]; exact hw.freeClean j hj
      · intro j hj
        have : j ≠ i := fun e => hiNF (e ▸ hj)
        rw [hother j this]; exact hw.capPos j hj
    · intro t ht
      rcases mem_or_eq_of_mem_set ht with ht | ht
      · obtain ⟨a1, a2, a3⟩ := hi.ok t ht
        by_cases e : t.slot = some i
        · refine ⟨a1, a2, ?_⟩
          simp only [BS.bytes, e] at a3 ⊢
          rw [hself]; simp only; rw [hdl]; exact a3
        · exact ⟨a1, a2, by rw [hbytes t e]; exact a3⟩
      · subst ht
        refine ⟨by simp only; omega, by simp only; omega, ?_⟩
        simp only [BS.bytes, hs]
        rw [hself]; simp only; rw [hdl]; exact o3
    · rw [hfm]; exact hi.nodup
    · rw [hfm]; exact hi.notFree
    · rw [hfm]; simp only [Mem.setSlot, length_modify]; exact hi.lt
    · simp only [BS.unread, BS.bytes, hs, BS.size]
      rw [hself]
      simp only
      exact unread_write (m.slot i).data s.ri s.wi (min d.length (s.cap - s.wi)) (d.take (min d.length (s.cap - s.wi))) o1 (by omega) hlen
    · intro j t hj ht
      unfold BS.unread
      rw [hbytes t (hnotwi j t hj ht)]
    · intro hk0 j
      by_cases e : j = i
      · subst e
        rw [hself]
        simp only
        rw [hk0]
        simp [writeAt]
      · rw [hother j e]

/-! ### WriteBytes -/

theorem content_ext (m1 m : Mem) : ∀ (a : List BS), (∀ (j : Nat) (t : BS), a[j]? = some t → t.unread m1 = t.unread m) → content m1 a = content m a
  | [], _ => rfl
  | x :: r, h => by
    rw [content_cons, content_cons, h 0 x rfl, content_ext m1 m r (fun j t ht => h (j + 1) t (by simpa using ht))]

theorem content_empty (m : Mem) : ∀ (a : List BS), (∀ t ∈ a, t.ri = t.wi) → content m a = []
  | [], _ => rfl
  | x :: r, h => by
    rw [content_cons, content_empty m r (fun t ht => h t (mem_cons_of_mem _ ht))]
    have := h x mem_cons_self
    simp [BS.unread, BS.size, this]

structure WInv (m : Mem) (l : LBuf) (wi : Nat) : Prop where
  sl : SlInv m l.sl
  w : l.w = some wi
  lt : wi < l.sl.length
  tail : ∀ j s, wi < j → l.sl[j]? = some s → s.ri = s.wi ∧ s.wi < s.cap
  full : ∀ j s, j < wi → l.sl[j]? = some s → s.ri < s.wi
  shm : l.fromShm = true → ∀ s ∈ l.sl, s.slot.isSome = true

theorem tail_content_nil {m : Mem} {l : LBuf} {wi : Nat} (h : WInv m l wi) (m' : Mem) : content m' (l.sl.drop (wi + 1)) = [] := by
  apply content_empty
  intro t ht
  obtain ⟨j, hj, e⟩ := getElem_of_mem ht
  have : l.sl[wi + 1 + j]? = some t := by
    rw [← e, ← getElem?_eq_getElem hj, getElem?_drop]
  exact (h.tail (wi + 1 + j) t (by omega) this).1

/-- what a writer call may touch: payload of its own slices and of slots it takes from the free lists, nothing else -/
structure Frame (m : Mem) (l : LBuf) (m' : Mem) (l' : LBuf) : Prop where
  data : ∀ p, p ∉ l.sl.filterMap (·.slot) → p ∉ m.free.flatten → (m'.slot p).data = (m.slot p).data
  origin : ∀ i ∈ l'.sl.filterMap (·.slot), i ∈ l.sl.filterMap (·.slot) ∨ i ∈ m.free.flatten
  sub : ∀ i, i ∈ m'.free.flatten → i ∈ m.free.flatten

theorem Frame.refl (m : Mem) (l : LBuf) : Frame m l m l := ⟨fun _ _ _ => rfl, fun _ h => Or.inl h, fun _ h => h⟩

theorem Frame.trans {m m1 m2 : Mem} {l l1 l2 : LBuf} (a : Frame m l m1 l1) (b : Frame m1 l1 m2 l2) : Frame m l m2 l2 := by
  refine ⟨?_, ?_, fun i hi => a.sub i (b.sub i hi)⟩
  · intro p h1 h2
    have hp1 : p ∉ l1.sl.filterMap (·.slot) := by
      intro hh
      rcases a.origin p hh with h | h
      · exact h1 h
      · exact h2 h
    rw [b.data p hp1 (fun hh => h2 (a.sub p hh)), a.data p h1 h2]
  · intro i hi
    rcases b.origin i hi with h | h
    · exact a.origin i h
    · exact Or.inr (a.sub i h)

theorem shm_set {sl : List BS} {wi : Nat} {s s1 : BS} (hs : sl[wi]? = some s) (e : s1.slot = s.slot)
    (h : ∀ t ∈ sl, t.slot.isSome = true) : ∀ t ∈ sl.set wi s1, t.slot.isSome = true := by
  intro t ht
  rcases mem_or_eq_of_mem_set ht with ht | ht
  · exact h t ht
  · subst ht; rw [e]; exact h s (mem_of_getElem? hs)

/-- slices in front of the (new) write slice are non-empty: the old ones were, and the slice just left is full -/
theorem full_step {sl : List BS} {wi : Nat} {s s1 : BS} (hs : sl[wi]? = some s)
    (hfull : ∀ j t, j < wi → sl[j]? = some t → t.ri < t.wi) (h1 : s1.ri < s1.wi) (rest : List BS) :
    ∀ j t, j < wi + 1 → (sl.set wi s1 ++ rest)[j]? = some t → t.ri < t.wi := by
  have hl : wi < sl.length := by
    rcases Nat.lt_or_ge wi sl.length with h1 | h1
    · exact h1
    · have : sl[wi]? = none := by simp; omega
      rw [this] at hs; cases hs
  intro j t hj ht
  rw [getElem?_append_left (by rw [length_set]; omega)] at ht
  by_cases e : j = wi
  · subst e
    rw [getElem?_set_self hl] at ht
    cases ht; exact h1
  · rw [getElem?_set_ne (fun h => e h.symm)] at ht
    exact hfull j t (by omega) ht

theorem frame_append {m : Mem} {l l' : LBuf} {wi : Nat} {s : BS} {d : List Nat} {m1 : Mem} {s1 : BS} {k : Nat}
    (hs : l.sl[wi]? = some s) (A : AppendOK m l.sl wi s d m1 s1 k) (hl' : l'.sl = l.sl.set wi s1) : Frame m l m1 l' := by
  have hfm := filterMap_set_same (fun x : BS => x.slot) l.sl wi s s1 hs A.slot
  refine ⟨?_, ?_, fun i hi => by rw [A.free] at hi; exact hi⟩
  · intro p h1 _
    apply A.frame
    intro e
    exact h1 (mem_filterMap.mpr ⟨s, mem_of_getElem? hs, e⟩)
  · intro i hi
    rw [hl', hfm] at hi
    exact Or.inl hi

theorem frame_lalloc {m m' : Mem} {l l' : LBuf} {new : List BS} {size : Nat} (a : LAlloc m l m' l' new size) : Frame m l m' l' := by
  refine ⟨fun p _ _ => a.data p, ?_, a.sub⟩
  intro i hi
  rw [a.sl, filterMap_append] at hi
  rcases mem_append.mp hi with hi | hi
  · exact Or.inl hi
  · simp only [mem_filterMap] at hi
    obtain ⟨b, hb, eb⟩ := hi
    exact Or.inr ((a.fresh b hb).own i eb).1

theorem frame_congr {m m' : Mem} {l k l' k' : LBuf} (h : Frame m l m' l') (e : k.sl = l.sl) (e' : k'.sl = l'.sl) : Frame m k m' k' :=
  ⟨fun p h1 h2 => h.data p (by rw [← e]; exact h1) h2, fun i hi => by rw [e]; exact h.origin i (by rw [← e']; exact hi), h.sub⟩

def rooms (sl : List BS) (wi : Nat) : List Nat := (sl.drop wi).map (fun s => s.cap - s.wi)

/-- every slice behind the write slice, except possibly the last one, is needed for the `n` bytes still to be written -/
def Needed (sl : List BS) (wi n : Nat) : Prop := ((rooms sl wi).dropLast).sum < n

theorem sum_map_le {α : Type} (f g : α → Nat) : ∀ (l : List α), (∀ x ∈ l, f x ≤ g x) → (l.map f).sum ≤ (l.map g).sum
  | [], _ => by simp
  | a :: r, h => by
    have h1 := h a mem_cons_self
    have h2 := sum_map_le f g r (fun x hx => h x (mem_cons_of_mem _ hx))
    simp only [map_cons, sum_cons]; omega

theorem rooms_cons {sl : List BS} {wi : Nat} {s : BS} (h : sl[wi]? = some s) :
    rooms sl wi = (s.cap - s.wi) :: rooms sl (wi + 1) := by
  have hl : wi < sl.length := by
    rcases Nat.lt_or_ge wi sl.length with h1 | h1
    · exact h1
    · have : sl[wi]? = none := by simp; omega
      rw [this] at h; cases h
  unfold rooms
  rw [drop_eq_getElem_cons hl]
  have : sl[wi] = s := by rw [getElem?_eq_getElem hl] at h; simpa using h
  rw [this]; rfl

theorem rooms_set {sl : List BS} {wi j : Nat} {s1 : BS} (h : wi < j) : rooms (sl.set wi s1) j = rooms sl j := by
  unfold rooms
  rw [drop_set_of_lt h]

theorem go_spec : ∀ (fuel : Nat) (m : Mem) (l : LBuf) (wi : Nat) (d : List Nat) (n : Nat),
    m.WF → WInv m l wi → d ≠ [] →
    (∀ s, l.sl[wi]? = some s → (s.wi < s.cap → d.length + 1 ≤ fuel) ∧ (s.cap ≤ s.wi → d.length + 2 ≤ fuel)) →
    Needed l.sl wi d.length →
    ∃ m' l' wi', LBuf.writeBytes.go fuel m l d n = some (m', l') ∧ m'.WF ∧ WInv m' l' wi' ∧
      content m' l'.sl = content m l.sl ++ d ∧ l'.len = l.len + n + d.length ∧ wi' + 1 = l'.sl.length ∧
      (∀ t, l'.sl[wi']? = some t → t.ri < t.wi) ∧ Frame m l m' l' := by
  intro fuel
  induction fuel with
  | zero =>
    intro m l wi d n _ hi hd hf _
    have hl := hi.lt
    have : ∃ s, l.sl[wi]? = some s := ⟨l.sl[wi], by simp [hl]⟩
    obtain ⟨s, hs⟩ := this
    have := hf s hs
    rcases Nat.lt_or_ge s.wi s.cap with h1 | h1
    · have := this.1 h1; omega
    · have := this.2 h1; omega
  | succ f ih =>
    intro m l wi d n hw hi hd hf hN
    have hl := hi.lt
    obtain ⟨s, hs⟩ : ∃ s, l.sl[wi]? = some s := ⟨l.sl[wi], by simp [hl]⟩
    have hrooms := rooms_cons hs
    have A := append_spec m l.sl wi s d hs hw hi.sl
    unfold LBuf.writeBytes.go
    rw [hi.w]
    simp only [hs]
    rcases hap : s.append m d with ⟨m1, s1, k⟩
    rw [hap] at A
    simp only at A ⊢
    have hdpos : 0 < d.length := length_pos_iff.mpr hd
    -- content after this slice write
    have hc1 : content m1 (l.sl.set wi s1) = content m l.sl ++ d.take k := by
      rw [content_set m1 l.sl wi s1 hl, content_split m l.sl wi s hs, A.unread]
      have e1 : content m1 (l.sl.take wi) = content m (l.sl.take wi) := by
        apply content_ext
        intro j t ht
        rw [getElem?_take] at ht
        split at ht
        · rename_i hj; exact A.others j t (by omega) ht
        · cases ht
      have e2 : content m1 (l.sl.drop (wi + 1)) = [] := tail_content_nil hi m1
      have e3 : content m (l.sl.drop (wi + 1)) = [] := tail_content_nil hi m
      rw [e1, e2, e3]; simp [append_assoc]
    by_cases hdone : (d.drop k).isEmpty = true
    · rw [if_pos hdone]
      have hk : d.length ≤ k := by
        rw [isEmpty_iff, drop_eq_nil_iff] at hdone; exact hdone
      have hk2 : k = d.length := by have := A.kdef; omega
      have hs1 : s1.ri < s1.wi := by
        have := (hi.sl.ok s (mem_of_getElem? hs)).1
        rw [A.ri, A.wi']; omega
      refine ⟨m1, _, wi, rfl, A.wf, ⟨A.inv, hi.w, by simpa [LBuf.setAt] using hl, ?_, ?_, ?_⟩, ?_, ?_, ?_, ?_, frame_append hs A rfl⟩
      · intro j t hj ht
        simp only [LBuf.setAt] at ht
        rw [getElem?_set_ne (by omega)] at ht
        exact hi.tail j t hj ht
      · intro j t hj ht
        simp only [LBuf.setAt] at ht
        rw [getElem?_set_ne (by omega)] at ht
        exact hi.full j t hj ht
      · intro hf
        exact shm_set hs A.slot (hi.shm hf)
      · simp only [LBuf.setAt]
        rw [hc1, hk2, take_length]
      · simp only [LBuf.setAt]; omega
      · -- the write slice is the last one: a slice behind it would not have been needed
        simp only [LBuf.setAt, length_set]
        rcases Nat.lt_or_ge (wi + 1) l.sl.length with h1 | h1
        · exfalso
          obtain ⟨t, ht⟩ : ∃ t, l.sl[wi + 1]? = some t := ⟨l.sl[wi + 1], by simp [h1]⟩
          have hr2 := rooms_cons ht
          unfold Needed at hN
          rw [hrooms, hr2] at hN
          simp only [dropLast_cons₂, sum_cons] at hN
          have := A.kdef
          omega
        · omega
      · intro t ht
        simp only [LBuf.setAt] at ht
        rw [getElem?_set_self hl] at ht
        cases ht; exact hs1
    · rw [if_neg hdone]
      have hdne : d.drop k ≠ [] := by intro e; rw [e] at hdone; exact hdone rfl
      have hklt : k < d.length := by
        rcases Nat.lt_or_ge k d.length with h1 | h1
        · exact h1
        · exact absurd (drop_eq_nil_iff.mpr h1) hdne
      have hkroom : k = s.cap - s.wi := by have := A.kdef; omega
      have hd1len : (d.drop k).length = d.length - k := length_drop
      -- fuel for the next slice (which will be fresh: room > 0)
      have hfuel : (d.drop k).length + 1 ≤ f := by
        have h0 := hf s hs
        rcases Nat.lt_or_ge s.wi s.cap with h1 | h1
        · have := h0.1 h1; omega
        · have := h0.2 h1; omega
      have hl1 : (l.setAt wi s1).sl.length = l.sl.length := by simp [LBuf.setAt]
      have hs1full : s1.ri < s1.wi := by
        have h1 := (hi.sl.snd s (mem_of_getElem? hs)).2
        have h2 := (hi.sl.ok s (mem_of_getElem? hs)).2.1
        rw [A.ri, A.wi', hkroom]; omega
      -- the state in which the loop continues
      have key : ∃ m2 l2, (if wi + 1 < (l.setAt wi s1).sl.length then (m1, l.setAt wi s1) else (l.setAt wi s1).alloc m1 (d.drop k).length) = (m2, l2) ∧
          m2.WF ∧ wi + 1 < l2.sl.length ∧ WInv m2 { l2 with w := some (wi + 1) } (wi + 1) ∧
          content m2 l2.sl = content m1 (l.sl.set wi s1) ∧ l2.len = l.len ∧
          (∀ t, l2.sl[wi + 1]? = some t → t.wi < t.cap) ∧ Needed l2.sl (wi + 1) (d.drop k).length ∧
          Frame m1 (l.setAt wi s1) m2 l2 := by
        by_cases hnext : wi + 1 < (l.setAt wi s1).sl.length
        · rw [if_pos hnext]
          refine ⟨m1, l.setAt wi s1, rfl, A.wf, hnext, ⟨A.inv, rfl, hnext, ?_, ?_, ?_⟩, rfl, rfl, ?_, ?_, Frame.refl _ _⟩
          · intro j t hj ht
            simp only [LBuf.setAt] at ht
            rw [getElem?_set_ne (by omega)] at ht
            exact hi.tail j t (by omega) ht
          · intro j t hj ht
            have := full_step hs hi.full hs1full [] j t hj (by simpa [LBuf.setAt] using ht)
            exact this
          · intro hf
            exact shm_set hs A.slot (hi.shm hf)
          · intro t ht
            simp only [LBuf.setAt] at ht
            rw [getElem?_set_ne (by omega)] at ht
            exact (hi.tail (wi + 1) t (by omega) ht).2
          · have h1 : wi + 1 < l.sl.length := by rw [hl1] at hnext; exact hnext
            obtain ⟨t, ht⟩ : ∃ t, l.sl[wi + 1]? = some t := ⟨l.sl[wi + 1], by simp [h1]⟩
            have hr2 := rooms_cons ht
            unfold Needed at hN ⊢
            simp only [LBuf.setAt]
            rw [rooms_set (Nat.lt_succ_self wi)]
            rw [hrooms, hr2] at hN
            rw [hr2]
            simp only [dropLast_cons₂, sum_cons] at hN
            rw [hd1len]; omega
        · rw [if_neg hnext]
          obtain ⟨new, a⟩ := lalloc_spec m1 (l.setAt wi s1) (d.drop k).length A.wf (by rw [hd1len]; omega)
          rcases hal : (l.setAt wi s1).alloc m1 (d.drop k).length with ⟨m2, l2⟩
          rw [hal] at a
          simp only at a
          have hsl2 : l2.sl = l.sl.set wi s1 ++ new := a.sl
          have hnl : 0 < new.length := length_pos_iff.mpr a.ne
          have hlen2 : wi + 1 < l2.sl.length := by
            rw [hsl2, length_append, length_set]; omega
          have hwi1 : l.sl.length = wi + 1 := by rw [hl1] at hnext; omega
          refine ⟨m2, l2, rfl, a.wf, hlen2, ⟨?_, rfl, hlen2, ?_, ?_, ?_⟩, ?_, a.len, ?_, ?_, frame_lalloc a⟩
          · show SlInv m2 l2.sl
            rw [hsl2]
            exact slInv_lalloc A.wf A.inv a
          · intro j t hj ht
            have ht' : l2.sl[j]? = some t := ht
            rw [hsl2, getElem?_append_right (by rw [length_set]; omega)] at ht'
            have := a.fresh t (mem_of_getElem? ht')
            exact ⟨this.empty, this.room⟩
          · intro j t hj ht
            have ht' : l2.sl[j]? = some t := ht
            rw [hsl2] at ht'
            exact full_step hs hi.full hs1full new j t hj ht'
          · intro hf
            have hf' : l2.fromShm = true := hf
            obtain ⟨h1, h2⟩ := a.shm hf'
            intro t ht
            have ht' : t ∈ l2.sl := ht
            rw [hsl2] at ht'
            rcases mem_append.mp ht' with ht' | ht'
            · exact shm_set hs A.slot (hi.shm h1) t ht'
            · exact h2 t ht'
          · rw [hsl2]
            have e0 : content m2 (l.sl.set wi s1 ++ new) = content m2 (l.sl.set wi s1) ++ content m2 new := by
              unfold content; rw [flatMap_append]
            have e1 : content m2 (l.sl.set wi s1) = content m1 (l.sl.set wi s1) :=
              content_ext m2 m1 _ (fun j t _ => by unfold BS.unread; rw [bytes_of_data_eq a.data])
            have e2 : content m2 new = [] := content_empty m2 new (fun t ht => (a.fresh t ht).empty)
            rw [e0, e1, e2, append_nil]
          · intro t ht
            rw [hsl2, getElem?_append_right (by rw [length_set]; omega)] at ht
            exact (a.fresh t (mem_of_getElem? ht)).room
          · unfold Needed rooms
            rw [hsl2]
            have hdrop : (l.sl.set wi s1 ++ new).drop (wi + 1) = new := by
              rw [drop_append_of_le_length (by rw [length_set]; omega)]
              rw [drop_eq_nil_of_le (by rw [length_set]; omega), nil_append]
            rw [hdrop, ← map_dropLast]
            have h1 := sum_map_le (fun s : BS => s.cap - s.wi) (fun s : BS => s.cap) new.dropLast (fun x _ => Nat.sub_le _ _)
            have h2 := a.tight
            rw [← map_dropLast] at h2
            omega
      obtain ⟨m2, l2, hk2, hw2, hlt2, hinv2, hc2, hlen2, hroom2, hneed2, hfr2⟩ := key
      rw [hk2]
      simp only [hlt2, if_true]
      -- the slice the loop continues with is fresh
      have hroom : ∀ t, ({ l2 with w := some (wi + 1) } : LBuf).sl[wi + 1]? = some t →
          (t.wi < t.cap → (d.drop k).length + 1 ≤ f) ∧ (t.cap ≤ t.wi → (d.drop k).length + 2 ≤ f) := by
        intro t ht
        refine ⟨fun _ => hfuel, fun hge => ?_⟩
        exfalso
        have := hroom2 t ht
        omega
      obtain ⟨m', l', wi', e, hw', hinv', hc', hlen', htight', hne', hfr'⟩ := ih m2 { l2 with w := some (wi + 1) } (wi + 1) (d.drop k) (n + k) hw2 hinv2 hdne hroom hneed2
      have hfr1 : Frame m l m1 (l.setAt wi s1) := frame_append hs A rfl
      refine ⟨m', l', wi', e, hw', hinv', ?_, ?_, htight', hne', (hfr1.trans hfr2).trans (frame_congr hfr' rfl rfl)⟩
      · rw [hc']
        simp only
        rw [hc2, hc1, append_assoc, take_append_drop]
      · rw [hlen']; simp only; rw [hlen2, hd1len]; omega

/-- a send buffer between two writer calls: nothing allocated yet, or a write slice with only fresh slices behind it -/
def WBuf (m : Mem) (l : LBuf) : Prop :=
  (l.w = none ∧ l.sl = []) ∨ ∃ wi, WInv m l wi ∧ wi + 1 = l.sl.length ∧ ∀ t, l.sl[wi]? = some t → t.ri < t.wi

theorem slInv_nil (m : Mem) : SlInv m [] :=
  ⟨fun _ h => absurd h (by simp), by simp, fun _ h => absurd h (by simp), fun _ h => absurd h (by simp), fun _ h => absurd h (by simp), fun _ h => absurd h (by simp)⟩

theorem lalloc_one {m m' : Mem} {l l' : LBuf} {new : List BS} (a : LAlloc m l m' l' new 1) : new.length = 1 := by
  have h2 := a.tight
  rw [← map_dropLast] at h2
  have hpos : 0 < new.length := length_pos_iff.mpr a.ne
  rcases hd : new.dropLast with _ | ⟨x, r⟩
  · have := length_dropLast (xs := new); rw [hd] at this; simp at this; omega
  · rw [hd] at h2
    have hx : x ∈ new := dropLast_subset new (by rw [hd]; exact mem_cons_self)
    have := (a.fresh x hx).room
    simp only [map_cons, sum_cons] at h2
    omega

/-- the first allocation of an empty send buffer -/
theorem first_alloc (m : Mem) (l : LBuf) (size : Nat) (hw : m.WF) (hs : 0 < size) (hl : l.sl = []) :
    ∃ m' l', l.alloc m size = (m', l') ∧ m'.WF ∧ l'.sl ≠ [] ∧ WInv m' { l' with w := some 0 } 0 ∧ content m' l'.sl = [] ∧ l'.len = l.len ∧
      (∀ t, l'.sl[0]? = some t → t.wi < t.cap) ∧ Needed l'.sl 0 size ∧ (size = 1 → l'.sl.length = 1) ∧ Frame m l m' l' := by
  obtain ⟨new, a⟩ := lalloc_spec m l size hw hs
  rcases hal : l.alloc m size with ⟨m', l'⟩
  rw [hal] at a
  simp only at a
  have hsl : l'.sl = new := by rw [a.sl, hl, nil_append]
  have hpos : 0 < new.length := length_pos_iff.mpr a.ne
  have hneed : Needed new 0 size := by
    unfold Needed rooms
    rw [drop_zero, ← map_dropLast]
    have h1 := sum_map_le (fun s : BS => s.cap - s.wi) (fun s : BS => s.cap) new.dropLast (fun x _ => Nat.sub_le _ _)
    have h2 := a.tight
    rw [← map_dropLast] at h2
    omega
  have hone : size = 1 → new.length = 1 := fun h1 => lalloc_one (h1 ▸ a)
  refine ⟨m', l', rfl, a.wf, by rw [hsl]; exact a.ne, ⟨?_, rfl, by simp only; rw [hsl]; exact hpos, ?_, fun j t hj _ => absurd hj (by omega), ?_⟩, ?_, a.len, ?_, by rw [hsl]; exact hneed, by rw [hsl]; exact hone, frame_lalloc a⟩
  · show SlInv m' l'.sl
    have := slInv_lalloc hw (by rw [hl]; exact slInv_nil m) a
    rw [hl, nil_append] at this
    rw [hsl]; exact this
  · intro j t _ ht
    have ht' : l'.sl[j]? = some t := ht
    rw [hsl] at ht'
    have := a.fresh t (mem_of_getElem? ht')
    exact ⟨this.empty, this.room⟩
  · intro hf t ht
    have hf' : l'.fromShm = true := hf
    have ht' : t ∈ l'.sl := ht
    rw [hsl] at ht'
    exact (a.shm hf').2 t ht'
  · rw [hsl]; exact content_empty m' new (fun t ht => (a.fresh t ht).empty)
  · intro t ht
    rw [hsl] at ht
    exact (a.fresh t (mem_of_getElem? ht)).room

theorem writeBytes_spec (m : Mem) (l : LBuf) (d : List Nat) (hw : m.WF) (hb : WBuf m l) (hd : d ≠ []) :
    ∃ m' l', l.writeBytes m d = some (m', l') ∧ m'.WF ∧ WBuf m' l' ∧
      content m' l'.sl = content m l.sl ++ d ∧ l'.len = l.len + d.length ∧ Frame m l m' l' := by
  have hdpos : 0 < d.length := length_pos_iff.mpr hd
  have hne : d.isEmpty = false := by
    cases d with
    | nil => exact absurd rfl hd
    | cons a r => rfl
  unfold LBuf.writeBytes
  rw [if_neg (by simp [hne])]
  rcases hb with ⟨hwn, hsl⟩ | ⟨wi, hi, htight, _⟩
  · rw [hwn]
    simp only
    obtain ⟨m1, l1, e, hw1, hne1, hinv, hc, hlen, hroom, hneed, _, hfr1⟩ := first_alloc m l d.length hw hdpos hsl
    rw [e]
    simp only
    have hemp : l1.sl.isEmpty = false := by
      cases h : l1.sl with
      | nil => exact absurd h hne1
      | cons a r => rfl
    rw [hemp]
    simp only [Bool.false_eq_true, if_false]
    obtain ⟨m', l', wi', e', hw', hinv', hc', hlen', ht', hn', hfr'⟩ := go_spec (d.length + 2) m1 { l1 with w := some 0 } 0 d 0 hw1 hinv hd
      (fun t ht => ⟨fun _ => by omega, fun hge => by have := hroom t ht; omega⟩) hneed
    refine ⟨m', l', e', hw', Or.inr ⟨wi', hinv', ht', hn'⟩, ?_, ?_, hfr1.trans (frame_congr hfr' rfl rfl)⟩
    · rw [hc']; simp only; rw [hc, hsl]; rfl
    · rw [hlen']; simp only; rw [hlen]; omega
  · rw [hi.w]
    simp only
    have hneed : Needed l.sl wi d.length := by
      obtain ⟨t, ht⟩ : ∃ t, l.sl[wi]? = some t := ⟨l.sl[wi], by simp [hi.lt]⟩
      unfold Needed
      rw [rooms_cons ht]
      have : rooms l.sl (wi + 1) = [] := by unfold rooms; rw [drop_eq_nil_of_le (by omega)]; rfl
      rw [this]; simpa using hdpos
    obtain ⟨m', l', wi', e', hw', hinv', hc', hlen', ht', hn', hfr'⟩ := go_spec (d.length + 2) m l wi d 0 hw hi hd
      (fun t _ => ⟨fun _ => by omega, fun _ => by omega⟩) hneed
    exact ⟨m', l', e', hw', Or.inr ⟨wi', hinv', ht', hn'⟩, hc', by rw [hlen']; omega, hfr'⟩

/-! ### WriteByte -/

theorem append_content {m : Mem} {sl : List BS} {idx : Nat} {s : BS} {d : List Nat} {m1 : Mem} {s1 : BS} {k : Nat}
    (hs : sl[idx]? = some s) (A : AppendOK m sl idx s d m1 s1 k)
    (htail : ∀ j t, idx < j → sl[j]? = some t → t.ri = t.wi) :
    content m1 (sl.set idx s1) = content m sl ++ d.take k := by
  have hl : idx < sl.length := by
    rcases Nat.lt_or_ge idx sl.length with h1 | h1
    · exact h1
    · have : sl[idx]? = none := by simp; omega
      rw [this] at hs; cases hs
  have hnil : ∀ m' : Mem, content m' (sl.drop (idx + 1)) = [] := by
    intro m'
    apply content_empty
    intro t ht
    obtain ⟨j, hj, e⟩ := getElem_of_mem ht
    have : sl[idx + 1 + j]? = some t := by rw [← e, ← getElem?_eq_getElem hj, getElem?_drop]
    exact htail (idx + 1 + j) t (by omega) this
  rw [content_set m1 sl idx s1 hl, content_split m sl idx s hs, A.unread]
  have e1 : content m1 (sl.take idx) = content m (sl.take idx) := by
    apply content_ext
    intro j t ht
    rw [getElem?_take] at ht
    split at ht
    · rename_i hj; exact A.others j t (by omega) ht
    · cases ht
  rw [e1, hnil m1, hnil m]; simp [append_assoc]

theorem slInv_of_same {m m1 : Mem} {sl : List BS} (h : SlInv m sl) (hd : ∀ j, (m1.slot j).data = (m.slot j).data)
    (hf : m1.free = m.free) (hl : m1.slots.length = m.slots.length) (hh : ∀ j, (m1.slot j).hdr = (m.slot j).hdr) : SlInv m1 sl :=
  ⟨fun s hs => by obtain ⟨a, b, c⟩ := h.ok s hs; exact ⟨a, b, by rw [bytes_of_data_eq hd]; exact c⟩,
   h.nodup, fun i hi => by rw [hf]; exact h.notFree i hi, fun i hi => by rw [hl]; exact h.lt i hi, h.snd,
   fun i hi => by rw [hh i]; exact h.hn i hi⟩

theorem writeByte_some (m0 : Mem) (l0 : LBuf) (wi : Nat) (b : Nat) (hw0 : m0.WF) (hi0 : WInv m0 l0 wi)
    (htight : wi + 1 = l0.sl.length) :
    ∃ m' l', l0.writeByte m0 b = some (m', l') ∧ m'.WF ∧ WBuf m' l' ∧
      content m' l'.sl = content m0 l0.sl ++ [b] ∧ l'.len = l0.len + 1 ∧ Frame m0 l0 m' l' := by
  unfold LBuf.writeByte
  rw [hi0.w]
  simp only
  rw [hi0.w]
  simp only
  have hl := hi0.lt
  obtain ⟨ws, hws⟩ : ∃ s, l0.sl[wi]? = some s := ⟨l0.sl[wi], by simp [hl]⟩
  rw [hws]
  simp only
  have A := append_spec m0 l0.sl wi ws [b] hws hw0 hi0.sl
  rcases hap : ws.append m0 [b] with ⟨m1, ws1, k⟩
  rw [hap] at A
  simp only at A ⊢
  have htail0 : ∀ j t, wi < j → l0.sl[j]? = some t → t.ri = t.wi := fun j t hj ht => (hi0.tail j t hj ht).1
  by_cases hk1 : k = 1
  · rw [if_pos hk1]
    have hs1 : ws1.ri < ws1.wi := by
      have := (hi0.sl.ok ws (mem_of_getElem? hws)).1
      rw [A.ri, A.wi']; omega
    refine ⟨m1, _, rfl, A.wf, Or.inr ⟨wi, ⟨A.inv, hi0.w, by simpa [LBuf.setAt] using hl, ?_, ?_, ?_⟩, by simpa [LBuf.setAt] using htight, ?_⟩, ?_, ?_, frame_append hws A rfl⟩
    · intro j t hj ht
      simp only [LBuf.setAt] at ht
      rw [getElem?_set_ne (by omega)] at ht
      exact hi0.tail j t hj ht
    · intro j t hj ht
      simp only [LBuf.setAt] at ht
      rw [getElem?_set_ne (by omega)] at ht
      exact hi0.full j t hj ht
    · intro hf
      exact shm_set hws A.slot (hi0.shm hf)
    · intro t ht
      simp only [LBuf.setAt] at ht
      rw [getElem?_set_self hl] at ht
      cases ht; exact hs1
    · simp only [LBuf.setAt]
      rw [append_content hws A htail0, hk1]; simp
    · simp only [LBuf.setAt]
  · rw [if_neg hk1]
    have hk0 : k = 0 := by
      have := A.kdef
      simp only [length_singleton] at this
      omega
    have hfull : ws.cap ≤ ws.wi := by
      have := A.kdef
      simp only [length_singleton] at this
      omega
    have hsl1 : SlInv m1 l0.sl := slInv_of_same hi0.sl (A.data0 hk0) A.free A.slots A.hdr
    obtain ⟨new, a⟩ := lalloc_spec m1 l0 1 A.wf (by omega)
    rcases hal : l0.alloc m1 1 with ⟨m2, l2⟩
    rw [hal] at a
    simp only at a ⊢
    have hsl2 : l2.sl = l0.sl ++ new := a.sl
    have hnl : 0 < new.length := length_pos_iff.mpr a.ne
    have hlen2 : wi + 1 < l2.sl.length := by rw [hsl2, length_append]; omega
    rw [if_pos hlen2]
    obtain ⟨ns, hns⟩ : ∃ s, l2.sl[wi + 1]? = some s := ⟨l2.sl[wi + 1], by simp [hlen2]⟩
    rw [hns]
    simp only
    have hsl2inv : SlInv m2 l2.sl := by rw [hsl2]; exact slInv_lalloc A.wf hsl1 a
    -- the slice at wi+1 is fresh
    have hfresh : ∀ j t, wi < j → l2.sl[j]? = some t → t.ri = t.wi ∧ t.wi < t.cap := by
      intro j t hj ht
      rw [hsl2] at ht
      by_cases hjl : j < l0.sl.length
      · rw [getElem?_append_left hjl] at ht
        exact hi0.tail j t hj ht
      · rw [getElem?_append_right (by omega)] at ht
        have := a.fresh t (mem_of_getElem? ht)
        exact ⟨this.empty, this.room⟩
    have B := append_spec m2 l2.sl (wi + 1) ns [b] hns a.wf hsl2inv
    rcases hap2 : ns.append m2 [b] with ⟨m3, ns1, k2⟩
    rw [hap2] at B
    simp only at B ⊢
    have hk2 : k2 = 1 := by
      have := B.kdef
      have := (hfresh (wi + 1) ns (by omega) hns).2
      simp only [length_singleton] at *
      omega
    have hnew1 : new.length = 1 := lalloc_one a
    have hns1 : ns1.ri < ns1.wi := by
      have := (hfresh (wi + 1) ns (by omega) hns).1
      rw [B.ri, B.wi', hk2]; omega
    have hfrA : Frame m0 l0 m1 l0 :=
      ⟨fun p h1 _ => A.frame p (fun e => h1 (mem_filterMap.mpr ⟨ws, mem_of_getElem? hws, e⟩)), fun i hi => Or.inl hi,
       fun i hi => by rw [A.free] at hi; exact hi⟩
    have hfrB : Frame m2 l2 m3 (l2.setAt (wi + 1) ns1) := frame_append hns B rfl
    refine ⟨m3, _, rfl, B.wf, Or.inr ⟨wi + 1, ⟨B.inv, rfl, by simpa [LBuf.setAt] using hlen2, ?_, ?_, ?_⟩, by simp only [LBuf.setAt, length_set]; rw [hsl2, length_append]; omega, ?_⟩, ?_, ?_,
      (hfrA.trans (frame_lalloc a)).trans (frame_congr hfrB rfl rfl)⟩
    · intro j t hj ht
      simp only [LBuf.setAt] at ht
      rw [getElem?_set_ne (by omega)] at ht
      exact hfresh j t (by omega) ht
    · intro j t hj ht
      simp only [LBuf.setAt] at ht
      rw [getElem?_set_ne (by omega), hsl2, getElem?_append_left (by omega)] at ht
      by_cases e : j = wi
      · subst e
        rw [hws] at ht; cases ht
        have := (hi0.sl.snd ws (mem_of_getElem? hws)).2
        omega
      · exact hi0.full j t (by omega) ht
    · intro hf
      have hf' : l2.fromShm = true := hf
      obtain ⟨h1, h2⟩ := a.shm hf'
      apply shm_set hns B.slot
      intro t ht
      rw [hsl2] at ht
      rcases mem_append.mp ht with ht | ht
      · exact hi0.shm h1 t ht
      · exact h2 t ht
    · intro t ht
      simp only [LBuf.setAt] at ht
      rw [getElem?_set_self hlen2] at ht
      cases ht; exact hns1
    · simp only [LBuf.setAt]
      rw [append_content hns B (fun j t hj ht => (hfresh j t (by omega) ht).1), hk2]
      -- nothing was written in between: the content is still that of the start
      have e2 : content m2 l2.sl = content m0 l0.sl := by
        rw [hsl2]
        have e0' : content m2 (l0.sl ++ new) = content m2 l0.sl ++ content m2 new := by unfold content; rw [flatMap_append]
        have e1 : content m2 l0.sl = content m0 l0.sl :=
          content_ext m2 m0 _ (fun j t _ => by
            unfold BS.unread
            rw [bytes_of_data_eq a.data, bytes_of_data_eq (A.data0 hk0)])
        have e3 : content m2 new = [] := content_empty m2 new (fun t ht => (a.fresh t ht).empty)
        rw [e0', e1, e3, append_nil]
      rw [e2]; simp
    · simp only [LBuf.setAt]; rw [a.len]

theorem writeByte_spec (m : Mem) (l : LBuf) (b : Nat) (hw : m.WF) (hb : WBuf m l) :
    ∃ m' l', l.writeByte m b = some (m', l') ∧ m'.WF ∧ WBuf m' l' ∧
      content m' l'.sl = content m l.sl ++ [b] ∧ l'.len = l.len + 1 ∧ Frame m l m' l' := by
  rcases hb with ⟨hwn, hsl⟩ | ⟨wi, hi, htight, _⟩
  · obtain ⟨m1, l1, e, hw1, hne1, hinv, hc, hlen, _, _, hone, hfr1⟩ := first_alloc m l 1 hw (by omega) hsl
    have hemp : l1.sl.isEmpty = false := by
      cases h : l1.sl with
      | nil => exact absurd h hne1
      | cons a r => rfl
    obtain ⟨m', l', e', hw', hb', hc', hlen', hfr'⟩ := writeByte_some m1 { l1 with w := some 0 } 0 b hw1 hinv (by simp only; rw [hone rfl])
    refine ⟨m', l', ?_, hw', hb', ?_, ?_, hfr1.trans (frame_congr hfr' rfl rfl)⟩
    · rw [← e']
      unfold LBuf.writeByte
      rw [hwn]
      simp only [e, hemp, Bool.false_eq_true, if_false]
    · rw [hc']; simp only; rw [hc, hsl]; rfl
    · rw [hlen']; simp only; rw [hlen]
  · exact writeByte_some m l wi b hw hi htight

/-! ### the state createBufferManager builds is well formed -/

theorem create_go_inv : ∀ (cs : List (Nat × Nat)) (ci base : Nat) (slots : List MSlot) (free : List (List Nat)),
    base = slots.length → (∀ x ∈ slots, x.data.length = x.cap ∧ x.hdr = {} ∧ 0 < x.cap) → free.flatten = List.range base →
    (∀ c ∈ cs, 0 < c.1) →
    (∀ x ∈ (Mem.create.go cs ci base slots free).1, x.data.length = x.cap ∧ x.hdr = {} ∧ 0 < x.cap) ∧
    (Mem.create.go cs ci base slots free).2.flatten = List.range (Mem.create.go cs ci base slots free).1.length
  | [], ci, base, slots, free, hb, hs, hf, _ => by
    unfold Mem.create.go
    exact ⟨hs, by rw [hf, hb]⟩
  | (cap, n) :: r, ci, base, slots, free, hb, hs, hf, hp => by
    unfold Mem.create.go
    apply create_go_inv r (ci + 1) (base + n)
    · simp [hb]
    · intro x hx
      rcases mem_append.mp hx with hx | hx
      · exact hs x hx
      · have := eq_of_mem_replicate hx
        subst this
        exact ⟨by simp, rfl, hp (cap, n) mem_cons_self⟩
    · rw [flatten_append, hf]
      simp only [flatten_cons, flatten_nil, append_nil]
      rw [range_add]
      congr 1
      apply map_congr_left
      intro a _; omega
    · intro c hc; exact hp c (mem_cons_of_mem _ hc)

theorem create_wf (classes : List (Nat × Nat)) (hpos : ∀ c ∈ classes, 0 < c.1) : (Mem.create classes).WF := by
  have h := create_go_inv classes 0 0 [] [] rfl (fun x hx => absurd hx (by simp)) (by simp) hpos
  unfold Mem.create
  rcases hg : Mem.create.go classes 0 0 [] [] with ⟨slots, free⟩
  rw [hg] at h
  simp only at h ⊢
  obtain ⟨h1, h2⟩ := h
  have hslot : ∀ i, i < slots.length → ({ slots := slots, free := free, caps := classes.map (·.1) } : Mem).slot i = slots[i]! := by
    intro i hi
    simp [Mem.slot, getD_eq_getElem?_getD, hi]
  refine ⟨?_, ?_, ?_, ?_, ?_⟩
  · intro i hi
    have hi' : i < slots.length := hi
    rw [hslot i hi']
    have : slots[i]! ∈ slots := by simp [hi']
    exact (h1 _ this).1
  · intro i hi
    have : i ∈ List.range slots.length := by rw [← h2]; exact hi
    exact mem_range.mp this
  · show free.flatten.Nodup
    rw [h2]; exact nodup_range
  · intro i hi
    have hi' : i < slots.length := by
      have : i ∈ List.range slots.length := by rw [← h2]; exact hi
      exact mem_range.mp this
    rw [hslot i hi']
    have : slots[i]! ∈ slots := by simp [hi']
    rw [(h1 _ this).2.1]; exact ⟨rfl, rfl⟩
  · intro i hi
    have hi' : i < slots.length := by
      have : i ∈ List.range slots.length := by rw [← h2]; exact hi
      exact mem_range.mp this
    rw [hslot i hi']
    have : slots[i]! ∈ slots := by simp [hi']
    exact (h1 _ this).2.2

/-! ### the shared-memory transport: `done` writes the chain into the headers, the peer's `moveChain` reads it back -/

theorem slot_setSlot_hdr_full (m : Mem) (i j : Nat) (g : Hdr → Hdr) :
    (m.setSlot i (fun x => { x with hdr := g x.hdr })).slot j =
      if i = j ∧ j < m.slots.length then { (m.slot j) with hdr := g (m.slot j).hdr } else m.slot j := by
  unfold Mem.setSlot Mem.slot
  simp only [getD_eq_getElem?_getD, getElem?_modify]
  by_cases h : i = j
  · subst h
    by_cases hl : i < m.slots.length
    · simp [hl]
    · have : m.slots[i]? = none := by simp; omega
      simp [this, hl]
  · simp [h]

def hdrUpd (s : BS) (next : Option BS) (h : Hdr) : Hdr :=
  match next with
  | some n => { h with size := s.size, start := s.start, next := n.slot.getD 0, hasNext := true }
  | none => { h with size := s.size, start := s.start }

theorem updateHdr_eq (m : Mem) (s : BS) (next : Option BS) (i : Nat) (hs : s.slot = some i) :
    updateHdr m s next = m.setSlot i (fun x => { x with hdr := hdrUpd s next x.hdr }) := by
  unfold updateHdr hdrUpd
  rw [hs]
  cases next <;> rfl

/-- what `bufferSlice.update` does to the memory: only the header of the slice's own slot changes -/
theorem updateHdr_spec (m : Mem) (s : BS) (next : Option BS) (i : Nat) (hs : s.slot = some i) (hi : i < m.slots.length) :
    (updateHdr m s next).free = m.free ∧ (updateHdr m s next).slots.length = m.slots.length ∧
    (∀ j, ((updateHdr m s next).slot j).data = (m.slot j).data ∧ ((updateHdr m s next).slot j).cap = (m.slot j).cap) ∧
    (∀ j, j ≠ i → ((updateHdr m s next).slot j).hdr = (m.slot j).hdr) ∧
    ((updateHdr m s next).slot i).hdr = hdrUpd s next (m.slot i).hdr := by
  rw [updateHdr_eq m s next i hs]
  have key := fun j => slot_setSlot_hdr_full m i j (hdrUpd s next)
  refine ⟨rfl, by simp [Mem.setSlot], ?_, ?_, ?_⟩
  · intro j; rw [key j]; split <;> exact ⟨rfl, rfl⟩
  · intro j hj; rw [key j]; simp [Ne.symm hj]
  · rw [key i]; simp [hi]

def doneStep (l : LBuf) (m : Mem) (i : Nat) : Mem :=
  match l.sl[i]? with
  | some s => updateHdr m s l.sl[i + 1]?
  | none => m

structure DoneFold (m : Mem) (l : LBuf) (k : Nat) (mk : Mem) : Prop where
  free : mk.free = m.free
  slen : mk.slots.length = m.slots.length
  data : ∀ j, (mk.slot j).data = (m.slot j).data ∧ (mk.slot j).cap = (m.slot j).cap
  set : ∀ j s i, j < k → l.sl[j]? = some s → s.slot = some i → (mk.slot i).hdr = hdrUpd s l.sl[j + 1]? (m.slot i).hdr
  keep : ∀ i, (∀ j s, j < k → l.sl[j]? = some s → s.slot ≠ some i) → (mk.slot i).hdr = (m.slot i).hdr

theorem done_fold (m : Mem) (l : LBuf) (hi : SlInv m l.sl) (hshm : ∀ s ∈ l.sl, s.slot.isSome = true) :
    ∀ k, k ≤ l.sl.length → DoneFold m l k ((List.range k).foldl (doneStep l) m) := by
  intro k
  induction k with
  | zero =>
    intro _
    exact ⟨rfl, rfl, fun _ => ⟨rfl, rfl⟩, fun j s i hj => absurd hj (by omega), fun _ _ => rfl⟩
  | succ k ih =>
    intro hk
    have IH := ih (by omega)
    rw [range_succ, foldl_append]
    simp only [foldl_cons, foldl_nil]
    generalize hmk : (List.range k).foldl (doneStep l) m = mk at IH ⊢
    obtain ⟨sk, hsk⟩ : ∃ s, l.sl[k]? = some s := ⟨l.sl[k], by simp⟩
    obtain ⟨ik, hik⟩ : ∃ i, sk.slot = some i := by
      have := hshm sk (mem_of_getElem? hsk)
      cases h : sk.slot with
      | none => rw [h] at this; cases this
      | some i => exact ⟨i, rfl⟩
    have hikl : ik < mk.slots.length := by
      rw [IH.slen]; exact hi.lt ik (mem_filterMap.mpr ⟨sk, mem_of_getElem? hsk, hik⟩)
    unfold doneStep
    rw [hsk]
    simp only
    obtain ⟨u1, u2, u3, u4, u5⟩ := updateHdr_spec mk sk l.sl[k + 1]? ik hik hikl
    -- slot ik is not the slot of an earlier slice
    have hnot : ∀ j s, j < k → l.sl[j]? = some s → s.slot ≠ some ik := by
      intro j s hj hs e
      have := filterMap_nodup_index (fun x : BS => x.slot) l.sl j k s sk ik hi.nodup hs hsk e hik
      omega
    refine ⟨u1.trans IH.free, u2.trans IH.slen, fun j => ⟨(u3 j).1.trans (IH.data j).1, (u3 j).2.trans (IH.data j).2⟩, ?_, ?_⟩
    · intro j s i hj hs hsi
      by_cases e : j = k
      · subst e
        rw [hsk] at hs; cases hs
        rw [hik] at hsi; cases hsi
        rw [u5, IH.keep ik hnot]
      · have hne : i ≠ ik := by
          intro e2; subst e2
          exact hnot j s (by omega) hs hsi
        rw [u4 i hne]
        exact IH.set j s i (by omega) hs hsi
    · intro i hno
      have hne : i ≠ ik := by
        intro e2; subst e2
        exact hno k sk (by omega) hsk hik
      rw [u4 i hne]
      exact IH.keep i (fun j s hj hs => hno j s (by omega) hs)

theorem done_spec (m : Mem) (l : LBuf) (wi : Nat) (hi : WInv m l wi) (ht : wi + 1 = l.sl.length) (hf : l.fromShm = true) :
    ∃ m1, l.done m = some (m1, l) ∧ DoneFold m l (wi + 1) m1 := by
  have F := done_fold m l hi.sl (hi.shm hf) (wi + 1) (by omega)
  refine ⟨(List.range (wi + 1)).foldl (doneStep l) m, ?_, F⟩
  have hw := hi.w
  rcases l with ⟨sl, w, pn, cp, fs, ln⟩
  simp only at hw hf ht
  subst hw; subst hf
  unfold LBuf.done
  simp only [Bool.not_true, Bool.false_eq_true, if_false]
  have h1 : sl.drop (wi + 1) = [] := drop_eq_nil_of_le (by omega)
  have h2 : sl.take (wi + 1) = sl := take_of_length_le (by omega)
  rw [h1, h2]
  rfl

/-- the slice `readBufferSlice` builds from a slot's header -/
def reSlice (m1 : Mem) (i : Nat) : BS :=
  { slot := some i, cap := (m1.slot i).cap, start := (m1.slot i).hdr.start, ri := (m1.slot i).hdr.start,
    wi := (m1.slot i).hdr.start + (m1.slot i).hdr.size }

theorem readSlice_eq (m1 : Mem) (i : Nat) (h : i < m1.slots.length) : m1.readSlice i = some (reSlice m1 i) := by
  unfold Mem.readSlice reSlice
  rw [if_pos h]

/-- the peer reads the chain back: every slice of the send buffer re-appears, with the same unread bytes, at the end of
    the receive buffer -/
theorem moveChain_spec (m m1 : Mem) (l : LBuf) (wi : Nat) (hw : m.WF) (hi : WInv m l wi) (ht : wi + 1 = l.sl.length)
    (hne : ∀ t, l.sl[wi]? = some t → t.ri < t.wi) (hf : l.fromShm = true) (D : DoneFold m l (wi + 1) m1) :
    ∀ (n j : Nat) (fuel : Nat) (r : LBuf) (sj : BS) (ij : Nat), j + n = wi + 1 → 0 < n → n ≤ fuel →
      l.sl[j]? = some sj → sj.slot = some ij →
      ∃ r', moveChain fuel m1 r ij = some (m1, r') ∧
        content m1 r'.sl = content m1 r.sl ++ content m (l.sl.drop j) ∧
        (SlicesWF m1 r.sl → SlicesWF m1 r'.sl) ∧
        (r.len = (content m1 r.sl).length → r'.len = (content m1 r'.sl).length) := by
  intro n
  induction n with
  | zero => intro j fuel r sj ij _ h0; omega
  | succ n ih =>
    intro j fuel r sj ij hjn _ hfuel hsj hij
    obtain ⟨f, rfl⟩ : ∃ f, fuel = f + 1 := ⟨fuel - 1, by omega⟩
    have hjl : j < l.sl.length := by omega
    have hmem : sj ∈ l.sl := mem_of_getElem? hsj
    have hilt : ij < m.slots.length := hi.sl.lt ij (mem_filterMap.mpr ⟨sj, hmem, hij⟩)
    obtain ⟨o1, o2, o3⟩ := hi.sl.ok sj hmem
    obtain ⟨q1, q2⟩ := hi.sl.snd sj hmem
    have hbytes : sj.bytes m = (m.slot ij).data := by simp [BS.bytes, hij]
    -- the header `done` wrote
    have hhdr := D.set j sj ij (by omega) hsj hij
    have hsz : sj.ri < sj.wi := by
      rcases Nat.lt_or_ge j wi with h1 | h1
      · exact hi.full j sj h1 hsj
      · have : j = wi := by omega
        subst this; exact hne sj hsj
    have hsize : (m1.slot ij).hdr.size = sj.size ∧ (m1.slot ij).hdr.start = sj.start := by
      rw [hhdr]; unfold hdrUpd; split <;> exact ⟨rfl, rfl⟩
    have hpos : ¬ ((reSlice m1 ij).size = 0) := by
      simp only [reSlice, BS.size]; rw [hsize.1]; unfold BS.size; omega
    -- its unread bytes are those of the sender's slice
    have hun : (reSlice m1 ij).unread m1 = sj.unread m := by
      have e1 : (reSlice m1 ij).unread m1 = (((m1.slot ij).data).drop (m1.slot ij).hdr.start).take ((m1.slot ij).hdr.start + (m1.slot ij).hdr.size - (m1.slot ij).hdr.start) := rfl
      have e2 : sj.unread m = ((sj.bytes m).drop sj.ri).take (sj.wi - sj.ri) := rfl
      rw [e1, e2, (D.data ij).1, hsize.1, hsize.2, hbytes, ← q1]
      simp only [BS.size]; congr 1; omega
    have hwf1 : (reSlice m1 ij).WF m1 := by
      have e1 : (reSlice m1 ij).WF m1 = ((m1.slot ij).hdr.start ≤ (m1.slot ij).hdr.start + (m1.slot ij).hdr.size ∧
          (m1.slot ij).hdr.start + (m1.slot ij).hdr.size ≤ ((m1.slot ij).data).length) := rfl
      rw [e1, (D.data ij).1, hsize.1, hsize.2, ← hbytes, o3, ← q1]
      simp only [BS.size]; omega
    have hcons : content m (l.sl.drop j) = sj.unread m ++ content m (l.sl.drop (j + 1)) := by
      rw [drop_eq_getElem_cons hjl, content_cons]
      have : l.sl[j] = sj := by rw [getElem?_eq_getElem hjl] at hsj; simpa using hsj
      rw [this]
    have happ : content m1 (r.appendSlice (reSlice m1 ij)).sl = content m1 r.sl ++ sj.unread m := by
      simp only [LBuf.appendSlice]
      unfold content
      rw [flatMap_append]
      simp only [flatMap_cons, flatMap_nil, append_nil]
      rw [hun]
    have hwfa : SlicesWF m1 r.sl → SlicesWF m1 (r.appendSlice (reSlice m1 ij)).sl := by
      intro h t ht
      simp only [LBuf.appendSlice] at ht
      rcases mem_append.mp ht with ht | ht
      · exact h t ht
      · simp only [mem_singleton] at ht; subst ht; exact hwf1
    have hlena : r.len = (content m1 r.sl).length → (r.appendSlice (reSlice m1 ij)).len = (content m1 (r.appendSlice (reSlice m1 ij)).sl).length := by
      intro h
      rw [happ, length_append, ← hun, BS.unread_length m1 _ hwf1]
      simp only [LBuf.appendSlice]; omega
    unfold moveChain
    rw [readSlice_eq m1 ij (by rw [D.slen]; exact hilt)]
    simp only
    rw [if_neg hpos]
    rcases Nat.lt_or_ge j wi with hlt | hge
    · -- an inner slice: `done` linked it to the next one
      obtain ⟨sn, hsn⟩ : ∃ s, l.sl[j + 1]? = some s := ⟨l.sl[j + 1]'(by omega), by simp⟩
      obtain ⟨inx, hinx⟩ : ∃ i, sn.slot = some i := by
        have := hi.shm hf sn (mem_of_getElem? hsn)
        cases h : sn.slot with
        | none => rw [h] at this; cases this
        | some i => exact ⟨i, rfl⟩
      have hnext : (m1.slot ij).hdr.hasNext = true ∧ (m1.slot ij).hdr.next = inx := by
        rw [hhdr, hsn]; unfold hdrUpd; simp [hinx]
      rw [if_pos hnext.1, hnext.2]
      obtain ⟨r', e, hc, hwf, hlen⟩ := ih (j + 1) f (r.appendSlice (reSlice m1 ij)) sn inx (by omega) (by omega) (by omega) hsn hinx
      refine ⟨r', e, ?_, fun h => hwf (hwfa h), fun h => hlen (hlena h)⟩
      rw [hc, happ, hcons, append_assoc]
    · -- the last slice: its header does not point anywhere
      have hjw : j = wi := by omega
      have hnone : l.sl[j + 1]? = none := by simp; omega
      have hnn : (m1.slot ij).hdr.hasNext = false := by
        rw [hhdr, hnone]; unfold hdrUpd
        exact hi.sl.hn ij (mem_filterMap.mpr ⟨sj, hmem, hij⟩)
      rw [if_neg (by rw [hnn]; simp)]
      refine ⟨_, rfl, ?_, hwfa, hlena⟩
      rw [happ, hcons]
      have : l.sl.drop (j + 1) = [] := drop_eq_nil_of_le (by omega)
      rw [this]; simp [content]

theorem filterMap_length_of_all_some {α β : Type} (f : α → Option β) : ∀ (l : List α), (∀ x ∈ l, (f x).isSome = true) →
    (l.filterMap f).length = l.length
  | [], _ => rfl
  | a :: r, h => by
    have h1 := h a mem_cons_self
    cases hf : f a with
    | none => rw [hf] at h1; cases h1
    | some v =>
      rw [filterMap_cons, hf]
      simp only [length_cons]
      rw [filterMap_length_of_all_some f r (fun x hx => h x (mem_cons_of_mem _ hx))]

/-- **Transport through shared memory.** A send buffer produced by the writer operations (all slices in shared memory,
    the stream not in fall-back) is flushed: `done` writes the chain into the slot headers, the queue element carries the
    offset of the first slice, and the peer's `moveTo` appends the re-read slices to its receive buffer.  The peer's
    buffered byte sequence grows by exactly the sender's buffered byte sequence; no payload byte is touched. -/
theorem transport_shm (m : Mem) (x peer : StreamM) (wi : Nat) (hw : m.WF) (hi : WInv m x.send wi)
    (ht : wi + 1 = x.send.sl.length) (hne : ∀ t, x.send.sl[wi]? = some t → t.ri < t.wi)
    (hlen : x.send.len ≠ 0) (hfb : x.inFallback = false) (hf : x.send.fromShm = true) (hp : peer.pending = []) :
    ∃ m1 x' peer' peer'', flush m x peer = (m1, x', peer', .shm) ∧ moveTo m1 peer' = some (m1, peer'') ∧
      content m1 peer''.recv.sl = content m1 peer.recv.sl ++ content m x.send.sl ∧
      (∀ j, (m1.slot j).data = (m.slot j).data) ∧
      (SlicesWF m1 peer.recv.sl → SlicesWF m1 peer''.recv.sl) ∧
      (peer.recv.len = (content m1 peer.recv.sl).length → peer''.recv.len = (content m1 peer''.recv.sl).length) ∧
      peer''.pending = [] := by
  obtain ⟨m1, hd, D⟩ := done_spec m x.send wi hi ht hf
  have hl0 : 0 < x.send.sl.length := by omega
  obtain ⟨s0, hs0⟩ : ∃ s, x.send.sl[0]? = some s := ⟨x.send.sl[0], by simp⟩
  obtain ⟨i0, hi0⟩ : ∃ i, s0.slot = some i := by
    have := hi.shm hf s0 (mem_of_getElem? hs0)
    cases h : s0.slot with
    | none => rw [h] at this; cases this
    | some i => exact ⟨i, rfl⟩
  have hhead : x.send.sl.head? = some s0 := by
    cases h : x.send.sl with
    | nil => rw [h] at hl0; simp at hl0
    | cons a r => rw [h] at hs0; simpa using hs0
  -- enough fuel: the slices sit in pairwise different slots
  have hfuel : wi + 1 ≤ m1.slots.length + 2 := by
    have h1 := Pigeon.length_le m.slots.length (x.send.sl.filterMap (·.slot)) hi.sl.nodup hi.sl.lt
    rw [filterMap_length_of_all_some _ _ (hi.shm hf)] at h1
    rw [D.slen]; omega
  obtain ⟨r', e, hc, hwf, hlen'⟩ := moveChain_spec m m1 x.send wi hw hi ht hne hf D (wi + 1) 0 (m1.slots.length + 2) peer.recv s0 i0
    (by omega) (by omega) hfuel hs0 hi0
  refine ⟨m1, { x with send := x.send.clean }, { peer with pending := peer.pending ++ [.shm i0] }, { peer with recv := r', pending := [] }, ?_, ?_, ?_, fun j => (D.data j).1, hwf, hlen', rfl⟩
  · unfold flush
    rw [if_neg hlen, hd]
    simp only [hfb, hf, Bool.not_true, Bool.or_false, Bool.false_eq_true, if_false, hhead, hi0]
  · unfold moveTo
    rw [hp]
    simp only [nil_append, foldl_cons, foldl_nil, e]
  · simp only [drop_zero] at hc; exact hc

/-! ### the fall-back transport: the payload is copied into the event -/

theorem foldl_recycle_data (sl : List BS) : ∀ (m : Mem) (j : Nat), ((sl.foldl (fun m s => m.recycle s) m).slot j).data = (m.slot j).data := by
  induction sl with
  | nil => intro m j; rfl
  | cons a r ih => intro m j; simp only [foldl_cons]; rw [ih (m.recycle a) j, recycle_data]

theorem underlying_eq_content (m : Mem) (l : LBuf) (wi : Nat) (hwi : l.w = some wi) (ht : wi + 1 = l.sl.length) :
    l.underlying m = content m l.sl := by
  unfold LBuf.underlying
  rw [hwi]
  simp only
  rw [take_of_length_le (by omega)]
  rfl

/-- **Transport through the connection.** A stream in fall-back state (or whose send buffer contains a heap slice) copies
    its buffered bytes into the event; the peer appends them to its receive buffer as one heap slice. -/
theorem transport_fb (m : Mem) (x peer : StreamM) (wi : Nat) (hi : WInv m x.send wi)
    (ht : wi + 1 = x.send.sl.length) (hlen : x.send.len ≠ 0)
    (hfb : x.inFallback = true ∨ x.send.fromShm = false) (hp : peer.pending = []) :
    ∃ m2 x' peer' peer'', flush m x peer = (m2, x', peer', .fallback) ∧ moveTo m2 peer' = some (m2, peer'') ∧
      content m2 peer''.recv.sl = content m2 peer.recv.sl ++ content m x.send.sl ∧
      (∀ j, (m2.slot j).data = (m.slot j).data) ∧
      (SlicesWF m2 peer.recv.sl → SlicesWF m2 peer''.recv.sl) ∧
      (peer.recv.len = (content m2 peer.recv.sl).length → peer''.recv.len = (content m2 peer''.recv.sl).length) ∧
      peer''.pending = [] ∧ x'.inFallback = true := by
  -- `done`: either nothing (a heap slice is present) or the header chain (payload untouched)
  have hdone : ∃ m1, x.send.done m = some (m1, x.send) ∧ ∀ j, (m1.slot j).data = (m.slot j).data := by
    by_cases hf : x.send.fromShm = true
    · obtain ⟨m1, hd, D⟩ := done_spec m x.send wi hi ht hf
      exact ⟨m1, hd, fun j => (D.data j).1⟩
    · refine ⟨m, ?_, fun _ => rfl⟩
      unfold LBuf.done
      simp [hf]
  obtain ⟨m1, hd, hdata⟩ := hdone
  have hinfb : (x.inFallback || !x.send.fromShm) = true := by
    rcases hfb with h | h
    · simp [h]
    · simp [h]
  -- the bytes that travel
  have hund : x.send.underlying m1 = content m x.send.sl := by
    rw [underlying_eq_content m1 x.send wi hi.w ht]
    exact content_ext m1 m _ (fun j t _ => by unfold BS.unread; rw [bytes_of_data_eq hdata])
  rcases hrc : x.send.recycle m1 with ⟨m2, s2⟩
  have hdata2 : ∀ j, (m2.slot j).data = (m1.slot j).data := by
    intro j
    have : m2 = (x.send.recycle m1).1 := by rw [hrc]
    rw [this]
    unfold LBuf.recycle
    simp only
    rw [foldl_recycle_data, foldl_recycle_data]
  let fbs : BS := { heap := content m x.send.sl, cap := (content m x.send.sl).length, wi := (content m x.send.sl).length }
  have hfun : fbs.unread m2 = content m x.send.sl := by
    simp [fbs, BS.unread, BS.bytes, BS.size]
  have hfwf : fbs.WF m2 := by simp [fbs, BS.WF, BS.bytes]
  refine ⟨m2, { x with send := s2.clean, inFallback := true }, { peer with pending := peer.pending ++ [.fb fbs] },
    { peer with recv := peer.recv.appendSlice fbs, inFallback := true, pending := [] }, ?_, ?_, ?_, fun j => (hdata2 j).trans (hdata j), ?_, ?_, rfl, rfl⟩
  · unfold flush
    rw [if_neg hlen, hd]
    simp only [hinfb, if_true, hund, hrc]
    rfl
  · unfold moveTo
    rw [hp]
    simp only [nil_append, foldl_cons, foldl_nil]
  · simp only [LBuf.appendSlice]
    unfold content
    rw [flatMap_append]
    simp only [flatMap_cons, flatMap_nil, append_nil]
    rw [hfun]; rfl
  · intro h t ht'
    simp only [LBuf.appendSlice] at ht'
    rcases mem_append.mp ht' with h1 | h1
    · exact h t h1
    · simp only [mem_singleton] at h1; subst h1; exact hfwf
  · intro h
    simp only [LBuf.appendSlice]
    have : content m2 (peer.recv.sl ++ [fbs]) = content m2 peer.recv.sl ++ fbs.unread m2 := by
      unfold content; rw [flatMap_append]; simp
    rw [this, length_append, hfun]
    simp [fbs, BS.size]; omega

end LB
