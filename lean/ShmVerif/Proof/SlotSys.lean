import ShmVerif.Proof.SlotAcct
/-!
  Slot accounting of a whole stream pair: two send buffers, two receive buffers, the messages in flight between them
  (chains through the slot headers), one shared memory.
-/
namespace LB
open List

/-! ### message chains in the slot headers -/

/-- `cs` is the chain that starts at `off`: linked in this order through the headers, terminated, no empty slice -/
def IsChain (m : Mem) : Nat → List Nat → Prop
  | _, [] => False
  | off, [c] => c = off ∧ off < m.slots.length ∧ (m.slot off).hdr.size ≠ 0 ∧ (m.slot off).hdr.hasNext = false
  | off, c :: d :: r => c = off ∧ off < m.slots.length ∧ (m.slot off).hdr.size ≠ 0 ∧ (m.slot off).hdr.hasNext = true ∧
      (m.slot off).hdr.next = d ∧ IsChain m d (d :: r)

/-- the chain as a reader with `fuel` steps sees it -/
def chain : Nat → Mem → Nat → List Nat
  | 0, _, _ => []
  | f + 1, m, off =>
    if off < m.slots.length then off :: (if (m.slot off).hdr.hasNext then chain f m (m.slot off).hdr.next else [])
    else []

theorem chain_succ (f : Nat) (m : Mem) (off : Nat) : chain (f + 1) m off =
    if off < m.slots.length then off :: (if (m.slot off).hdr.hasNext then chain f m (m.slot off).hdr.next else []) else [] := rfl

theorem IsChain.head {m : Mem} {off : Nat} {cs : List Nat} (h : IsChain m off cs) : ∃ r, cs = off :: r := by
  cases cs with
  | nil => exact absurd h (by simp [IsChain])
  | cons c r =>
    cases r with
    | nil => exact ⟨[], by rw [h.1]⟩
    | cons d r => exact ⟨d :: r, by rw [h.1]⟩

theorem IsChain.lt {m : Mem} : ∀ {cs : List Nat} {off : Nat}, IsChain m off cs → ∀ p ∈ cs, p < m.slots.length
  | [], _, h => absurd h (by simp [IsChain])
  | [c], off, h => by
    intro p hp; rw [mem_singleton.mp hp, h.1]; exact h.2.1
  | c :: d :: r, off, h => by
    intro p hp
    rcases mem_cons.mp hp with rfl | hp
    · rw [h.1]; exact h.2.1
    · exact IsChain.lt h.2.2.2.2.2 p hp

/-- a chain depends only on the headers of its own slots -/
theorem IsChain.frame {m m' : Mem} (hl : m'.slots.length = m.slots.length) : ∀ {cs : List Nat} {off : Nat}, IsChain m off cs →
    (∀ p ∈ cs, (m'.slot p).hdr = (m.slot p).hdr) → IsChain m' off cs
  | [], _, h, _ => absurd h (by simp [IsChain])
  | [c], off, h, hh => by
    have e := hh c mem_cons_self
    rw [h.1] at e
    exact ⟨h.1, by rw [hl]; exact h.2.1, by rw [e]; exact h.2.2.1, by rw [e]; exact h.2.2.2⟩
  | c :: d :: r, off, h, hh => by
    have e := hh c mem_cons_self
    rw [h.1] at e
    exact ⟨h.1, by rw [hl]; exact h.2.1, by rw [e]; exact h.2.2.1, by rw [e]; exact h.2.2.2.1, by rw [e]; exact h.2.2.2.2.1,
      IsChain.frame hl h.2.2.2.2.2 (fun p hp => hh p (mem_cons_of_mem _ hp))⟩

theorem chain_of_isChain {m : Mem} : ∀ {cs : List Nat} {off : Nat} (f : Nat), IsChain m off cs → cs.length ≤ f → chain f m off = cs
  | [], _, _, h, _ => absurd h (by simp [IsChain])
  | [c], off, f, h, hf => by
    obtain ⟨k, rfl⟩ : ∃ k, f = k + 1 := ⟨f - 1, by simp at hf; omega⟩
    unfold chain
    rw [if_pos h.2.1, h.2.2.2, h.1]
    simp
  | c :: d :: r, off, f, h, hf => by
    obtain ⟨k, rfl⟩ : ∃ k, f = k + 1 := ⟨f - 1, by simp at hf; omega⟩
    unfold chain
    rw [if_pos h.2.1, h.2.2.2.1, h.2.2.2.2.1, h.1]
    simp only [if_true]
    rw [chain_of_isChain k h.2.2.2.2.2 (by simp at hf ⊢; omega)]

/-- the chain function is insensitive to header changes outside the chain -/
theorem chain_frame {m m' : Mem} (hl : m'.slots.length = m.slots.length) : ∀ (f : Nat) (off : Nat),
    (∀ p ∈ chain f m off, (m'.slot p).hdr = (m.slot p).hdr) → chain f m' off = chain f m off
  | 0, _, _ => rfl
  | f + 1, off, hh => by
    rw [chain_succ] at hh
    rw [chain_succ, chain_succ, hl]
    by_cases h : off < m.slots.length
    · simp only [if_pos h] at hh ⊢
      have e := hh off mem_cons_self
      rw [e]
      by_cases hn : (m.slot off).hdr.hasNext = true
      · simp only [if_pos hn] at hh ⊢
        rw [chain_frame hl f _ (fun p hp => hh p (mem_cons_of_mem _ hp))]
      · simp only [if_neg hn]
    · simp only [if_neg h]

theorem reSlice_ok (m : Mem) (i : Nat) (h : i < m.slots.length) : SliceOK m (reSlice m i) := by
  intro j hj
  simp only [reSlice, Option.some.injEq] at hj
  subst hj
  exact ⟨h, rfl⟩

theorem heldS_reSlice (m : Mem) (cs : List Nat) : heldS (cs.map (reSlice m)) = cs := by
  induction cs with
  | nil => rfl
  | cons c r ih =>
    rw [map_cons, heldS_cons, ih]
    rfl

/-- pendingData.moveTo for one shared-memory message: its chain is appended to the receive buffer, slice by slice; the
    memory is not touched -/
theorem moveChain_isChain (m : Mem) : ∀ (cs : List Nat) (off : Nat) (fuel : Nat) (l : LBuf), IsChain m off cs → cs.length ≤ fuel →
    ∃ l', moveChain fuel m l off = some (m, l') ∧ l'.sl = l.sl ++ cs.map (reSlice m) ∧ l'.pinned = l.pinned
  | [], _, _, _, h, _ => absurd h (by simp [IsChain])
  | [c], off, fuel, l, h, hf => by
    obtain ⟨k, rfl⟩ : ∃ k, fuel = k + 1 := ⟨fuel - 1, by simp at hf; omega⟩
    unfold moveChain
    rw [readSlice_eq m off h.2.1]
    simp only
    have hsz : ¬ (reSlice m off).size = 0 := by
      simp only [reSlice, BS.size]
      have := h.2.2.1; omega
    rw [if_neg hsz, h.2.2.2]
    simp only [Bool.false_eq_true, if_false]
    exact ⟨_, rfl, by rw [h.1]; rfl, rfl⟩
  | c :: d :: r, off, fuel, l, h, hf => by
    obtain ⟨k, rfl⟩ : ∃ k, fuel = k + 1 := ⟨fuel - 1, by simp at hf; omega⟩
    unfold moveChain
    rw [readSlice_eq m off h.2.1]
    simp only
    have hsz : ¬ (reSlice m off).size = 0 := by
      simp only [reSlice, BS.size]
      have := h.2.2.1; omega
    rw [if_neg hsz, h.2.2.2.1, h.2.2.2.2.1]
    simp only [if_true]
    obtain ⟨l', e, h1, h2⟩ := moveChain_isChain m (d :: r) d k (l.appendSlice (reSlice m off)) h.2.2.2.2.2 (by simp at hf ⊢; omega)
    refine ⟨l', e, ?_, by rw [h2]; rfl⟩
    rw [h1, h.1]
    simp [LBuf.appendSlice]

theorem heldS_drop_cons {sl : List BS} {j : Nat} {sj : BS} {ij : Nat} (hs : sl[j]? = some sj) (hi : sj.slot = some ij) :
    heldS (sl.drop j) = ij :: heldS (sl.drop (j + 1)) := by
  have hjl : j < sl.length := by
    rcases Nat.lt_or_ge j sl.length with h | h
    · exact h
    · rw [getElem?_eq_none h] at hs; cases hs
  rw [drop_eq_getElem_cons hjl, heldS_cons]
  have : sl[j] = sj := by rw [getElem?_eq_getElem hjl] at hs; simpa using hs
  rw [this]
  simp [heldS, hi]

/-- after `done`, the headers describe exactly the slices of the send buffer, in order -/
theorem done_isChain (m m1 : Mem) (l : LBuf) (wi : Nat) (hi : WInv m l wi) (ht : wi + 1 = l.sl.length)
    (hne : ∀ t, l.sl[wi]? = some t → t.ri < t.wi) (hf : l.fromShm = true) (D : DoneFold m l (wi + 1) m1) :
    ∀ (n j : Nat) (sj : BS) (ij : Nat), j + n = wi + 1 → 0 < n → l.sl[j]? = some sj → sj.slot = some ij →
      IsChain m1 ij (heldS (l.sl.drop j)) := by
  intro n
  induction n with
  | zero => intro j sj ij _ h0; omega
  | succ n ih =>
    intro j sj ij hjn _ hsj hij
    have hmem : sj ∈ l.sl := mem_of_getElem? hsj
    have hilt : ij < m1.slots.length := by rw [D.slen]; exact hi.sl.lt ij (mem_filterMap.mpr ⟨sj, hmem, hij⟩)
    have hhdr := D.set j sj ij (by omega) hsj hij
    have hsz : sj.ri < sj.wi := by
      rcases Nat.lt_or_ge j wi with h1 | h1
      · exact hi.full j sj h1 hsj
      · have : j = wi := by omega
        subst this; exact hne sj hsj
    have hsize : (m1.slot ij).hdr.size ≠ 0 := by
      have : (m1.slot ij).hdr.size = sj.size := by rw [hhdr]; unfold hdrUpd; split <;> rfl
      rw [this]; unfold BS.size; omega
    rw [heldS_drop_cons hsj hij]
    rcases Nat.lt_or_ge j wi with hlt | hge
    · obtain ⟨sn, hsn⟩ : ∃ s, l.sl[j + 1]? = some s := ⟨l.sl[j + 1]'(by omega), by simp⟩
      obtain ⟨inx, hinx⟩ : ∃ i, sn.slot = some i := by
        have := hi.shm hf sn (mem_of_getElem? hsn)
        cases h : sn.slot with
        | none => rw [h] at this; cases this
        | some i => exact ⟨i, rfl⟩
      have hnext : (m1.slot ij).hdr.hasNext = true ∧ (m1.slot ij).hdr.next = inx := by
        rw [hhdr, hsn]; unfold hdrUpd; simp [hinx]
      have IH := ih (j + 1) sn inx (by omega) (by omega) hsn hinx
      rw [heldS_drop_cons hsn hinx] at IH ⊢
      exact ⟨rfl, hilt, hsize, hnext.1, hnext.2, IH⟩
    · have hnone : l.sl[j + 1]? = none := by simp; omega
      have hnn : (m1.slot ij).hdr.hasNext = false := by
        rw [hhdr, hnone]; unfold hdrUpd
        exact hi.sl.hn ij (mem_filterMap.mpr ⟨sj, hmem, hij⟩)
      have : l.sl.drop (j + 1) = [] := drop_eq_nil_of_le (by omega)
      rw [this]
      exact ⟨rfl, hilt, hsize, hnn⟩

/-- bufferManager.recycleBuffers on a chain: every slot of the chain goes back, once -/
theorem recycleChain_acct : ∀ (cs : List Nat) (m : Mem) (off : Nat) (fuel : Nat), Shape m → IsChain m off cs → cs.Nodup →
    cs.length ≤ fuel →
    Geo m (m.recycleChain fuel off) ∧ Shape (m.recycleChain fuel off) ∧
    (∀ j, fc (m.recycleChain fuel off) j = fc m j + cs.count j) ∧
    (∀ p, p ∉ cs → ((m.recycleChain fuel off).slot p).hdr = (m.slot p).hdr) ∧
    (∀ j, ((m.recycleChain fuel off).slot j).data = (m.slot j).data) ∧
    ((∀ i ∈ m.free.flatten, (m.slot i).hdr.size = 0 ∧ (m.slot i).hdr.start = 0) →
      ∀ i ∈ (m.recycleChain fuel off).free.flatten,
        ((m.recycleChain fuel off).slot i).hdr.size = 0 ∧ ((m.recycleChain fuel off).slot i).hdr.start = 0)
  | [], _, _, _, _, h, _, _ => absurd h (by simp [IsChain])
  | [c], m, off, fuel, hs, h, _, hf => by
    obtain ⟨k, rfl⟩ : ∃ k, fuel = k + 1 := ⟨fuel - 1, by simp at hf; omega⟩
    unfold Mem.recycleChain
    rw [readSlice_eq m off h.2.1]
    simp only [h.2.2.2, Bool.false_eq_true, if_false]
    obtain ⟨g, s', c1, h1⟩ := recycle_acct m (reSlice m off) hs (reSlice_ok m off h.2.1)
    have hcl := fun hc => recycle_clean m (reSlice m off) hc c1 h1
    have e : heldS [reSlice m off] = [c] := by rw [h.1]; rfl
    rw [e] at c1 h1
    exact ⟨g, s', c1, h1, fun j => recycle_data m _ j, hcl⟩
  | c :: d :: r, m, off, fuel, hs, h, hn, hf => by
    obtain ⟨k, rfl⟩ : ∃ k, fuel = k + 1 := ⟨fuel - 1, by simp at hf; omega⟩
    unfold Mem.recycleChain
    rw [readSlice_eq m off h.2.1]
    simp only [h.2.2.2.1, if_true, h.2.2.2.2.1]
    obtain ⟨g, s', c1, h1⟩ := recycle_acct m (reSlice m off) hs (reSlice_ok m off h.2.1)
    have hcl := fun hc => recycle_clean m (reSlice m off) hc c1 h1
    have e : heldS [reSlice m off] = [c] := by rw [h.1]; rfl
    rw [e] at c1 h1
    have hnd := nodup_cons.mp hn
    have hch : IsChain (m.recycle (reSlice m off)) d (d :: r) :=
      IsChain.frame g.len h.2.2.2.2.2 (fun p hp => h1 p (fun hx => hnd.1 (by rw [mem_singleton.mp hx] at hp; exact hp)))
    obtain ⟨g2, s2, c2, h2, d2, cl2⟩ := recycleChain_acct (d :: r) _ d k s' hch hnd.2 (by simp at hf ⊢; omega)
    refine ⟨g.trans g2, s2, fun j => ?_, fun p hp => ?_, fun j => by rw [d2, recycle_data], fun hc => cl2 (hcl hc)⟩
    · rw [c2, c1]
      simp only [count_cons, count_nil]
      omega
    · have hp1 : p ∉ [c] := fun hx => hp (by rw [mem_singleton.mp hx]; exact mem_cons_self)
      have hp2 : p ∉ d :: r := fun hx => hp (mem_cons_of_mem _ hx)
      rw [h2 p hp2, h1 p hp1]

/-! ### bystanders: what an operation on one buffer cannot disturb -/

/-- slot `p` is not freed and neither its header nor its payload is written -/
def Untouched (m m' : Mem) (p : Nat) : Prop :=
  p ∉ m'.free.flatten ∧ (m'.slot p).hdr = (m.slot p).hdr ∧ (m'.slot p).data = (m.slot p).data

theorem bytes_untouched {m m' : Mem} {s : BS} (h : ∀ i, s.slot = some i → (m'.slot i).data = (m.slot i).data) :
    s.bytes m' = s.bytes m := by
  unfold BS.bytes
  cases hs : s.slot with
  | none => rfl
  | some i => exact h i hs

theorem SlInv.foreign {m m' : Mem} {sl : List BS} (g : Geo m m') (hu : ∀ p ∈ heldS sl, Untouched m m' p) (h : SlInv m sl) :
    SlInv m' sl := by
  refine ⟨fun s hs => ?_, h.nodup, fun i hi => (hu i hi).1, fun i hi => by rw [g.len]; exact h.lt i hi, h.snd,
    fun i hi => by rw [(hu i hi).2.1]; exact h.hn i hi⟩
  obtain ⟨o1, o2, o3⟩ := h.ok s hs
  refine ⟨o1, o2, ?_⟩
  rw [bytes_untouched (fun i hi => (hu i (mem_filterMap.mpr ⟨s, hs, hi⟩)).2.2)]
  exact o3

theorem WInv.foreign {m m' : Mem} {l : LBuf} {wi : Nat} (g : Geo m m') (hu : ∀ p ∈ heldS l.sl, Untouched m m' p)
    (h : WInv m l wi) : WInv m' l wi :=
  ⟨h.sl.foreign g hu, h.w, h.lt, h.tail, h.full, h.shm⟩

theorem WBuf.foreign {m m' : Mem} {l : LBuf} (g : Geo m m') (hu : ∀ p ∈ heldS l.sl, Untouched m m' p) (h : WBuf m l) :
    WBuf m' l := by
  rcases h with h | ⟨wi, hi, ht, hn⟩
  · exact Or.inl h
  · exact Or.inr ⟨wi, hi.foreign g hu, ht, hn⟩

/-- the slots of the messages in flight towards a stream -/
def flight (m : Mem) (ws : List Wrap) : List Nat :=
  ws.flatMap (fun w => match w with | .shm off => chain m.slots.length m off | .fb _ => [])

def PendOK (m : Mem) (w : Wrap) : Prop :=
  match w with
  | .shm off => IsChain m off (chain m.slots.length m off)
  | .fb s => s.slot = none

def PendsOK (m : Mem) (ws : List Wrap) : Prop := ∀ w ∈ ws, PendOK m w

theorem flight_cons (m : Mem) (w : Wrap) (ws : List Wrap) : flight m (w :: ws) = flight m [w] ++ flight m ws := by
  simp [flight]

theorem PendsOK.foreign {m m' : Mem} (g : Geo m m') : ∀ {ws : List Wrap}, PendsOK m ws →
    (∀ p ∈ flight m ws, (m'.slot p).hdr = (m.slot p).hdr) → PendsOK m' ws ∧ flight m' ws = flight m ws
  | [], _, _ => ⟨(fun _ h => nomatch h), rfl⟩
  | w :: ws, h, hh => by
    rw [flight_cons] at hh
    obtain ⟨h1, h2⟩ := PendsOK.foreign g (fun w' hw' => h w' (mem_cons_of_mem _ hw')) (fun p hp => hh p (mem_append_right _ hp))
    have hw := h w mem_cons_self
    cases w with
    | fb s =>
      refine ⟨fun w' hw' => ?_, ?_⟩
      · rcases mem_cons.mp hw' with rfl | hw'
        · exact hw
        · exact h1 w' hw'
      · rw [flight_cons, flight_cons m, h2]; rfl
    | shm off =>
      have hc : chain m'.slots.length m' off = chain m.slots.length m off := by
        rw [g.len]
        exact chain_frame g.len _ off (fun p hp => hh p (mem_append_left _ (by simpa [flight] using hp)))
      refine ⟨fun w' hw' => ?_, ?_⟩
      · rcases mem_cons.mp hw' with rfl | hw'
        · show IsChain m' off (chain m'.slots.length m' off)
          rw [hc]
          exact IsChain.frame g.len hw (fun p hp => hh p (mem_append_left _ (by simpa [flight] using hp)))
        · exact h1 w' hw'
      · rw [flight_cons, flight_cons m, h2]
        simp [flight, hc]

/-! ### the invariant of a stream pair over one memory -/

structure StOK (m : Mem) (st : StreamM) : Prop where
  send : BufOK m st.send
  recv : BufOK m st.recv
  wbuf : WBuf m st.send
  pend : PendsOK m st.pending

def heldSt (m : Mem) (st : StreamM) : List Nat := heldL st.send ++ heldL st.recv ++ flight m st.pending

theorem StOK.foreign {m m' : Mem} {st : StreamM} (g : Geo m m') (hu : ∀ p ∈ heldSt m st, Untouched m m' p) (h : StOK m st) :
    StOK m' st ∧ heldSt m' st = heldSt m st := by
  have hp := PendsOK.foreign g h.pend (fun p hp => (hu p (mem_append_right _ hp)).2.1)
  refine ⟨⟨h.send.geo g, h.recv.geo g, h.wbuf.foreign g (fun p hp => hu p ?_), hp.1⟩, by unfold heldSt; rw [hp.2]⟩
  exact mem_append_left _ (mem_append_left _ (mem_append_left _ hp))

structure PI (N : Nat) (m : Mem) (X Y : StreamM) : Prop where
  len : m.slots.length = N
  wf : m.WF
  shape : Shape m
  allCap : ∀ i, i < m.slots.length → 0 < (m.slot i).cap
  x : StOK m X
  y : StOK m Y
  part : ∀ j, fc m j + (heldSt m X).count j + (heldSt m Y).count j = if j < m.slots.length then 1 else 0

variable {N : Nat}

theorem PI.symm {m : Mem} {X Y : StreamM} (h : PI N m X Y) : PI N m Y X :=
  ⟨h.len, h.wf, h.shape, h.allCap, h.y, h.x, fun j => by have := h.part j; omega⟩

theorem part_le_one {m : Mem} {X Y : StreamM} (h : PI N m X Y) (j : Nat) :
    fc m j + (heldSt m X).count j + (heldSt m Y).count j ≤ 1 := by
  have := h.part j
  split at this <;> omega

/-- rebuilding `Mem.WF` after a step -/
theorem wf_of {m m' : Mem} (w : m.WF) (ac : ∀ i, i < m.slots.length → 0 < (m.slot i).cap) (g : Geo m m') (sh : Shape m')
    (dl : ∀ j, (m'.slot j).data.length = (m.slot j).data.length)
    (cl : ∀ i ∈ m'.free.flatten, (m'.slot i).hdr.size = 0 ∧ (m'.slot i).hdr.start = 0)
    (nd : ∀ j, fc m' j ≤ 1) : m'.WF := by
  refine ⟨fun i hi => ?_, sh.freeLt, nodup_iff_count.mpr nd, cl, fun i hi => ?_⟩
  · rw [dl, g.cap]; exact w.dataLen i (by rw [← g.len]; exact hi)
  · rw [g.cap]; exact ac i (by rw [← g.len]; exact sh.freeLt i hi)

theorem allCap_geo {m m' : Mem} (ac : ∀ i, i < m.slots.length → 0 < (m.slot i).cap) (g : Geo m m') :
    ∀ i, i < m'.slots.length → 0 < (m'.slot i).cap := fun i hi => by rw [g.cap]; exact ac i (by rw [← g.len]; exact hi)

/-- an operation of the reading kind on the receive buffer of `X` -/
theorem PI.recvStep {m m' : Mem} {X Y : StreamM} {r' : LBuf} (h : PI N m X Y) (a : AcctR m X.recv m' r') :
    PI N m' { X with recv := r' } Y := by
  -- every slot held by somebody else is untouched
  have hun : ∀ p, p ∉ heldL X.recv → 0 < (heldSt m X).count p + (heldSt m Y).count p → Untouched m m' p := by
    intro p hp hc
    have h1 := part_le_one h p
    have hf : p ∉ m.free.flatten := fc_zero.mp (by omega)
    exact ⟨(a.outside hf hp).1, a.hdr p hf hp, a.data p⟩
  have hXs : ∀ p ∈ heldL X.send, Untouched m m' p := by
    intro p hp
    have h1 := part_le_one h p
    have c1 : 0 < (heldL X.send).count p := count_pos_iff.mpr hp
    have e : (heldSt m X).count p = (heldL X.send).count p + (heldL X.recv).count p + (flight m X.pending).count p := by
      simp only [heldSt, count_append]
    exact hun p (count_eq_zero.mp (by omega)) (by omega)
  have hXp : ∀ p ∈ flight m X.pending, Untouched m m' p := by
    intro p hp
    have h1 := part_le_one h p
    have c1 : 0 < (flight m X.pending).count p := count_pos_iff.mpr hp
    have e : (heldSt m X).count p = (heldL X.send).count p + (heldL X.recv).count p + (flight m X.pending).count p := by
      simp only [heldSt, count_append]
    exact hun p (count_eq_zero.mp (by omega)) (by omega)
  have hY : ∀ p ∈ heldSt m Y, Untouched m m' p := by
    intro p hp
    have h1 := part_le_one h p
    have c1 : 0 < (heldSt m Y).count p := count_pos_iff.mpr hp
    have e : (heldSt m X).count p = (heldL X.send).count p + (heldL X.recv).count p + (flight m X.pending).count p := by
      simp only [heldSt, count_append]
    exact hun p (count_eq_zero.mp (by omega)) (by omega)
  obtain ⟨sy, ey⟩ := h.y.foreign a.geo hY
  have hp := PendsOK.foreign a.geo h.x.pend (fun p hp => (hXp p hp).2.1)
  have hpart : ∀ j, fc m' j + (heldSt m' { X with recv := r' }).count j + (heldSt m' Y).count j =
      if j < m'.slots.length then 1 else 0 := by
    intro j
    rw [ey, a.geo.len, ← h.part j]
    have := a.bal j
    simp only [heldSt, hp.2, count_append] at this ⊢
    omega
  refine ⟨by rw [a.geo.len]; exact h.len, ?_, a.shape, allCap_geo h.allCap a.geo,
    ⟨h.x.send.geo a.geo, a.ok, h.x.wbuf.foreign a.geo (fun p hp => hXs p (mem_append_left _ hp)), hp.1⟩, sy, hpart⟩
  refine wf_of h.wf h.allCap a.geo a.shape (fun j => by rw [a.data]) (a.clean h.wf.freeClean) (fun j => ?_)
  have := hpart j
  split at this <;> omega

/-- a writer operation on the send buffer of `X` -/
theorem PI.sendStep {m m' : Mem} {X Y : StreamM} {l' : LBuf} (h : PI N m X Y) (a : Acct m X.send m' l') (wf' : m'.WF)
    (wb : WBuf m' l') (fr : Frame m X.send m' l') : PI N m' { X with send := l' } Y := by
  have hun : ∀ p, p ∉ heldL X.send → 0 < (heldSt m X).count p + (heldSt m Y).count p → Untouched m m' p := by
    intro p hp hc
    have h1 := part_le_one h p
    have hf : p ∉ m.free.flatten := fc_zero.mp (by omega)
    exact ⟨(a.outside hf hp).1, a.hdr p hf hp, fr.data p (fun hx => hp (mem_append_left _ hx)) hf⟩
  have e : ∀ p, (heldSt m X).count p = (heldL X.send).count p + (heldL X.recv).count p + (flight m X.pending).count p := by
    intro p; simp only [heldSt, count_append]
  have hXp : ∀ p ∈ flight m X.pending, Untouched m m' p := by
    intro p hp
    have h1 := part_le_one h p
    have c1 : 0 < (flight m X.pending).count p := count_pos_iff.mpr hp
    have := e p
    exact hun p (count_eq_zero.mp (by omega)) (by omega)
  have hY : ∀ p ∈ heldSt m Y, Untouched m m' p := by
    intro p hp
    have h1 := part_le_one h p
    have c1 : 0 < (heldSt m Y).count p := count_pos_iff.mpr hp
    have := e p
    exact hun p (count_eq_zero.mp (by omega)) (by omega)
  obtain ⟨sy, ey⟩ := h.y.foreign a.geo hY
  have hp := PendsOK.foreign a.geo h.x.pend (fun p hp => (hXp p hp).2.1)
  have hpart : ∀ j, fc m' j + (heldSt m' { X with send := l' }).count j + (heldSt m' Y).count j =
      if j < m'.slots.length then 1 else 0 := by
    intro j
    rw [ey, a.geo.len, ← h.part j]
    have := a.bal j
    simp only [heldSt, hp.2, count_append] at this ⊢
    omega
  exact ⟨by rw [a.geo.len]; exact h.len, wf', a.shape, allCap_geo h.allCap a.geo, ⟨a.ok, h.x.recv.geo a.geo, wb, hp.1⟩, sy, hpart⟩

/-! ### readMore: pendingData.moveTo -/

def mvStep (acc : Option (Mem × StreamM)) (w : Wrap) : Option (Mem × StreamM) :=
  match acc with
  | none => none
  | some (m, st) =>
    match w with
    | .fb s => some (m, { st with recv := st.recv.appendSlice s, inFallback := true })
    | .shm off =>
      match moveChain (m.slots.length + 2) m st.recv off with
      | none => none
      | some (m', r') => some (m', { st with recv := r' })

theorem moveTo_eq (m : Mem) (st : StreamM) : moveTo m st =
    match st.pending.foldl mvStep (some (m, st)) with
    | none => none
    | some (m, st) => some (m, { st with pending := [] }) := rfl

theorem mv_fold (m : Mem) : ∀ (ws : List Wrap) (st : StreamM), PendsOK m ws →
    (∀ off, Wrap.shm off ∈ ws → (chain m.slots.length m off).length ≤ m.slots.length + 2) →
    ∃ st', ws.foldl mvStep (some (m, st)) = some (m, st') ∧ st'.send = st.send ∧ st'.pending = st.pending ∧
      st'.recv.pinned = st.recv.pinned ∧ heldS st'.recv.sl = heldS st.recv.sl ++ flight m ws ∧
      (BufOK m st.recv → BufOK m st'.recv)
  | [], st, _, _ => ⟨st, rfl, rfl, rfl, rfl, by simp [flight], fun h => h⟩
  | w :: ws, st, hp, hl => by
    rw [foldl_cons]
    have hw := hp w mem_cons_self
    cases w with
    | fb s =>
      have hs : s.slot = none := hw
      obtain ⟨st', e, h1, h2, h3, h4, h5⟩ := mv_fold m ws { st with recv := st.recv.appendSlice s, inFallback := true }
        (fun w' hw' => hp w' (mem_cons_of_mem _ hw')) (fun off ho => hl off (mem_cons_of_mem _ ho))
      refine ⟨st', e, h1, h2, h3, ?_, fun hb => h5 ?_⟩
      · rw [h4, flight_cons]
        have : heldS [s] = [] := by simp [heldS, hs]
        simp [LBuf.appendSlice, flight, this]
      · intro t ht
        simp only [LBuf.appendSlice, mem_append, mem_singleton] at ht
        rcases ht with (ht | ht) | ht
        · exact hb t (mem_append_left _ ht)
        · rw [ht]; intro i hi; rw [hs] at hi; cases hi
        · exact hb t (mem_append_right _ ht)
    | shm off =>
      have hc : IsChain m off (chain m.slots.length m off) := hw
      obtain ⟨r', e1, e2, e3⟩ := moveChain_isChain m _ off (m.slots.length + 2) st.recv hc (hl off mem_cons_self)
      have estep : mvStep (some (m, st)) (.shm off) = some (m, { st with recv := r' }) := by
        simp only [mvStep, e1]
      rw [estep]
      obtain ⟨st', e, h1, h2, h3, h4, h5⟩ := mv_fold m ws { st with recv := r' }
        (fun w' hw' => hp w' (mem_cons_of_mem _ hw')) (fun off ho => hl off (mem_cons_of_mem _ ho))
      refine ⟨st', e, h1, h2, by rw [h3]; exact e3, ?_, fun hb => h5 ?_⟩
      · rw [h4, flight_cons]
        simp only [e2, heldS_append, heldS_reSlice, flight, flatMap_cons, flatMap_nil, append_nil, append_assoc]
      · intro t ht
        simp only [e2, e3, mem_append, mem_map] at ht
        rcases ht with (ht | ⟨i, hi, rfl⟩) | ht
        · exact hb t (mem_append_left _ ht)
        · exact reSlice_ok m i (hc.lt i hi)
        · exact hb t (mem_append_right _ ht)

/-! ### Flush -/

/-- what `done` does to a send buffer the writer operations produced: the list is kept, only the headers of its own slots
    are written -/
theorem done_facts (m : Mem) (l : LBuf) (m1 : Mem) (l1 : LBuf) (hb : WBuf m l) (h : l.done m = some (m1, l1)) :
    l1 = l ∧ m1.free = m.free ∧ (∀ j, (m1.slot j).data = (m.slot j).data) ∧
    ∀ p, p ∉ heldS l.sl → (m1.slot p).hdr = (m.slot p).hdr := by
  by_cases hf : l.fromShm = true
  · rcases hb with ⟨hw, _⟩ | ⟨wi, hi, ht, _⟩
    · unfold LBuf.done at h
      simp [hf, hw] at h
    · obtain ⟨m1', hd, D⟩ := done_spec m l wi hi ht hf
      rw [hd] at h
      simp only [Option.some.injEq, Prod.mk.injEq] at h
      obtain ⟨rfl, rfl⟩ := h
      refine ⟨rfl, D.free, fun j => (D.data j).1, fun p hp => D.keep p (fun j s _ hs e => hp ?_)⟩
      exact mem_filterMap.mpr ⟨s, mem_of_getElem? hs, e⟩
  · unfold LBuf.done at h
    simp only [hf, Bool.not_false, if_true, Option.some.injEq, Prod.mk.injEq] at h
    obtain ⟨rfl, rfl⟩ := h
    exact ⟨rfl, rfl, fun _ => rfl, fun _ _ => rfl⟩

theorem flight_append (m : Mem) (a b : List Wrap) : flight m (a ++ b) = flight m a ++ flight m b := by
  simp [flight]

/-- the send buffer of `X` is replaced and (possibly) a message is put in flight towards `Y` -/
theorem PI.rebuild {m m' : Mem} {X Y : StreamM} (h : PI N m X Y) (g : Geo m m') (sh : Shape m')
    (unt : ∀ p, p ∉ heldL X.send → 0 < (heldSt m X).count p + (heldSt m Y).count p → Untouched m m' p)
    (dl : ∀ j, (m'.slot j).data.length = (m.slot j).data.length)
    (cl : ∀ i ∈ m'.free.flatten, (m'.slot i).hdr.size = 0 ∧ (m'.slot i).hdr.start = 0)
    (l' : LBuf) (ws : List Wrap) (fbx : Bool) (okl : BufOK m' l') (wbl : WBuf m' l') (pw : PendsOK m' ws)
    (bal : ∀ j, fc m' j + (heldL l').count j + (flight m' ws).count j = fc m j + (heldL X.send).count j) :
    PI N m' { X with send := l', inFallback := fbx } { Y with pending := Y.pending ++ ws } := by
  have e : ∀ p, (heldSt m X).count p = (heldL X.send).count p + (heldL X.recv).count p + (flight m X.pending).count p := by
    intro p; simp only [heldSt, count_append]
  have hXp : ∀ p ∈ flight m X.pending, Untouched m m' p := by
    intro p hp
    have h1 := part_le_one h p
    have c1 : 0 < (flight m X.pending).count p := count_pos_iff.mpr hp
    have := e p
    exact unt p (count_eq_zero.mp (by omega)) (by omega)
  have hY : ∀ p ∈ heldSt m Y, Untouched m m' p := by
    intro p hp
    have h1 := part_le_one h p
    have c1 : 0 < (heldSt m Y).count p := count_pos_iff.mpr hp
    have := e p
    exact unt p (count_eq_zero.mp (by omega)) (by omega)
  obtain ⟨sy, ey⟩ := h.y.foreign g hY
  have hp := PendsOK.foreign g h.x.pend (fun p hp => (hXp p hp).2.1)
  have eY : heldSt m' { Y with pending := Y.pending ++ ws } = heldSt m' Y ++ flight m' ws := by
    simp only [heldSt, flight_append, append_assoc]
  have hpart : ∀ j, fc m' j + (heldSt m' { X with send := l', inFallback := fbx }).count j +
      (heldSt m' { Y with pending := Y.pending ++ ws }).count j = if j < m'.slots.length then 1 else 0 := by
    intro j
    rw [eY, count_append, ey, g.len, ← h.part j]
    have := bal j
    simp only [heldSt, hp.2, count_append] at this ⊢
    omega
  refine ⟨by rw [g.len]; exact h.len, ?_, sh, allCap_geo h.allCap g, ⟨okl, h.x.recv.geo g, wbl, hp.1⟩,
    ⟨sy.send, sy.recv, sy.wbuf, fun w hw => ?_⟩, hpart⟩
  · refine wf_of h.wf h.allCap g sh dl cl (fun j => ?_)
    have := hpart j
    split at this <;> omega
  · rcases mem_append.mp hw with hw | hw
    · exact sy.pend w hw
    · exact pw w hw

theorem freeClean_done {m m1 : Mem} {l : LBuf} (w : m.WF) (hb : WBuf m l) (hfree : m1.free = m.free)
    (hh : ∀ p, p ∉ heldS l.sl → (m1.slot p).hdr = (m.slot p).hdr) :
    ∀ i ∈ m1.free.flatten, (m1.slot i).hdr.size = 0 ∧ (m1.slot i).hdr.start = 0 := by
  intro i hi
  rw [hfree] at hi
  have hni : i ∉ heldS l.sl := by
    rcases hb with ⟨_, hsl⟩ | ⟨wi, hinv, _, _⟩
    · rw [hsl]; simp
    · exact fun hx => hinv.sl.notFree i hx hi
  rw [hh i hni]
  exact w.freeClean i hi

/-- Stream.Flush: the send buffer goes in flight towards the peer (shared-memory transport) or is copied and given back
    (fall-back transport) -/
theorem PI.flushStep {m : Mem} {X Y : StreamM} (h : PI N m X Y) (hr : (flush m X Y).2.2.2 ≠ .panic) :
    PI N (flush m X Y).1 (flush m X Y).2.1 (flush m X Y).2.2.1 := by
  unfold flush at hr ⊢
  by_cases hl : X.send.len = 0
  · simp only [hl, if_true]; exact h
  · simp only [hl, if_false] at hr ⊢
    cases hd : X.send.done m with
    | none => rw [hd] at hr; exact absurd rfl hr
    | some r =>
      obtain ⟨m1, s1⟩ := r
      rw [hd] at hr
      simp only at hr ⊢
      obtain ⟨rfl, hfree, hdata, hhdr⟩ := done_facts m X.send m1 s1 h.x.wbuf hd
      have a0 : Acct m X.send m1 X.send := done_acct m X.send m1 X.send h.shape h.x.send hd
      have hfc : ∀ j, fc m1 j = fc m j := fun j => by unfold fc; rw [hfree]
      have hcl1 := freeClean_done h.wf h.x.wbuf hfree hhdr
      have hnotfree : ∀ p, 0 < (heldSt m X).count p + (heldSt m Y).count p → p ∉ m.free.flatten := by
        intro p hc
        have h1 := part_le_one h p
        exact fc_zero.mp (by omega)
      by_cases hfb : (X.inFallback || !X.send.fromShm) = true
      · -- fall-back transport
        simp only [hfb, if_true]
        obtain ⟨aR, hheld⟩ := lrecycle_acct m1 X.send a0.shape a0.ok
        have at' := a0.trans aR.toAcct
        have hrec : (X.send.recycle m1).2 = {} := rfl
        have := PI.rebuild h at'.geo at'.shape
          (fun p hp hc => ⟨(at'.outside (hnotfree p hc) hp).1, at'.hdr p (hnotfree p hc) hp, by rw [aR.data, hdata]⟩)
          (fun j => by rw [aR.data, hdata]) (aR.clean hcl1) ({} : LBuf)
          [.fb { heap := X.send.underlying m1, cap := (X.send.underlying m1).length, wi := (X.send.underlying m1).length }] true
          (fun t ht => by simp at ht) (Or.inl ⟨rfl, rfl⟩)
          (fun w hw => by rw [mem_singleton.mp hw]; rfl)
          (fun j => by
            have b1 := aR.bal j
            rw [hheld] at b1
            have h0 : heldL ({} : LBuf) = [] := rfl
            simp only [h0, flight, flatMap_cons, flatMap_nil, append_nil, count_nil] at b1 ⊢
            rw [hfc] at b1; omega)
        exact this
      · -- shared-memory transport
        simp only [hfb, Bool.false_eq_true, if_false] at hr ⊢
        have hfs : X.send.fromShm = true := by
          cases h1 : X.send.fromShm with
          | true => rfl
          | false => simp [h1] at hfb
        have hxf : X.inFallback = false := by
          cases h1 : X.inFallback with
          | false => rfl
          | true => simp [h1] at hfb
        cases hh : X.send.sl.head? with
        | none => rw [hh] at hr; exact absurd rfl hr
        | some f =>
          rw [hh] at hr
          simp only at hr ⊢
          cases hsl : f.slot with
          | none => rw [hsl] at hr; exact absurd rfl hr
          | some off =>
            simp only
            have hf0 : X.send.sl[0]? = some f := by rw [← head?_eq_getElem?]; exact hh
            rcases h.x.wbuf with ⟨_, hnil⟩ | ⟨wi, hi, ht, hne⟩
            · rw [hnil] at hh; cases hh
            · obtain ⟨m1', hd', D⟩ := done_spec m X.send wi hi ht hfs
              rw [hd] at hd'
              simp only [Option.some.injEq, Prod.mk.injEq] at hd'
              obtain ⟨rfl, _⟩ := hd'
              have IC := done_isChain m m1 X.send wi hi ht hne hfs D (wi + 1) 0 f off (by omega) (by omega) hf0 hsl
              rw [drop_zero] at IC
              have hlen : (heldS X.send.sl).length ≤ m1.slots.length := by
                rw [D.slen]
                exact Pigeon.length_le m.slots.length _ hi.sl.nodup hi.sl.lt
              have hch : chain m1.slots.length m1 off = heldS X.send.sl := chain_of_isChain _ IC hlen
              have := PI.rebuild h a0.geo a0.shape
                (fun p hp hc => ⟨by rw [hfree]; exact hnotfree p hc, hhdr p (fun hx => hp (mem_append_left _ hx)), hdata p⟩)
                (fun j => by rw [hdata]) hcl1 X.send.clean [.shm off] X.inFallback
                (fun t ht => a0.ok t (by
                  simp only [LBuf.clean, nil_append] at ht
                  exact mem_append_right _ ht))
                (Or.inl ⟨rfl, rfl⟩)
                (fun w hw => by
                  rw [mem_singleton.mp hw]
                  show IsChain m1 off (chain m1.slots.length m1 off)
                  rw [hch]; exact IC)
                (fun j => by
                  simp only [flight, flatMap_cons, flatMap_nil, append_nil, hch, heldL, LBuf.clean, heldS_nil, nil_append,
                    count_append]
                  rw [hfc]; omega)
              exact this

theorem count_chain_le_flight (m : Mem) (p off : Nat) : ∀ (ws : List Wrap), Wrap.shm off ∈ ws →
    (chain m.slots.length m off).count p ≤ (flight m ws).count p
  | [], h => nomatch h
  | w :: ws, h => by
    rw [flight_cons, count_append]
    rcases mem_cons.mp h with rfl | h
    · simp [flight]
    · have := count_chain_le_flight m p off ws h; omega

theorem chain_bound {m : Mem} {X Y : StreamM} (h : PI N m X Y) (off : Nat) (hw : Wrap.shm off ∈ X.pending) :
    (chain m.slots.length m off).Nodup ∧ (chain m.slots.length m off).length ≤ m.slots.length := by
  have hc : IsChain m off (chain m.slots.length m off) := h.x.pend _ hw
  have hn : (chain m.slots.length m off).Nodup := by
    rw [nodup_iff_count]
    intro p
    have h1 := part_le_one h p
    have h2 := count_chain_le_flight m p off X.pending hw
    have e : (heldSt m X).count p = (heldL X.send).count p + (heldL X.recv).count p + (flight m X.pending).count p := by
      simp only [heldSt, count_append]
    omega
  exact ⟨hn, Pigeon.length_le _ _ hn hc.lt⟩

/-- readMore: the messages in flight towards `X` join its receive buffer; the memory is not touched -/
theorem PI.moreStep {m : Mem} {X Y : StreamM} (h : PI N m X Y) : ∃ X', moveTo m X = some (m, X') ∧ PI N m X' Y := by
  obtain ⟨st', e, h1, h2, h3, h4, h5⟩ := mv_fold m X.pending X h.x.pend (fun off ho => by
    have := (chain_bound h off ho).2; omega)
  refine ⟨{ st' with pending := [] }, by rw [moveTo_eq, e], ?_⟩
  have hheld : ∀ j, (heldSt m { st' with pending := [] }).count j = (heldSt m X).count j := by
    intro j
    simp only [heldSt, heldL, h1, h3, h4, flight, flatMap_nil, append_nil, count_append]
    have : (flatMap (fun w => match w with | .shm off => chain m.slots.length m off | .fb _ => []) X.pending).count j =
        (flight m X.pending).count j := rfl
    omega
  refine ⟨h.len, h.wf, h.shape, h.allCap, ⟨by rw [h1]; exact h.x.send, h5 h.x.recv, by rw [h1]; exact h.x.wbuf, fun _ hw => nomatch hw⟩,
    h.y, fun j => ?_⟩
  rw [hheld]; exact h.part j

/-- an operation of the recycling kind on the send buffer of `X` (Close) -/
theorem PI.sendStepR {m m' : Mem} {X Y : StreamM} {l' : LBuf} (h : PI N m X Y) (a : AcctR m X.send m' l') (wb : WBuf m' l') :
    PI N m' { X with send := l' } Y := by
  have hun : ∀ p, p ∉ heldL X.send → 0 < (heldSt m X).count p + (heldSt m Y).count p → Untouched m m' p := by
    intro p hp hc
    have h1 := part_le_one h p
    have hf : p ∉ m.free.flatten := fc_zero.mp (by omega)
    exact ⟨(a.outside hf hp).1, a.hdr p hf hp, a.data p⟩
  have := PI.rebuild h a.geo a.shape hun (fun j => by rw [a.data]) (a.clean h.wf.freeClean) l' [] X.inFallback a.ok wb
    (fun _ hw => nomatch hw) (fun j => by
      have := a.bal j
      simp only [flight, flatMap_nil, count_nil] at this ⊢
      omega)
  simpa using this

theorem PI.dropPending {m : Mem} {X Y : StreamM} {w : Wrap} {ws : List Wrap} (h : PI N m X Y) (hp : X.pending = w :: ws) :
    PI N (clear1 m w) { X with pending := ws } Y := by
  have eX : ∀ p, (heldSt m X).count p = (heldL X.send).count p + (heldL X.recv).count p + (flight m [w]).count p +
      (flight m ws).count p := by
    intro p; simp only [heldSt, hp, flight_cons m w ws, count_append]; omega
  cases w with
  | fb s =>
    have e0 : flight m [Wrap.fb s] = [] := rfl
    refine ⟨h.len, h.wf, h.shape, h.allCap, ⟨h.x.send, h.x.recv, h.x.wbuf, fun w' hw' => h.x.pend w' (by rw [hp]; exact mem_cons_of_mem _ hw')⟩,
      h.y, fun j => ?_⟩
    have := h.part j
    rw [eX, e0] at this
    simp only [heldSt, count_append, count_nil] at this ⊢
    exact this
  | shm off =>
    have hw : Wrap.shm off ∈ X.pending := by rw [hp]; exact mem_cons_self
    have hc : IsChain m off (chain m.slots.length m off) := h.x.pend _ hw
    obtain ⟨hn, hl⟩ := chain_bound h off hw
    obtain ⟨g, sh, c, hh, hd, hcl⟩ := recycleChain_acct _ m off m.slots.length h.shape hc hn hl
    have e0 : flight m [Wrap.shm off] = chain m.slots.length m off := by simp [flight]
    -- bystanders
    have hun : ∀ p, p ∉ chain m.slots.length m off → 0 < (heldSt m X).count p + (heldSt m Y).count p →
        Untouched m (m.recycleChain m.slots.length off) p := by
      intro p hp' hcnt
      have h1 := part_le_one h p
      refine ⟨fc_zero.mp ?_, hh p hp', hd p⟩
      rw [c, count_eq_zero.mpr hp']; omega
    have notin : ∀ p, 0 < (heldL X.send).count p + (heldL X.recv).count p + (flight m ws).count p + (heldSt m Y).count p →
        p ∉ chain m.slots.length m off := by
      intro p hpos
      have h1 := part_le_one h p
      have := eX p
      rw [e0] at this
      exact count_eq_zero.mp (by omega)
    have uS : ∀ p ∈ heldL X.send, Untouched m (m.recycleChain m.slots.length off) p := fun p hp' => by
      have c1 : 0 < (heldL X.send).count p := count_pos_iff.mpr hp'
      have := eX p
      exact hun p (notin p (by omega)) (by omega)
    have uP : ∀ p ∈ flight m ws, Untouched m (m.recycleChain m.slots.length off) p := fun p hp' => by
      have c1 : 0 < (flight m ws).count p := count_pos_iff.mpr hp'
      have := eX p
      exact hun p (notin p (by omega)) (by omega)
    have uY : ∀ p ∈ heldSt m Y, Untouched m (m.recycleChain m.slots.length off) p := fun p hp' => by
      have c1 : 0 < (heldSt m Y).count p := count_pos_iff.mpr hp'
      exact hun p (notin p (by omega)) (by omega)
    obtain ⟨sy, ey⟩ := h.y.foreign g uY
    have hpw := PendsOK.foreign g (fun w' hw' => h.x.pend w' (by rw [hp]; exact mem_cons_of_mem _ hw')) (fun p hp' => (uP p hp').2.1)
    have hpart : ∀ j, fc (m.recycleChain m.slots.length off) j + (heldSt (m.recycleChain m.slots.length off) { X with pending := ws }).count j +
        (heldSt (m.recycleChain m.slots.length off) Y).count j = if j < (m.recycleChain m.slots.length off).slots.length then 1 else 0 := by
      intro j
      rw [ey, g.len, ← h.part j, c, eX, e0]
      simp only [heldSt, hpw.2, count_append]
      omega
    show PI N (m.recycleChain m.slots.length off) _ _
    refine ⟨by rw [g.len]; exact h.len, ?_, sh, allCap_geo h.allCap g,
      ⟨h.x.send.geo g, h.x.recv.geo g, h.x.wbuf.foreign g (fun p hp' => uS p (mem_append_left _ hp')), hpw.1⟩, sy, hpart⟩
    refine wf_of h.wf h.allCap g sh (fun j => by rw [hd]) (hcl h.wf.freeClean) (fun j => ?_)
    have := hpart j
    split at this <;> omega

theorem PI.clearStep {Y : StreamM} : ∀ (ws : List Wrap) (m : Mem) (X : StreamM), PI N m X Y → X.pending = ws →
    PI N (clearPending m ws) { X with pending := [] } Y
  | [], m, X, h, hp => by
    have : ({ X with pending := [] } : StreamM) = X := by cases X; simp only at hp; subst hp; rfl
    rw [this]; exact h
  | w :: ws, m, X, h, hp => by
    have h1 := h.dropPending hp
    have := PI.clearStep ws (clear1 m w) { X with pending := ws } h1 rfl
    exact this

/-- Stream.clean (Close): what is still in flight towards the stream, its receive buffer and its send buffer all go back -/
theorem PI.closeStep {m : Mem} {X Y : StreamM} (fb : Bool) (h : PI N m X Y) : PI N (closeStream m X) { inFallback := fb } Y := by
  have h1 := PI.clearStep X.pending m X h rfl
  obtain ⟨a2, _⟩ := lrecycle_acct (clearPending m X.pending) X.recv h1.shape h1.x.recv
  have h2 := h1.recvStep a2
  obtain ⟨a3, _⟩ := lrecycle_acct (X.recv.recycle (clearPending m X.pending)).1 X.send h2.shape h2.x.send
  have h3 := h2.sendStepR a3 (Or.inl ⟨rfl, rfl⟩)
  -- the stream object is fresh: the fall-back flag does not matter for the invariant
  exact ⟨h3.len, h3.wf, h3.shape, h3.allCap, ⟨h3.x.send, h3.x.recv, h3.x.wbuf, h3.x.pend⟩, h3.y, h3.part⟩

/-! ### the initial state -/

theorem create_go_shape : ∀ (cs : List (Nat × Nat)) (ci base : Nat) (slots : List MSlot) (free : List (List Nat)),
    (Mem.create.go cs ci base slots free).2.length = free.length + cs.length ∧
    ∀ x ∈ (Mem.create.go cs ci base slots free).1, x ∈ slots ∨ x.cap ∈ cs.map (·.1)
  | [], _, _, slots, free => by
    unfold Mem.create.go
    exact ⟨by simp, fun x hx => Or.inl hx⟩
  | (cap, n) :: r, ci, base, slots, free => by
    unfold Mem.create.go
    obtain ⟨h1, h2⟩ := create_go_shape r (ci + 1) (base + n)
      (slots ++ List.replicate n { cap, cls := ci, data := List.replicate cap 0 }) (free ++ [(List.range n).map (· + base)])
    refine ⟨by rw [h1]; simp; omega, fun x hx => ?_⟩
    rcases h2 x hx with h | h
    · rcases mem_append.mp h with h | h
      · exact Or.inl h
      · have := eq_of_mem_replicate h
        subst this
        exact Or.inr (by simp)
    · exact Or.inr (by simp only [map_cons, mem_cons]; exact Or.inr h)

theorem create_shape (classes : List (Nat × Nat)) (hpos : ∀ c ∈ classes, 0 < c.1) :
    Shape (Mem.create classes) ∧ (∀ i, i < (Mem.create classes).slots.length → 0 < ((Mem.create classes).slot i).cap) ∧
    (Mem.create classes).free.flatten = List.range (Mem.create classes).slots.length := by
  have w := create_wf classes hpos
  have h := create_go_inv classes 0 0 [] [] rfl (fun x hx => absurd hx (by simp)) (by simp) hpos
  have g := create_go_shape classes 0 0 [] []
  unfold Mem.create at w ⊢
  rcases hg : Mem.create.go classes 0 0 [] [] with ⟨slots, free⟩
  rw [hg] at h g w
  simp only at h g w ⊢
  have hslot : ∀ i, i < slots.length → ({ slots := slots, free := free, caps := classes.map (·.1) } : Mem).slot i = slots[i]! := by
    intro i hi
    simp [Mem.slot, getD_eq_getElem?_getD, hi]
  refine ⟨⟨by simpa using g.1, fun i hi => ?_, w.freeLt⟩, fun i hi => ?_, h.2⟩
  · have hi' : i < slots.length := hi
    rw [hslot i hi']
    have hm : slots[i]! ∈ slots := by simp [hi']
    rcases g.2 _ hm with h0 | h0
    · simp at h0
    · exact h0
  · have hi' : i < slots.length := hi
    rw [hslot i hi']
    have hm : slots[i]! ∈ slots := by simp [hi']
    exact (h.1 _ hm).2.2

theorem PI.init (classes : List (Nat × Nat)) (hpos : ∀ c ∈ classes, 0 < c.1) :
    PI (Mem.create classes).slots.length (Mem.create classes) {} {} := by
  obtain ⟨sh, ac, hf⟩ := create_shape classes hpos
  have ok0 : StOK (Mem.create classes) {} :=
    ⟨fun _ h => by simp at h, fun _ h => by simp at h, Or.inl ⟨rfl, rfl⟩, fun _ h => nomatch h⟩
  refine ⟨rfl, create_wf classes hpos, sh, ac, ok0, ok0, fun j => ?_⟩
  have h0 : heldSt (Mem.create classes) {} = [] := rfl
  rw [h0, count_nil, fc, hf]
  by_cases hj : j < (Mem.create classes).slots.length
  · rw [if_pos hj]
    have : (List.range (Mem.create classes).slots.length).count j = 1 := by
      rw [(nodup_range).count, if_pos (mem_range.mpr hj)]
    omega
  · rw [if_neg hj]
    have : (List.range (Mem.create classes).slots.length).count j = 0 := count_eq_zero.mpr (fun h => hj (mem_range.mp h))
    omega

/-! ### every operation of the pair keeps the invariant -/

def PInv (N : Nat) (s : PSys) : Prop := PI N s.m s.a s.b

/-- one operation on end `X` (the other end is `Y`), stated on the components -/
theorem PI.opStep {m : Mem} {X Y : StreamM} (h : PI N m X Y) :
    (∀ d m' l', X.send.writeBytes m d = some (m', l') → PI N m' { X with send := l' } Y) ∧
    (∀ b m' l', X.send.writeByte m b = some (m', l') → PI N m' { X with send := l' } Y) ∧
    (∀ n m' r' d, X.recv.readBytes m n = some (m', r', d) → PI N m' { X with recv := r' } Y) ∧
    (∀ n r' d, X.recv.peekBytes m n = some (r', d) → PI N m { X with recv := r' } Y) ∧
    (∀ n m' r' k, X.recv.discard m n = some (m', r', k) → PI N m' { X with recv := r' } Y) ∧
    (∀ m' r' b, X.recv.readByte m = some (m', r', b) → PI N m' { X with recv := r' } Y) ∧
    (∀ n m' r' d, X.recv.readString m n = some (m', r', d) → PI N m' { X with recv := r' } Y) ∧
    (∀ n m' r' d, X.recv.readInto m n = some (m', r', d) → PI N m' { X with recv := r' } Y) ∧
    PI N (X.recv.release m).1 { X with recv := (X.recv.release m).2 } Y := by
  refine ⟨?_, ?_, ?_, ?_, ?_, ?_, ?_, ?_, ?_⟩
  · intro d m' l' e
    by_cases hd : d = []
    · subst hd
      have : X.send.writeBytes m [] = some (m, X.send) := by unfold LBuf.writeBytes; simp
      rw [this] at e
      simp only [Option.some.injEq, Prod.mk.injEq] at e
      obtain ⟨rfl, rfl⟩ := e
      exact h
    · obtain ⟨m1, l1, e1, w1, b1, _, _, f1⟩ := writeBytes_spec m X.send d h.wf h.x.wbuf hd
      rw [e1] at e
      simp only [Option.some.injEq, Prod.mk.injEq] at e
      obtain ⟨rfl, rfl⟩ := e
      exact h.sendStep (writeBytes_acct m X.send d _ _ h.shape h.x.send e1) w1 b1 f1
  · intro b m' l' e
    obtain ⟨m1, l1, e1, w1, b1, _, _, f1⟩ := writeByte_spec m X.send b h.wf h.x.wbuf
    rw [e1] at e
    simp only [Option.some.injEq, Prod.mk.injEq] at e
    obtain ⟨rfl, rfl⟩ := e
    exact h.sendStep (writeByte_acct m X.send b _ _ h.shape h.x.send e1) w1 b1 f1
  · intro n m' r' d e; exact h.recvStep (readBytes_acct m X.recv n m' r' d h.shape h.x.recv e)
  · intro n r' d e; exact h.recvStep (peek_acct m X.recv n r' d h.shape h.x.recv e)
  · intro n m' r' k e; exact h.recvStep (discard_acct m X.recv n m' r' k h.shape h.x.recv e)
  · intro m' r' b e; exact h.recvStep (readByte_acct m X.recv m' r' b h.shape h.x.recv e)
  · intro n m' r' d e; exact h.recvStep (readString_acct m X.recv n m' r' d h.shape h.x.recv e)
  · intro n m' r' d e; exact h.recvStep (readInto_acct m X.recv n m' r' d h.shape h.x.recv e)
  · exact h.recvStep (release_acct m X.recv h.shape h.x.recv).1

theorem PInv.side {s : PSys} (h : PInv N s) (x : Bool) :
    PI N s.m (s.get x) (s.get (!x)) ∧ (∀ m' st, PI N m' st (s.get (!x)) → PInv N (s.put x m' st)) ∧
    ∀ m' st pr, PI N m' st pr → PInv N ((s.put x m' st).put (!x) m' pr) := by
  cases x with
  | false => exact ⟨h, fun _ _ h' => h', fun _ _ _ h' => h'⟩
  | true => exact ⟨PI.symm h, fun _ _ h' => PI.symm h', fun _ _ _ h' => PI.symm h'⟩

/-- **Every operation of the stream pair keeps the slot accounting.** -/
theorem pstep_inv {s s' : PSys} {op : POp} (h : PInv N s) (e : pstep s op = some s') : PInv N s' := by
  cases op with
  | write x d =>
    obtain ⟨hx, put1, _⟩ := h.side x
    simp only [pstep] at e
    cases hr : (s.get x).send.writeBytes s.m d with
    | none => rw [hr] at e; cases e
    | some r =>
      obtain ⟨m', l'⟩ := r
      rw [hr] at e
      simp only [Option.some.injEq] at e
      subst e
      exact put1 _ _ (hx.opStep.1 d m' l' hr)
  | writeByte x b =>
    obtain ⟨hx, put1, _⟩ := h.side x
    simp only [pstep] at e
    cases hr : (s.get x).send.writeByte s.m b with
    | none => rw [hr] at e; cases e
    | some r =>
      obtain ⟨m', l'⟩ := r
      rw [hr] at e
      simp only [Option.some.injEq] at e
      subst e
      exact put1 _ _ (hx.opStep.2.1 b m' l' hr)
  | flush x =>
    obtain ⟨hx, _, put2⟩ := h.side x
    simp only [pstep] at e
    split at e
    · cases e
    · rename_i hp
      simp only [Option.some.injEq] at e
      subst e
      exact put2 _ _ _ (hx.flushStep hp)
  | more x =>
    obtain ⟨hx, put1, _⟩ := h.side x
    simp only [pstep] at e
    obtain ⟨X', e1, h1⟩ := hx.moreStep
    rw [e1] at e
    simp only [Option.some.injEq] at e
    subst e
    exact put1 _ _ h1
  | readBytes x n =>
    obtain ⟨hx, put1, _⟩ := h.side x
    simp only [pstep] at e
    cases hr : (s.get x).recv.readBytes s.m n with
    | none => rw [hr] at e; cases e
    | some r =>
      obtain ⟨m', r', d⟩ := r
      rw [hr] at e
      simp only [Option.some.injEq] at e
      subst e
      exact put1 _ _ (hx.opStep.2.2.1 n m' r' d hr)
  | peek x n =>
    obtain ⟨hx, put1, _⟩ := h.side x
    simp only [pstep] at e
    cases hr : (s.get x).recv.peekBytes s.m n with
    | none => rw [hr] at e; cases e
    | some r =>
      obtain ⟨r', d⟩ := r
      rw [hr] at e
      simp only [Option.some.injEq] at e
      subst e
      exact put1 _ _ (hx.opStep.2.2.2.1 n r' d hr)
  | discard x n =>
    obtain ⟨hx, put1, _⟩ := h.side x
    simp only [pstep] at e
    cases hr : (s.get x).recv.discard s.m n with
    | none => rw [hr] at e; cases e
    | some r =>
      obtain ⟨m', r', k⟩ := r
      rw [hr] at e
      simp only [Option.some.injEq] at e
      subst e
      exact put1 _ _ (hx.opStep.2.2.2.2.1 n m' r' k hr)
  | readByte x =>
    obtain ⟨hx, put1, _⟩ := h.side x
    simp only [pstep] at e
    cases hr : (s.get x).recv.readByte s.m with
    | none => rw [hr] at e; cases e
    | some r =>
      obtain ⟨m', r', b⟩ := r
      rw [hr] at e
      simp only [Option.some.injEq] at e
      subst e
      exact put1 _ _ (hx.opStep.2.2.2.2.2.1 m' r' b hr)
  | readString x n =>
    obtain ⟨hx, put1, _⟩ := h.side x
    simp only [pstep] at e
    cases hr : (s.get x).recv.readString s.m n with
    | none => rw [hr] at e; cases e
    | some r =>
      obtain ⟨m', r', d⟩ := r
      rw [hr] at e
      simp only [Option.some.injEq] at e
      subst e
      exact put1 _ _ (hx.opStep.2.2.2.2.2.2.1 n m' r' d hr)
  | readInto x n =>
    obtain ⟨hx, put1, _⟩ := h.side x
    simp only [pstep] at e
    cases hr : (s.get x).recv.readInto s.m n with
    | none => rw [hr] at e; cases e
    | some r =>
      obtain ⟨m', r', d⟩ := r
      rw [hr] at e
      simp only [Option.some.injEq] at e
      subst e
      exact put1 _ _ (hx.opStep.2.2.2.2.2.2.2.1 n m' r' d hr)
  | release x =>
    obtain ⟨hx, put1, _⟩ := h.side x
    simp only [pstep] at e
    simp only [Option.some.injEq] at e
    subst e
    exact put1 _ _ hx.opStep.2.2.2.2.2.2.2.2
  | close x =>
    obtain ⟨hx, put1, _⟩ := h.side x
    simp only [pstep] at e
    simp only [Option.some.injEq] at e
    subst e
    exact put1 _ _ (hx.closeStep _)

theorem prun_inv : ∀ (ops : List POp) (s s' : PSys), PInv N s → prun s ops = some s' → PInv N s'
  | [], s, s', h, e => by
    simp only [prun, Option.some.injEq] at e
    subst e; exact h
  | op :: r, s, s', h, e => by
    unfold prun at e
    cases hs : pstep s op with
    | none => rw [hs] at e; cases e
    | some s1 =>
      rw [hs] at e
      exact prun_inv r s1 s' (pstep_inv h hs) e

end LB
