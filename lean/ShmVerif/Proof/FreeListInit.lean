import ShmVerif.Proof.FreeListSeq
/-! The state built by createFreeBufferList satisfies `Rep` with `free = [0, 1, …, n-1]`. -/
namespace FreeListC
open List

theorem gs_initSlots (n i : Nat) (hi : i < n) :
    gs (initSlots n) i = if i + 1 < n then { next := i + 1, hasNext := true, inUsed := false }
                         else { next := 0, hasNext := false, inUsed := false } := by
  unfold gs initSlots
  simp [List.getD_eq_getElem?_getD, hi]

theorem chain_initSlots (n : Nat) : ∀ (m k : Nat), k + m + 1 = n → Chain (initSlots n) (List.range' k (m + 1)) := by
  intro m
  induction m with
  | zero =>
    intro k hk
    simp only [List.range', Chain]
    rw [gs_initSlots n k (by omega)]
    have : ¬ (k + 1 < n) := by omega
    simp [this]
  | succ m ih =>
    intro k hk
    have h1 : k + 1 < n := by omega
    simp only [List.range', Chain]
    rw [gs_initSlots n k (by omega)]
    simp only [h1, if_true, true_and]
    exact ih (k + 1) (by omega)

theorem owned_startNext_nil (p : List Op) : owned (startNext { prog := p }) = [] := by
  have := owned_startNextAux p { prog := p }
  simpa [startNext] using this.eq_nil

theorem rep_init (n : Nat) (hn : 0 < n) (progs : List (List Op)) :
    Rep (prime (init n progs)) (List.range' 0 n) := by
  have hown : (prime (init n progs)).ths.flatMap owned = [] := by
    simp only [prime, init, List.map_map, List.flatMap_eq_nil_iff, List.mem_map]
    rintro th ⟨p, _, rfl⟩
    exact owned_startNext_nil p
  obtain ⟨m, rfl⟩ : ∃ m, n = m + 1 := ⟨n - 1, by omega⟩
  refine ⟨?_, ?_, ?_, ?_, ?_, ?_, ?_, ?_, ?_⟩
  · exact chain_initSlots (m + 1) m 0 (by omega)
  · simp [prime, init, List.range']
  · simp [prime, init, List.getLast?_range']
  · simp [prime, init]
  · rw [hown]; simp [List.nodup_range']
  · rw [hown]; intro i hi
    simp only [append_nil, mem_range'_1] at hi
    simp [prime, init, initSlots_length]; omega
  · rw [hown]; simp [prime, init, initSlots_length]
  · rw [hown]; intro i hi
    simp only [prime, init, initSlots_length] at hi
    simp only [append_nil, mem_range'_1]; omega
  · intro th hth
    simp only [prime, init, List.map_map, List.mem_map] at hth
    obtain ⟨p, _, rfl⟩ := hth
    exact boundary_startNextAux _ _

theorem seqRun_rep (s : State) (ts : List Nat) (free : List Nat) (h : Rep s free) : ∃ free', Rep (seqRun s ts) free' := by
  induction ts generalizing s free with
  | nil => exact ⟨free, h⟩
  | cons t r ih =>
    obtain ⟨f1, h1⟩ := opRun_rep s t free h
    exact ih _ f1 h1

end FreeListC
