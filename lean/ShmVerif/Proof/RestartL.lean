import ShmVerif.Model.Restart
/-! Invariant of the listener side of the hot-restart model, for every operation sequence. -/
namespace Restart
open List

structure LInv (l : Listener) : Prop where
  chk : l.checker = true ↔ l.state = .hot
  cnt : l.ackCount = ((l.hotCount + l.lostHot : Nat) : Int)
  idle : l.state ≠ .hot → l.hotCount = 0 ∧ l.lostHot = 0
  uniq : ∀ u, l.sess.countP (SSess.hasUid u) ≤ 1
  fresh : ∀ u, l.nextUid ≤ u → l.sess.countP (SSess.hasUid u) = 0

theorem linv_init : LInv {} := by
  constructor <;> simp [Listener.hotCount]

theorem countP_filter_add {α : Type} (p q : α → Bool) (l : List α) :
    l.countP p = (l.filter q).countP p + l.countP (fun x => !q x && p x) := by
  induction l with
  | nil => simp
  | cons x xs ih =>
    simp only [List.filter_cons, List.countP_cons, ih]
    cases hp : p x <;> cases hq : q x <;> simp [List.countP_cons, hp] <;> omega

theorem countP_split_pred {α : Type} (p q : α → Bool) (l : List α) :
    l.countP p = l.countP (fun x => p x && q x) + l.countP (fun x => p x && !q x) := by
  induction l with
  | nil => simp
  | cons x xs ih =>
    simp only [List.countP_cons, ih]
    cases p x <;> cases q x <;> simp <;> omega

theorem countP_filter_le {α : Type} (p q : α → Bool) (l : List α) : (l.filter q).countP p ≤ l.countP p := by
  have := countP_filter_add p q l; omega

theorem countP_map_eq {α β : Type} (p : β → Bool) (q : α → Bool) (f : α → β) (l : List α) (h : ∀ x, p (f x) = q x) :
    (l.map f).countP p = l.countP q := by
  induction l with
  | nil => simp
  | cons x xs ih => simp [List.countP_cons, ih, h]

theorem linv_add {l : Listener} (h : LInv l) (hs : Bool) : LInv (l.add hs) := by
  obtain ⟨chk, cnt, idle, uniq, fresh⟩ := h
  unfold Listener.add
  have e0 : SSess.isHot { uid := l.nextUid, hsDone := hs } = false := by simp [SSess.isHot]
  refine ⟨chk, ?_, ?_, ?_, ?_⟩
  · simpa [Listener.hotCount, List.countP_append, List.countP_cons, e0] using cnt
  · intro h1; simpa [Listener.hotCount, List.countP_append, List.countP_cons, e0] using idle h1
  · intro u
    have h1 := uniq u
    simp only [List.countP_append, List.countP_cons, List.countP_nil]
    by_cases hu : l.nextUid = u
    · have := fresh u (by omega); simp [hu, SSess.hasUid] at *; omega
    · simp [hu, SSess.hasUid] at *; exact h1
  · intro u hu
    simp at hu
    have := fresh u (by omega)
    have hne : ¬ l.nextUid = u := by omega
    simp [List.countP_append, this, SSess.hasUid, hne] at *

theorem linv_hsDone {l : Listener} (h : LInv l) (uid : Nat) : LInv (l.hsDone uid) := by
  obtain ⟨chk, cnt, idle, uniq, fresh⟩ := h
  unfold Listener.hsDone
  have e1 : ∀ p : SSess → Bool, (∀ x : SSess, p (if x.uid = uid then { x with hsDone := true } else x) = p x) →
      (l.sess.map (fun x => if x.uid = uid then { x with hsDone := true } else x)).countP p = l.sess.countP p :=
    fun p hp => countP_map_eq p p _ _ hp
  have eh := e1 SSess.isHot (by intro x; split <;> rfl)
  have eu : ∀ u, (l.sess.map (fun x => if x.uid = uid then { x with hsDone := true } else x)).countP (SSess.hasUid u) = l.sess.countP (SSess.hasUid u) :=
    fun u => e1 _ (by intro x; split <;> rfl)
  refine ⟨chk, ?_, ?_, ?_, ?_⟩
  · simpa [Listener.hotCount, eh] using cnt
  · intro h1; simpa [Listener.hotCount, eh] using idle h1
  · intro u; simp only [eu]; exact uniq u
  · intro u hu; simp only [eu]; exact fresh u hu

theorem linv_drop {l : Listener} (h : LInv l) (uid : Nat) : LInv (l.drop uid) := by
  obtain ⟨chk, cnt, idle, uniq, fresh⟩ := h
  unfold Listener.drop
  have key := countP_filter_add SSess.isHot (fun s => !s.hasUid uid) l.sess
  simp only [Bool.not_not] at key
  refine ⟨chk, ?_, ?_, ?_, ?_⟩
  · simp only [Listener.hotCount] at cnt ⊢; rw [cnt]; omega
  · intro h1
    have := idle h1
    simp only [Listener.hotCount] at this ⊢
    omega
  · intro u; exact Nat.le_trans (countP_filter_le _ _ _) (uniq u)
  · intro u hu
    have h1 := fresh u hu
    have h2 := countP_filter_le (SSess.hasUid u) (fun s => !s.hasUid uid) l.sess
    simp only []; omega

theorem hot_after_mark (l : List SSess) :
    (l.map (fun s => if s.state = .default then { s with state := SS.hot } else s)).countP SSess.isHot
      = (l.filter (fun s => s.state = .default)).length + l.countP SSess.isHot := by
  induction l with
  | nil => simp
  | cons x xs ih =>
    simp only [List.map_cons, List.countP_cons, List.filter_cons, ih]
    cases hx : x.state <;> simp [SSess.isHot, hx] <;> omega

theorem linv_hotRestart {l : Listener} (h : LInv l) (e : Nat) : LInv (l.hotRestart e).1 := by
  unfold Listener.hotRestart
  split
  · exact h
  · split
    · exact h
    · rename_i hs _
      obtain ⟨chk, cnt, idle, uniq, fresh⟩ := h
      have hi := idle hs
      have eu : ∀ u, (l.sess.map (fun s => if s.state = .default then { s with state := SS.hot } else s)).countP (SSess.hasUid u) = l.sess.countP (SSess.hasUid u) :=
        fun u => countP_map_eq _ _ _ _ (by intro x; split <;> rfl)
      refine ⟨by simp, ?_, ?_, ?_, ?_⟩
      · simp only [Listener.hotCount] at cnt hi ⊢
        rw [hot_after_mark, cnt, hi.1, hi.2]; simp
      · intro h1; simp at h1
      · intro u; simp only [eu]; exact uniq u
      · intro u hu; simp only [eu]; exact fresh u hu

theorem not_hot_after_ack (uid : Nat) (l : List SSess) :
    (l.map (fun x => if x.uid = uid then { x with state := SS.hotDone } else x)).countP SSess.isHot
      = l.countP (fun x => x.isHot && !x.hasUid uid) := by
  apply countP_map_eq
  intro x
  by_cases hu : x.uid = uid <;> simp [hu, SSess.isHot, SSess.hasUid]

theorem linv_ack {l : Listener} (h : LInv l) (uid e : Nat) : LInv (l.ack uid e) := by
  unfold Listener.ack
  split
  · exact h
  · rename_i s hf
    split
    · rename_i hc
      obtain ⟨chk, cnt, idle, uniq, fresh⟩ := h
      have hmem : s ∈ l.sess := List.mem_of_find?_eq_some hf
      have hp := List.find?_some hf
      simp at hp
      have hpos : 0 < l.sess.countP (fun x => x.isHot && x.hasUid uid) :=
        List.countP_pos_iff.mpr ⟨s, hmem, by simp [SSess.isHot, SSess.hasUid, hc.2.2, hp]⟩
      have hle : l.sess.countP (fun x => x.isHot && x.hasUid uid) ≤ l.sess.countP (SSess.hasUid uid) := by
        apply List.countP_mono_left; intro x _ hx; simp at hx; exact hx.2
      have hu := uniq uid
      have hsplit := countP_split_pred SSess.isHot (SSess.hasUid uid) l.sess
      have eu : ∀ u, (l.sess.map (fun x => if x.uid = uid then { x with state := SS.hotDone } else x)).countP (SSess.hasUid u) = l.sess.countP (SSess.hasUid u) :=
        fun u => countP_map_eq _ _ _ _ (by intro x; split <;> rfl)
      refine ⟨chk, ?_, ?_, ?_, ?_⟩
      · simp only [Listener.hotCount] at cnt ⊢
        rw [not_hot_after_ack, cnt]; omega
      · intro h1; exact absurd hc.2.1 h1
      · intro u; simp only [eu]; exact uniq u
      · intro u hu; simp only [eu]; exact fresh u hu
    · exact h

theorem linv_tick {l : Listener} (h : LInv l) : LInv l.tick := by
  unfold Listener.tick
  obtain ⟨chk, cnt, idle, uniq, fresh⟩ := h
  split
  · exact ⟨chk, cnt, idle, uniq, fresh⟩
  · split
    · rename_i hs
      refine ⟨?_, cnt, idle, uniq, fresh⟩
      simp; simpa using hs
    · split
      · rename_i hz
        refine ⟨by simp, cnt, ?_, uniq, fresh⟩
        intro _
        simp only [Listener.hotCount] at cnt ⊢
        omega
      · exact ⟨chk, cnt, idle, uniq, fresh⟩

theorem linv_timeout {l : Listener} (h : LInv l) : LInv l.timeout := by
  unfold Listener.timeout
  obtain ⟨chk, cnt, idle, uniq, fresh⟩ := h
  split
  · exact ⟨chk, cnt, idle, uniq, fresh⟩
  · have e0 : (l.sess.map (fun s => { s with state := SS.default })).countP SSess.isHot = 0 := by
      rw [countP_map_eq SSess.isHot (fun _ => false) _ _ (by intro x; simp [SSess.isHot])]; simp
    have eu : ∀ u, (l.sess.map (fun s => { s with state := SS.default })).countP (SSess.hasUid u) = l.sess.countP (SSess.hasUid u) :=
      fun u => countP_map_eq _ _ _ _ (by intro x; rfl)
    refine ⟨by simp, ?_, ?_, ?_, ?_⟩
    · simp [Listener.hotCount, e0]
    · intro _; simp [Listener.hotCount, e0]
    · intro u; simp only [eu]; exact uniq u
    · intro u hu; simp only [eu]; exact fresh u hu

theorem linv_step {l : Listener} (h : LInv l) (op : LOp) : LInv (l.step op) := by
  cases op with
  | hotRestart e => exact linv_hotRestart h e
  | ack u e => exact linv_ack h u e
  | tick => exact linv_tick h
  | timeout => exact linv_timeout h
  | add hs => exact linv_add h hs
  | hsDone u => exact linv_hsDone h u
  | drop u => exact linv_drop h u

theorem linv_run (ops : List LOp) : ∀ l, LInv l → LInv (l.run ops) := by
  induction ops with
  | nil => intro l h; exact h
  | cons op rest ih => intro l h; exact ih _ (linv_step h op)

end Restart
