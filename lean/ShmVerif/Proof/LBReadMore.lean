import ShmVerif.Proof.LBRead
/-! ReadString and Read (linkedBuffer.read) as byte-queue operations, when the requested bytes are buffered. -/
namespace LB
open List

theorem readInto_go_spec (size : Nat) : ∀ (fuel : Nat) (m : Mem) (l : LBuf) (written : Nat) (acc : List Nat),
    SlicesWF m l.sl → size - written ≤ (content m l.sl).length → l.sl.length < fuel →
    ∃ m' l', LBuf.readInto.go size fuel m l written acc = some (m', l', acc ++ (content m l.sl).take (size - written)) ∧
      content m' l'.sl = (content m l.sl).drop (size - written) ∧ SlicesWF m' l'.sl ∧
      l'.len = l.len - (written + (size - written)) ∧ (∀ j, (m'.slot j).data = (m.slot j).data) := by
  intro fuel
  induction fuel with
  | zero => intro m l w acc _ _ h; omega
  | succ k ih =>
    intro m l w acc hwf hneed hfuel
    unfold LBuf.readInto.go
    cases hsl : l.sl with
    | nil =>
      simp only [LBuf.front?, hsl, head?_nil]
      rw [hsl] at hneed
      simp only [content, flatMap_nil, length_nil, Nat.le_zero] at hneed
      refine ⟨m, { l with len := l.len - w }, ?_, ?_, (by show SlicesWF m l.sl; exact hwf), ?_, fun _ => rfl⟩
      · simp [content, hneed, hsl]
      · show content m l.sl = _
        rw [hsl]; simp [content]
      · show l.len - w = _
        omega
    | cons f r =>
      have hf : f.WF m := hwf f (by rw [hsl]; exact mem_cons_self)
      have hr : SlicesWF m r := fun x hx => hwf x (by rw [hsl]; exact mem_cons_of_mem _ hx)
      simp only [LBuf.front?, hsl, head?_cons]
      by_cases hgt : size > w
      · rw [if_pos hgt]
        obtain ⟨rd1, rd2, rd3, rd4, rd5, rd6⟩ := BS.read_spec m f (size - w) hf
        rcases hrd : f.read m (size - w) with ⟨f', d, sh⟩
        rw [hrd] at rd1 rd2 rd3 rd4 rd5 rd6
        simp only at rd1 rd2 rd3 rd4 rd5 rd6 ⊢
        have hu := BS.unread_length m f hf
        have hsl1 : (l.setFront f').sl = f' :: r := by rw [setFront_sl, hsl]; rfl
        have hwf1 : SlicesWF m (l.setFront f').sl := by
          rw [hsl1]; intro x hx
          rcases mem_cons.mp hx with rfl | hx
          · exact rd3
          · exact hr x hx
        have hclen := content_length_cons m f r hf
        rw [hsl] at hneed hfuel
        by_cases hshort : sh = true
        · -- the front slice does not hold everything: take all of it, pop it, go on
          simp only [hshort, Bool.not_true, Bool.false_eq_true, if_false]
          have hsz : f.size < size - w := rd5.mp hshort
          have hd : d = f.unread m := by rw [rd1, take_of_length_le (by omega)]
          have hdl : d.length = f.size := by rw [hd, hu]
          obtain ⟨m2, l2, e1, e2, e3, e4, e5, e6⟩ := readNext_spec m (l.setFront f') _ r hsl1 hwf1
          rw [e1]
          simp only
          have hneed2 : size - (w + d.length) ≤ (content m2 l2.sl).length := by
            rw [e2, e3, hdl]; rw [hclen] at hneed; omega
          obtain ⟨m3, l3, g1, g2, g3, g4, g5⟩ := ih m2 l2 (w + d.length) (acc ++ d)
            (by rw [e2]; exact e4) hneed2 (by rw [e2]; simp at hfuel; omega)
          refine ⟨m3, l3, ?_, ?_, g3, ?_, fun j => (g5 j).trans (e6 j)⟩
          · rw [g1, e2, e3, content_cons, take_app_ge _ _ _ (by omega), hd, hu, append_assoc]
            rw [Nat.sub_add_eq]
          · rw [g2, e2, e3, content_cons, drop_app_ge _ _ _ (by omega), hd, hu, Nat.sub_add_eq]
          · have hl0 : (l.setFront f').len = l.len := rfl
            rw [g4, e5, hl0]
            omega
        · have hsh : sh = false := by simpa using hshort
          simp only [hsh, Bool.not_false, if_true]
          have hsz : size - w ≤ f.size := by
            rcases Nat.lt_or_ge f.size (size - w) with h1 | h1
            · exact absurd (rd5.mpr h1) hshort
            · exact h1
          have hdl : d.length = size - w := by rw [rd4]; omega
          refine ⟨m, { (l.setFront f') with len := (l.setFront f').len - (w + d.length) }, ?_, ?_, hwf1, ?_, fun _ => rfl⟩
          · rw [content_cons, take_app_le _ _ _ (by omega), rd1]
          · show content m (l.setFront f').sl = _
            rw [hsl1, content_cons, content_cons, rd2, drop_app_le _ _ _ (by omega)]
          · show (l.setFront f').len - (w + d.length) = _
            rw [hdl]; rfl
      · rw [if_neg hgt]
        have hz : size - w = 0 := by omega
        refine ⟨m, { l with len := l.len - w }, by simp [hz, hsl], ?_, (by show SlicesWF m l.sl; exact hwf), ?_, fun _ => rfl⟩
        · show content m l.sl = _
          rw [hz, drop_zero, hsl]
        · show l.len - w = _
          omega

/-- linkedBuffer.read (Stream.Read) with `size` bytes buffered: exactly the next `size` bytes -/
theorem readInto_spec (m : Mem) (l : LBuf) (size : Nat) (hwf : SlicesWF m l.sl) (hpos : 0 < size)
    (hsz : size ≤ (content m l.sl).length) :
    ∃ m' l' d, l.readInto m size = some (m', l', d) ∧ d = (content m l.sl).take size ∧
      content m' l'.sl = (content m l.sl).drop size ∧ SlicesWF m' l'.sl ∧ l'.len = l.len - size ∧
      (∀ j, (m'.slot j).data = (m.slot j).data) := by
  unfold LBuf.readInto
  have h0 : ¬ size = 0 := by omega
  simp only [h0, if_false]
  obtain ⟨m', l', e, c, w, n, dd⟩ := readInto_go_spec size (l.sl.length + 2) m l 0 [] hwf (by simpa using hsz) (by omega)
  exact ⟨m', l', _, e, by simp, by simpa using c, w, by simpa using n, dd⟩

theorem readString_slow_spec (size : Nat) : ∀ (fuel : Nat) (m : Mem) (l : LBuf) (written : Nat) (acc : List Nat),
    SlicesWF m l.sl → size - written ≤ (content m l.sl).length → 2 * l.sl.length + (size - written) < fuel →
    ∃ m' l', LBuf.readString.slow size fuel m l written acc = some (m', l', acc ++ (content m l.sl).take (size - written)) ∧
      content m' l'.sl = (content m l.sl).drop (size - written) ∧ SlicesWF m' l'.sl ∧ l'.len = l.len - size ∧
      (∀ j, (m'.slot j).data = (m.slot j).data) := by
  intro fuel
  induction fuel with
  | zero => intro m l w acc _ _ h; omega
  | succ k ih =>
    intro m l w acc hwf hneed hfuel
    unfold LBuf.readString.slow
    by_cases hge : w ≥ size
    · rw [if_pos hge]
      have hz : size - w = 0 := by omega
      exact ⟨m, { l with len := l.len - size }, by simp [hz], by simp [hz], hwf, rfl, fun _ => rfl⟩
    · rw [if_neg hge]
      cases hsl : l.sl with
      | nil => rw [hsl] at hneed; simp [content] at hneed; omega
      | cons f r =>
        have hf : f.WF m := hwf f (by rw [hsl]; exact mem_cons_self)
        have hr : SlicesWF m r := fun x hx => hwf x (by rw [hsl]; exact mem_cons_of_mem _ hx)
        simp only [LBuf.front?, hsl, head?_cons]
        have hclen := content_length_cons m f r hf
        -- one round from a buffer whose front may or may not have been popped
        rw [hsl] at hneed
        have round : ∀ (m1 : Mem) (l1 : LBuf), SlicesWF m1 l1.sl → content m1 l1.sl = content m (f :: r) → l1.len = l.len →
            (∀ j, (m1.slot j).data = (m.slot j).data) → l1.sl ≠ [] →
            2 * l1.sl.length + (size - w) < k + 1 → (l1.sl.head?.map (·.size) = some 0 → 2 * l1.sl.length + (size - w) + 1 < k + 1) →
            ∃ m' l', (match l1.sl.head? with
                | none => none
                | some g => LBuf.readString.slow size k m1 (l1.setFront (g.read m1 (size - w)).1) (w + (g.read m1 (size - w)).2.1.length)
                    (acc ++ (g.read m1 (size - w)).2.1)) = some (m', l', acc ++ (content m (f :: r)).take (size - w)) ∧
              content m' l'.sl = (content m (f :: r)).drop (size - w) ∧ SlicesWF m' l'.sl ∧ l'.len = l.len - size ∧
              (∀ j, (m'.slot j).data = (m.slot j).data) := by
          intro m1 l1 hwf1 hc1 hl1 hd1 hne1 hfu1 hfu2
          cases hsl1 : l1.sl with
          | nil => exact absurd hsl1 hne1
          | cons g r1 =>
            have hg : g.WF m1 := hwf1 g (by rw [hsl1]; exact mem_cons_self)
            have hr1 : SlicesWF m1 r1 := fun x hx => hwf1 x (by rw [hsl1]; exact mem_cons_of_mem _ hx)
            simp only [hsl1, head?_cons]
            obtain ⟨rd1, rd2, rd3, rd4, rd5, rd6⟩ := BS.read_spec m1 g (size - w) hg
            rcases hrd : g.read m1 (size - w) with ⟨g', d, sh⟩
            rw [hrd] at rd1 rd2 rd3 rd4 rd5 rd6
            simp only at rd1 rd2 rd3 rd4 rd5 rd6 ⊢
            have hu := BS.unread_length m1 g hg
            have hslf : (l1.setFront g').sl = g' :: r1 := by rw [setFront_sl, hsl1]; rfl
            have hwff : SlicesWF m1 (l1.setFront g').sl := by
              rw [hslf]; intro x hx
              rcases mem_cons.mp hx with rfl | hx
              · exact rd3
              · exact hr1 x hx
            have hcl1 := content_length_cons m1 g r1 hg
            have hcf : content m1 (l1.setFront g').sl = (content m1 l1.sl).drop d.length := by
              rw [hslf, hsl1, content_cons, content_cons, rd2]
              by_cases hle : size - w ≤ g.size
              · rw [rd4, Nat.min_eq_left hle, drop_app_le _ _ _ (by omega)]
              · have : min (size - w) g.size = g.size := Nat.min_eq_right (by omega)
                rw [rd4, this, drop_app_ge _ _ _ (by omega), hu]
                simp [drop_of_length_le (by omega : (g.unread m1).length ≤ size - w)]
            have hdtake : d = (content m1 l1.sl).take d.length := by
              rw [hsl1, content_cons, rd4]
              by_cases hle : size - w ≤ g.size
              · rw [Nat.min_eq_left hle, take_app_le _ _ _ (by omega), rd1]
              · have : min (size - w) g.size = g.size := Nat.min_eq_right (by omega)
                rw [this, take_app_ge _ _ _ (by omega), hu]
                simp [rd1, take_of_length_le (by omega : (g.unread m1).length ≤ size - w)]
            have hdle : d.length ≤ size - w := by rw [rd4]; exact Nat.min_le_left _ _
            have hneed' : size - (w + d.length) ≤ (content m1 (l1.setFront g').sl).length := by
              rw [hcf, length_drop, hc1]; omega
            have hfuel' : 2 * (l1.setFront g').sl.length + (size - (w + d.length)) < k := by
              rw [hslf]
              rw [hsl1] at hfu1 hfu2
              simp only [length_cons] at hfu1 hfu2 ⊢
              by_cases hd0 : d.length = 0
              · -- nothing read: the front slice was empty (need > 0)
                have hg0 : g.size = 0 := by
                  rw [rd4] at hd0
                  rcases Nat.le_total (size - w) g.size with h1 | h1
                  · rw [Nat.min_eq_left h1] at hd0; omega
                  · rw [Nat.min_eq_right h1] at hd0; exact hd0
                have := hfu2 (by simp [hg0])
                omega
              · omega
            obtain ⟨m3, l3, g1, g2, g3, g4, g5⟩ := ih m1 (l1.setFront g') (w + d.length) (acc ++ d) hwff hneed' hfuel'
            refine ⟨m3, l3, ?_, ?_, g3, ?_, fun j => (g5 j).trans (hd1 j)⟩
            · rw [g1, hcf, append_assoc, ← hc1]
              have hsplit : (content m1 l1.sl).take (size - w) =
                  (content m1 l1.sl).take d.length ++ ((content m1 l1.sl).drop d.length).take (size - w - d.length) := by
                rw [← take_add]; congr 1; omega
              rw [hsplit, ← hdtake, Nat.sub_add_eq]
            · rw [g2, hcf, drop_drop, ← hc1]
              congr 1; omega
            · rw [g4]; show l1.len - size = _; rw [hl1]
        by_cases hz : f.size = 0
        · simp only [hz, if_true]
          have hl0 : l.sl = f :: r := hsl
          obtain ⟨m2, l2, e1, e2, e3, e4, e5, e6⟩ := readNext_spec m l f r hsl hwf
          rw [e1]
          simp only
          have hfe : f.unread m = [] := by simp [BS.unread, hz]
          have hc2 : content m2 l2.sl = content m (f :: r) := by rw [e2, e3, content_cons, hfe, nil_append]
          have hne2 : l2.sl ≠ [] := by
            rw [e2]
            intro hr0
            rw [content_cons, hfe, hr0] at hneed
            simp [content] at hneed; omega
          rw [hsl] at hfuel
          simp only [length_cons] at hfuel
          exact round m2 l2 (by rw [e2]; exact e4) hc2 e5 e6 hne2 (by rw [e2]; omega) (fun _ => by rw [e2]; omega)
        · simp only [hz, if_false]
          rw [hsl] at hfuel
          exact round m l hwf (by rw [hsl]) rfl (fun _ => rfl) (by rw [hsl]; simp) (by rw [hsl]; exact hfuel)
            (fun h0 => by rw [hsl] at h0; simp at h0; exact absurd h0 hz)

/-- linkedBuffer.ReadString(size) with `size` bytes buffered -/
theorem readString_spec (m : Mem) (l : LBuf) (size : Nat) (hwf : SlicesWF m l.sl) (hpos : 0 < size)
    (hsz : size ≤ (content m l.sl).length) :
    ∃ m' l' d, l.readString m size = some (m', l', d) ∧ d = (content m l.sl).take size ∧
      content m' l'.sl = (content m l.sl).drop size ∧ SlicesWF m' l'.sl ∧ l'.len = l.len - size ∧
      (∀ j, (m'.slot j).data = (m.slot j).data) := by
  unfold LBuf.readString
  have h0 : ¬ size = 0 := by omega
  simp only [h0, if_false]
  cases hsl : l.sl with
  | nil => rw [hsl] at hsz; simp [content] at hsz; omega
  | cons f r =>
    have hf : f.WF m := hwf f (by rw [hsl]; exact mem_cons_self)
    have hr : SlicesWF m r := fun x hx => hwf x (by rw [hsl]; exact mem_cons_of_mem _ hx)
    simp only [LBuf.front?, hsl, head?_cons]
    by_cases hge : f.size ≥ size
    · rw [if_pos hge]
      obtain ⟨rd1, rd2, rd3, rd4, rd5, rd6⟩ := BS.read_spec m f size hf
      rcases hrd : f.read m size with ⟨f', d, sh⟩
      rw [hrd] at rd1 rd2 rd3 rd4 rd5 rd6
      simp only at rd1 rd2 rd3 rd4 rd5 rd6 ⊢
      have hu := BS.unread_length m f hf
      have hsl1 : (l.setFront f').sl = f' :: r := by rw [setFront_sl, hsl]; rfl
      refine ⟨m, _, d, rfl, ?_, ?_, ?_, rfl, fun _ => rfl⟩
      · rw [content_cons, take_app_le _ _ _ (by omega), rd1]
      · show content m (l.setFront f').sl = _
        rw [hsl1, content_cons, content_cons, rd2, drop_app_le _ _ _ (by omega)]
      · show SlicesWF m (l.setFront f').sl
        rw [hsl1]; intro x hx
        rcases mem_cons.mp hx with rfl | hx
        · exact rd3
        · exact hr x hx
    · rw [if_neg hge]
      have hwf' : SlicesWF m l.sl := hwf
      obtain ⟨m', l', e, c, w, n, dd⟩ := readString_slow_spec size (2 * l.sl.length + size + 2) m l 0 [] hwf'
        (by simpa using hsz) (by omega)
      rw [hsl] at e c
      exact ⟨m', l', _, e, by simp, by simpa using c, w, n, dd⟩

theorem readByte_go_spec : ∀ (fuel : Nat) (m : Mem) (l : LBuf), SlicesWF m l.sl → 1 ≤ (content m l.sl).length →
    l.sl.length + 1 ≤ fuel →
    ∃ m' l' b, LBuf.readByte.go fuel m l = some (m', l', b) ∧
      [b] = (content m l.sl).take 1 ∧ content m' l'.sl = (content m l.sl).drop 1 ∧ SlicesWF m' l'.sl ∧ l'.len = l.len - 1 ∧
      (∀ j, (m'.slot j).data = (m.slot j).data) := by
  intro fuel
  induction fuel with
  | zero => intro m l _ _ hf; omega
  | succ k ih =>
    intro m l hwf hsz hfuel
    unfold LBuf.readByte.go
    cases hsl : l.sl with
    | nil => rw [hsl] at hsz; simp [content] at hsz
    | cons f r =>
      have hf : f.WF m := hwf f (by rw [hsl]; exact mem_cons_self)
      have hr : SlicesWF m r := fun x hx => hwf x (by rw [hsl]; exact mem_cons_of_mem _ hx)
      simp only [LBuf.front?, hsl, head?_cons]
      obtain ⟨rd1, rd2, rd3, rd4, rd5, rd6⟩ := BS.read_spec m f 1 hf
      rcases hrd : f.read m 1 with ⟨f', d, sh⟩
      rw [hrd] at rd1 rd2 rd3 rd4 rd5 rd6
      simp only at rd1 rd2 rd3 rd4 rd5 rd6 ⊢
      have hu := BS.unread_length m f hf
      have hsl1 : (l.setFront f').sl = f' :: r := by rw [setFront_sl, hsl]; rfl
      have hwf1 : SlicesWF m (l.setFront f').sl := by
        rw [hsl1]; intro x hx
        rcases mem_cons.mp hx with rfl | hx
        · exact rd3
        · exact hr x hx
      by_cases hshort : sh = true
      · have hz : f.size = 0 := by have := rd5.mp hshort; omega
        simp only [hshort, Bool.not_true, Bool.false_eq_true, if_false]
        obtain ⟨m2, l2, e1, e2, e3, e4, e5, e6⟩ := readNext_spec m (l.setFront f') _ r hsl1 hwf1
        rw [e1]
        simp only
        have hfe : f.unread m = [] := by simp [BS.unread, hz]
        have hc : content m l.sl = content m r := by rw [hsl, content_cons, hfe, nil_append]
        have hc2 : content m2 l2.sl = content m r := by rw [e2]; exact e3
        have hlen : l2.sl.length + 1 ≤ k := by
          rw [e2]; rw [hsl] at hfuel; simp only [length_cons] at hfuel; omega
        obtain ⟨m', l', b, g1, g2, g3, g4, g5, g6⟩ := ih m2 l2 (by rw [e2]; exact e4) (by rw [hc2, ← hc]; exact hsz) hlen
        refine ⟨m', l', b, g1, ?_, ?_, g4, ?_, fun j => (g6 j).trans (e6 j)⟩
        · rw [g2, hc2, ← hc, hsl]
        · rw [g3, hc2, ← hc, hsl]
        · rw [g5, e5]; rfl
      · have hsh : sh = false := by simpa using hshort
        simp only [hsh, Bool.not_false, if_true]
        have hsz1 : 1 ≤ f.size := by
          rcases Nat.lt_or_ge f.size 1 with h1 | h1
          · exact absurd (rd5.mpr h1) hshort
          · exact h1
        have hdl : d.length = 1 := by rw [rd4]; omega
        refine ⟨m, _, d.headD 0, rfl, ?_, ?_, hwf1, rfl, fun _ => rfl⟩
        · rw [content_cons, take_app_le _ _ _ (by omega), ← rd1]
          cases d with
          | nil => simp at hdl
          | cons x rest =>
            have : rest = [] := by simpa using hdl
            subst this; rfl
        · show content m (l.setFront f').sl = _
          rw [hsl1, content_cons, content_cons, rd2, drop_app_le _ _ _ (by omega)]

/-- **linkedBuffer.ReadByte with at least one byte buffered returns the next byte and consumes it** - wherever it lies:
    used-up and empty slices in front of it (a fall-back event may carry an empty payload) are popped -/
theorem readByte_spec (m : Mem) (l : LBuf) (hwf : SlicesWF m l.sl) (hsz : 1 ≤ (content m l.sl).length) :
    ∃ m' l' b, l.readByte m = some (m', l', b) ∧
      [b] = (content m l.sl).take 1 ∧ content m' l'.sl = (content m l.sl).drop 1 ∧ SlicesWF m' l'.sl ∧ l'.len = l.len - 1 ∧
      (∀ j, (m'.slot j).data = (m.slot j).data) :=
  readByte_go_spec _ m l hwf hsz (Nat.le_refl _)

end LB
