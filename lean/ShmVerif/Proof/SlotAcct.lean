import ShmVerif.Proof.LBWrite
/-!
  Slot accounting of the linked buffer ("no slot is lost, none is invented").

  `heldL l` = the shared-memory slots of the slices a buffer lists or has parked.  For every operation of the buffer -
  writer, reader, release, recycle - and for the transport between two buffers, the slots that are free afterwards
  together with the slots held afterwards are exactly (as multisets) those before.  Nothing here depends on the functional
  invariants of the writer / reader halves: the accounting holds from ANY state whose slices point at real slots
  (`SlicesOK`) of a memory with the shape createBufferManager gives it (`Shape`).
-/
namespace LB
open List

/-! ### geometry: what no operation changes -/

structure Geo (m m' : Mem) : Prop where
  len : m'.slots.length = m.slots.length
  cap : ∀ i, (m'.slot i).cap = (m.slot i).cap
  caps : m'.caps = m.caps
  flen : m'.free.length = m.free.length

theorem Geo.refl (m : Mem) : Geo m m := ⟨rfl, fun _ => rfl, rfl, rfl⟩
theorem Geo.trans {a b c : Mem} (x : Geo a b) (y : Geo b c) : Geo a c :=
  ⟨y.len.trans x.len, fun i => (y.cap i).trans (x.cap i), y.caps.trans x.caps, y.flen.trans x.flen⟩

structure Shape (m : Mem) : Prop where
  flen : m.free.length = m.caps.length
  cap : ∀ i, i < m.slots.length → (m.slot i).cap ∈ m.caps
  freeLt : ∀ i ∈ m.free.flatten, i < m.slots.length

def SliceOK (m : Mem) (s : BS) : Prop := ∀ i, s.slot = some i → i < m.slots.length ∧ s.cap = (m.slot i).cap
def SlicesOK (m : Mem) (sl : List BS) : Prop := ∀ s ∈ sl, SliceOK m s

theorem SliceOK.geo {m m' : Mem} {s : BS} (h : SliceOK m s) (g : Geo m m') : SliceOK m' s := by
  intro i hi
  obtain ⟨a, b⟩ := h i hi
  exact ⟨by rw [g.len]; exact a, by rw [g.cap]; exact b⟩
theorem SlicesOK.geo {m m' : Mem} {sl : List BS} (h : SlicesOK m sl) (g : Geo m m') : SlicesOK m' sl :=
  fun s hs => (h s hs).geo g

def heldS (sl : List BS) : List Nat := sl.filterMap (·.slot)
def heldL (l : LBuf) : List Nat := heldS l.sl ++ heldS l.pinned

@[simp] theorem heldS_nil : heldS [] = [] := rfl
@[simp] theorem heldS_append (a b : List BS) : heldS (a ++ b) = heldS a ++ heldS b := by simp [heldS]
theorem heldS_cons (s : BS) (r : List BS) : heldS (s :: r) = heldS [s] ++ heldS r := by
  rw [← heldS_append]; rfl

/-- free slots, counted -/
def fc (m : Mem) (j : Nat) : Nat := m.free.flatten.count j

/-! ### primitives -/

theorem slot_setSlot_cap (m : Mem) (i j : Nat) (f : MSlot → MSlot) (hf : ∀ x, (f x).cap = x.cap) :
    ((m.setSlot i f).slot j).cap = (m.slot j).cap := by
  unfold Mem.setSlot Mem.slot
  simp only [getD_eq_getElem?_getD, getElem?_modify]
  by_cases h : i = j
  · subst h
    cases hh : m.slots[i]? with
    | none => simp
    | some v => simp [hf]
  · simp [h]

theorem slot_setSlot_hdr_ne (m : Mem) (i j : Nat) (f : MSlot → MSlot) (h : i ≠ j) :
    ((m.setSlot i f).slot j).hdr = (m.slot j).hdr := by
  unfold Mem.setSlot Mem.slot
  simp only [getD_eq_getElem?_getD, getElem?_modify]
  simp [h]

theorem slot_setSlot_hdr_same (m : Mem) (i j : Nat) (f : MSlot → MSlot) (hf : ∀ x, (f x).hdr = x.hdr) :
    ((m.setSlot i f).slot j).hdr = (m.slot j).hdr := by
  unfold Mem.setSlot Mem.slot
  simp only [getD_eq_getElem?_getD, getElem?_modify]
  by_cases h : i = j
  · subst h
    cases hh : m.slots[i]? with
    | none => simp
    | some v => simp [hf]
  · simp [h]

theorem fc_zero {m : Mem} {p : Nat} : fc m p = 0 ↔ p ∉ m.free.flatten := by
  unfold fc; exact count_eq_zero

theorem geo_setSlot (m : Mem) (i : Nat) (f : MSlot → MSlot) (hf : ∀ x, (f x).cap = x.cap) : Geo m (m.setSlot i f) :=
  ⟨by simp [Mem.setSlot], fun j => slot_setSlot_cap m i j f hf, rfl, rfl⟩

theorem shape_geo_free {m m' : Mem} (h : Shape m) (g : Geo m m') (hf : ∀ i ∈ m'.free.flatten, i < m.slots.length) : Shape m' :=
  ⟨by rw [g.flen, g.caps]; exact h.flen, fun i hi => by rw [g.cap, g.caps]; exact h.cap i (by rw [← g.len]; exact hi),
   fun i hi => by rw [g.len]; exact hf i hi⟩

/-- bufferList.pop: the popped slot leaves the free lists, nothing else moves -/
theorem pop_acct (m : Mem) (c : Nat) (m' : Mem) (b : BS) (hs : Shape m) (h : m.pop c = some (m', b)) :
    Geo m m' ∧ Shape m' ∧ SliceOK m' b ∧ (∀ j, fc m' j + (heldS [b]).count j = fc m j) ∧
      ∀ p, p ∉ m.free.flatten → (m'.slot p).hdr = (m.slot p).hdr := by
  unfold Mem.pop at h
  cases hf : m.free.getD c [] with
  | nil => rw [hf] at h; cases h
  | cons i r0 =>
    cases r0 with
    | nil => rw [hf] at h; cases h
    | cons k r =>
      rw [hf] at h
      simp only [Option.some.injEq, Prod.mk.injEq] at h
      obtain ⟨hm, hb⟩ := h
      have hc : m.free[c]? = some (i :: k :: r) := by
        rw [getD_eq_getElem?_getD] at hf
        cases hh : m.free[c]? with
        | none => rw [hh] at hf; cases hf
        | some v => rw [hh] at hf; simp at hf; rw [hf]
      obtain ⟨A, B, e1, e2⟩ := flatten_set_split m.free c (i :: k :: r) (k :: r) hc
      have hfree : m'.free.flatten = A ++ (k :: r) ++ B := by rw [← hm]; exact e2
      have g : Geo m m' := by
        rw [← hm]
        refine ⟨by simp [Mem.setSlot], fun j => ?_, rfl, by simp [Mem.setSlot]⟩
        exact slot_setSlot_cap { m with free := m.free.set c (k :: r) } i j _ (fun _ => rfl)
      have hi : i < m.slots.length := hs.freeLt i (by rw [e1]; simp)
      refine ⟨g, shape_geo_free hs g (fun j hj => hs.freeLt j ?_), ?_, ?_, ?_⟩
      · rw [hfree] at hj; rw [e1]
        simp only [mem_append, mem_cons] at hj ⊢
        rcases hj with (hj | hj | hj) | hj
        · exact Or.inl (Or.inl hj)
        · exact Or.inl (Or.inr (Or.inr (Or.inl hj)))
        · exact Or.inl (Or.inr (Or.inr (Or.inr hj)))
        · exact Or.inr hj
      · intro j hj
        subst hm; subst hb
        simp only [Option.some.injEq] at hj
        subst hj
        exact ⟨by rw [g.len]; exact hi, rfl⟩
      · intro j
        rw [← hb]
        simp only [fc, hfree, e1, heldS, filterMap_cons, filterMap_nil, count_append, count_cons, count_nil]
        simp only [beq_iff_eq]
        split <;> omega
      · intro p hp
        have hpi : p ≠ i := fun e => hp (by rw [e, e1]; simp)
        rw [← hm]
        exact slot_setSlot_hdr_ne { m with free := m.free.set c (k :: r) } i p _ (Ne.symm hpi)

/-- bufferManager.recycleBuffer: the slot of a shared-memory slice joins a free list, nothing else moves -/
theorem recycle_acct (m : Mem) (s : BS) (hs : Shape m) (ho : SliceOK m s) :
    Geo m (m.recycle s) ∧ Shape (m.recycle s) ∧ (∀ j, fc (m.recycle s) j = fc m j + (heldS [s]).count j) ∧
      ∀ p, p ∉ heldS [s] → ((m.recycle s).slot p).hdr = (m.slot p).hdr := by
  unfold Mem.recycle
  cases hsl : s.slot with
  | none => exact ⟨Geo.refl m, hs, fun j => by simp [heldS, hsl], fun _ _ => rfl⟩
  | some i =>
    obtain ⟨hi, hcap⟩ := ho i hsl
    simp only
    have hex : ∃ c, (List.range m.caps.length).find? (fun c => m.caps.getD c 0 = s.cap) = some c := by
      have hmem : s.cap ∈ m.caps := by rw [hcap]; exact hs.cap i hi
      obtain ⟨c, hc, e⟩ := getElem_of_mem hmem
      have : ((List.range m.caps.length).find? (fun c => m.caps.getD c 0 = s.cap)).isSome := by
        rw [find?_isSome]
        exact ⟨c, mem_range.mpr hc, by simp [getD_eq_getElem?_getD, hc, e]⟩
      exact Option.isSome_iff_exists.mp this
    obtain ⟨c, hc⟩ := hex
    rw [hc]
    simp only
    have hcl : c < m.free.length := by
      have := mem_of_find?_eq_some hc
      rw [hs.flen]; exact mem_range.mp this
    have hget : m.free[c]? = some (m.free.getD c []) := by
      rw [getD_eq_getElem?_getD, getElem?_eq_getElem hcl]; rfl
    obtain ⟨A, B, e1, e2⟩ := flatten_set_split m.free c (m.free.getD c []) (m.free.getD c [] ++ [i]) hget
    have g : Geo m { (m.setSlot i (fun x => { x with hdr := { x.hdr with size := 0, start := 0, hasNext := false, inUsed := false } })) with
        free := m.free.set c (m.free.getD c [] ++ [i]) } :=
      ⟨by simp [Mem.setSlot], fun j => slot_setSlot_cap m i j _ (fun _ => rfl), rfl, by simp [Mem.setSlot]⟩
    refine ⟨g, shape_geo_free hs g ?_, ?_, ?_⟩
    rotate_left 2
    · intro p hp
      have hpi : i ≠ p := fun e => hp (by simp [heldS, hsl, e])
      exact slot_setSlot_hdr_ne m i p _ hpi
    · intro j hj
      change j ∈ (m.free.set c (m.free.getD c [] ++ [i])).flatten at hj
      rw [e2] at hj
      simp only [mem_append, mem_cons, not_mem_nil, or_false] at hj
      rcases hj with (hj | hj | hj) | hj
      · exact hs.freeLt j (by rw [e1]; exact mem_append_left _ (mem_append_left _ hj))
      · exact hs.freeLt j (by rw [e1]; exact mem_append_left _ (mem_append_right _ hj))
      · rw [hj]; exact hi
      · exact hs.freeLt j (by rw [e1]; exact mem_append_right _ hj)
    · intro j
      change (m.free.set c (m.free.getD c [] ++ [i])).flatten.count j = _
      rw [e2]
      simp only [fc, e1, heldS, filterMap_cons, filterMap_nil, hsl, count_append, count_cons, count_nil]
      omega

/-- a run of recycles (cleanPinnedList, recycle, done's unused tail) -/
theorem recycles_acct : ∀ (sl : List BS) (m : Mem), Shape m → SlicesOK m sl →
    Geo m (sl.foldl (fun m s => m.recycle s) m) ∧ Shape (sl.foldl (fun m s => m.recycle s) m) ∧
    (∀ j, fc (sl.foldl (fun m s => m.recycle s) m) j = fc m j + (heldS sl).count j) ∧
    ∀ p, p ∉ heldS sl → ((sl.foldl (fun m s => m.recycle s) m).slot p).hdr = (m.slot p).hdr
  | [], m, hs, _ => ⟨Geo.refl m, hs, fun j => by simp, fun _ _ => rfl⟩
  | s :: r, m, hs, ho => by
    obtain ⟨g1, s1, c1, h1⟩ := recycle_acct m s hs (ho s mem_cons_self)
    obtain ⟨g2, s2, c2, h2⟩ := recycles_acct r (m.recycle s) s1 (fun t ht => (ho t (mem_cons_of_mem _ ht)).geo g1)
    refine ⟨g1.trans g2, s2, fun j => ?_, fun p hp => ?_⟩
    · rw [foldl_cons, c2, c1, heldS_cons s r, count_append]
      omega
    · rw [heldS_cons s r, mem_append, not_or] at hp
      rw [foldl_cons, h2 p hp.2, h1 p hp.1]

/-- allocShmBuffer -/
theorem allocOne_acct (m : Mem) (size : Nat) (m' : Mem) (b : BS) (hs : Shape m) (h : m.allocOne size = some (m', b)) :
    Geo m m' ∧ Shape m' ∧ SliceOK m' b ∧ (∀ j, fc m' j + (heldS [b]).count j = fc m j) ∧
      ∀ p, p ∉ m.free.flatten → (m'.slot p).hdr = (m.slot p).hdr := by
  unfold Mem.allocOne at h
  split at h
  · obtain ⟨c, _, hc⟩ := exists_of_findSome?_eq_some h
    split at hc
    · exact pop_acct m c m' b hs hc
    · cases hc
  · cases h

/-- what a batch allocation guarantees: the new slices' slots came out of the free lists -/
structure Got (m : Mem) (acc : List BS) (m' : Mem) (acc' : List BS) : Prop where
  geo : Geo m m'
  shape : Shape m'
  ext : ∃ new, acc' = acc ++ new ∧ SlicesOK m' new ∧ ∀ j, fc m' j + (heldS new).count j = fc m j
  hdr : ∀ p, p ∉ m.free.flatten → (m'.slot p).hdr = (m.slot p).hdr

theorem Got.refl (m : Mem) (acc : List BS) (hs : Shape m) : Got m acc m acc :=
  ⟨Geo.refl m, hs, ⟨[], (by simp), (fun _ h => nomatch h), (fun j => by simp)⟩, fun _ _ => rfl⟩

theorem cls_acct : ∀ (fuel : Nat) (m : Mem) (c : Nat) (remain : Int) (acc : List BS) (got : Nat), Shape m →
    Got m acc (Mem.allocMany.cls fuel m c remain acc got).1 (Mem.allocMany.cls fuel m c remain acc got).2.1 := by
  intro fuel
  induction fuel with
  | zero => intro m c remain acc got hs; exact Got.refl m acc hs
  | succ f ih =>
    intro m c remain acc got hs
    unfold Mem.allocMany.cls
    split
    · cases hp : m.pop c with
      | none => exact Got.refl m acc hs
      | some r =>
        obtain ⟨m', b⟩ := r
        simp only
        obtain ⟨g1, s1, o1, c1, h1⟩ := pop_acct m c m' b hs hp
        obtain ⟨g2, s2, ⟨new, e, o2, c2⟩, h2⟩ := ih m' c (remain - b.cap) (acc ++ [b]) (got + b.cap) s1
        refine ⟨g1.trans g2, s2, ⟨b :: new, by rw [e]; simp, ?_, fun j => ?_⟩, fun p hp => ?_⟩
        rotate_left 2
        · have : p ∉ m'.free.flatten := by
            rw [← fc_zero] at hp ⊢
            have := c1 p; omega
          rw [h2 p this, h1 p hp]
        · intro t ht
          rcases mem_cons.mp ht with rfl | ht
          · exact o1.geo g2
          · exact o2 t ht
        · rw [heldS_cons b new, count_append]
          have := c1 j; have := c2 j
          omega
    · exact Got.refl m acc hs

theorem Got.trans {m m1 m2 : Mem} {a a1 a2 : List BS} (x : Got m a m1 a1) (y : Got m1 a1 m2 a2) : Got m a m2 a2 := by
  obtain ⟨n1, e1, o1, c1⟩ := x.ext
  obtain ⟨n2, e2, o2, c2⟩ := y.ext
  refine ⟨x.geo.trans y.geo, y.shape, ⟨n1 ++ n2, by rw [e2, e1, append_assoc], ?_, fun j => ?_⟩, fun p hp => ?_⟩
  rotate_left 2
  · have : p ∉ m1.free.flatten := by
      rw [← fc_zero] at hp ⊢
      have := c1 p; omega
    rw [y.hdr p this, x.hdr p hp]
  · intro t ht
    rcases mem_append.mp ht with ht | ht
    · exact (o1 t ht).geo y.geo
    · exact o2 t ht
  · rw [heldS_append, count_append]
    have := c1 j; have := c2 j
    omega

theorem down_acct : ∀ (k : Nat) (m : Mem) (remain : Int) (acc : List BS) (got : Nat), Shape m →
    Got m acc (Mem.allocMany.down k m remain acc got).1 (Mem.allocMany.down k m remain acc got).2.1 := by
  intro k
  induction k with
  | zero => intro m remain acc got hs; exact Got.refl m acc hs
  | succ c ih =>
    intro m remain acc got hs
    unfold Mem.allocMany.down
    split
    · have h1 := cls_acct (m.slots.length + 1) m c remain acc got hs
      rcases hr : Mem.allocMany.cls (m.slots.length + 1) m c remain acc got with ⟨m', acc', got', remain'⟩
      rw [hr] at h1
      simp only
      exact h1.trans (ih m' remain' acc' got' h1.shape)
    · exact Got.refl m acc hs

theorem allocMany_acct (m : Mem) (size : Nat) (hs : Shape m) :
    Got m [] (m.allocMany size).1 (m.allocMany size).2.1 := by
  unfold Mem.allocMany
  exact down_acct m.caps.length m size [] 0 hs

/-! ### one buffer: its slices point at real slots; an operation keeps that and keeps the balance -/

def BufOK (m : Mem) (l : LBuf) : Prop := SlicesOK m (l.sl ++ l.pinned)

/-- the outcome of one buffer operation -/
structure Acct (m : Mem) (l : LBuf) (m' : Mem) (l' : LBuf) : Prop where
  geo : Geo m m'
  shape : Shape m'
  ok : BufOK m' l'
  bal : ∀ j, fc m' j + (heldL l').count j = fc m j + (heldL l).count j
  hdr : ∀ p, p ∉ m.free.flatten → p ∉ heldL l → (m'.slot p).hdr = (m.slot p).hdr

theorem Acct.refl (m : Mem) (l : LBuf) (hs : Shape m) (ho : BufOK m l) : Acct m l m l :=
  ⟨Geo.refl m, hs, ho, fun _ => rfl, fun _ _ _ => rfl⟩

/-- a slot that is neither free nor held before an operation is neither free nor held after it -/
theorem Acct.outside {m m' : Mem} {l l' : LBuf} (a : Acct m l m' l') {p : Nat} (h1 : p ∉ m.free.flatten) (h2 : p ∉ heldL l) :
    p ∉ m'.free.flatten ∧ p ∉ heldL l' := by
  have := a.bal p
  rw [← fc_zero] at h1
  rw [← count_eq_zero] at h2
  rw [← fc_zero, ← count_eq_zero]
  omega

theorem Acct.trans {m m1 m2 : Mem} {l l1 l2 : LBuf} (a : Acct m l m1 l1) (b : Acct m1 l1 m2 l2) : Acct m l m2 l2 :=
  ⟨a.geo.trans b.geo, b.shape, b.ok, fun j => (b.bal j).trans (a.bal j), fun p h1 h2 => by
    obtain ⟨q1, q2⟩ := a.outside h1 h2
    rw [b.hdr p q1 q2, a.hdr p h1 h2]⟩

/-- changing fields other than the slice lists changes nothing -/
theorem Acct.same (m : Mem) (l l' : LBuf) (hs : Shape m) (ho : BufOK m l) (h1 : l'.sl = l.sl) (h2 : l'.pinned = l.pinned) :
    Acct m l m l' :=
  ⟨Geo.refl m, hs, by unfold BufOK; rw [h1, h2]; exact ho, fun j => by unfold heldL; rw [h1, h2], fun _ _ _ => rfl⟩

theorem heapSlice_ok (m : Mem) (n : Nat) : SliceOK m (heapSlice n) := fun i hi => by simp [heapSlice] at hi

/-- linkedBuffer.alloc -/
theorem alloc_acct (m : Mem) (l : LBuf) (size : Nat) (hs : Shape m) (ho : BufOK m l) :
    Acct m l (l.alloc m size).1 (l.alloc m size).2 ∧ (l.alloc m size).2.pinned = l.pinned := by
  unfold LBuf.alloc
  cases h1 : m.allocOne size with
  | some r =>
    obtain ⟨m', b⟩ := r
    obtain ⟨g, s', ob, c, hh⟩ := allocOne_acct m size m' b hs h1
    refine ⟨⟨g, s', ?_, fun j => ?_, fun p hp _ => hh p hp⟩, rfl⟩
    · intro t ht
      simp only [mem_append] at ht
      rcases ht with (ht | ht) | ht
      · exact (ho t (mem_append_left _ ht)).geo g
      · rw [mem_singleton.mp ht]; exact ob
      · exact (ho t (mem_append_right _ ht)).geo g
    · simp only [heldL, heldS_append, count_append]
      have := c j; omega
  | none =>
    simp only
    have G := allocMany_acct m size hs
    rcases hr : m.allocMany size with ⟨m', bs, got⟩
    rw [hr] at G
    simp only at G ⊢
    obtain ⟨new, e, on, c⟩ := G.ext
    simp only [nil_append] at e
    subst e
    split
    · refine ⟨⟨G.geo, G.shape, ?_, fun j => ?_, fun p hp _ => G.hdr p hp⟩, rfl⟩
      · intro t ht
        simp only [mem_append] at ht
        rcases ht with ((ht | ht) | ht) | ht
        · exact (ho t (mem_append_left _ ht)).geo G.geo
        · exact on t ht
        · rw [mem_singleton.mp ht]; exact heapSlice_ok _ _
        · exact (ho t (mem_append_right _ ht)).geo G.geo
      · simp only [heldL, heldS_append, count_append]
        have : heldS [heapSlice (max (size - got) defaultSingleBufferSize)] = [] := rfl
        rw [this]
        have := c j; simp only [count_nil]; omega
    · refine ⟨⟨G.geo, G.shape, ?_, fun j => ?_, fun p hp _ => G.hdr p hp⟩, rfl⟩
      · intro t ht
        simp only [mem_append] at ht
        rcases ht with (ht | ht) | ht
        · exact (ho t (mem_append_left _ ht)).geo G.geo
        · exact on t ht
        · exact (ho t (mem_append_right _ ht)).geo G.geo
      · simp only [heldL, heldS_append, count_append]
        have := c j; omega

/-! ### slices compared by what matters here: slot and capacity -/

def key (s : BS) : Option Nat × Nat := (s.slot, s.cap)

theorem heldS_key {a b : List BS} (h : a.map key = b.map key) : heldS a = heldS b := by
  have : ∀ l : List BS, heldS l = (l.map key).filterMap (·.1) := by
    intro l; simp [heldS, filterMap_map, key, Function.comp_def]
  rw [this, this, h]

theorem slicesOK_key {m : Mem} {a b : List BS} (h : a.map key = b.map key) (ho : SlicesOK m a) : SlicesOK m b := by
  intro s hs
  have : key s ∈ a.map key := by rw [h]; exact mem_map_of_mem hs
  obtain ⟨t, ht, e⟩ := mem_map.mp this
  intro i hi
  have e1 : t.slot = s.slot := congrArg Prod.fst e
  have e2 : t.cap = s.cap := congrArg Prod.snd e
  obtain ⟨x, y⟩ := ho t ht i (by rw [e1]; exact hi)
  exact ⟨x, by rw [← e2]; exact y⟩

structure Sim (l l' : LBuf) : Prop where
  sl : l'.sl.map key = l.sl.map key
  pinned : l'.pinned.map key = l.pinned.map key

theorem Sim.refl (l : LBuf) : Sim l l := ⟨rfl, rfl⟩

/-- memory touched without moving a slot (payload / header writes), slices touched without changing slot or capacity -/
theorem Acct.mem {m m' : Mem} {l l' : LBuf} (hs : Shape m) (ho : BufOK m l) (g : Geo m m') (hf : m'.free = m.free)
    (hh : ∀ p, p ∉ heldL l → (m'.slot p).hdr = (m.slot p).hdr) (h : Sim l l') : Acct m l m' l' := by
  refine ⟨g, shape_geo_free hs g (fun i hi => hs.freeLt i (by rw [← hf]; exact hi)), ?_, fun j => ?_, fun p _ h2 => hh p h2⟩
  · have : (l.sl ++ l.pinned).map key = (l'.sl ++ l'.pinned).map key := by rw [map_append, map_append, h.sl, h.pinned]
    exact slicesOK_key this (ho.geo g)
  · unfold heldL fc
    rw [hf, heldS_key h.sl, heldS_key h.pinned]

theorem Acct.lst {m : Mem} {l l' : LBuf} (hs : Shape m) (ho : BufOK m l) (h : Sim l l') : Acct m l m l' :=
  Acct.mem hs ho (Geo.refl m) rfl (fun _ _ => rfl) h

theorem Acct.upd {m m' : Mem} {l l' : LBuf} (a : Acct m l m' l') (l'' : LBuf) (h1 : l''.sl = l'.sl) (h2 : l''.pinned = l'.pinned) :
    Acct m l m' l'' :=
  a.trans (Acct.lst a.shape a.ok ⟨by rw [h1], by rw [h2]⟩)

theorem map_set_same {α β} (f : α → β) : ∀ (sl : List α) (i : Nat) (s s' : α), sl[i]? = some s → f s' = f s →
    (sl.set i s').map f = sl.map f
  | [], _, _, _, h, _ => by simp at h
  | a :: r, 0, s, s', h, e => by simp at h; subst h; simp [e]
  | a :: r, i + 1, s, s', h, e => by
    simp at h
    simp [map_set_same f r i s s' h e]

theorem sim_setAt (l : LBuf) (i : Nat) (s s' : BS) (h : l.sl[i]? = some s) (e : key s' = key s) : Sim l (l.setAt i s') :=
  ⟨map_set_same key l.sl i s s' h e, rfl⟩

theorem sim_setFront (l : LBuf) (f f' : BS) (h : l.front? = some f) (e : key f' = key f) : Sim l (l.setFront f') := by
  unfold LBuf.front? at h
  refine ⟨?_, rfl⟩
  cases hsl : l.sl with
  | nil => rw [hsl] at h; cases h
  | cons a r =>
    rw [hsl] at h
    simp only [head?_cons, Option.some.injEq] at h
    subst h
    simp [LBuf.setFront, hsl, e]

theorem append_geo (m : Mem) (s : BS) (d : List Nat) :
    Geo m (s.append m d).1 ∧ (s.append m d).1.free = m.free ∧ key (s.append m d).2.1 = key s ∧
      ∀ p, ((s.append m d).1.slot p).hdr = (m.slot p).hdr := by
  unfold BS.append
  cases hsl : s.slot with
  | none => exact ⟨Geo.refl m, rfl, by simp [key, hsl], fun _ => rfl⟩
  | some i => exact ⟨geo_setSlot m i _ (fun _ => rfl), rfl, by simp [key, hsl], fun p => slot_setSlot_hdr_same m i p _ (fun _ => rfl)⟩

/-! ### operations that never write payload (readers, release, recycle) -/

/-- an accounting step that moreover leaves every payload byte alone and keeps the free slots' headers clean -/
structure AcctR (m : Mem) (l : LBuf) (m' : Mem) (l' : LBuf) : Prop extends Acct m l m' l' where
  data : ∀ j, (m'.slot j).data = (m.slot j).data
  clean : (∀ i ∈ m.free.flatten, (m.slot i).hdr.size = 0 ∧ (m.slot i).hdr.start = 0) →
    ∀ i ∈ m'.free.flatten, (m'.slot i).hdr.size = 0 ∧ (m'.slot i).hdr.start = 0

theorem AcctR.refl (m : Mem) (l : LBuf) (hs : Shape m) (ho : BufOK m l) : AcctR m l m l :=
  ⟨Acct.refl m l hs ho, fun _ => rfl, fun h => h⟩
theorem AcctR.trans {m m1 m2 : Mem} {l l1 l2 : LBuf} (a : AcctR m l m1 l1) (b : AcctR m1 l1 m2 l2) : AcctR m l m2 l2 :=
  ⟨a.toAcct.trans b.toAcct, fun j => (b.data j).trans (a.data j), fun h => b.clean (a.clean h)⟩
theorem AcctR.lst {m : Mem} {l l' : LBuf} (hs : Shape m) (ho : BufOK m l) (h : Sim l l') : AcctR m l m l' :=
  ⟨Acct.lst hs ho h, fun _ => rfl, fun h => h⟩

theorem recycle_clean (m : Mem) (s : BS) (h : ∀ i ∈ m.free.flatten, (m.slot i).hdr.size = 0 ∧ (m.slot i).hdr.start = 0)
    (hc : ∀ j, fc (m.recycle s) j = fc m j + (heldS [s]).count j)
    (hh : ∀ p, p ∉ heldS [s] → ((m.recycle s).slot p).hdr = (m.slot p).hdr) :
    ∀ i ∈ (m.recycle s).free.flatten, ((m.recycle s).slot i).hdr.size = 0 ∧ ((m.recycle s).slot i).hdr.start = 0 := by
  intro i hi
  by_cases hs : i ∈ heldS [s]
  · -- the recycled slot: its header was reset
    unfold Mem.recycle
    cases hsl : s.slot with
    | none => simp [heldS, hsl] at hs
    | some k =>
      have hik : i = k := by simpa [heldS, hsl] using hs
      subst hik
      unfold Mem.recycle at hi
      rw [hsl] at hi
      simp only at hi ⊢
      split
      · rename_i hnone
        rw [hnone] at hi
        simp only at hi
        exact h i hi
      · simp only [Mem.slot, Mem.setSlot, getD_eq_getElem?_getD, getElem?_modify, if_true]
        cases hh : m.slots[i]? with
        | none => simp; exact ⟨rfl, rfl⟩
        | some v => simp
  · rw [hh i hs]
    have : i ∈ m.free.flatten := by
      have h1 := hc i
      have h2 : (heldS [s]).count i = 0 := count_eq_zero.mpr hs
      have h3 : 0 < fc (m.recycle s) i := by unfold fc; exact count_pos_iff.mpr hi
      have : 0 < fc m i := by omega
      unfold fc at this; exact count_pos_iff.mp this
    exact h i this

theorem recycle_acctR (m : Mem) (s : BS) (l l' : LBuf) (hs : Shape m) (ho : SliceOK m s) (ok' : BufOK m l')
    (hb : ∀ j, (heldL l').count j + (heldS [s]).count j = (heldL l).count j) : AcctR m l (m.recycle s) l' := by
  obtain ⟨g, s', c, hh⟩ := recycle_acct m s hs ho
  refine ⟨⟨g, s', ok'.geo g, fun j => ?_, fun p _ hp => hh p (fun hx => hp ?_)⟩, fun j => recycle_data m s j, fun h => recycle_clean m s h c hh⟩
  · have := c j; have := hb j; omega
  · have := hb p
    have h1 : 0 < (heldS [s]).count p := count_pos_iff.mpr hx
    exact count_pos_iff.mp (by omega)

theorem recycles_acctR : ∀ (sl : List BS) (m : Mem) (l l' : LBuf), Shape m → SlicesOK m sl → BufOK m l' →
    (∀ j, (heldL l').count j + (heldS sl).count j = (heldL l).count j) → AcctR m l (sl.foldl (fun m s => m.recycle s) m) l'
  | [], m, l, l', hs, _, ok', hb => by
    refine ⟨⟨Geo.refl m, hs, ok', fun j => ?_, fun _ _ _ => rfl⟩, fun _ => rfl, fun h => h⟩
    have := hb j; simp only [heldS_nil, count_nil] at this; simp only [foldl_nil]; omega
  | s :: r, m, l, l', hs, ho, ok', hb => by
    -- first the head (towards an intermediate buffer that still holds the rest), then the rest
    let li : LBuf := { sl := l'.sl ++ r, pinned := l'.pinned }
    have oki : BufOK m li := by
      intro t ht
      simp only [li, mem_append] at ht
      rcases ht with (ht | ht) | ht
      · exact ok' t (mem_append_left _ ht)
      · exact ho t (mem_cons_of_mem _ ht)
      · exact ok' t (mem_append_right _ ht)
    have hli : ∀ j, (heldL li).count j = (heldL l').count j + (heldS r).count j := by
      intro j; simp only [heldL, li, heldS_append, count_append]; omega
    have a1 : AcctR m l (m.recycle s) li := recycle_acctR m s l li hs (ho s mem_cons_self) oki (fun j => by
      have := hb j; rw [heldS_cons s r, count_append] at this; rw [hli]; omega)
    have a2 := recycles_acctR r (m.recycle s) li l' a1.shape (fun t ht => (ho t (mem_cons_of_mem _ ht)).geo a1.geo)
      (ok'.geo a1.geo) (fun j => by rw [hli])
    rw [foldl_cons]
    exact a1.trans a2

/-! ### reader operations -/

/-- readNextSlice: the front slice is parked, or recycled, or was a heap slice -/
theorem readNext_acct (m : Mem) (l : LBuf) (m' : Mem) (l' : LBuf) (hs : Shape m) (ho : BufOK m l)
    (h : l.readNext m = some (m', l')) : AcctR m l m' l' := by
  unfold LBuf.readNext at h
  cases hsl : l.sl with
  | nil => rw [hsl] at h; cases h
  | cons s r =>
    rw [hsl] at h
    simp only at h
    have hos : SliceOK m s := ho s (by rw [hsl]; simp)
    have hor : SlicesOK m (r ++ l.pinned) := fun t ht => ho t (by
      rw [hsl]; rcases mem_append.mp ht with ht | ht
      · exact mem_append_left _ (mem_cons_of_mem _ ht)
      · exact mem_append_right _ ht)
    split at h
    · split at h
      · simp only [Option.some.injEq, Prod.mk.injEq] at h
        obtain ⟨rfl, rfl⟩ := h
        refine ⟨⟨Geo.refl m, hs, ?_, fun j => ?_, fun _ _ _ => rfl⟩, fun _ => rfl, fun h => h⟩
        · intro t ht
          simp only [mem_append, mem_singleton] at ht
          rcases ht with ht | ht | ht
          · exact hor t (mem_append_left _ ht)
          · exact hor t (mem_append_right _ ht)
          · rw [ht]; exact hos
        · simp only [heldL, hsl, heldS_cons s r, heldS_append, count_append]
          omega
      · simp only [Option.some.injEq, Prod.mk.injEq] at h
        obtain ⟨rfl, rfl⟩ := h
        exact recycle_acctR m s l _ hs hos hor (fun j => by
          simp only [heldL, hsl, heldS_cons s r, count_append]; omega)
    · simp only [Option.some.injEq, Prod.mk.injEq] at h
      obtain ⟨rfl, rfl⟩ := h
      rename_i hshm
      have : heldS [s] = [] := by
        simp only [BS.isShm, Bool.not_eq_true, Option.isSome_eq_false_iff, Option.isNone_iff_eq_none] at hshm
        simp [heldS, hshm]
      refine ⟨⟨Geo.refl m, hs, hor, fun j => ?_, fun _ _ _ => rfl⟩, fun _ => rfl, fun h => h⟩
      simp only [heldL, hsl, heldS_cons s r, this, count_append, count_nil]
      omega

theorem acct_front {m : Mem} {l : LBuf} (f f' : BS) (l' : LBuf) (hs : Shape m) (ho : BufOK m l) (h : l.front? = some f)
    (e : key f' = key f) (h1 : l'.sl = (l.setFront f').sl) (h2 : l'.pinned = l.pinned) : AcctR m l m l' :=
  AcctR.lst hs ho ⟨by rw [h1]; exact (sim_setFront l f f' h e).sl, by rw [h2]⟩

theorem key_read (m : Mem) (f : BS) (n : Nat) : key (f.read m n).1 = key f := rfl
theorem key_skip (f : BS) (n : Nat) : key (f.skip n).1 = key f := rfl

theorem readBytes_slow_acct : ∀ (fuel : Nat) (m : Mem) (l : LBuf) (need : Nat) (acc : List Nat) (m' : Mem) (l' : LBuf)
    (d : List Nat), Shape m → BufOK m l → LBuf.readBytes.slow fuel m l need acc = some (m', l', d) → AcctR m l m' l' := by
  intro fuel
  induction fuel with
  | zero => intro m l need acc m' l' d _ _ h; unfold LBuf.readBytes.slow at h; cases h
  | succ k ih =>
    intro m l need acc m' l' d hs ho h
    unfold LBuf.readBytes.slow at h
    split at h
    · simp only [Option.some.injEq, Prod.mk.injEq] at h
      obtain ⟨rfl, rfl, _⟩ := h
      exact AcctR.refl m l hs ho
    · cases hf : l.front? with
      | none => rw [hf] at h; cases h
      | some f =>
        rw [hf] at h
        simp only at h
        have a1 : AcctR m l m (l.setFront (f.read m need).1) := acct_front f _ _ hs ho hf (key_read m f need) rfl rfl
        split at h
        · cases hn : (l.setFront (f.read m need).1).readNext m with
          | none => rw [hn] at h; cases h
          | some r =>
            obtain ⟨m2, l2⟩ := r
            rw [hn] at h
            simp only at h
            have a2 := readNext_acct m _ m2 l2 hs a1.ok hn
            exact (a1.trans a2).trans (ih m2 l2 _ _ m' l' d a2.shape a2.ok h)
        · exact a1.trans (ih m _ _ _ m' l' d hs a1.ok h)

/-- linkedBuffer.ReadBytes -/
theorem readBytes_acct (m : Mem) (l : LBuf) (size : Nat) (m' : Mem) (l' : LBuf) (d : List Nat) (hs : Shape m) (ho : BufOK m l)
    (h : l.readBytes m size = some (m', l', d)) : AcctR m l m' l' := by
  unfold LBuf.readBytes at h
  split at h
  · simp only [Option.some.injEq, Prod.mk.injEq] at h
    obtain ⟨rfl, rfl, _⟩ := h
    exact AcctR.refl m l hs ho
  · cases hf0 : l.front? with
    | none => rw [hf0] at h; cases h
    | some f0 =>
      rw [hf0] at h
      simp only at h
      -- the optional first readNext
      have key : ∀ (m1 : Mem) (l1 : LBuf), AcctR m l m1 l1 →
          (match l1.front? with
            | none => none
            | some f =>
              if f.size ≥ size then
                some (m1, { (l1.setFront (f.read m1 size).1) with curPinned := true, len := l1.len - size }, (f.read m1 size).2.1)
              else LBuf.readBytes.slow (l1.sl.length + size + 2) m1 { l1 with len := l1.len - size } size []) = some (m', l', d) →
          AcctR m l m' l' := by
        intro m1 l1 a1 h1
        cases hf : l1.front? with
        | none => rw [hf] at h1; cases h1
        | some f =>
          rw [hf] at h1
          simp only at h1
          split at h1
          · simp only [Option.some.injEq, Prod.mk.injEq] at h1
            obtain ⟨rfl, rfl, _⟩ := h1
            exact a1.trans (acct_front f _ _ a1.shape a1.ok hf (key_read m1 f size) rfl rfl)
          · have a2 : AcctR m1 l1 m1 { l1 with len := l1.len - size } := AcctR.lst a1.shape a1.ok ⟨rfl, rfl⟩
            exact (a1.trans a2).trans (readBytes_slow_acct _ m1 _ _ _ m' l' d a1.shape a2.ok h1)
      by_cases hz : f0.size = 0
      · simp only [hz, if_true] at h
        cases hn : l.readNext m with
        | none => rw [hn] at h; cases h
        | some r =>
          obtain ⟨m1, l1⟩ := r
          rw [hn] at h
          exact key m1 l1 (readNext_acct m l m1 l1 hs ho hn) h
      · simp only [hz, if_false] at h
        exact key m l (AcctR.refl m l hs ho) h

/-- linkedBuffer.Peek -/
theorem peek_acct (m : Mem) (l : LBuf) (size : Nat) (l' : LBuf) (d : List Nat) (hs : Shape m) (ho : BufOK m l)
    (h : l.peekBytes m size = some (l', d)) : AcctR m l m l' := by
  unfold LBuf.peekBytes at h
  split at h
  · simp only [Option.some.injEq, Prod.mk.injEq] at h
    obtain ⟨rfl, _⟩ := h
    exact AcctR.refl m l hs ho
  · cases hf : l.front? with
    | none => rw [hf] at h; cases h
    | some f =>
      rw [hf] at h
      simp only at h
      split at h
      · simp only [Option.some.injEq, Prod.mk.injEq] at h
        obtain ⟨rfl, _⟩ := h
        exact AcctR.lst hs ho ⟨rfl, rfl⟩
      · simp only [Option.some.injEq, Prod.mk.injEq] at h
        obtain ⟨rfl, _⟩ := h
        exact AcctR.refl m l hs ho

theorem discard_go_acct : ∀ (fuel : Nat) (m : Mem) (l : LBuf) (need n : Nat) (m' : Mem) (l' : LBuf) (k : Nat),
    Shape m → BufOK m l → LBuf.discard.go fuel m l need n = some (m', l', k) → AcctR m l m' l' := by
  intro fuel
  induction fuel with
  | zero => intro m l need n m' l' k _ _ h; unfold LBuf.discard.go at h; cases h
  | succ f ih =>
    intro m l need n m' l' k hs ho h
    unfold LBuf.discard.go at h
    cases hf : l.front? with
    | none => rw [hf] at h; cases h
    | some fr =>
      rw [hf] at h
      simp only at h
      have a1 : AcctR m l m (l.setFront (fr.skip need).1) := acct_front fr _ _ hs ho hf (key_skip fr need) rfl rfl
      split at h
      · simp only [Option.some.injEq, Prod.mk.injEq] at h
        obtain ⟨rfl, rfl, _⟩ := h
        exact acct_front fr _ _ hs ho hf (key_skip fr need) rfl rfl
      · cases hn : (l.setFront (fr.skip need).1).readNext m with
        | none => rw [hn] at h; cases h
        | some r =>
          obtain ⟨m2, l2⟩ := r
          rw [hn] at h
          simp only at h
          have a2 := readNext_acct m _ m2 l2 hs a1.ok hn
          exact (a1.trans a2).trans (ih m2 l2 _ _ m' l' k a2.shape a2.ok h)

/-- linkedBuffer.Discard -/
theorem discard_acct (m : Mem) (l : LBuf) (size : Nat) (m' : Mem) (l' : LBuf) (k : Nat) (hs : Shape m) (ho : BufOK m l)
    (h : l.discard m size = some (m', l', k)) : AcctR m l m' l' := by
  unfold LBuf.discard at h
  split at h
  · simp only [Option.some.injEq, Prod.mk.injEq] at h
    obtain ⟨rfl, rfl, _⟩ := h
    exact AcctR.refl m l hs ho
  · exact discard_go_acct _ m l _ _ m' l' k hs ho h

theorem readByte_go_acct : ∀ (fuel : Nat) (m : Mem) (l : LBuf) (m' : Mem) (l' : LBuf) (b : Nat), Shape m → BufOK m l →
    LBuf.readByte.go fuel m l = some (m', l', b) → AcctR m l m' l' := by
  intro fuel
  induction fuel with
  | zero => intro m l m' l' b _ _ h; unfold LBuf.readByte.go at h; cases h
  | succ k ih =>
    intro m l m' l' b hs ho h
    unfold LBuf.readByte.go at h
    cases hf : l.front? with
    | none => rw [hf] at h; cases h
    | some f =>
      rw [hf] at h
      simp only at h
      have a1 : AcctR m l m (l.setFront (f.read m 1).1) := acct_front f _ _ hs ho hf (key_read m f 1) rfl rfl
      split at h
      · simp only [Option.some.injEq, Prod.mk.injEq] at h
        obtain ⟨rfl, rfl, _⟩ := h
        exact acct_front f _ _ hs ho hf (key_read m f 1) rfl rfl
      · cases hn : (l.setFront (f.read m 1).1).readNext m with
        | none => rw [hn] at h; cases h
        | some r =>
          obtain ⟨m2, l2⟩ := r
          rw [hn] at h
          simp only at h
          have a2 := readNext_acct m _ m2 l2 hs a1.ok hn
          exact (a1.trans a2).trans (ih m2 l2 m' l' b a2.shape a2.ok h)

theorem readByte_acct (m : Mem) (l : LBuf) (m' : Mem) (l' : LBuf) (b : Nat) (hs : Shape m) (ho : BufOK m l)
    (h : l.readByte m = some (m', l', b)) : AcctR m l m' l' :=
  readByte_go_acct _ m l m' l' b hs ho h

/-- linkedBuffer.cleanPinnedList -/
theorem cleanPinned_acct (m : Mem) (l : LBuf) (hs : Shape m) (ho : BufOK m l) :
    AcctR m l (l.cleanPinned m).1 (l.cleanPinned m).2 ∧ (l.cleanPinned m).2.pinned = [] ∧ (l.cleanPinned m).2.sl = l.sl := by
  unfold LBuf.cleanPinned
  split
  · rename_i he
    have : l.pinned = [] := by simpa using he
    exact ⟨AcctR.refl m l hs ho, this, rfl⟩
  · refine ⟨recycles_acctR l.pinned m l _ hs (fun t ht => ho t (mem_append_right _ ht)) ?_ (fun j => ?_), rfl, rfl⟩
    · intro t ht
      simp only [append_nil] at ht
      exact ho t (mem_append_left _ ht)
    · simp only [heldL, heldS_nil, append_nil, count_append]

/-- linkedBuffer.ReleasePreviousRead -/
theorem release_acct (m : Mem) (l : LBuf) (hs : Shape m) (ho : BufOK m l) :
    AcctR m l (l.release m).1 (l.release m).2 ∧ (l.release m).2.pinned = [] := by
  unfold LBuf.release
  obtain ⟨a1, p1, e1⟩ := cleanPinned_acct m l hs ho
  rcases hc : l.cleanPinned m with ⟨m1, l1⟩
  rw [hc] at a1 p1 e1
  simp only at a1 p1 e1 ⊢
  cases hsl : l1.sl with
  | nil => exact ⟨a1, p1⟩
  | cons f r =>
    simp only
    split
    · have hof : SliceOK m1 f := a1.ok f (by rw [hsl]; simp)
      refine ⟨a1.trans (recycle_acctR m1 f l1 _ a1.shape hof ?_ (fun j => ?_)), p1⟩
      · intro t ht
        exact a1.ok t (by
          rw [hsl]; rcases mem_append.mp ht with ht | ht
          · exact mem_append_left _ (mem_cons_of_mem _ ht)
          · exact mem_append_right _ ht)
      · simp only [heldL, hsl, heldS_cons f r, count_append]
        omega
    · exact ⟨a1, p1⟩

/-- linkedBuffer.recycle (Close): everything the buffer holds goes back -/
theorem lrecycle_acct (m : Mem) (l : LBuf) (hs : Shape m) (ho : BufOK m l) :
    AcctR m l (l.recycle m).1 (l.recycle m).2 ∧ heldL (l.recycle m).2 = [] := by
  unfold LBuf.recycle
  have ok0 : ∀ m' : Mem, BufOK m' ({} : LBuf) := fun _ t ht => by simp at ht
  have a1 : AcctR m l (l.pinned.foldl (fun m s => m.recycle s) m) { sl := l.sl } :=
    recycles_acctR l.pinned m l _ hs (fun t ht => ho t (mem_append_right _ ht))
      (fun t ht => ho t (by simp only [append_nil] at ht; exact mem_append_left _ ht))
      (fun j => by simp only [heldL, heldS_nil, append_nil, count_append])
  have a2 : AcctR _ { sl := l.sl } (l.sl.foldl (fun m s => m.recycle s) (l.pinned.foldl (fun m s => m.recycle s) m)) {} :=
    recycles_acctR l.sl _ _ _ a1.shape (fun t ht => a1.ok t (mem_append_left _ ht)) (ok0 _)
      (fun j => by
        have h0 : heldL ({} : LBuf) = [] := rfl
        rw [h0]
        simp only [heldL, heldS_nil, append_nil, count_nil]; omega)
  exact ⟨a1.trans a2, rfl⟩

theorem readString_slow_acct (size : Nat) : ∀ (fuel : Nat) (m : Mem) (l : LBuf) (written : Nat) (acc : List Nat) (m' : Mem)
    (l' : LBuf) (d : List Nat), Shape m → BufOK m l → LBuf.readString.slow size fuel m l written acc = some (m', l', d) →
    AcctR m l m' l' := by
  intro fuel
  induction fuel with
  | zero => intro m l w acc m' l' d _ _ h; unfold LBuf.readString.slow at h; cases h
  | succ k ih =>
    intro m l w acc m' l' d hs ho h
    unfold LBuf.readString.slow at h
    split at h
    · simp only [Option.some.injEq, Prod.mk.injEq] at h
      obtain ⟨rfl, rfl, _⟩ := h
      exact AcctR.lst hs ho ⟨rfl, rfl⟩
    · cases hf : l.front? with
      | none => rw [hf] at h; cases h
      | some f =>
        rw [hf] at h
        simp only at h
        have fin : ∀ (m1 : Mem) (l1 : LBuf), AcctR m l m1 l1 →
            (match l1.front? with
              | none => none
              | some g => LBuf.readString.slow size k m1 (l1.setFront (g.read m1 (size - w)).1) (w + (g.read m1 (size - w)).2.1.length)
                  (acc ++ (g.read m1 (size - w)).2.1)) = some (m', l', d) → AcctR m l m' l' := by
          intro m1 l1 a1 h1
          cases hg : l1.front? with
          | none => rw [hg] at h1; cases h1
          | some g =>
            rw [hg] at h1
            simp only at h1
            have a2 : AcctR m1 l1 m1 (l1.setFront (g.read m1 (size - w)).1) :=
              acct_front g _ _ a1.shape a1.ok hg (key_read m1 g _) rfl rfl
            exact (a1.trans a2).trans (ih m1 _ _ _ m' l' d a1.shape a2.ok h1)
        by_cases hz : f.size = 0
        · simp only [hz, if_true] at h
          cases hn : l.readNext m with
          | none => rw [hn] at h; cases h
          | some r =>
            obtain ⟨m1, l1⟩ := r
            rw [hn] at h
            exact fin m1 l1 (readNext_acct m l m1 l1 hs ho hn) h
        · simp only [hz, if_false] at h
          exact fin m l (AcctR.refl m l hs ho) h

/-- linkedBuffer.ReadString -/
theorem readString_acct (m : Mem) (l : LBuf) (size : Nat) (m' : Mem) (l' : LBuf) (d : List Nat) (hs : Shape m) (ho : BufOK m l)
    (h : l.readString m size = some (m', l', d)) : AcctR m l m' l' := by
  unfold LBuf.readString at h
  split at h
  · simp only [Option.some.injEq, Prod.mk.injEq] at h
    obtain ⟨rfl, rfl, _⟩ := h
    exact AcctR.refl m l hs ho
  · cases hf : l.front? with
    | none => rw [hf] at h; cases h
    | some f =>
      rw [hf] at h
      simp only at h
      split at h
      · simp only [Option.some.injEq, Prod.mk.injEq] at h
        obtain ⟨rfl, rfl, _⟩ := h
        exact acct_front f _ _ hs ho hf (key_read m f size) rfl rfl
      · exact readString_slow_acct size _ m l _ _ m' l' d hs ho h

theorem readInto_go_acct (size : Nat) : ∀ (fuel : Nat) (m : Mem) (l : LBuf) (written : Nat) (acc : List Nat) (m' : Mem)
    (l' : LBuf) (d : List Nat), Shape m → BufOK m l → LBuf.readInto.go size fuel m l written acc = some (m', l', d) →
    AcctR m l m' l' := by
  intro fuel
  induction fuel with
  | zero => intro m l w acc m' l' d _ _ h; unfold LBuf.readInto.go at h; cases h
  | succ k ih =>
    intro m l w acc m' l' d hs ho h
    unfold LBuf.readInto.go at h
    cases hf : l.front? with
    | none =>
      rw [hf] at h
      simp only [Option.some.injEq, Prod.mk.injEq] at h
      obtain ⟨rfl, rfl, _⟩ := h
      exact AcctR.lst hs ho ⟨rfl, rfl⟩
    | some f =>
      rw [hf] at h
      simp only at h
      split at h
      · have a1 : AcctR m l m (l.setFront (f.read m (size - w)).1) := acct_front f _ _ hs ho hf (key_read m f _) rfl rfl
        split at h
        · simp only [Option.some.injEq, Prod.mk.injEq] at h
          obtain ⟨rfl, rfl, _⟩ := h
          exact acct_front f _ _ hs ho hf (key_read m f (size - w)) rfl rfl
        · cases hn : (l.setFront (f.read m (size - w)).1).readNext m with
          | none => rw [hn] at h; cases h
          | some r =>
            obtain ⟨m2, l2⟩ := r
            rw [hn] at h
            simp only at h
            have a2 := readNext_acct m _ m2 l2 hs a1.ok hn
            exact (a1.trans a2).trans (ih m2 l2 _ _ m' l' d a2.shape a2.ok h)
      · simp only [Option.some.injEq, Prod.mk.injEq] at h
        obtain ⟨rfl, rfl, _⟩ := h
        exact AcctR.lst hs ho ⟨rfl, rfl⟩

/-- linkedBuffer.read (Stream.Read) -/
theorem readInto_acct (m : Mem) (l : LBuf) (size : Nat) (m' : Mem) (l' : LBuf) (d : List Nat) (hs : Shape m) (ho : BufOK m l)
    (h : l.readInto m size = some (m', l', d)) : AcctR m l m' l' := by
  unfold LBuf.readInto at h
  split at h
  · simp only [Option.some.injEq, Prod.mk.injEq] at h
    obtain ⟨rfl, rfl, _⟩ := h
    exact AcctR.refl m l hs ho
  · exact readInto_go_acct size _ m l _ _ m' l' d hs ho h

/-! ### writer operations -/

theorem acct_append {m : Mem} {l : LBuf} (wi : Nat) (ws : BS) (d : List Nat) (l' : LBuf) (hs : Shape m) (ho : BufOK m l)
    (h : l.sl[wi]? = some ws) (h1 : l'.sl = (l.setAt wi (ws.append m d).2.1).sl) (h2 : l'.pinned = l.pinned) :
    Acct m l (ws.append m d).1 l' := by
  obtain ⟨g, hf, hk, hh⟩ := append_geo m ws d
  exact Acct.mem hs ho g hf (fun p _ => hh p) ⟨by rw [h1]; exact (sim_setAt l wi ws _ h hk).sl, by rw [h2]⟩

/-- the optional first allocation of a write -/
theorem first_alloc_acct (m : Mem) (l : LBuf) (size : Nat) (hs : Shape m) (ho : BufOK m l) :
    Acct m l
      (match l.w with
        | some _ => (m, l)
        | none => ((l.alloc m size).1, { (l.alloc m size).2 with w := if (l.alloc m size).2.sl.isEmpty then none else some 0 })).1
      (match l.w with
        | some _ => (m, l)
        | none => ((l.alloc m size).1, { (l.alloc m size).2 with w := if (l.alloc m size).2.sl.isEmpty then none else some 0 })).2 := by
  cases l.w with
  | some _ => exact Acct.refl m l hs ho
  | none =>
    obtain ⟨a, _⟩ := alloc_acct m l size hs ho
    exact a.trans (Acct.lst a.shape a.ok ⟨rfl, rfl⟩)

theorem writeBytes_go_acct : ∀ (fuel : Nat) (m : Mem) (l : LBuf) (d : List Nat) (n : Nat) (m' : Mem) (l' : LBuf),
    Shape m → BufOK m l → LBuf.writeBytes.go fuel m l d n = some (m', l') → Acct m l m' l' := by
  intro fuel
  induction fuel with
  | zero => intro m l d n m' l' _ _ h; unfold LBuf.writeBytes.go at h; cases h
  | succ f ih =>
    intro m l d n m' l' hs ho h
    unfold LBuf.writeBytes.go at h
    cases hw : l.w with
    | none => rw [hw] at h; cases h
    | some wi =>
      rw [hw] at h
      simp only at h
      cases hws : l.sl[wi]? with
      | none => rw [hws] at h; cases h
      | some ws =>
        rw [hws] at h
        simp only at h
        have a1 : Acct m l (ws.append m d).1 (l.setAt wi (ws.append m d).2.1) := acct_append wi ws d _ hs ho hws rfl rfl
        split at h
        · simp only [Option.some.injEq, Prod.mk.injEq] at h
          obtain ⟨rfl, rfl⟩ := h
          exact acct_append wi ws d _ hs ho hws rfl rfl
        · split at h
          · have b1 := a1.upd { (l.setAt wi (ws.append m d).2.1) with w := some (wi + 1) } rfl rfl
            exact b1.trans (ih _ _ _ _ m' l' b1.shape b1.ok h)
          · obtain ⟨a2, _⟩ := alloc_acct (ws.append m d).1 (l.setAt wi (ws.append m d).2.1) (d.drop (ws.append m d).2.2).length a1.shape a1.ok
            have b2 := (a1.trans a2).upd { (LBuf.alloc (ws.append m d).1 (l.setAt wi (ws.append m d).2.1) (d.drop (ws.append m d).2.2).length).2 with
              w := if wi + 1 < (LBuf.alloc (ws.append m d).1 (l.setAt wi (ws.append m d).2.1) (d.drop (ws.append m d).2.2).length).2.sl.length then some (wi + 1) else none } rfl rfl
            exact b2.trans (ih _ _ _ _ m' l' b2.shape b2.ok h)

/-- linkedBuffer.WriteBytes -/
theorem writeBytes_acct (m : Mem) (l : LBuf) (d : List Nat) (m' : Mem) (l' : LBuf) (hs : Shape m) (ho : BufOK m l)
    (h : l.writeBytes m d = some (m', l')) : Acct m l m' l' := by
  unfold LBuf.writeBytes at h
  split at h
  · simp only [Option.some.injEq, Prod.mk.injEq] at h
    obtain ⟨rfl, rfl⟩ := h
    exact Acct.refl m l hs ho
  · have a1 := first_alloc_acct m l d.length hs ho
    exact a1.trans (writeBytes_go_acct _ _ _ _ _ m' l' a1.shape a1.ok h)

theorem writeByte_rest_acct (m0 : Mem) (l0 : LBuf) (b : Nat) (m' : Mem) (l' : LBuf) (hs : Shape m0) (ho : BufOK m0 l0)
    (h : (match l0.w with
      | none => none
      | some wi =>
        match l0.sl[wi]? with
        | none => none
        | some ws =>
          if (ws.append m0 [b]).2.2 = 1 then some ((ws.append m0 [b]).1, { (l0.setAt wi (ws.append m0 [b]).2.1) with len := l0.len + 1 })
          else
            if wi + 1 < (l0.alloc (ws.append m0 [b]).1 1).2.sl.length then
              match (l0.alloc (ws.append m0 [b]).1 1).2.sl[wi + 1]? with
              | none => none
              | some ns =>
                some ((ns.append (l0.alloc (ws.append m0 [b]).1 1).1 [b]).1,
                  { ((l0.alloc (ws.append m0 [b]).1 1).2.setAt (wi + 1) (ns.append (l0.alloc (ws.append m0 [b]).1 1).1 [b]).2.1) with
                    w := some (wi + 1), len := (l0.alloc (ws.append m0 [b]).1 1).2.len + 1 })
            else none) = some (m', l')) : Acct m0 l0 m' l' := by
  cases hw : l0.w with
  | none => rw [hw] at h; cases h
  | some wi =>
    rw [hw] at h
    simp only at h
    cases hws : l0.sl[wi]? with
    | none => rw [hws] at h; cases h
    | some ws =>
      rw [hws] at h
      simp only at h
      have a1 : Acct m0 l0 (ws.append m0 [b]).1 l0 := by
        obtain ⟨g, hf, _, hh⟩ := append_geo m0 ws [b]
        exact Acct.mem hs ho g hf (fun p _ => hh p) (Sim.refl l0)
      split at h
      · simp only [Option.some.injEq, Prod.mk.injEq] at h
        obtain ⟨rfl, rfl⟩ := h
        exact acct_append wi ws [b] _ hs ho hws rfl rfl
      · obtain ⟨a2, _⟩ := alloc_acct (ws.append m0 [b]).1 l0 1 a1.shape a1.ok
        split at h
        · cases hns : (l0.alloc (ws.append m0 [b]).1 1).2.sl[wi + 1]? with
          | none => rw [hns] at h; cases h
          | some ns =>
            rw [hns] at h
            simp only [Option.some.injEq, Prod.mk.injEq] at h
            obtain ⟨rfl, rfl⟩ := h
            exact (a1.trans a2).trans (acct_append (wi + 1) ns [b] _ a2.shape a2.ok hns rfl rfl)
        · cases h

/-- linkedBuffer.WriteByte -/
theorem writeByte_acct (m : Mem) (l : LBuf) (b : Nat) (m' : Mem) (l' : LBuf) (hs : Shape m) (ho : BufOK m l)
    (h : l.writeByte m b = some (m', l')) : Acct m l m' l' := by
  unfold LBuf.writeByte at h
  have a0 := first_alloc_acct m l 1 hs ho
  exact a0.trans (writeByte_rest_acct _ _ b m' l' a0.shape a0.ok h)

/-- linkedBuffer.appendBufferSlice (a slice that arrives by transport) -/
theorem appendSlice_acct (m : Mem) (l : LBuf) (s : BS) (hs : Shape m) (ho : BufOK m l) (hos : SliceOK m s) :
    Shape m ∧ BufOK m (l.appendSlice s) ∧ ∀ j, (heldL (l.appendSlice s)).count j = (heldL l).count j + (heldS [s]).count j := by
  refine ⟨hs, ?_, fun j => ?_⟩
  · intro t ht
    simp only [LBuf.appendSlice, mem_append, mem_singleton] at ht
    rcases ht with (ht | ht) | ht
    · exact ho t (mem_append_left _ ht)
    · rw [ht]; exact hos
    · exact ho t (mem_append_right _ ht)
  · simp only [heldL, LBuf.appendSlice, heldS_append, count_append]
    omega

/-- bufferSlice.update writes a header: no slot moves -/
theorem updateHdr_geo (m : Mem) (s : BS) (nx : Option BS) : Geo m (updateHdr m s nx) ∧ (updateHdr m s nx).free = m.free ∧
    ∀ p, p ∉ heldS [s] → ((updateHdr m s nx).slot p).hdr = (m.slot p).hdr := by
  unfold updateHdr
  cases hsl : s.slot with
  | none => exact ⟨Geo.refl m, rfl, fun _ _ => rfl⟩
  | some i =>
    refine ⟨geo_setSlot m i _ (fun x => ?_), rfl, fun p hp => ?_⟩
    · cases nx <;> rfl
    · have hpi : i ≠ p := fun e => hp (by simp [heldS, hsl, e])
      exact slot_setSlot_hdr_ne m i p _ hpi

theorem fold_geo (F : Mem → Nat → Mem) (P : Nat → Prop)
    (hF : ∀ m i, Geo m (F m i) ∧ (F m i).free = m.free ∧ ∀ p, P p → ((F m i).slot p).hdr = (m.slot p).hdr) :
    ∀ (is : List Nat) (m : Mem),
    Geo m (is.foldl F m) ∧ (is.foldl F m).free = m.free ∧ ∀ p, P p → ((is.foldl F m).slot p).hdr = (m.slot p).hdr
  | [], m => ⟨Geo.refl m, rfl, fun _ _ => rfl⟩
  | i :: r, m => by
    rw [foldl_cons]
    obtain ⟨g1, f1, h1⟩ := hF m i
    obtain ⟨g2, f2, h2⟩ := fold_geo F P hF r (F m i)
    exact ⟨g1.trans g2, f2.trans f1, fun p hp => (h2 p hp).trans (h1 p hp)⟩

theorem doneStep_geo (l : LBuf) (m : Mem) (i : Nat) : Geo m (doneStep l m i) ∧ (doneStep l m i).free = m.free ∧
    ∀ p, p ∉ heldS l.sl → ((doneStep l m i).slot p).hdr = (m.slot p).hdr := by
  unfold doneStep
  cases hs : l.sl[i]? with
  | none => exact ⟨Geo.refl m, rfl, fun _ _ => rfl⟩
  | some s =>
    obtain ⟨g, f, h⟩ := updateHdr_geo m s l.sl[i + 1]?
    refine ⟨g, f, fun p hp => h p (fun hx => hp ?_)⟩
    simp only [heldS, filterMap_cons, filterMap_nil] at hx
    cases hsl : s.slot with
    | none => rw [hsl] at hx; cases hx
    | some k =>
      rw [hsl] at hx
      simp only [mem_singleton] at hx
      subst hx
      exact mem_filterMap.mpr ⟨s, mem_of_getElem? hs, hsl⟩

/-- linkedBuffer.done: headers are written, the unused tail goes back -/
theorem done_acct (m : Mem) (l : LBuf) (m' : Mem) (l' : LBuf) (hs : Shape m) (ho : BufOK m l)
    (h : l.done m = some (m', l')) : Acct m l m' l' := by
  unfold LBuf.done at h
  split at h
  · simp only [Option.some.injEq, Prod.mk.injEq] at h
    obtain ⟨rfl, rfl⟩ := h
    exact Acct.refl m l hs ho
  · cases hw : l.w with
    | none => rw [hw] at h; cases h
    | some wi =>
      rw [hw] at h
      simp only [Option.some.injEq, Prod.mk.injEq] at h
      obtain ⟨rfl, rfl⟩ := h
      change Acct m l ((l.sl.drop (wi + 1)).foldl (fun m s => m.recycle s) ((List.range (wi + 1)).foldl (doneStep l) m)) _
      obtain ⟨g1, f1, hh1⟩ := fold_geo (doneStep l) (fun p => p ∉ heldS l.sl) (doneStep_geo l) (List.range (wi + 1)) m
      have a1 : Acct m l _ l := Acct.mem hs ho g1 f1 (fun p hp => hh1 p (fun hx => hp (mem_append_left _ hx))) (Sim.refl l)
      have hod : SlicesOK _ (l.sl.drop (wi + 1)) := fun t ht => a1.ok t (mem_append_left _ (mem_of_mem_drop ht))
      obtain ⟨g2, s2, c2, hh2⟩ := recycles_acct (l.sl.drop (wi + 1)) _ a1.shape hod
      refine ⟨g1.trans g2, s2, ?_, fun j => ?_, fun p _ hp => ?_⟩
      rotate_left 2
      · have hsplit : heldS l.sl = heldS (l.sl.take (wi + 1)) ++ heldS (l.sl.drop (wi + 1)) := by
          rw [← heldS_append, take_append_drop]
        rw [heldL, mem_append, not_or] at hp
        have hd : p ∉ heldS (l.sl.drop (wi + 1)) := fun hx => hp.1 (by rw [hsplit]; exact mem_append_right _ hx)
        rw [hh2 p hd, hh1 p hp.1]
      · intro t ht
        rcases mem_append.mp ht with ht | ht
        · exact (a1.ok t (mem_append_left _ (mem_of_mem_take ht))).geo g2
        · exact (a1.ok t (mem_append_right _ ht)).geo g2
      · have hsplit : heldS l.sl = heldS (l.sl.take (wi + 1)) ++ heldS (l.sl.drop (wi + 1)) := by
          rw [← heldS_append, take_append_drop]
        have hX : fc ((List.range (wi + 1)).foldl (doneStep l) m) j = fc m j := by
          unfold fc; rw [f1]
        rw [c2 j, hX]
        simp only [heldL, hsplit, count_append]
        omega

end LB
