import ShmVerif.Proof.Mux
/-!
  "Close never overtakes data", as an invariant of the message-level protocol model `Mux`.

  For a sender `x` and a stream id `j` whose sender-side object was never re-created:
  * once `x` has issued the close notification of `j`, no flush on `j` succeeds any more (`e1`);
  * behind a close notification of `j` — in the shared queue, on the connection, and across the two (a notification in
    the queue with data on the connection) — there is no data of `j` (`e2q`, `e2o`, `e3`);
  * as long as data of `j` is in flight, the notification is in flight too (`e4`): when the peer has consumed the
    notification, everything flushed on `j` has arrived.
-/
namespace Mux
open List

def closeInQ (j : Nat) (q : List QEl) : Prop := ∃ el ∈ q, el.sid = j ∧ el.isClose = true
def PendClose (j : Nat) (c : Chan) : Prop := closeInQ j c.q ∨ Ev.close j ∈ c.k
def afterCloseK (j : Nat) (k : List Ev) : List Ev := k.dropWhile (fun ev => ev != Ev.close j)
def afterCloseQ (j : Nat) (q : List QEl) : List QEl := q.dropWhile (fun el => !(el.sid == j && el.isClose))

structure Eos (s : Sys) (x : Side) (j : Nat) : Prop where
  e1 : (x, j) ∈ s.closeSent → ∃ st, (s.me x).find j = some st ∧ st.state ≠ .opened
  e5 : PendClose j (s.ch x) → (x, j) ∈ s.closeSent
  e2q : closeInQ j (s.ch x).q → kdata j (s.ch x).k = []
  e2o : qdata j (afterCloseQ j (s.ch x).q) = []
  e3 : kdata j (afterCloseK j (s.ch x).k) = []
  e4 : (x, j) ∈ s.closeSent → (qdata j (s.ch x).q ≠ [] ∨ kdata j (s.ch x).k ≠ []) → PendClose j (s.ch x)

def EosG (s : Sys) (x : Side) (j : Nat) : Prop := (x, j) ∉ s.recreated → Eos s x j

/-! ### list facts -/

theorem kdata_nil_of_sublist {j : Nat} {l k : List Ev} (h : l.Sublist k) (hk : kdata j k = []) : kdata j l = [] := by
  have : (kdata j l).Sublist (kdata j k) := by unfold kdata; exact h.filterMap _
  rw [hk] at this
  exact eq_nil_of_sublist_nil this

theorem qdata_nil_of_sublist {j : Nat} {l q : List QEl} (h : l.Sublist q) (hq : qdata j q = []) : qdata j l = [] := by
  have : (qdata j l).Sublist (qdata j q) := by unfold qdata; exact (h.filter _).map _
  rw [hq] at this
  exact eq_nil_of_sublist_nil this

theorem dropWhile_nil_iff {α : Type} (p : α → Bool) : ∀ l : List α, l.dropWhile p = [] ↔ ∀ x ∈ l, p x = true
  | [] => by simp
  | a :: r => by
    by_cases h : p a = true
    · rw [dropWhile_cons_of_pos h, dropWhile_nil_iff p r]; simp [h]
    · rw [dropWhile_cons_of_neg h]; simp [h]

theorem afterCloseK_nil_iff (j : Nat) (k : List Ev) : afterCloseK j k = [] ↔ Ev.close j ∉ k := by
  unfold afterCloseK
  rw [dropWhile_nil_iff]
  constructor
  · intro h hm; have := h _ hm; simp at this
  · intro h ev hev; simp only [bne_iff_ne, ne_eq]; intro e; exact h (e ▸ hev)

theorem afterCloseQ_nil_iff (j : Nat) (q : List QEl) : afterCloseQ j q = [] ↔ ¬ closeInQ j q := by
  unfold afterCloseQ closeInQ
  rw [dropWhile_nil_iff]
  constructor
  · rintro h ⟨el, hel, h1, h2⟩
    have := h el hel
    simp [h1, h2] at this
  · intro h el hel
    cases hb : (el.sid == j && el.isClose) with
    | false => rfl
    | true =>
      simp only [Bool.and_eq_true, beq_iff_eq] at hb
      exact absurd ⟨el, hel, hb.1, hb.2⟩ h

/-- appending events that carry no data of `j` -/
theorem e3_append {j : Nat} {k l : List Ev} (h : kdata j (afterCloseK j k) = []) (hl : kdata j l = []) :
    kdata j (afterCloseK j (k ++ l)) = [] := by
  unfold afterCloseK at h ⊢
  rw [dropWhile_append]
  split
  · exact kdata_nil_of_sublist (dropWhile_sublist _) hl
  · rw [kdata_append, h, hl]; rfl

/-- appending anything but a close of `j` when no close of `j` is on the connection -/
theorem e3_append_fresh {j : Nat} {k : List Ev} {ev : Ev} (h : Ev.close j ∉ k) (hev : ev ≠ Ev.close j) :
    kdata j (afterCloseK j (k ++ [ev])) = [] := by
  have : afterCloseK j (k ++ [ev]) = [] := by
    rw [afterCloseK_nil_iff]
    intro hm
    rcases mem_append.mp hm with h1 | h1
    · exact h h1
    · simp at h1; exact hev h1.symm
  rw [this]; rfl

theorem e2o_append {j : Nat} {q l : List QEl} (h : qdata j (afterCloseQ j q) = []) (hl : qdata j l = []) :
    qdata j (afterCloseQ j (q ++ l)) = [] := by
  unfold afterCloseQ at h ⊢
  rw [dropWhile_append]
  split
  · exact qdata_nil_of_sublist (dropWhile_sublist _) hl
  · rw [qdata_append, h, hl]; rfl

theorem e2o_append_fresh {j : Nat} {q : List QEl} {el : QEl} (h : ¬ closeInQ j q) (hel : el.isClose = false) :
    qdata j (afterCloseQ j (q ++ [el])) = [] := by
  have : afterCloseQ j (q ++ [el]) = [] := by
    rw [afterCloseQ_nil_iff]
    rintro ⟨e, he, h1, h2⟩
    rcases mem_append.mp he with h3 | h3
    · exact h ⟨e, h3, h1, h2⟩
    · simp at h3; subst h3; rw [hel] at h2; cases h2
  rw [this]; rfl

theorem closeInQ_append (j : Nat) (q l : List QEl) : closeInQ j (q ++ l) ↔ closeInQ j q ∨ closeInQ j l := by
  unfold closeInQ
  constructor
  · rintro ⟨el, hel, h⟩
    rcases mem_append.mp hel with h1 | h1
    · exact Or.inl ⟨el, h1, h⟩
    · exact Or.inr ⟨el, h1, h⟩
  · rintro (⟨el, hel, h⟩ | ⟨el, hel, h⟩)
    · exact ⟨el, mem_append_left _ hel, h⟩
    · exact ⟨el, mem_append_right _ hel, h⟩

theorem closeInQ_single (j i m : Nat) (c : Bool) : closeInQ j [{ sid := i, msg := m, isClose := c }] ↔ (i = j ∧ c = true) := by
  unfold closeInQ; simp

theorem mem_wake_close (c : Chan) (j : Nat) : Ev.close j ∈ c.wake.k ↔ Ev.close j ∈ c.k := by
  unfold Chan.wake; split
  · rfl
  · simp

theorem e3_wake {j : Nat} {c : Chan} (h : kdata j (afterCloseK j c.k) = []) : kdata j (afterCloseK j c.wake.k) = [] := by
  unfold Chan.wake; split
  · exact h
  · exact e3_append h (by simp [kdata])

/-! ### frames -/

theorem eos_of_same {s s' : Sys} {x : Side} {j : Nat} (h : Eos s x j) (h1 : s'.ch x = s.ch x) (h2 : s'.me x = s.me x)
    (h3 : (x, j) ∈ s'.closeSent ↔ (x, j) ∈ s.closeSent) : Eos s' x j := by
  refine ⟨?_, ?_, ?_, ?_, ?_, ?_⟩
  · rw [h2, h3]; exact h.e1
  · rw [h1, h3]; exact h.e5
  · rw [h1]; exact h.e2q
  · rw [h1]; exact h.e2o
  · rw [h1]; exact h.e3
  · rw [h1, h3]; exact h.e4

/-- the sender end changes stream objects without re-opening anything; channel and notifications untouched -/
theorem eos_me_change {s s' : Sys} {x : Side} {j : Nat} (h : Eos s x j) (h1 : s'.ch x = s.ch x)
    (h3 : (x, j) ∈ s'.closeSent ↔ (x, j) ∈ s.closeSent)
    (hh : ∀ st, (s.me x).find j = some st → st.state ≠ .opened → ∃ st', (s'.me x).find j = some st' ∧ st'.state ≠ .opened) :
    Eos s' x j := by
  refine ⟨?_, ?_, ?_, ?_, ?_, ?_⟩
  · rw [h3]; intro hc
    obtain ⟨st, a, b⟩ := h.e1 hc
    exact hh st a b
  · rw [h1, h3]; exact h.e5
  · rw [h1]; exact h.e2q
  · rw [h1]; exact h.e2o
  · rw [h1]; exact h.e3
  · rw [h1, h3]; exact h.e4

theorem harmless_keeps_closed {e e' : MEnd} {j : Nat} (hs : (e.find j).isSome → (e'.find j).isSome) (hh : Harmless e e' j) :
    ∀ st, e.find j = some st → st.state ≠ .opened → ∃ st', e'.find j = some st' ∧ st'.state ≠ .opened := by
  intro st hst hno
  have := hs (by simp [hst])
  cases hf : e'.find j with
  | none => simp [hf] at this
  | some st' =>
    obtain ⟨st0, h0, _, b⟩ := hh st' hf
    rw [hst] at h0; cases h0
    exact ⟨st', rfl, b hno⟩

/-! ### the ghost list of issued notifications only changes in `closeStream` -/

theorem closeNote_closeSent (s : Sys) (y : Side) (i : Nat) : (closeNote s y i).closeSent = s.closeSent := by
  unfold closeNote; split <;> rfl

theorem offer_closeSent (s : Sys) (y : Side) (i m : Nat) (v : Bool) : (offer s y i m v).closeSent = s.closeSent := by
  unfold offer
  rcases getStream (s.me y) i true with ⟨e', found⟩
  simp only
  split
  · split
    · split <;> rfl
    · rfl
  · rfl

theorem drain_closeSent : ∀ (q : List QEl) (s : Sys) (y : Side), (drain q s y).closeSent = s.closeSent
  | [], s, y => rfl
  | el :: r, s, y => by
    simp only [drain]
    rw [drain_closeSent r]
    split
    · exact closeNote_closeSent s y el.sid
    · exact offer_closeSent s y el.sid el.msg false

theorem flush_closeSent (s : Sys) (z : Side) (i : Nat) (heap : Bool) : (flush s z i heap).1.closeSent = s.closeSent := by
  unfold flush
  cases (s.me z).find i with
  | none => rfl
  | some st =>
    simp only
    split
    · rfl
    · split
      · rfl
      · split <;> rfl

theorem deliver_closeSent (s : Sys) (y : Side) : (deliver s y).1.closeSent = s.closeSent := by
  unfold deliver
  cases hk : (s.ch y.peer).k with
  | nil => simp only [hk]
  | cons ev rest =>
    simp only [hk]
    cases ev with
    | polling => simp only; rw [drain_closeSent]; rfl
    | close i => simp only; rw [closeNote_closeSent]; rfl
    | fb i m => simp only; rw [offer_closeSent]; rfl

/-! ### flush -/

theorem not_closeSent_of_open {s : Sys} {x : Side} {j : Nat} (h : Eos s x j) (st : MStream)
    (hst : (s.me x).find j = some st) (ho : st.state = .opened) : (x, j) ∉ s.closeSent := by
  intro hc
  obtain ⟨st', a, b⟩ := h.e1 hc
  rw [hst] at a; cases a
  exact b ho

theorem flush_eos (s : Sys) (z : Side) (i : Nat) (heap : Bool) (x : Side) (j : Nat) (hI : Inv s x j)
    (hr : (x, j) ∉ s.recreated) (h : Eos s x j) : Eos (flush s z i heap).1 x j := by
  unfold flush
  cases hfind : (s.me z).find i with
  | none => exact h
  | some st =>
    simp only
    by_cases hop : st.state ≠ .opened
    · rw [if_pos hop]; exact eos_of_same h rfl rfl Iff.rfl
    · rw [if_neg hop]
      have hopen : st.state = .opened := by simpa using hop
      by_cases hfb : st.inFb = true ∨ heap = true
      · rw [if_pos hfb]
        simp only
        by_cases hz : z = x
        · subst hz
          have hidf : ∀ y : MStream, ({ y with inFb := true } : MStream).id = y.id := fun _ => rfl
          refine ⟨?_, ?_, ?_, ?_, ?_, ?_⟩ <;> simp only [Sys.setCh, Sys.setMe, Sys.me, upd_same]
          · intro hc
            obtain ⟨st0, a, b⟩ := h.e1 hc
            cases hf : ((s.me z).upd i (fun y => { y with inFb := true })).find j with
            | none =>
              have := find_upd_isSome (s.me z) i j (fun y => { y with inFb := true }) hidf
              rw [hf, a] at this; simp at this
            | some st' =>
              rcases find_upd_stream _ _ _ _ hidf st' hf with ⟨_, st1, h1, e⟩ | ⟨_, e⟩
              · rw [a] at h1; cases h1; exact ⟨st', hf, by rw [e]; exact b⟩
              · rw [a] at e; cases e; exact ⟨_, hf, b⟩
          · rintro (hq | hk)
            · exact h.e5 (Or.inl hq)
            · simp only [mem_append, mem_singleton] at hk
              rcases hk with hk | hk
              · exact h.e5 (Or.inr hk)
              · cases hk
          · intro hq
            rw [kdata_append, h.e2q hq]
            by_cases hij : i = j
            · subst hij
              exact absurd (h.e5 (Or.inl hq)) (not_closeSent_of_open h st hfind hopen)
            · simp [kdata, hij]
          · exact h.e2o
          · by_cases hij : i = j
            · subst hij
              apply e3_append_fresh
              · intro hm; exact not_closeSent_of_open h st hfind hopen (h.e5 (Or.inr hm))
              · simp
            · exact e3_append h.e3 (by simp [kdata, hij])
          · intro hc hd
            by_cases hij : i = j
            · subst hij; exact absurd hc (not_closeSent_of_open h st hfind hopen)
            · rw [kdata_append] at hd
              have : kdata j [Ev.fb i s.fresh] = [] := by simp [kdata, hij]
              rw [this, append_nil] at hd
              rcases h.e4 hc hd with p | p
              · exact Or.inl p
              · exact Or.inr (mem_append_left _ p)
        · have hxz : x ≠ z := fun e => hz e.symm
          refine eos_of_same h ?_ ?_ Iff.rfl
          · simp [Sys.setCh, Sys.setMe, upd_other _ _ _ _ hxz]
          · simp [Sys.setCh, Sys.setMe, Sys.me, upd_other _ _ _ _ hxz]
      · rw [if_neg hfb]
        by_cases hfull : (s.ch z).q.length ≥ s.qcap
        · rw [if_pos hfull]; exact eos_of_same h rfl rfl Iff.rfl
        · rw [if_neg hfull]
          by_cases hz : z = x
          · subst hz
            refine ⟨?_, ?_, ?_, ?_, ?_, ?_⟩ <;> simp only [Sys.setCh, Sys.me, upd_same, wake_q]
            · exact h.e1
            · rintro (hq | hk)
              · rw [wake_q, closeInQ_append, closeInQ_single] at hq
                rcases hq with hq | hq
                · exact h.e5 (Or.inl hq)
                · cases hq.2
              · rw [mem_wake_close] at hk; exact h.e5 (Or.inr hk)
            · intro hq
              rw [closeInQ_append, closeInQ_single] at hq
              rcases hq with hq | hq
              · rw [wake_kdata]; exact h.e2q hq
              · cases hq.2
            · by_cases hij : i = j
              · subst hij
                apply e2o_append_fresh
                · intro hq; exact not_closeSent_of_open h st hfind hopen (h.e5 (Or.inl hq))
                · rfl
              · exact e2o_append h.e2o (by rw [qdata_single]; simp [hij])
            · exact e3_wake h.e3
            · intro hc hd
              by_cases hij : i = j
              · subst hij; exact absurd hc (not_closeSent_of_open h st hfind hopen)
              · rw [qdata_append, qdata_single, wake_kdata] at hd
                simp only [hij, if_false, append_nil] at hd
                rcases h.e4 hc hd with p | p
                · left; rw [wake_q]; exact (closeInQ_append _ _ _).mpr (Or.inl p)
                · exact Or.inr ((mem_wake_close _ _).mpr p)
          · have hxz : x ≠ z := fun e => hz e.symm
            refine eos_of_same h ?_ rfl Iff.rfl
            simp [Sys.setCh, upd_other _ _ _ _ hxz]

/-! ### close -/

theorem closeStream_eos (s : Sys) (z : Side) (i : Nat) (x : Side) (j : Nat) (hI : Inv s x j)
    (hr : (x, j) ∉ s.recreated) (h : Eos s x j) : Eos (closeStream s z i).1 x j := by
  unfold closeStream
  cases hfind : (s.me z).find i with
  | none => exact h
  | some st =>
    simp only
    by_cases hcl : st.state = .closed
    · rw [if_pos hcl]; exact h
    · rw [if_neg hcl]
      have hidf : ∀ y : MStream, ({ y with state := St.closed, buffered := [], fbPending := false } : MStream).id = y.id := fun _ => rfl
      by_cases hz : z = x
      · subst hz
        -- the updated end: stream i is closed, every other stream object is untouched
        have hstream : ∀ st0, (s.me z).find j = some st0 →
            ∃ st', MEnd.find { (s.me z).upd i (fun y => { y with state := St.closed, buffered := [], fbPending := false }) with
              table := ((s.me z).upd i (fun y => { y with state := St.closed, buffered := [], fbPending := false })).table.filter (· ≠ i) } j = some st' ∧
              ((j = i ∧ st'.state = .closed) ∨ (j ≠ i ∧ st' = st0)) := by
          intro st0 h0
          have hs : (((s.me z).upd i (fun y => { y with state := St.closed, buffered := [], fbPending := false })).find j).isSome = true := by
            rw [find_upd_isSome _ _ _ _ hidf, h0]; rfl
          cases hf : ((s.me z).upd i (fun y => { y with state := St.closed, buffered := [], fbPending := false })).find j with
          | none => rw [hf] at hs; cases hs
          | some st' =>
            refine ⟨st', hf, ?_⟩
            rcases find_upd_stream _ _ _ _ hidf st' hf with ⟨he, st1, h1, e⟩ | ⟨hne, e⟩
            · left; subst e; exact ⟨he, rfl⟩
            · right; rw [h0] at e; cases e; exact ⟨hne, rfl⟩
        have hkeep : ∀ st0, (s.me z).find j = some st0 → st0.state ≠ .opened →
            ∃ st', MEnd.find { (s.me z).upd i (fun y => { y with state := St.closed, buffered := [], fbPending := false }) with
              table := ((s.me z).upd i (fun y => { y with state := St.closed, buffered := [], fbPending := false })).table.filter (· ≠ i) } j = some st' ∧
              st'.state ≠ .opened := by
          intro st0 h0 hno
          obtain ⟨st', a, b⟩ := hstream st0 h0
          rcases b with ⟨_, b⟩ | ⟨_, b⟩
          · exact ⟨st', a, by rw [b]; simp⟩
          · exact ⟨st', a, by rw [b]; exact hno⟩
        by_cases hop : st.state = .opened
        · rw [if_pos hop]
          have hnc : i = j → (z, j) ∉ s.closeSent := by
            intro e; subst e; exact not_closeSent_of_open h st hfind hop
          split
          · -- the notification travels on the connection
            refine ⟨?_, ?_, ?_, ?_, ?_, ?_⟩ <;> simp only [Sys.setCh, Sys.setMe, Sys.me, upd_same]
            · intro hc
              simp only [mem_append, mem_singleton, Prod.mk.injEq] at hc
              rcases hc with hc | ⟨_, hc⟩
              · obtain ⟨st0, a, b⟩ := h.e1 hc
                exact hkeep st0 a b
              · subst hc
                obtain ⟨st', a, b⟩ := hstream st hfind
                rcases b with ⟨_, b⟩ | ⟨b, _⟩
                · exact ⟨st', a, by rw [b]; simp⟩
                · exact absurd rfl b
            · rintro (hq | hk)
              · exact mem_append_left _ (h.e5 (Or.inl hq))
              · simp only [mem_append, mem_singleton, Ev.close.injEq] at hk
                rcases hk with hk | hk
                · exact mem_append_left _ (h.e5 (Or.inr hk))
                · subst hk; simp
            · intro hq
              rw [kdata_append, h.e2q hq]; simp [kdata]
            · exact h.e2o
            · exact e3_append h.e3 (by simp [kdata])
            · intro hc hd
              rw [kdata_append] at hd
              have : kdata j [Ev.close i] = [] := by simp [kdata]
              rw [this, append_nil] at hd
              simp only [mem_append, mem_singleton, Prod.mk.injEq] at hc
              rcases hc with hc | ⟨_, hc⟩
              · rcases h.e4 hc hd with p | p
                · exact Or.inl p
                · exact Or.inr (mem_append_left _ p)
              · subst hc; right; simp
          · -- the notification travels through the queue
            rename_i hcond
            have hnofb : st.inFb = false := by
              cases hb : st.inFb with
              | false => rfl
              | true => exact absurd (Or.inl hb) hcond
            refine ⟨?_, ?_, ?_, ?_, ?_, ?_⟩ <;> simp only [Sys.setCh, Sys.setMe, Sys.me, upd_same]
            · intro hc
              simp only [mem_append, mem_singleton, Prod.mk.injEq] at hc
              rcases hc with hc | ⟨_, hc⟩
              · obtain ⟨st0, a, b⟩ := h.e1 hc
                exact hkeep st0 a b
              · subst hc
                obtain ⟨st', a, b⟩ := hstream st hfind
                rcases b with ⟨_, b⟩ | ⟨b, _⟩
                · exact ⟨st', a, by rw [b]; simp⟩
                · exact absurd rfl b
            · rintro (hq | hk)
              · rw [wake_q, closeInQ_append, closeInQ_single] at hq
                rcases hq with hq | hq
                · exact mem_append_left _ (h.e5 (Or.inl hq))
                · rw [hq.1]; simp
              · rw [mem_wake_close] at hk
                exact mem_append_left _ (h.e5 (Or.inr hk))
            · intro hq
              rw [wake_q, closeInQ_append, closeInQ_single] at hq
              rw [wake_kdata]
              rcases hq with hq | hq
              · exact h.e2q hq
              · have := hq.1; subst this
                exact kdata_nil_of_no_ev i _ (no_events_of_open hI.core hr st hfind hop hnofb)
            · rw [wake_q]; exact e2o_append h.e2o (by simp [qdata])
            · exact e3_wake h.e3
            · intro hc hd
              rw [wake_q, qdata_append, qdata_single_close, append_nil, wake_kdata] at hd
              simp only [mem_append, mem_singleton, Prod.mk.injEq] at hc
              rcases hc with hc | ⟨_, hc⟩
              · rcases h.e4 hc hd with p | p
                · left; rw [wake_q]; exact (closeInQ_append _ _ _).mpr (Or.inl p)
                · exact Or.inr ((mem_wake_close _ _).mpr p)
              · subst hc; left; rw [wake_q]
                exact (closeInQ_append _ _ _).mpr (Or.inr ((closeInQ_single _ _ _ _).mpr ⟨rfl, rfl⟩))
        · rw [if_neg hop]
          refine eos_me_change h rfl Iff.rfl ?_
          intro st0 a b
          simp only [Sys.setMe, Sys.me, upd_same]
          exact hkeep st0 a b
      · have hxz : x ≠ z := fun e => hz e.symm
        have hcsz : ∀ l : List (Side × Nat), (x, j) ∈ l ++ [(z, i)] ↔ (x, j) ∈ l := by
          intro l
          simp only [mem_append, mem_singleton, Prod.mk.injEq]
          constructor
          · rintro (a | ⟨a, _⟩)
            · exact a
            · exact absurd a hxz
          · exact Or.inl
        split
        · split
          · refine eos_of_same h ?_ ?_ (hcsz _)
            · simp [Sys.setCh, Sys.setMe, upd_other _ _ _ _ hxz]
            · simp [Sys.setCh, Sys.setMe, Sys.me, upd_other _ _ _ _ hxz]
          · refine eos_of_same h ?_ ?_ (hcsz _)
            · simp [Sys.setCh, Sys.setMe, upd_other _ _ _ _ hxz]
            · simp [Sys.setCh, Sys.setMe, Sys.me, upd_other _ _ _ _ hxz]
        · refine eos_of_same h rfl ?_ Iff.rfl
          simp [Sys.setMe, Sys.me, upd_other _ _ _ _ hxz]

/-! ### deliver -/

theorem eos_recv_self {s0 s' : Sys} {x : Side} {j : Nat} (h : Eos s0 x j) (f : RecvFrame s0 s' x)
    (hcs : s'.closeSent = s0.closeSent) (hr' : (x, j) ∉ s'.recreated) : Eos s' x j := by
  refine eos_me_change h (by rw [f.ch]) (by rw [hcs]) ?_
  intro st hst hno
  rcases f.eff j with hh | hh | hh
  · exact harmless_keeps_closed (f.some_ j) hh st hst hno
  · rw [hh] at hst; cases hst
  · exact absurd hh hr'

theorem eos_recv_peer {s0 s' : Sys} {x y : Side} {j : Nat} (hy : x ≠ y) (h : Eos s0 x j) (f : RecvFrame s0 s' y)
    (hcs : s'.closeSent = s0.closeSent) : Eos s' x j :=
  eos_of_same h (by rw [f.ch]) (f.other x hy) (by rw [hcs])

theorem afterCloseK_cons_ne (j : Nat) (ev : Ev) (r : List Ev) (h : ev ≠ Ev.close j) :
    afterCloseK j (ev :: r) = afterCloseK j r := by
  unfold afterCloseK
  rw [dropWhile_cons_of_pos]
  simpa using h

theorem afterCloseK_cons_eq (j : Nat) (r : List Ev) : afterCloseK j (Ev.close j :: r) = Ev.close j :: r := by
  unfold afterCloseK
  rw [dropWhile_cons_of_neg]
  simp

theorem deliver_eos (s : Sys) (y : Side) (x : Side) (j : Nat) (hI : Inv s x j) (hr : (x, j) ∉ s.recreated)
    (hr' : (x, j) ∉ (deliver s y).1.recreated) (h : Eos s x j) : Eos (deliver s y).1 x j := by
  have hcs := deliver_closeSent s y
  revert hcs hr'
  unfold deliver
  rcases eq_or_peer y x with hx | hx
  · -- x receives what its peer wrote
    subst hx
    have hne : x ≠ x.peer := fun e => peer_ne x e.symm
    cases hk : (s.ch x.peer).k with
    | nil => simp only [hk]; intro _ _; exact h
    | cons ev rest =>
      simp only [hk]
      have h0 : ∀ c : Chan, Eos (s.setCh x.peer c) x j := fun c =>
        eos_of_same h (setCh_ch_other s x.peer x c hne) rfl Iff.rfl
      cases ev with
      | polling =>
        simp only
        intro hr' hcs
        obtain ⟨f, _⟩ := drain_frame (s.ch x.peer).q (s.setCh x.peer { q := [], flag := false, k := rest }) x
        exact eos_recv_self (h0 _) f hcs hr'
      | close i =>
        simp only
        intro hr' hcs
        obtain ⟨f, _⟩ := closeNote_frame (s.setCh x.peer { s.ch x.peer with k := rest }) x i
        exact eos_recv_self (h0 _) f hcs hr'
      | fb i m =>
        simp only
        intro hr' hcs
        obtain ⟨f, _⟩ := offer_frame (s.setCh x.peer { s.ch x.peer with k := rest }) x i m true
        exact eos_recv_self (h0 _) f hcs hr'
  · -- x's own channel is consumed by its peer y
    have hxy : x ≠ y := by rw [hx]; exact peer_ne y
    rw [← hx]
    cases hk : (s.ch x).k with
    | nil => simp only [hk]; intro _ _; exact h
    | cons ev rest =>
      simp only [hk]
      cases ev with
      | polling =>
        simp only
        intro _ hcs
        obtain ⟨f, _⟩ := drain_frame (s.ch x).q (s.setCh x { q := [], flag := false, k := rest }) y
        refine eos_recv_peer hxy ?_ f hcs
        refine ⟨?_, ?_, ?_, ?_, ?_, ?_⟩ <;> simp only [setCh_ch_same, setCh_me]
        · exact h.e1
        · rintro (⟨el, hel, _⟩ | hm)
          · cases hel
          · exact h.e5 (Or.inr (by rw [hk]; exact mem_cons_of_mem _ hm))
        · rintro ⟨el, hel, _⟩; cases hel
        · rfl
        · have := h.e3; rw [hk, afterCloseK_cons_ne j _ _ (by simp)] at this; exact this
        · intro hc hd
          rcases hd with hd | hd
          · exact absurd rfl hd
          · have hd' : kdata j (s.ch x).k ≠ [] := by rw [hk, kdata_cons_polling]; exact hd
            rcases h.e4 hc (Or.inr hd') with p | p
            · exact absurd (h.e2q p) hd'
            · rw [hk] at p
              rcases mem_cons.mp p with e | e
              · cases e
              · exact Or.inr e
      | close i =>
        simp only
        intro _ hcs
        obtain ⟨f, _⟩ := closeNote_frame (s.setCh x { s.ch x with k := rest }) y i
        refine eos_recv_peer hxy ?_ f hcs
        have hkd : kdata j (s.ch x).k = kdata j rest := by rw [hk, kdata_cons_close]
        refine ⟨?_, ?_, ?_, ?_, ?_, ?_⟩ <;> simp only [setCh_ch_same, setCh_me]
        · exact h.e1
        · rintro (hq | hm)
          · exact h.e5 (Or.inl hq)
          · exact h.e5 (Or.inr (by rw [hk]; exact mem_cons_of_mem _ hm))
        · intro hq; rw [← hkd]; exact h.e2q hq
        · exact h.e2o
        · have := h.e3
          rw [hk] at this
          by_cases hij : i = j
          · subst hij
            rw [afterCloseK_cons_eq, kdata_cons_close] at this
            exact kdata_nil_of_sublist (dropWhile_sublist _) this
          · rw [afterCloseK_cons_ne j _ _ (by simp [hij])] at this; exact this
        · intro hc hd
          rw [← hkd] at hd
          rcases h.e4 hc hd with p | p
          · exact Or.inl p
          · rw [hk] at p
            rcases mem_cons.mp p with e | e
            · -- the notification being consumed is the one of j: then nothing of j is in flight any more
              cases e
              exfalso
              have hq0 : qFor j (s.ch x).q = [] := by
                by_cases hne : qFor j (s.ch x).q = []
                · exact hne
                · have := hI.core.ij hr hne (Ev.close j) (by rw [hk]; exact head_mem_beforePoll _ rest (by simp))
                  simp [evFor] at this
              have hk0 : kdata j rest = [] := by
                have := h.e3
                rw [hk, afterCloseK_cons_eq, kdata_cons_close] at this; exact this
              rcases hd with hd | hd
              · exact hd (qdata_nil_of_qFor_nil j _ hq0)
              · rw [hkd] at hd; exact hd hk0
            · exact Or.inr e
      | fb i m =>
        simp only
        intro _ hcs
        obtain ⟨f, _⟩ := offer_frame (s.setCh x { s.ch x with k := rest }) y i m true
        refine eos_recv_peer hxy ?_ f hcs
        have hsub : rest.Sublist (s.ch x).k := by rw [hk]; exact sublist_cons_self _ _
        refine ⟨?_, ?_, ?_, ?_, ?_, ?_⟩ <;> simp only [setCh_ch_same, setCh_me]
        · exact h.e1
        · rintro (hq | hm)
          · exact h.e5 (Or.inl hq)
          · exact h.e5 (Or.inr (by rw [hk]; exact mem_cons_of_mem _ hm))
        · intro hq; exact kdata_nil_of_sublist hsub (h.e2q hq)
        · exact h.e2o
        · have := h.e3; rw [hk, afterCloseK_cons_ne j _ _ (by simp)] at this; exact this
        · intro hc hd
          have hd' : qdata j (s.ch x).q ≠ [] ∨ kdata j (s.ch x).k ≠ [] := by
            rcases hd with hd | hd
            · exact Or.inl hd
            · right; intro e; exact hd (kdata_nil_of_sublist hsub e)
          rcases h.e4 hc hd' with p | p
          · exact Or.inl p
          · rw [hk] at p
            rcases mem_cons.mp p with e | e
            · cases e
            · exact Or.inr e

/-! ### open / consume / moved, initial state, every run -/

theorem openStream_eos (s : Sys) (z : Side) (x : Side) (j : Nat) (h : Eos s x j) : Eos (openStream s z).1 x j := by
  rw [openStream_eq]
  by_cases hz : z = x
  · subst hz
    split
    · refine eos_me_change h rfl Iff.rfl ?_
      intro st a b; exact ⟨st, by simpa [Sys.me, MEnd.find] using a, b⟩
    · refine eos_me_change h rfl Iff.rfl ?_
      intro st a b
      refine ⟨st, ?_, b⟩
      rw [setMe_me_same]
      have a' : (s.me z).streams.find? (fun y => decide (y.id = j)) = some st := a
      simp [openedEnd, MEnd.find, List.find?_append, a']
  · have hxz : x ≠ z := fun e => hz e.symm
    split
    · exact eos_of_same h rfl (by simp [Sys.me, upd_other _ _ _ _ hxz]) Iff.rfl
    · exact eos_of_same h rfl (setMe_me_other _ _ _ _ hxz) Iff.rfl

theorem moved_eos (s : Sys) (z : Side) (i : Nat) (x : Side) (j : Nat) (h : Eos s x j) : Eos (moved s z i) x j := by
  unfold moved
  by_cases hz : z = x
  · subst hz
    have hidf : ∀ y : MStream, ({ y with inFb := y.inFb || y.fbPending, fbPending := false } : MStream).id = y.id := fun _ => rfl
    refine eos_me_change h rfl Iff.rfl ?_
    rw [setMe_me_same]
    exact harmless_keeps_closed (fun hs => by rw [find_upd_isSome _ _ _ _ hidf]; exact hs)
      (harmless_upd _ _ _ _ hidf (fun y hy => by simp [hy]) (fun _ hy => hy))
  · have hxz : x ≠ z := fun e => hz e.symm
    exact eos_of_same h rfl (setMe_me_other _ _ _ _ hxz) Iff.rfl

theorem consume_eos (s : Sys) (z : Side) (i : Nat) (x : Side) (j : Nat) (h : Eos s x j) : Eos (consume s z i) x j := by
  unfold consume
  cases hfind : (s.me z).find i with
  | none => exact h
  | some st =>
    simp only
    by_cases hz : z = x
    · subst hz
      have hidf : ∀ y : MStream, ({ y with buffered := [] } : MStream).id = y.id := fun _ => rfl
      refine eos_me_change h rfl Iff.rfl ?_
      simp only [Sys.setMe, Sys.me, upd_same]
      exact harmless_keeps_closed (fun hs => by rw [find_upd_isSome _ _ _ _ hidf]; exact hs)
        (harmless_upd _ _ _ _ hidf (fun _ hy => hy) (fun _ hy => hy))
    · have hxz : x ≠ z := fun e => hz e.symm
      exact eos_of_same h rfl (by simp [Sys.setMe, Sys.me, upd_other _ _ _ _ hxz]) Iff.rfl

theorem eos_init (qcap : Nat) (x : Side) (j : Nat) : Eos ({ qcap := qcap } : Sys) x j := by
  refine ⟨?_, ?_, ?_, ?_, ?_, ?_⟩
  · intro h; cases h
  · rintro (⟨el, hel, _⟩ | h)
    · cases hel
    · cases h
  · intro _; rfl
  · rfl
  · rfl
  · intro h; cases h

/-- `recreated` only grows -/
theorem recreated_mono_step (s : Sys) (op : Op) (p : Side × Nat) (h : p ∈ s.recreated) : p ∈ (step s op).recreated := by
  cases op with
  | open_ z =>
    simp only [step]; rw [openStream_eq]; split <;> exact h
  | flush z i hp =>
    simp only [step]; unfold flush
    cases (s.me z).find i with
    | none => exact h
    | some st =>
      simp only
      split
      · exact h
      · split
        · exact h
        · split <;> exact h
  | close z i =>
    simp only [step]; unfold closeStream
    cases (s.me z).find i with
    | none => exact h
    | some st =>
      simp only
      split
      · exact h
      · split
        · split <;> exact h
        · exact h
  | deliver y =>
    simp only [step]; unfold deliver
    cases hk : (s.ch y.peer).k with
    | nil => simp only [hk]; exact h
    | cons ev rest =>
      simp only [hk]
      cases ev with
      | polling =>
        simp only
        obtain ⟨f, _⟩ := drain_frame (s.ch y.peer).q (s.setCh y.peer { q := [], flag := false, k := rest }) y
        exact f.recMono p h
      | close i =>
        simp only
        obtain ⟨f, _⟩ := closeNote_frame (s.setCh y.peer { s.ch y.peer with k := rest }) y i
        exact f.recMono p h
      | fb i m =>
        simp only
        obtain ⟨f, _⟩ := offer_frame (s.setCh y.peer { s.ch y.peer with k := rest }) y i m true
        exact f.recMono p h
  | consume z i =>
    simp only [step]; unfold consume
    cases (s.me z).find i with
    | none => exact h
    | some st => exact h
  | moved z i => exact h

structure EInv (s : Sys) (x : Side) (j : Nat) : Prop where
  inv : Inv s x j
  eos : EosG s x j

theorem step_einv (s : Sys) (op : Op) (x : Side) (j : Nat) (h : EInv s x j) : EInv (step s op) x j := by
  refine ⟨step_inv s op x j h.inv, ?_⟩
  intro hr'
  have hr : (x, j) ∉ s.recreated := fun hh => hr' (recreated_mono_step s op _ hh)
  have e := h.eos hr
  cases op with
  | open_ z => exact openStream_eos s z x j e
  | flush z i hp => exact flush_eos s z i hp x j h.inv hr e
  | close z i => exact closeStream_eos s z i x j h.inv hr e
  | deliver z => exact deliver_eos s z x j h.inv hr hr' e
  | consume z i => exact consume_eos s z i x j e
  | moved z i => exact moved_eos s z i x j e

theorem run_einv (s : Sys) (ops : List Op) (x : Side) (j : Nat) (h : EInv s x j) : EInv (run s ops) x j := by
  induction ops generalizing s with
  | nil => exact h
  | cons op r ih => exact ih _ (step_einv s op x j h)

theorem einv_init (qcap : Nat) (x : Side) (j : Nat) : EInv ({ qcap := qcap } : Sys) x j :=
  ⟨inv_init qcap x j, fun _ => eos_init qcap x j⟩

end Mux
