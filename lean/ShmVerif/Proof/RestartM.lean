import ShmVerif.Model.Restart
/-! Invariant of the session-manager side of the hot-restart / healing model, for every operation sequence. -/
namespace Restart
open List

/-! ### closing pool objects changes nothing but `alive` / `closes` -/

theorem getD_set_epoch (objs : List PoolObj) (o x : Nat) (p : PoolObj) (hp : p.epoch = (objs.getD o default).epoch) :
    ((objs.set o p).getD x default).epoch = (objs.getD x default).epoch := by
  simp only [List.getD_eq_getElem?_getD, List.getElem?_set]
  split
  · rename_i h; subst h
    split
    · rename_i hl; simp [hl] at hp ⊢; exact hp
    · rename_i hl; simp [List.getElem?_eq_none (Nat.le_of_not_lt hl)]
  · rfl

structure SameShape (m m' : Manager) : Prop where
  state : m'.state = m.state
  epoch : m'.epoch = m.epoch
  pools : m'.pools = m.pools
  reserve : m'.reserve = m.reserve
  checker : m'.checker = m.checker
  watchers : m'.watchers = m.watchers
  cancelled : m'.cancelled = m.cancelled
  closed : m'.closed = m.closed
  nextSess : m'.nextSess = m.nextSess
  acks : m'.acks = m.acks
  created : m'.created = m.created
  olen : m'.objs.length = m.objs.length
  oep : ∀ x, (m'.obj x).epoch = (m.obj x).epoch
  osess : ∀ x, (m'.obj x).sess = (m.obj x).sess

theorem SameShape.refl (m : Manager) : SameShape m m :=
  ⟨rfl, rfl, rfl, rfl, rfl, rfl, rfl, rfl, rfl, rfl, rfl, rfl, fun _ => rfl, fun _ => rfl⟩

theorem SameShape.trans {a b c : Manager} (h1 : SameShape a b) (h2 : SameShape b c) : SameShape a c :=
  ⟨h2.state.trans h1.state, h2.epoch.trans h1.epoch, h2.pools.trans h1.pools, h2.reserve.trans h1.reserve,
   h2.checker.trans h1.checker, h2.watchers.trans h1.watchers, h2.cancelled.trans h1.cancelled, h2.closed.trans h1.closed,
   h2.nextSess.trans h1.nextSess, h2.acks.trans h1.acks, h2.created.trans h1.created, h2.olen.trans h1.olen,
   fun x => (h2.oep x).trans (h1.oep x), fun x => (h2.osess x).trans (h1.osess x)⟩

theorem getD_set_sess (objs : List PoolObj) (o x : Nat) (p : PoolObj) (hp : p.sess = (objs.getD o default).sess) :
    ((objs.set o p).getD x default).sess = (objs.getD x default).sess := by
  simp only [List.getD_eq_getElem?_getD, List.getElem?_set]
  split
  · rename_i h; subst h
    split
    · rename_i hl; simp [hl] at hp ⊢; exact hp
    · rename_i hl; simp [List.getElem?_eq_none (Nat.le_of_not_lt hl)]
  · rfl

theorem closeObj_same (m : Manager) (o : Nat) : SameShape m (m.closeObj o) := by
  unfold Manager.closeObj Manager.setObj
  refine ⟨rfl, rfl, rfl, rfl, rfl, rfl, rfl, rfl, rfl, rfl, rfl, by simp, ?_, ?_⟩
  · intro x; exact getD_set_epoch m.objs o x _ rfl
  · intro x; exact getD_set_sess m.objs o x _ rfl

theorem closeObjs_same (os : List Nat) : ∀ m : Manager, SameShape m (m.closeObjs os) := by
  induction os with
  | nil => intro m; exact SameShape.refl m
  | cons o rest ih =>
    intro m
    exact (closeObj_same m o).trans (ih (m.closeObj o))

structure MInv (m : Manager) : Prop where
  chk : m.checker = true ↔ m.state = .hot
  wlen : m.watchers.length = m.pools.length
  pv : ∀ o ∈ m.pools, o < m.objs.length
  rv : ∀ r ∈ m.reserve, r.1 < m.pools.length ∧ r.2 < m.objs.length
  rnd : (m.reserve.map (·.1)).Nodup
  ep : m.state = .hot → ∀ r ∈ m.reserve, (m.obj (m.pools.getD r.1 0)).epoch = m.epoch
  cd : m.closed = true → m.cancelled = true ∧ m.watchers.all (· == .done) = true

theorem minv_same {m m' : Manager} (s : SameShape m m') (h : MInv m) : MInv m' := by
  obtain ⟨chk, wlen, pv, rv, rnd, ep, cd⟩ := h
  refine ⟨?_, ?_, ?_, ?_, ?_, ?_, ?_⟩
  · rw [s.checker, s.state]; exact chk
  · rw [s.watchers, s.pools]; exact wlen
  · rw [s.pools, s.olen]; exact pv
  · rw [s.reserve, s.pools, s.olen]; exact rv
  · rw [s.reserve]; exact rnd
  · rw [s.state, s.reserve, s.pools, s.epoch]; intro h1 r hr; rw [s.oep]; exact ep h1 r hr
  · rw [s.closed, s.cancelled, s.watchers]; exact cd

theorem minv_init (n : Nat) : MInv (Manager.init n) := by
  unfold Manager.init
  refine ⟨by simp, by simp, ?_, by simp, by simp, by simp, by simp⟩
  intro o ho; simp at ho ⊢; exact ho

theorem getD_set_ne {α : Type} (l : List α) (i j : Nat) (a d : α) (h : i ≠ j) : (l.set i a).getD j d = l.getD j d := by
  simp [List.getD_eq_getElem?_getD, List.getElem?_set, h]

theorem getD_set_eq {α : Type} (l : List α) (i : Nat) (a d : α) (h : i < l.length) : (l.set i a).getD i d = a := by
  simp [List.getD_eq_getElem?_getD, List.getElem?_set, h]

theorem getD_append_lt {α : Type} (l : List α) (x : Nat) (p d : α) (h : x < l.length) : (l ++ [p]).getD x d = l.getD x d := by
  simp [List.getD_eq_getElem?_getD, List.getElem?_append_left h]

theorem getD_append_len {α : Type} (l : List α) (p d : α) : (l ++ [p]).getD l.length d = p := by
  simp [List.getD_eq_getElem?_getD]

theorem getD_mem {α : Type} (l : List α) (i : Nat) (d : α) (h : i < l.length) : l.getD i d ∈ l := by
  simp [List.getD_eq_getElem?_getD, List.getElem?_eq_getElem h]

theorem minv_hotRestart {m : Manager} (h : MInv m) (id e : Nat) (conn : Bool) : MInv (m.hotRestart id e conn) := by
  unfold Manager.hotRestart
  split
  · exact h
  rename_i hcan
  split
  · exact h
  rename_i hfor
  have hncl : m.closed = false := by
    cases hc : m.closed with
    | false => rfl
    | true => have := (h.cd hc).1; simp [this] at hcan
  -- the state after the first event of a hand-over
  have h1 : MInv (if m.state ≠ .hot then
      { (m.closeObjs (m.reserve.map (·.2))) with state := .hot, epoch := e, reserve := [], checker := true } else m) := by
    split
    · have ss := closeObjs_same (m.reserve.map (·.2)) m
      have h' := minv_same ss h
      obtain ⟨chk, wlen, pv, rv, rnd, ep, cd⟩ := h'
      refine ⟨by simp, wlen, pv, by simp, by simp, by simp, ?_⟩
      intro hc; rw [ss.closed, hncl] at hc; simp at hc
    · exact h
  have hs1 : (if m.state ≠ .hot then
      { (m.closeObjs (m.reserve.map (·.2))) with state := .hot, epoch := e, reserve := [], checker := true } else m).state = .hot := by
    split
    · rfl
    · rename_i hh; simpa using hh
  have hc1 : (if m.state ≠ .hot then
      { (m.closeObjs (m.reserve.map (·.2))) with state := .hot, epoch := e, reserve := [], checker := true } else m).closed = false := by
    split
    · have ss := closeObjs_same (m.reserve.map (·.2)) m
      show (m.closeObjs _).closed = false
      rw [ss.closed]; exact hncl
    · exact hncl
  generalize (if m.state ≠ .hot then
      { (m.closeObjs (m.reserve.map (·.2))) with state := .hot, epoch := e, reserve := [], checker := true } else m) = m1 at h1 hs1 hc1
  simp only []
  split
  · exact h1
  rename_i hfind
  split
  · exact h1
  split
  · exact h1
  · rename_i old hold
    obtain ⟨chk, wlen, pv, rv, rnd, ep, cd⟩ := h1
    have hid : id < m1.pools.length := by
      have := List.getElem?_eq_some_iff.mp hold; exact this.1
    have hold' : old ∈ m1.pools := List.mem_of_getElem? hold
    have hnone : ∀ r ∈ m1.reserve, r.1 ≠ id := by
      intro r hr hri
      have : (m1.reserve.find? (·.1 = id)).isSome = true := by
        rw [List.find?_isSome]; exact ⟨r, hr, by simp [hri]⟩
      exact hfind this
    refine ⟨chk, ?_, ?_, ?_, ?_, ?_, ?_⟩
    · simp only [List.length_set]; exact wlen
    · intro o ho
      simp only [List.length_append, List.length_cons, List.length_nil]
      rcases List.mem_or_eq_of_mem_set ho with h2 | h2
      · have := pv o h2; omega
      · omega
    · intro r hr
      simp only [List.length_set, List.length_append, List.length_cons, List.length_nil]
      rcases List.mem_append.mp hr with h2 | h2
      · have := rv r h2; exact ⟨this.1, by omega⟩
      · simp at h2; subst h2; exact ⟨hid, by have := pv old hold'; omega⟩
    · simp only [List.map_append, List.map_cons, List.map_nil]
      rw [List.nodup_append]
      refine ⟨rnd, by simp, ?_⟩
      intro a ha b hb
      simp at hb; subst hb
      obtain ⟨r, hr, hra⟩ := List.mem_map.mp ha
      intro hab; exact hnone r hr (hra.trans hab)
    · intro _ r hr
      simp only [Manager.obj]
      rcases List.mem_append.mp hr with h2 | h2
      · have hne : id ≠ r.1 := fun hh => hnone r h2 hh.symm
        rw [getD_set_ne _ _ _ _ _ hne]
        have hlt : m1.pools.getD r.1 0 < m1.objs.length := pv _ (getD_mem _ _ _ (rv r h2).1)
        rw [getD_append_lt _ _ _ _ hlt]
        exact ep hs1 r h2
      · simp at h2; subst h2
        simp only []
        rw [getD_set_eq _ _ _ _ hid, getD_append_len]
    · intro hc; simp only [] at hc; rw [hc1] at hc; simp at hc

theorem minv_tick {m : Manager} (h : MInv m) : MInv m.tick := by
  unfold Manager.tick
  split
  · exact h
  split
  · obtain ⟨chk, wlen, pv, rv, rnd, ep, cd⟩ := h
    exact ⟨by simp, wlen, pv, rv, rnd, by simp, cd⟩
  · exact h

theorem minv_timeout {m : Manager} (h : MInv m) : MInv m.timeout := by
  unfold Manager.timeout
  split
  · exact h
  · have ss := closeObjs_same (m.reserve.map (·.2)) m
    obtain ⟨chk, wlen, pv, rv, rnd, ep, cd⟩ := minv_same ss h
    exact ⟨by simp, wlen, pv, by simp, by simp, by simp, cd⟩

theorem setObj_same (m : Manager) (o : Nat) (p : PoolObj) (he : p.epoch = (m.obj o).epoch) (hs : p.sess = (m.obj o).sess) :
    SameShape m (m.setObj o p) := by
  unfold Manager.setObj
  refine ⟨rfl, rfl, rfl, rfl, rfl, rfl, rfl, rfl, rfl, rfl, rfl, by simp, ?_, ?_⟩
  · intro x; exact getD_set_epoch m.objs o x _ he
  · intro x; exact getD_set_sess m.objs o x _ hs

theorem minv_lose {m : Manager} (h : MInv m) (o : Nat) : MInv (m.lose o) := by
  unfold Manager.lose
  split
  · exact minv_same (setObj_same m o _ rfl rfl) h
  · exact h

/-- changing one watcher's program counter (the manager is not closed, or the new pc is `done`) -/
theorem minv_setW {m : Manager} (h : MInv m) (id : Nat) (pc : WPc) (hc : m.closed = false) : MInv (m.setW id pc) := by
  obtain ⟨chk, wlen, pv, rv, rnd, ep, cd⟩ := h
  unfold Manager.setW
  refine ⟨chk, by simpa using wlen, pv, rv, rnd, ep, ?_⟩
  intro h1; simp only [] at h1; rw [hc] at h1; simp at h1

theorem minv_wTop {m : Manager} (h : MInv m) (id : Nat) (hc : m.closed = false) : MInv (m.wTop id) := by
  unfold Manager.wTop
  split
  · exact minv_setW h id _ hc
  · split <;> exact minv_setW h id _ hc

theorem minv_watch {m : Manager} (h : MInv m) (id : Nat) (fire conn ctx : Bool) : MInv (m.watch id fire conn ctx) := by
  unfold Manager.watch
  split
  · exact h
  rename_i pc hpc
  -- a watcher that is not `done` exists only while the manager is not closed
  have hncl : pc ≠ .done → m.closed = false := by
    intro hne
    cases hc : m.closed with
    | false => rfl
    | true =>
      have hall := (h.cd hc).2
      rw [List.all_eq_true] at hall
      have := hall pc (List.mem_of_getElem? hpc)
      simp at this; exact absurd this hne
  cases pc with
  | start => exact minv_wTop h id (hncl (by simp))
  | sleep => exact minv_wTop h id (hncl (by simp))
  | done => exact h
  | sel o =>
    have hc := hncl (by simp)
    simp only []
    split
    · split
      · exact minv_wTop h id hc
      · have ss := closeObj_same m o
        exact minv_setW (minv_same ss h) id _ (by rw [ss.closed]; exact hc)
    · split
      · exact minv_setW h id _ hc
      · exact h
  | timer o =>
    have hc := hncl (by simp)
    simp only []
    split
    · split
      · exact minv_setW h id _ hc
      · rename_i cur hcur
        split
        · exact minv_wTop h id hc
        · split
          · -- the rebuild: object o gets a fresh session of the manager's current epoch
            have h2 : MInv { (m.setObj o { (m.obj o) with sess := m.nextSess, epoch := m.epoch, alive := true }) with
                nextSess := m.nextSess + 1, created := m.created ++ [(id, m.epoch, m.nextSess)] } := by
              obtain ⟨chk, wlen, pv, rv, rnd, ep, cd⟩ := h
              refine ⟨chk, wlen, ?_, ?_, rnd, ?_, cd⟩
              · intro x hx; simp [Manager.setObj]; exact pv x hx
              · intro r hr; simp [Manager.setObj]; exact rv r hr
              · intro hs r hr
                simp only [Manager.setObj, Manager.obj]
                by_cases hx : o = m.pools.getD r.1 0
                · by_cases hl : o < m.objs.length
                  · rw [← hx, getD_set_eq _ _ _ _ hl]
                  · rw [← hx]
                    have : (m.objs.set o { (m.objs.getD o default) with sess := m.nextSess, epoch := m.epoch, alive := true }) = m.objs := by
                      apply List.set_eq_of_length_le; omega
                    rw [this]
                    have := ep hs r hr
                    simp only [Manager.obj] at this; rw [← hx] at this; exact this
                · rw [getD_set_ne _ _ _ _ _ hx]; exact ep hs r hr
            exact minv_wTop h2 id hc
          · exact h
    · split
      · exact minv_setW h id _ hc
      · exact h

theorem minv_cancel {m : Manager} (h : MInv m) : MInv m.cancel := by
  obtain ⟨chk, wlen, pv, rv, rnd, ep, cd⟩ := h
  exact ⟨chk, wlen, pv, rv, rnd, ep, fun hc => ⟨rfl, (cd hc).2⟩⟩

theorem minv_finishClose {m : Manager} (h : MInv m) : MInv m.finishClose := by
  unfold Manager.finishClose
  split
  · rename_i hcond
    have ss := closeObjs_same (m.pools ++ m.reserve.map (·.2)) m
    obtain ⟨chk, wlen, pv, rv, rnd, ep, cd⟩ := minv_same ss h
    refine ⟨chk, wlen, pv, by simp, by simp, by simp, ?_⟩
    intro _
    simp only []
    rw [ss.cancelled, ss.watchers]
    exact ⟨hcond.1, hcond.2.1⟩
  · exact h

theorem minv_step {m : Manager} (h : MInv m) (op : MOp) : MInv (m.step op) := by
  cases op with
  | hotRestart id e c => exact minv_hotRestart h id e c
  | tick => exact minv_tick h
  | timeout => exact minv_timeout h
  | lose o => exact minv_lose h o
  | watch id f c x => exact minv_watch h id f c x
  | cancel => exact minv_cancel h
  | finishClose => exact minv_finishClose h

theorem minv_run (ops : List MOp) : ∀ m, MInv m → MInv (m.run ops) := by
  induction ops with
  | nil => intro m h; exact h
  | cons op rest ih => intro m h; exact ih _ (minv_step h op)

end Restart
