import ShmVerif.Model.FreeListC
/-!
  Geometry invariant of the access-granular free-list model: for EVERY interleaving, every index that ever
  appears (head, tail, every `next` field, every thread-local offset, every held / returned slot) is `< n`.
  Hence every buffer handed out by `pop` is one of the `n` slots: it lies inside the class region at a slot boundary.
-/
namespace FreeListC

def ResOk (n : Nat) : Res → Prop
  | .got i => i < n
  | .pushed i => i < n
  | _ => True

structure ThOk (n : Nat) (th : Th) : Prop where
  oldHead : th.oldHead < n
  nxt : th.nxt < n
  ot : th.ot < n
  o : th.o < n
  held : ∀ h ∈ th.held, h < n
  res : ∀ r ∈ th.res, ResOk n r

structure Geom (s : State) : Prop where
  npos : 0 < s.slots.length
  head : s.head < s.slots.length
  tail : s.tail < s.slots.length
  next : ∀ x ∈ s.slots, x.next < s.slots.length
  ths : ∀ th ∈ s.ths, ThOk s.slots.length th

theorem initSlots_length (n : Nat) : (initSlots n).length = n := by simp [initSlots]

theorem geom_init (n : Nat) (hn : 0 < n) (progs : List (List Op)) : Geom (init n progs) := by
  refine ⟨by simp [init, initSlots_length, hn], by simp [init, initSlots_length, hn],
          by simp [init, initSlots_length]; omega, ?_, ?_⟩
  · intro x hx
    simp only [init, initSlots, List.mem_map, List.mem_range] at hx
    obtain ⟨i, hi, rfl⟩ := hx
    simp only [init, initSlots_length]
    split <;> (simp only []; omega)
  · intro th hth
    simp only [init, List.mem_map] at hth
    obtain ⟨p, _, rfl⟩ := hth
    rw [show (init n progs).slots.length = n from initSlots_length n]
    exact ⟨hn, hn, hn, hn, by simp, by simp⟩

theorem startNextAux_ok (n : Nat) (ops : List Op) (t : Th) (h : ThOk n t) : ThOk n (startNextAux t ops) := by
  induction ops generalizing t with
  | nil => exact ⟨h.oldHead, h.nxt, h.ot, h.o, h.held, h.res⟩
  | cons op r ih =>
    cases op with
    | pop => exact ⟨h.oldHead, h.nxt, h.ot, h.o, h.held, h.res⟩
    | push k =>
      simp only [startNextAux]
      split
      · apply ih
        refine ⟨h.oldHead, h.nxt, h.ot, h.o, h.held, ?_⟩
        intro r hr
        simp only [List.mem_append, List.mem_singleton] at hr
        rcases hr with hr | rfl
        · exact h.res r hr
        · trivial
      · rename_i o ho
        refine ⟨h.oldHead, h.nxt, h.ot, ?_, ?_, h.res⟩
        · exact h.held o (List.mem_of_getElem? ho)
        · intro x hx
          exact h.held x (List.mem_of_mem_eraseIdx hx)

theorem startNext_ok (n : Nat) (t : Th) (h : ThOk n t) : ThOk n (startNext t) :=
  startNextAux_ok n _ t h

theorem finishOp_ok (n : Nat) (t : Th) (r : Res) (h : ThOk n t) (hr : ResOk n r) : ThOk n (finishOp t r) := by
  apply startNext_ok
  refine ⟨h.oldHead, h.nxt, h.ot, h.o, h.held, ?_⟩
  intro x hx
  simp only [List.mem_append, List.mem_singleton] at hx
  rcases hx with hx | rfl
  · exact h.res x hx
  · exact hr

theorem modify_length (l : List Slot) (i : Nat) (f : Slot → Slot) : (l.modify i f).length = l.length := by simp

theorem next_modify_keep (l : List Slot) (i n : Nat) (f : Slot → Slot) (hf : ∀ x, (f x).next = x.next)
    (h : ∀ x ∈ l, x.next < n) : ∀ x ∈ l.modify i f, x.next < n := by
  intro x hx
  rw [List.mem_iff_getElem] at hx
  obtain ⟨j, hj, rfl⟩ := hx
  rw [List.getElem_modify]
  simp only [List.length_modify] at hj
  split
  · rw [hf]; exact h l[j] (List.getElem_mem hj)
  · exact h _ (List.getElem_mem hj)

theorem next_modify_next' (l : List Slot) (i n v : Nat) (hv : v < n) (h : ∀ x ∈ l, x.next < n) :
    ∀ x ∈ l.modify i (fun x => { x with next := v }), x.next < n := by
  intro x hx
  rw [List.mem_iff_getElem] at hx
  obtain ⟨j, hj, rfl⟩ := hx
  rw [List.getElem_modify]
  simp only [List.length_modify] at hj
  split
  · exact hv
  · exact h _ (List.getElem_mem hj)

theorem getSlot_next_lt (s : State) (g : Geom s) (i : Nat) : (getSlot s i).next < s.slots.length := by
  unfold getSlot
  rw [List.getD_eq_getElem?_getD]
  cases h : s.slots[i]? with
  | none => exact g.npos
  | some x => exact g.next x (List.mem_of_getElem? h)

/-- the shared part of a thread step keeps the shared geometry, the thread part keeps `ThOk` -/
theorem stepTh_geom (s : State) (th : Th) (g : Geom s) (hth : ThOk s.slots.length th) :
    let r := stepTh s th
    r.1.slots.length = s.slots.length ∧ r.1.head < s.slots.length ∧ r.1.tail < s.slots.length ∧
    (∀ x ∈ r.1.slots, x.next < s.slots.length) ∧ r.1.ths = s.ths ∧ ThOk s.slots.length r.2.1 := by
  have hN := g.next
  unfold stepTh
  cases hpc : th.pc <;> dsimp only
  case idle => exact ⟨rfl, g.head, g.tail, hN, rfl, hth⟩
  case pLdHead => exact ⟨rfl, g.head, g.tail, hN, rfl, ⟨g.head, hth.nxt, hth.ot, hth.o, hth.held, hth.res⟩⟩
  case pDec =>
    split <;> exact ⟨rfl, g.head, g.tail, hN, rfl, ⟨hth.oldHead, hth.nxt, hth.ot, hth.o, hth.held, hth.res⟩⟩
  case pIncFail => exact ⟨rfl, g.head, g.tail, hN, rfl, finishOp_ok _ _ _ hth trivial⟩
  case pHasNext =>
    split <;> exact ⟨rfl, g.head, g.tail, hN, rfl, ⟨hth.oldHead, hth.nxt, hth.ot, hth.o, hth.held, hth.res⟩⟩
  case pNext =>
    exact ⟨rfl, g.head, g.tail, hN, rfl, ⟨hth.oldHead, getSlot_next_lt s g _, hth.ot, hth.o, hth.held, hth.res⟩⟩
  case pCas =>
    split
    · exact ⟨rfl, hth.nxt, g.tail, hN, rfl, ⟨hth.oldHead, hth.nxt, hth.ot, hth.o, hth.held, hth.res⟩⟩
    · exact ⟨rfl, g.head, g.tail, hN, rfl, ⟨hth.oldHead, hth.nxt, hth.ot, hth.o, hth.held, hth.res⟩⟩
  case pClear =>
    refine ⟨by simp [clearFlag, setInUsed, setHasNext], g.head, g.tail, ?_, rfl, ⟨hth.oldHead, hth.nxt, hth.ot, hth.o, hth.held, hth.res⟩⟩
    exact next_modify_keep s.slots _ _ _ (fun _ => rfl) hN
  case pSetUsed =>
    refine ⟨by simp [clearFlag, setInUsed, setHasNext], g.head, g.tail, ?_, rfl, ⟨hth.oldHead, hth.nxt, hth.ot, hth.o, hth.held, hth.res⟩⟩
    exact next_modify_keep s.slots _ _ _ (fun _ => rfl) hN
  case pCnt =>
    refine ⟨rfl, g.head, g.tail, hN, rfl, ?_⟩
    apply finishOp_ok
    · refine ⟨hth.oldHead, hth.nxt, hth.ot, hth.o, ?_, hth.res⟩
      intro h hh
      simp only [List.mem_append, List.mem_singleton] at hh
      rcases hh with hh | rfl
      · exact hth.held h hh
      · exact hth.oldHead
    · exact hth.oldHead
  case pPlainSize =>
    split <;> exact ⟨rfl, g.head, g.tail, hN, rfl, ⟨hth.oldHead, hth.nxt, hth.ot, hth.o, hth.held, hth.res⟩⟩
  case pReload =>
    split <;> exact ⟨rfl, g.head, g.tail, hN, rfl, ⟨g.head, hth.nxt, hth.ot, hth.o, hth.held, hth.res⟩⟩
  case uReset =>
    refine ⟨by simp [clearFlag, setInUsed, setHasNext], g.head, g.tail, ?_, rfl, ⟨hth.oldHead, hth.nxt, hth.ot, hth.o, hth.held, hth.res⟩⟩
    exact next_modify_keep s.slots _ _ _ (fun _ => rfl) hN
  case uLdTail => exact ⟨rfl, g.head, g.tail, hN, rfl, ⟨hth.oldHead, hth.nxt, g.tail, hth.o, hth.held, hth.res⟩⟩
  case uCas =>
    split
    · exact ⟨rfl, g.head, hth.o, hN, rfl, ⟨hth.oldHead, hth.nxt, hth.ot, hth.o, hth.held, hth.res⟩⟩
    · exact ⟨rfl, g.head, g.tail, hN, rfl, ⟨hth.oldHead, hth.nxt, hth.ot, hth.o, hth.held, hth.res⟩⟩
  case uLink0 =>
    refine ⟨by simp [setNext], g.head, g.tail, ?_, rfl, ⟨hth.oldHead, hth.nxt, hth.ot, hth.o, hth.held, hth.res⟩⟩
    exact next_modify_next' s.slots _ _ _ hth.o hN
  case uLink1 =>
    refine ⟨by simp [clearFlag, setInUsed, setHasNext], g.head, g.tail, ?_, rfl, ⟨hth.oldHead, hth.nxt, hth.ot, hth.o, hth.held, hth.res⟩⟩
    exact next_modify_keep s.slots _ _ _ (fun _ => rfl) hN
  case uIncSize => exact ⟨rfl, g.head, g.tail, hN, rfl, ⟨hth.oldHead, hth.nxt, hth.ot, hth.o, hth.held, hth.res⟩⟩
  case uDecCnt => exact ⟨rfl, g.head, g.tail, hN, rfl, finishOp_ok _ _ _ hth hth.o⟩

theorem step_geom (s : State) (t : Nat) (g : Geom s) : Geom (step s t).1 := by
  unfold step
  cases ht : s.ths[t]? with
  | none => exact g
  | some th =>
    have hth := g.ths th (List.mem_of_getElem? ht)
    have h := stepTh_geom s th g hth
    simp only at h ⊢
    obtain ⟨h1, h2, h3, h4, h5, h6⟩ := h
    refine ⟨by simp only [h1]; exact g.npos, by simp only [h1]; exact h2, by simp only [h1]; exact h3,
            by simp only [h1]; exact h4, ?_⟩
    intro x hx
    simp only [h1]
    simp only [h5] at hx
    rcases List.mem_or_eq_of_mem_set hx with hx | rfl
    · exact g.ths x hx
    · exact h6

theorem prime_geom (s : State) (g : Geom s) : Geom (prime s) := by
  refine ⟨g.npos, g.head, g.tail, g.next, ?_⟩
  intro th hth
  simp only [prime, List.mem_map] at hth
  obtain ⟨t, ht, rfl⟩ := hth
  exact startNext_ok _ _ (g.ths t ht)

theorem run_geom (s : State) (sched : List Nat) (g : Geom s) : Geom (run s sched) := by
  induction sched generalizing s with
  | nil => exact g
  | cons t ts ih => exact ih _ (step_geom s t g)

end FreeListC
