import ShmVerif.Model.Wake
/-! Inductive invariant of the wake-up protocol: any number of producers, every interleaving. -/
namespace Wake
open List

def HasPc (l : List Prod) (pc : PPc) : Prop := ∃ p ∈ l, p.pc = pc

theorem hasPc_set_new (l : List Prod) (t : Nat) (p : Prod) (pc : PPc) (ht : t < l.length) (hp : p.pc = pc) :
    HasPc (l.set t p) pc := ⟨p, mem_set ht _, hp⟩   -- the replaced thread itself

theorem hasPc_set_keep (l : List Prod) (t : Nat) (old p : Prod) (pc : PPc) (hold : l[t]? = some old)
    (hne : old.pc ≠ pc) (h : HasPc l pc) : HasPc (l.set t p) pc := by
  obtain ⟨q, hq, hqpc⟩ := h
  obtain ⟨j, hj, rfl⟩ := mem_iff_getElem.mp hq
  have hjt : j ≠ t := by
    intro e; subst e
    have : l[j]? = some l[j] := getElem?_eq_getElem hj
    rw [this] at hold
    cases hold
    exact hne hqpc
  refine ⟨l[j], ?_, hqpc⟩
  have : (l.set t p)[j]'(by simpa using hj) = l[j] := by
    rw [getElem_set]; simp [Ne.symm hjt]
  rw [← this]
  exact getElem_mem _

structure Inv (s : State) : Prop where
  /-- a set flag seen while the consumer is (about to be) idle is backed by a notification -/
  flagBacked : s.flag = true → (s.cons = .idle ∨ s.cons = .check ∨ s.cons = .store1) →
      s.inflight > 0 ∨ HasPc s.prods .write
  /-- elements behind a cleared flag are either being looked at by the consumer or about to be announced -/
  clearCovered : s.qlen > 0 → s.flag = false → s.cons ≠ .idle ∨ HasPc s.prods .cas

theorem inv_init (cap : Nat) (counts : List Nat) : Inv (init cap counts) := by
  constructor <;> simp [init]

theorem lt_of_getElem?_some {α} {l : List α} {t : Nat} {x : α} (h : l[t]? = some x) : t < l.length := by
  rcases Nat.lt_or_ge t l.length with h' | h'
  · exact h'
  · simp [getElem?_eq_none h'] at h

theorem stepProd_inv (s : State) (t : Nat) (h : Inv s) : Inv (stepProd s t).1 := by
  unfold stepProd
  cases hp : s.prods[t]? with
  | none => exact h
  | some p =>
    have ht := lt_of_getElem?_some hp
    simp only
    cases hpc : p.pc with
    | done => exact h
    | put =>
      simp only
      split
      · refine ⟨?_, ?_⟩
        · intro hf hc
          rcases h.flagBacked hf hc with h1 | h1
          · exact Or.inl h1
          · exact Or.inr (hasPc_set_keep _ _ p _ _ hp (by simp [hpc]) h1)
        · intro _ _
          exact Or.inr (hasPc_set_new _ _ _ _ ht rfl)
      · refine ⟨?_, ?_⟩
        · intro hf hc
          rcases h.flagBacked hf hc with h1 | h1
          · exact Or.inl h1
          · exact Or.inr (hasPc_set_keep _ _ p _ _ hp (by simp [hpc]) h1)
        · intro hq hf
          rcases h.clearCovered hq hf with h1 | h1
          · exact Or.inl h1
          · exact Or.inr (hasPc_set_keep _ _ p _ _ hp (by simp [hpc]) h1)
    | cas =>
      simp only
      split
      · rename_i hflag
        refine ⟨?_, ?_⟩
        · intro hf hc
          rcases h.flagBacked hf hc with h1 | h1
          · exact Or.inl h1
          · exact Or.inr (hasPc_set_keep _ _ p _ _ hp (by simp [hpc]) h1)
        · intro _ hf; simp [hflag] at hf
      · split
        · refine ⟨?_, ?_⟩
          · intro _ _; exact Or.inl (by simp)
          · intro _ hf; simp at hf
        · refine ⟨?_, ?_⟩
          · intro _ _; exact Or.inr (hasPc_set_new _ _ _ _ ht rfl)
          · intro _ hf; simp at hf
    | write =>
      simp only
      refine ⟨?_, ?_⟩
      · intro _ _; exact Or.inl (by simp)
      · intro hq hf
        rcases h.clearCovered hq hf with h1 | h1
        · exact Or.inl h1
        · exact Or.inr (hasPc_set_keep _ _ p _ _ hp (by simp [hpc]) h1)

theorem stepCons_inv (s : State) (h : Inv s) : Inv (stepCons s).1 := by
  unfold stepCons
  cases hc : s.cons with
  | idle =>
    simp only
    split
    · refine ⟨?_, ?_⟩
      · intro _ hcc; simp at hcc
      · intro _ _; exact Or.inl (by simp)
    · exact h
  | pop =>
    simp only
    split
    · refine ⟨?_, ?_⟩
      · intro _ hcc; simp [hc] at hcc
      · intro _ _; exact Or.inl (by simp [hc])
    · refine ⟨?_, ?_⟩
      · intro _ hcc; simp at hcc
      · intro _ _; exact Or.inl (by simp)
  | store0 =>
    simp only
    refine ⟨?_, ?_⟩
    · intro hf _; simp at hf
    · intro _ _; exact Or.inl (by simp)
  | check =>
    simp only
    split
    · rename_i hq
      refine ⟨?_, ?_⟩
      · intro hf _
        exact h.flagBacked hf (Or.inr (Or.inl hc))
      · intro hq' _; simp at hq'; omega
    · refine ⟨?_, ?_⟩
      · intro hf _
        exact h.flagBacked hf (Or.inr (Or.inl hc))
      · intro _ _; exact Or.inl (by simp)
  | store1 =>
    simp only
    refine ⟨?_, ?_⟩
    · intro _ hcc; simp at hcc
    · intro _ hf; simp at hf

theorem step_inv (s : State) (w : Who) (h : Inv s) : Inv (step s w) := by
  cases w with
  | none => exact stepCons_inv s h
  | some t => exact stepProd_inv s t h

theorem run_inv (s : State) (sched : List Who) (h : Inv s) : Inv (run s sched) := by
  induction sched generalizing s with
  | nil => exact h
  | cons w ws ih => exact ih _ (step_inv s w h)

end Wake
