import ShmVerif.Proof.FreeListInit
/-!
  EVERY interleaving of the access-granular free-list model in which no head CAS succeeds on a stale snapshot
  (ghost flag `aba = false`): the slots in the queue `Q` (head … tail, in order) and the slots the threads own
  (held, or in transit between the CAS and the bookkeeping) partition `{0 … n-1}` at every step.

  `Q` is ghost (existentially quantified): a successful tail CAS appends, a successful head CAS drops the first
  element.  A link `a → b` of `Q` is either established (`hasNext a`, `next a = b`) or pending (the pusher that
  won the tail CAS on `a` has not yet written both words); poppers cannot advance over a pending link, and the
  tail never has `hasNext`, so the queue never empties and nobody is handed a slot that is still in `Q`.
-/
namespace FreeListC

/-! ### list helpers -/

def Adj : List Nat → Nat → Nat → Prop
  | x :: y :: r, a, b => (x = a ∧ y = b) ∨ Adj (y :: r) a b
  | _, _, _ => False

theorem adj_mem {Q : List Nat} {a b : Nat} (h : Adj Q a b) : a ∈ Q ∧ b ∈ Q := by
  induction Q with
  | nil => simp [Adj] at h
  | cons x r ih =>
    cases r with
    | nil => simp [Adj] at h
    | cons y r' =>
      simp only [Adj] at h
      rcases h with ⟨rfl, rfl⟩ | h
      · simp
      · have := ih h
        exact ⟨List.mem_cons_of_mem _ this.1, List.mem_cons_of_mem _ this.2⟩

theorem adj_unique {Q : List Nat} {a b b' : Nat} (nd : Q.Nodup) (h : Adj Q a b) (h' : Adj Q a b') : b = b' := by
  induction Q with
  | nil => simp [Adj] at h
  | cons x r ih =>
    cases r with
    | nil => simp [Adj] at h
    | cons y r' =>
      simp only [Adj] at h h'
      have ndr := (List.nodup_cons.mp nd).2
      have hx := (List.nodup_cons.mp nd).1
      rcases h with ⟨rfl, rfl⟩ | h <;> rcases h' with ⟨h1, rfl⟩ | h'
      · rfl
      · exact absurd (adj_mem h').1 hx
      · subst h1; exact absurd (adj_mem h).1 hx
      · exact ih ndr h h'

theorem adj_not_last {Q : List Nat} {a b : Nat} (nd : Q.Nodup) (h : Adj Q a b) : Q.getLast? ≠ some a := by
  induction Q with
  | nil => simp [Adj] at h
  | cons x r ih =>
    cases r with
    | nil => simp [Adj] at h
    | cons y r' =>
      simp only [Adj] at h
      have ndr := (List.nodup_cons.mp nd).2
      have hx := (List.nodup_cons.mp nd).1
      rw [List.getLast?_cons_cons]
      rcases h with ⟨rfl, rfl⟩ | h
      · intro hl
        exact hx (List.mem_of_getLast? hl)
      · exact ih ndr h

theorem adj_snoc {Q : List Nat} {a b o : Nat} (h : Adj Q a b) : Adj (Q ++ [o]) a b := by
  induction Q with
  | nil => simp [Adj] at h
  | cons x r ih =>
    cases r with
    | nil => simp [Adj] at h
    | cons y r' =>
      simp only [Adj] at h
      simp only [List.cons_append, Adj]
      rcases h with h | h
      · exact Or.inl h
      · exact Or.inr (ih h)

theorem adj_of_snoc {Q : List Nat} {a b o : Nat} (h : Adj (Q ++ [o]) a b) :
    Adj Q a b ∨ (Q.getLast? = some a ∧ b = o) := by
  induction Q with
  | nil => simp [Adj] at h
  | cons x r ih =>
    cases r with
    | nil =>
      simp only [List.cons_append, List.nil_append, Adj] at h
      rcases h with ⟨rfl, rfl⟩ | h
      · right; simp
      · exact absurd h (by simp [Adj])
    | cons y r' =>
      simp only [List.cons_append, Adj] at h
      rcases h with h | h
      · left; simp only [Adj]; exact Or.inl h
      · rcases ih h with h1 | ⟨h1, h2⟩
        · left; simp only [Adj]; exact Or.inr h1
        · right; rw [List.getLast?_cons_cons]; exact ⟨h1, h2⟩

theorem adj_tail {x : Nat} {Q : List Nat} {a b : Nat} (h : Adj (x :: Q) a b) (hne : a ≠ x) : Adj Q a b := by
  cases Q with
  | nil => simp [Adj] at h
  | cons y r =>
    simp only [Adj] at h
    rcases h with ⟨h1, _⟩ | h
    · exact absurd h1.symm hne
    · exact h

theorem adj_cons {x : Nat} {Q : List Nat} {a b : Nat} (h : Adj Q a b) : Adj (x :: Q) a b := by
  cases Q with
  | nil => simp [Adj] at h
  | cons y r => simp only [Adj]; exact Or.inr h

theorem sum_map_set {α : Type} (g : α → Nat) : ∀ (l : List α) (t : Nat) (x y : α), l[t]? = some x →
    ((l.set t y).map g).sum + g x = (l.map g).sum + g y
  | [], t, x, y, h => by simp at h
  | z :: l, 0, x, y, h => by
    simp at h; subst h
    simp; omega
  | z :: l, t + 1, x, y, h => by
    simp at h
    have := sum_map_set g l t x y h
    simp only [List.set_cons_succ, List.map_cons, List.sum_cons]
    omega

theorem sum_map_ge {α : Type} (g : α → Nat) : ∀ (l : List α) (t : Nat) (x : α), l[t]? = some x → g x ≤ (l.map g).sum
  | [], t, x, h => by simp at h
  | z :: l, 0, x, h => by simp at h; subst h; simp
  | z :: l, t + 1, x, h => by
    simp at h
    have := sum_map_ge g l t x h
    simp; omega

theorem sum_map_ge2 {α : Type} (g : α → Nat) : ∀ (l : List α) (t t' : Nat) (x x' : α), t ≠ t' → l[t]? = some x → l[t']? = some x' →
    g x + g x' ≤ (l.map g).sum
  | [], t, t', x, x', _, h, _ => by simp at h
  | z :: l, 0, 0, x, x', hne, _, _ => absurd rfl hne
  | z :: l, 0, t' + 1, x, x', _, h, h' => by
    simp at h h'; subst h
    have := sum_map_ge g l t' x' h'
    simp; omega
  | z :: l, t + 1, 0, x, x', _, h, h' => by
    simp at h h'; subst h'
    have := sum_map_ge g l t x h
    simp; omega
  | z :: l, t + 1, t' + 1, x, x', hne, h, h' => by
    simp at h h'
    have := sum_map_ge2 g l t t' x x' (by omega) h h'
    simp; omega

theorem count_eraseIdx : ∀ (l : List Nat) (k o i : Nat), l[k]? = some o →
    (l.eraseIdx k).count i + (if o = i then 1 else 0) = l.count i
  | [], k, o, i, h => by simp at h
  | z :: l, 0, o, i, h => by
    simp at h; subst h
    simp [List.count_cons]
  | z :: l, k + 1, o, i, h => by
    simp at h
    have := count_eraseIdx l k o i h
    simp [List.count_cons]; omega

/-! ### ownership -/

def transit (th : Th) : List Nat :=
  match th.pc with
  | .pClear | .pSetUsed | .pCnt => [th.oldHead]
  | .uReset | .uLdTail | .uCas => [th.o]
  | _ => []

def ownedC (th : Th) : List Nat := th.held ++ transit th

def ownCnt (ths : List Th) (i : Nat) : Nat := (ths.map (fun th => (ownedC th).count i)).sum

theorem ownCnt_set (ths : List Th) (t : Nat) (th th' : Th) (i : Nat) (h : ths[t]? = some th) :
    ownCnt (ths.set t th') i + (ownedC th).count i = ownCnt ths i + (ownedC th').count i :=
  sum_map_set (fun th => (ownedC th).count i) ths t th th' h

def Pend (th : Th) : Prop := th.pc = .uLink0 ∨ th.pc = .uLink1

def Boundary (th : Th) : Prop := th.pc = .idle ∨ th.pc = .pLdHead ∨ th.pc = .uReset

theorem startNextAux_spec (ops : List Op) (t : Th) :
    Boundary (startNextAux t ops) ∧ (startNextAux t ops).lver = t.lver ∧
      ∀ i, (ownedC (startNextAux t ops)).count i = t.held.count i := by
  induction ops generalizing t with
  | nil => exact ⟨Or.inl rfl, rfl, fun i => by simp [startNextAux, ownedC, transit]⟩
  | cons op r ih =>
    cases op with
    | pop => exact ⟨Or.inr (Or.inl rfl), rfl, fun i => by simp [startNextAux, ownedC, transit]⟩
    | push k =>
      simp only [startNextAux]
      split
      · exact ih _
      · rename_i o ho
        refine ⟨Or.inr (Or.inr rfl), rfl, fun i => ?_⟩
        have := count_eraseIdx t.held k o i ho
        simp only [ownedC, transit, List.count_append, List.count_singleton]
        simp only [beq_iff_eq]
        omega

theorem finishOp_spec (t : Th) (r : Res) :
    Boundary (finishOp t r) ∧ (finishOp t r).lver = t.lver ∧ ∀ i, (ownedC (finishOp t r)).count i = t.held.count i := by
  have := startNextAux_spec (t.prog) { t with res := t.res ++ [r] }
  exact this

/-! ### the invariant -/

structure TI (slots : List Slot) (head hver : Nat) (Q : List Nat) (th : Th) : Prop where
  lver : th.lver ≤ hver
  cur : (th.pc = .pDec ∨ th.pc = .pHasNext ∨ th.pc = .pNext ∨ th.pc = .pCas ∨ th.pc = .pPlainSize) →
          th.lver = hver → th.oldHead = head
  hn : (th.pc = .pNext ∨ th.pc = .pCas) → th.lver = hver → (gs slots th.oldHead).hasNext = true
  nx : th.pc = .pCas → th.lver = hver → th.nxt = (gs slots th.oldHead).next
  fresh : (th.pc = .uLdTail ∨ th.pc = .uCas) → (gs slots th.o).hasNext = false
  pend : Pend th → Adj Q th.ot th.o ∧ (gs slots th.ot).hasNext = false
  linked : th.pc = .uLink1 → (gs slots th.ot).next = th.o

structure CInv (n : Nat) (s : State) (Q : List Nat) : Prop where
  len : s.slots.length = n
  head : Q.head? = some s.head
  last : Q.getLast? = some s.tail
  cnt : ∀ i, Q.count i + ownCnt s.ths i = if i < n then 1 else 0
  link : ∀ a b, Adj Q a b → (gs s.slots a).hasNext = true → (gs s.slots a).next = b
  tl : (gs s.slots s.tail).hasNext = false
  ti : ∀ (t : Nat) (th : Th), s.ths[t]? = some th → TI s.slots s.head s.hver Q th
  uniq : ∀ (t t' : Nat) (th th' : Th), t ≠ t' → s.ths[t]? = some th → s.ths[t']? = some th' → Pend th → Pend th' → th.ot ≠ th'.ot

theorem ti_boundary {slots : List Slot} {head hver : Nat} {Q : List Nat} {th : Th}
    (hb : Boundary th) (hl : th.lver ≤ hver) : TI slots head hver Q th := by
  unfold Boundary at hb
  refine ⟨hl, ?_, ?_, ?_, ?_, ?_, ?_⟩ <;> intro h <;> (try unfold Pend at h) <;>
    (rcases hb with hb | hb | hb <;> rw [hb] at h <;> simp at h)

/-- consequences of the counting invariant -/
theorem CInv.nodup {n : Nat} {s : State} {Q : List Nat} (I : CInv n s Q) : Q.Nodup := by
  rw [List.nodup_iff_count]
  intro a
  have := I.cnt a
  split at this <;> omega

theorem CInv.mem_lt {n : Nat} {s : State} {Q : List Nat} (I : CInv n s Q) {a : Nat} (h : a ∈ Q) : a < n := by
  have := I.cnt a
  have hc : 0 < Q.count a := List.count_pos_iff.mpr h
  split at this
  · assumption
  · omega

/-- a slot owned by a thread is not in the queue -/
theorem CInv.owned_not_mem {n : Nat} {s : State} {Q : List Nat} (I : CInv n s Q) {t : Nat} {th : Th} {x : Nat}
    (hth : s.ths[t]? = some th) (hx : x ∈ ownedC th) : x ∉ Q ∧ x < n := by
  have := I.cnt x
  have h1 : 0 < (ownedC th).count x := List.count_pos_iff.mpr hx
  have h2 := sum_map_ge (fun th => (ownedC th).count x) s.ths t th hth
  unfold ownCnt at this
  constructor
  · intro hq
    have hc : 0 < Q.count x := List.count_pos_iff.mpr hq
    split at this <;> omega
  · split at this
    · assumption
    · omega

/-- two different threads never own the same slot -/
theorem CInv.owned_disjoint {n : Nat} {s : State} {Q : List Nat} (I : CInv n s Q) {t t' : Nat} {th th' : Th} {x : Nat}
    (hne : t ≠ t') (hth : s.ths[t]? = some th) (hth' : s.ths[t']? = some th') (hx : x ∈ ownedC th) : x ∉ ownedC th' := by
  intro hx'
  have := I.cnt x
  have h1 : 0 < (ownedC th).count x := List.count_pos_iff.mpr hx
  have h1' : 0 < (ownedC th').count x := List.count_pos_iff.mpr hx'
  have h2 := sum_map_ge2 (fun th => (ownedC th).count x) s.ths t t' th th' hne hth hth'
  unfold ownCnt at this
  split at this <;> omega

theorem CInv.head_mem {n : Nat} {s : State} {Q : List Nat} (I : CInv n s Q) : s.head ∈ Q := by
  have := I.head
  cases Q with
  | nil => simp at this
  | cons a r => simp at this; simp [this]

theorem CInv.tail_mem {n : Nat} {s : State} {Q : List Nat} (I : CInv n s Q) : s.tail ∈ Q :=
  List.mem_of_getLast? I.last

theorem gs_modify_ne (sl : List Slot) (x j : Nat) (f : Slot → Slot) (h : j ≠ x) : gs (sl.modify x f) j = gs sl j := by
  rw [gs_modify]; simp [Ne.symm h]

theorem gs_modify_self (sl : List Slot) (x : Nat) (f : Slot → Slot) (h : x < sl.length) : gs (sl.modify x f) x = f (gs sl x) := by
  rw [gs_modify]; simp [h]

/-- the shared words a thread's invariant looks at are unchanged -/
theorem ti_agree {slots slots' : List Slot} {head hver : Nat} {Q : List Nat} {th : Th} {x : Nat}
    (h : TI slots head hver Q th)
    (ag : ∀ j, j ≠ x → gs slots' j = gs slots j)
    (h1 : (th.pc = .pNext ∨ th.pc = .pCas) → th.lver = hver → th.oldHead ≠ x)
    (h2 : (th.pc = .uLdTail ∨ th.pc = .uCas) → th.o ≠ x)
    (h3 : Pend th → th.ot ≠ x) : TI slots' head hver Q th :=
  ⟨h.lver, h.cur,
   fun p e => by rw [ag _ (h1 p e)]; exact h.hn p e,
   fun p e => by rw [ag _ (h1 (Or.inr p) e)]; exact h.nx p e,
   fun p => by rw [ag _ (h2 p)]; exact h.fresh p,
   fun p => by rw [ag _ (h3 p)]; exact h.pend p,
   fun p => by rw [ag _ (h3 (Or.inr p))]; exact h.linked p⟩

theorem assemble {n : Nat} {s : State} {Q : List Nat} (I : CInv n s Q) {t : Nat} {th : Th} (hth : s.ths[t]? = some th)
    (s' : State) (th' : Th) (Q' : List Nat)
    (hths : s'.ths = s.ths.set t th')
    (len : s'.slots.length = n) (head : Q'.head? = some s'.head) (last : Q'.getLast? = some s'.tail)
    (cnt : ∀ i, Q'.count i + (ownedC th').count i = Q.count i + (ownedC th).count i)
    (link : ∀ a b, Adj Q' a b → (gs s'.slots a).hasNext = true → (gs s'.slots a).next = b)
    (tl : (gs s'.slots s'.tail).hasNext = false)
    (others : ∀ (t' : Nat) (th'' : Th), t' ≠ t → s.ths[t']? = some th'' → TI s'.slots s'.head s'.hver Q' th'')
    (self : TI s'.slots s'.head s'.hver Q' th')
    (uq : Pend th' → ∀ (t' : Nat) (th'' : Th), t' ≠ t → s.ths[t']? = some th'' → Pend th'' → th'.ot ≠ th''.ot) :
    CInv n s' Q' := by
  have htl : t < s.ths.length := by
    rcases Nat.lt_or_ge t s.ths.length with h | h
    · exact h
    · have : s.ths[t]? = none := by simp; omega
      rw [this] at hth; simp at hth
  refine ⟨len, head, last, ?_, link, tl, ?_, ?_⟩
  · intro i
    rw [hths]
    have h1 := ownCnt_set s.ths t th th' i hth
    have h2 := I.cnt i
    have h3 := cnt i
    generalize (if i < n then 1 else 0) = k at *
    omega
  · intro t' th'' h
    rw [hths, List.getElem?_set] at h
    by_cases e : t = t'
    · simp [e.symm, htl] at h
      subst h; exact self
    · simp [e] at h
      exact others t' th'' (Ne.symm e) h
  · intro t1 t2 th1 th2 hne h1 h2 p1 p2
    rw [hths, List.getElem?_set] at h1 h2
    by_cases e1 : t = t1 <;> by_cases e2 : t = t2
    · exact absurd (e1.symm.trans e2) hne
    · simp [e1.symm, htl] at h1
      simp [e2] at h2
      subst h1
      exact uq p1 t2 th2 (Ne.symm e2) h2 p2
    · simp [e1] at h1
      simp [e2.symm, htl] at h2
      subst h2
      exact Ne.symm (uq p2 t1 th1 (Ne.symm e1) h1 p1)
    · simp [e1] at h1
      simp [e2] at h2
      exact I.uniq t1 t2 th1 th2 hne h1 h2 p1 p2

theorem ti_mono_Q {slots : List Slot} {head hver : Nat} {Q Q' : List Nat} {th : Th}
    (h : TI slots head hver Q th) (m : ∀ a b, Adj Q a b → Adj Q' a b) : TI slots head hver Q' th :=
  ⟨h.lver, h.cur, h.hn, h.nx, h.fresh, fun p => ⟨m _ _ (h.pend p).1, (h.pend p).2⟩, h.linked⟩

theorem adj_snoc_last {Q : List Nat} {a o : Nat} (h : Q.getLast? = some a) : Adj (Q ++ [o]) a o := by
  induction Q with
  | nil => simp at h
  | cons x r ih =>
    cases r with
    | nil =>
      simp at h; subst h
      simp [Adj]
    | cons y r' =>
      rw [List.getLast?_cons_cons] at h
      simp only [List.cons_append, Adj]
      exact Or.inr (ih h)

/-- a thread writes a word of a slot it owns: nobody else's view changes -/
theorem others_modify {n : Nat} {s : State} {Q : List Nat} (I : CInv n s Q) {t : Nat} {th : Th} {x : Nat}
    (hth : s.ths[t]? = some th) (hx : x ∈ ownedC th) (f : Slot → Slot) :
    ∀ (t' : Nat) (th'' : Th), t' ≠ t → s.ths[t']? = some th'' → TI (s.slots.modify x f) s.head s.hver Q th'' := by
  intro t' th'' hne h
  have T'' := I.ti t' th'' h
  have hxQ := (I.owned_not_mem hth hx).1
  apply ti_agree T'' (fun j hj => gs_modify_ne _ _ _ _ hj)
  · intro p e heq
    have := T''.cur (by rcases p with p | p <;> simp [p]) e
    rw [heq] at this
    exact hxQ (this ▸ I.head_mem)
  · intro p heq
    have : th''.o ∈ ownedC th'' := by
      rcases p with p | p <;> simp [ownedC, transit, p]
    exact I.owned_disjoint (Ne.symm hne) hth h hx (heq ▸ this)
  · intro p heq
    exact hxQ (heq ▸ (adj_mem (T''.pend p).1).1)

theorem link_modify {n : Nat} {s : State} {Q : List Nat} (I : CInv n s Q) {x : Nat} (hxQ : x ∉ Q) (f : Slot → Slot) :
    ∀ a b, Adj Q a b → (gs (s.slots.modify x f) a).hasNext = true → (gs (s.slots.modify x f) a).next = b := by
  intro a b hab
  have : a ≠ x := fun e => hxQ (e ▸ (adj_mem hab).1)
  rw [gs_modify_ne _ _ _ _ this]
  exact I.link a b hab

theorem tl_modify {n : Nat} {s : State} {Q : List Nat} (I : CInv n s Q) {x : Nat} (hxQ : x ∉ Q) (f : Slot → Slot) :
    (gs (s.slots.modify x f) s.tail).hasNext = false := by
  have : s.tail ≠ x := fun e => hxQ (e ▸ I.tail_mem)
  rw [gs_modify_ne _ _ _ _ this]
  exact I.tl

/-- the ghost queue after a step: a successful head CAS drops the first element, a successful tail CAS appends -/
def nextQ (s : State) (t : Nat) (Q : List Nat) : List Nat :=
  match s.ths[t]? with
  | none => Q
  | some th =>
    match th.pc with
    | .pCas => if s.head = th.oldHead then Q.tail else Q
    | .uCas => if s.tail = th.ot then Q ++ [th.o] else Q
    | _ => Q

theorem step_cinv_nq (n : Nat) (s : State) (Q : List Nat) (t : Nat) (I : CInv n s Q) (ha : (step s t).1.aba = false) :
    CInv n (step s t).1 (nextQ s t Q) := by
  unfold step at ha ⊢
  unfold nextQ
  cases hth : s.ths[t]? with
  | none => exact I
  | some th =>
    rw [hth] at ha
    have T := I.ti t th hth
    have same : ∀ (t' : Nat) (th'' : Th), t' ≠ t → s.ths[t']? = some th'' → TI s.slots s.head s.hver Q th'' :=
      fun t' th'' _ h => I.ti t' th'' h
    cases hpc : th.pc with
    | idle =>
      simp only [stepTh, hpc, nextQ]
      exact assemble I hth _ th Q rfl I.len I.head I.last (fun i => rfl) I.link I.tl same T
        (fun p => by unfold Pend at p; simp [hpc] at p)
    | pLdHead =>
      simp only [stepTh, hpc, nextQ]
      refine assemble I hth _ _ Q rfl I.len I.head I.last ?_ I.link I.tl same ?_ ?_
      · intro i; simp [ownedC, transit, hpc]
      · refine ⟨?_, ?_, ?_, ?_, ?_, ?_, ?_⟩ <;> simp [Pend]
      · intro p; simp [Pend] at p
    | pDec =>
      by_cases hc : s.size - 1 ≤ 0
      · simp only [stepTh, hpc, nextQ, hc, if_true]
        refine assemble I hth _ _ Q rfl I.len I.head I.last ?_ I.link I.tl same ?_ ?_
        · intro i; simp [ownedC, transit, hpc]
        · refine ⟨T.lver, ?_, ?_, ?_, ?_, ?_, ?_⟩ <;> simp [Pend]
        · intro p; simp [Pend] at p
      · simp only [stepTh, hpc, nextQ, hc, if_false]
        refine assemble I hth _ _ Q rfl I.len I.head I.last ?_ I.link I.tl same ?_ ?_
        · intro i; simp [ownedC, transit, hpc]
        · refine ⟨T.lver, ?_, ?_, ?_, ?_, ?_, ?_⟩ <;> simp [Pend]
          exact T.cur (Or.inl hpc)
        · intro p; simp [Pend] at p
    | pIncFail =>
      simp only [stepTh, hpc, nextQ]
      have fs := finishOp_spec th .nomore
      refine assemble I hth _ _ Q rfl I.len I.head I.last ?_ I.link I.tl same (ti_boundary fs.1 (fs.2.1 ▸ T.lver)) ?_
      · intro i; rw [fs.2.2 i]; simp [ownedC, transit, hpc]
      · intro p; unfold Pend at p; rcases fs.1 with b | b | b <;> rw [b] at p <;> simp at p
    | pHasNext =>
      by_cases hc : (getSlot s th.oldHead).hasNext = true
      · simp only [stepTh, hpc, nextQ, hc, if_true]
        refine assemble I hth _ _ Q rfl I.len I.head I.last ?_ I.link I.tl same ?_ ?_
        · intro i; simp [ownedC, transit, hpc]
        · refine ⟨T.lver, ?_, ?_, ?_, ?_, ?_, ?_⟩ <;> simp [Pend]
          · exact T.cur (Or.inr (Or.inl hpc))
          · intro _; exact hc
        · intro p; simp [Pend] at p
      · simp only [stepTh, hpc, nextQ, hc]
        refine assemble I hth _ _ Q rfl I.len I.head I.last ?_ I.link I.tl same ?_ ?_
        · intro i; simp [ownedC, transit, hpc]
        · refine ⟨T.lver, ?_, ?_, ?_, ?_, ?_, ?_⟩ <;> simp [Pend]
          exact T.cur (Or.inr (Or.inl hpc))
        · intro p; simp [Pend] at p
    | pNext =>
      simp only [stepTh, hpc, nextQ]
      refine assemble I hth _ _ Q rfl I.len I.head I.last ?_ I.link I.tl same ?_ ?_
      · intro i; simp [ownedC, transit, hpc]
      · refine ⟨T.lver, ?_, ?_, ?_, ?_, ?_, ?_⟩ <;> simp [Pend]
        · exact T.cur (Or.inr (Or.inr (Or.inl hpc)))
        · exact T.hn (Or.inl hpc)
        · intro _; rfl
      · intro p; simp [Pend] at p
    | pCas =>
      by_cases hc : s.head = th.oldHead
      · simp only [stepTh, hpc, nextQ, hc, if_true] at ha ⊢
        have hclean : th.lver = s.hver := by
          simp at ha
          exact ha.2
        have hN := T.hn (Or.inr hpc) hclean
        have hX := T.nx hpc hclean
        -- the queue has at least two elements and its first link is established
        have hd := I.head
        have hl := I.last
        have htl := I.tl
        cases hQ : Q with
        | nil => rw [hQ] at hd; simp at hd
        | cons a Q1 =>
          rw [hQ] at hd hl
          have ha0 : a = s.head := by simpa using hd
          cases hQ1 : Q1 with
          | nil =>
            rw [hQ1] at hl
            have : a = s.tail := by simpa using hl
            rw [← this, ha0, hc, hN] at htl
            simp at htl
          | cons b r =>
            rw [hQ1] at hl
            have hab : Adj Q a b := by rw [hQ, hQ1]; simp [Adj]
            have hnb := I.link a b hab (by rw [ha0, hc]; exact hN)
            have hnxt : th.nxt = b := by rw [hX, ← hc, ← ha0]; exact hnb
            refine assemble I hth _ _ (b :: r) rfl I.len ?_ ?_ ?_ ?_ I.tl ?_ ?_ ?_
            · simp [hnxt]
            · rw [List.getLast?_cons_cons] at hl; exact hl
            · intro i
              rw [hQ, hQ1]
              simp only [ownedC, transit, hpc, List.count_append, List.count_cons, List.count_nil]
              have : a = th.oldHead := by rw [ha0, hc]
              rw [this]
              simp only [beq_iff_eq]
              omega
            · intro a' b' h'
              exact I.link a' b' (by rw [hQ, hQ1]; exact adj_cons h')
            · intro t' th'' hne h
              have T'' := I.ti t' th'' h
              refine ⟨Nat.le_succ_of_le T''.lver, ?_, ?_, ?_, T''.fresh, ?_, T''.linked⟩
              · intro _ (e : th''.lver = s.hver + 1); have := T''.lver; omega
              · intro _ (e : th''.lver = s.hver + 1); have := T''.lver; omega
              · intro _ (e : th''.lver = s.hver + 1); have := T''.lver; omega
              · intro p
                have P := T''.pend p
                refine ⟨?_, P.2⟩
                have h1 := P.1
                rw [hQ, hQ1] at h1
                apply adj_tail h1
                intro e
                rw [e, ha0, hc, hN] at P
                simp at P
            · refine ⟨Nat.le_succ_of_le T.lver, ?_, ?_, ?_, ?_, ?_, ?_⟩ <;> simp [Pend]
            · intro p; simp [Pend] at p
      · simp only [stepTh, hpc, nextQ, hc, if_false]
        refine assemble I hth _ _ Q rfl I.len I.head I.last ?_ I.link I.tl same ?_ ?_
        · intro i; simp [ownedC, transit, hpc]
        · refine ⟨T.lver, ?_, ?_, ?_, ?_, ?_, ?_⟩ <;> simp [Pend]
        · intro p; simp [Pend] at p
    | pClear =>
      simp only [stepTh, hpc, nextQ, clearFlag]
      have hx : th.oldHead ∈ ownedC th := by simp [ownedC, transit, hpc]
      have hxQ := (I.owned_not_mem hth hx).1
      refine assemble I hth _ _ Q rfl (by simp [I.len]) I.head I.last ?_ (link_modify I hxQ _) (tl_modify I hxQ _)
        (others_modify I hth hx _) ?_ ?_
      · intro i; simp [ownedC, transit, hpc]
      · refine ⟨T.lver, ?_, ?_, ?_, ?_, ?_, ?_⟩ <;> simp [Pend]
      · intro p; simp [Pend] at p
    | pSetUsed =>
      simp only [stepTh, hpc, nextQ, setInUsed]
      have hx : th.oldHead ∈ ownedC th := by simp [ownedC, transit, hpc]
      have hxQ := (I.owned_not_mem hth hx).1
      refine assemble I hth _ _ Q rfl (by simp [I.len]) I.head I.last ?_ (link_modify I hxQ _) (tl_modify I hxQ _)
        (others_modify I hth hx _) ?_ ?_
      · intro i; simp [ownedC, transit, hpc]
      · refine ⟨T.lver, ?_, ?_, ?_, ?_, ?_, ?_⟩ <;> simp [Pend]
      · intro p; simp [Pend] at p
    | pCnt =>
      simp only [stepTh, hpc, nextQ]
      have fs := finishOp_spec { th with pc := .pCnt, held := th.held ++ [th.oldHead] } (.got th.oldHead)
      refine assemble I hth _ _ Q rfl I.len I.head I.last ?_ I.link I.tl same (ti_boundary fs.1 (by rw [fs.2.1]; exact T.lver)) ?_
      · intro i; rw [fs.2.2 i]; simp [ownedC, transit, hpc]
      · intro p; unfold Pend at p; rcases fs.1 with b | b | b <;> rw [b] at p <;> simp at p
    | pPlainSize =>
      by_cases hc : s.size ≤ 1
      · simp only [stepTh, hpc, nextQ, hc, if_true]
        refine assemble I hth _ _ Q rfl I.len I.head I.last ?_ I.link I.tl same ?_ ?_
        · intro i; simp [ownedC, transit, hpc]
        · refine ⟨T.lver, ?_, ?_, ?_, ?_, ?_, ?_⟩ <;> simp [Pend]
        · intro p; simp [Pend] at p
      · simp only [stepTh, hpc, nextQ, hc, if_false]
        refine assemble I hth _ _ Q rfl I.len I.head I.last ?_ I.link I.tl same ?_ ?_
        · intro i; simp [ownedC, transit, hpc]
        · refine ⟨T.lver, ?_, ?_, ?_, ?_, ?_, ?_⟩ <;> simp [Pend]
        · intro p; simp [Pend] at p
    | pReload =>
      by_cases hc : th.retry + 1 < retryBound
      · simp only [stepTh, hpc, nextQ, hc, if_true]
        refine assemble I hth _ _ Q rfl I.len I.head I.last ?_ I.link I.tl same ?_ ?_
        · intro i; simp [ownedC, transit, hpc]
        · refine ⟨?_, ?_, ?_, ?_, ?_, ?_, ?_⟩ <;> simp [Pend]
        · intro p; simp [Pend] at p
      · simp only [stepTh, hpc, nextQ, hc, if_false]
        refine assemble I hth _ _ Q rfl I.len I.head I.last ?_ I.link I.tl same ?_ ?_
        · intro i; simp [ownedC, transit, hpc]
        · refine ⟨?_, ?_, ?_, ?_, ?_, ?_, ?_⟩ <;> simp [Pend]
        · intro p; simp [Pend] at p
    | uReset =>
      simp only [stepTh, hpc, nextQ, clearFlag]
      have hx : th.o ∈ ownedC th := by simp [ownedC, transit, hpc]
      have hxQ := (I.owned_not_mem hth hx).1
      have hxn := (I.owned_not_mem hth hx).2
      refine assemble I hth _ _ Q rfl (by simp [I.len]) I.head I.last ?_ (link_modify I hxQ _) (tl_modify I hxQ _)
        (others_modify I hth hx _) ?_ ?_
      · intro i; simp [ownedC, transit, hpc]
      · refine ⟨T.lver, ?_, ?_, ?_, ?_, ?_, ?_⟩ <;> simp [Pend]
        rw [gs_modify_self _ _ _ (by rw [I.len]; exact hxn)]
      · intro p; simp [Pend] at p
    | uLdTail =>
      simp only [stepTh, hpc, nextQ]
      refine assemble I hth _ _ Q rfl I.len I.head I.last ?_ I.link I.tl same ?_ ?_
      · intro i; simp [ownedC, transit, hpc]
      · refine ⟨T.lver, ?_, ?_, ?_, ?_, ?_, ?_⟩ <;> simp [Pend]
        exact T.fresh (Or.inl hpc)
      · intro p; simp [Pend] at p
    | uCas =>
      by_cases hc : s.tail = th.ot
      · simp only [stepTh, hpc, nextQ, hc, if_true]
        have hQne : Q ≠ [] := by intro e; have := I.head; rw [e] at this; simp at this
        refine assemble I hth _ _ (Q ++ [th.o]) rfl I.len ?_ ?_ ?_ ?_ ?_ ?_ ?_ ?_
        · rw [List.head?_append, I.head]; simp
        · simp
        · intro i
          simp only [ownedC, transit, hpc, List.count_append, List.count_cons, List.count_nil]
          omega
        · intro a b hab hN
          rcases adj_of_snoc hab with h1 | ⟨h1, _⟩
          · exact I.link a b h1 hN
          · have : a = s.tail := by have := I.last; rw [h1] at this; simpa using this
            rw [this, I.tl] at hN; simp at hN
        · exact T.fresh (Or.inr hpc)
        · intro t' th'' _ h
          exact ti_mono_Q (I.ti t' th'' h) (fun a b => adj_snoc)
        · refine ⟨T.lver, ?_, ?_, ?_, ?_, ?_, ?_⟩ <;> simp [Pend]
          refine ⟨adj_snoc_last (hc ▸ I.last), ?_⟩
          rw [← hc]; exact I.tl
        · intro _ t' th'' _ h p heq
          have := adj_not_last I.nodup ((I.ti t' th'' h).pend p).1
          apply this
          rw [I.last, hc]; simp at heq; rw [heq]
      · simp only [stepTh, hpc, nextQ, hc, if_false]
        refine assemble I hth _ _ Q rfl I.len I.head I.last ?_ I.link I.tl same ?_ ?_
        · intro i; simp [ownedC, transit, hpc]
        · refine ⟨T.lver, ?_, ?_, ?_, ?_, ?_, ?_⟩ <;> simp [Pend]
          exact T.fresh (Or.inr hpc)
        · intro p; simp [Pend] at p
    | uLink0 =>
      simp only [stepTh, hpc, nextQ, setNext]
      have P := T.pend (Or.inl hpc)
      have hotQ := (adj_mem P.1).1
      have hotn : th.ot < s.slots.length := by rw [I.len]; exact I.mem_lt hotQ
      have hsame : ∀ j, (gs (s.slots.modify th.ot (fun x => { x with next := th.o })) j).hasNext = (gs s.slots j).hasNext := by
        intro j; rw [gs_modify]; split <;> rfl
      refine assemble I hth _ _ Q rfl (by simp [I.len]) I.head I.last ?_ ?_ ?_ ?_ ?_ ?_
      · intro i; simp [ownedC, transit, hpc]
      · intro a b hab hN
        rw [hsame] at hN
        have : a ≠ th.ot := by intro e; rw [e, P.2] at hN; simp at hN
        rw [gs_modify_ne _ _ _ _ this]
        exact I.link a b hab hN
      · rw [hsame]; exact I.tl
      · intro t' th'' hne h
        have T'' := I.ti t' th'' h
        apply ti_agree T'' (fun j hj => gs_modify_ne _ _ _ _ hj)
        · intro p e heq
          have := T''.hn p e
          rw [heq, P.2] at this; simp at this
        · intro p heq
          have : th''.o ∈ ownedC th'' := by rcases p with p | p <;> simp [ownedC, transit, p]
          exact (I.owned_not_mem h this).1 (heq ▸ hotQ)
        · intro p heq
          exact I.uniq t' t th'' th hne h hth p (Or.inl hpc) heq
      · refine ⟨T.lver, ?_, ?_, ?_, ?_, ?_, ?_⟩ <;> simp [Pend]
        · refine ⟨P.1, ?_⟩
          rw [hsame]; exact P.2
        · rw [gs_modify_self _ _ _ hotn]
      · intro _ t' th'' hne h p
        exact I.uniq t t' th th'' (Ne.symm hne) hth h (Or.inl hpc) p
    | uLink1 =>
      simp only [stepTh, hpc, nextQ, setHasNext]
      have P := T.pend (Or.inr hpc)
      have L := T.linked hpc
      have hotQ := (adj_mem P.1).1
      have hotn : th.ot < s.slots.length := by rw [I.len]; exact I.mem_lt hotQ
      refine assemble I hth _ _ Q rfl (by simp [I.len]) I.head I.last ?_ ?_ ?_ ?_ ?_ ?_
      · intro i; simp [ownedC, transit, hpc]
      · intro a b hab hN
        by_cases e : a = th.ot
        · subst e
          rw [gs_modify_self _ _ _ hotn]
          simp only []
          rw [L]; exact adj_unique I.nodup P.1 hab
        · rw [gs_modify_ne _ _ _ _ e] at hN ⊢
          exact I.link a b hab hN
      · have : s.tail ≠ th.ot := by
          intro e
          exact adj_not_last I.nodup P.1 (e ▸ I.last)
        rw [gs_modify_ne _ _ _ _ this]; exact I.tl
      · intro t' th'' hne h
        have T'' := I.ti t' th'' h
        apply ti_agree T'' (fun j hj => gs_modify_ne _ _ _ _ hj)
        · intro p e heq
          have := T''.hn p e
          rw [heq, P.2] at this; simp at this
        · intro p heq
          have : th''.o ∈ ownedC th'' := by rcases p with p | p <;> simp [ownedC, transit, p]
          exact (I.owned_not_mem h this).1 (heq ▸ hotQ)
        · intro p heq
          exact I.uniq t' t th'' th hne h hth p (Or.inr hpc) heq
      · refine ⟨T.lver, ?_, ?_, ?_, ?_, ?_, ?_⟩ <;> simp [Pend]
      · intro p; simp [Pend] at p
    | uIncSize =>
      simp only [stepTh, hpc, nextQ]
      refine assemble I hth _ _ Q rfl I.len I.head I.last ?_ I.link I.tl same ?_ ?_
      · intro i; simp [ownedC, transit, hpc]
      · refine ⟨T.lver, ?_, ?_, ?_, ?_, ?_, ?_⟩ <;> simp [Pend]
      · intro p; simp [Pend] at p
    | uDecCnt =>
      simp only [stepTh, hpc, nextQ]
      have fs := finishOp_spec th (.pushed th.o)
      refine assemble I hth _ _ Q rfl I.len I.head I.last ?_ I.link I.tl same (ti_boundary fs.1 (fs.2.1 ▸ T.lver)) ?_
      · intro i; rw [fs.2.2 i]; simp [ownedC, transit, hpc]
      · intro p; unfold Pend at p; rcases fs.1 with b | b | b <;> rw [b] at p <;> simp at p

/-! ### initial state, monotone ghost flag, every run -/

theorem sum_zero_of_all : ∀ (l : List Nat), (∀ x ∈ l, x = 0) → l.sum = 0
  | [], _ => rfl
  | a :: r, h => by
    have h1 := h a List.mem_cons_self
    have h2 := sum_zero_of_all r (fun x hx => h x (List.mem_cons_of_mem _ hx))
    simp [h1, h2]

theorem chain_link {sl : List Slot} {Q : List Nat} {a b : Nat} (hc : Chain sl Q) (h : Adj Q a b) :
    (gs sl a).hasNext = true ∧ (gs sl a).next = b := by
  induction Q with
  | nil => simp [Adj] at h
  | cons x r ih =>
    cases r with
    | nil => simp [Adj] at h
    | cons y r' =>
      simp only [Adj] at h
      obtain ⟨h1, h2, h3⟩ := hc
      rcases h with ⟨rfl, rfl⟩ | h
      · exact ⟨h1, h2⟩
      · exact ih h3 h

theorem chain_last {sl : List Slot} {Q : List Nat} {t : Nat} (hc : Chain sl Q) (h : Q.getLast? = some t) :
    (gs sl t).hasNext = false := by
  induction Q with
  | nil => simp at h
  | cons x r ih =>
    cases r with
    | nil => simp at h; subst h; exact hc
    | cons y r' =>
      rw [List.getLast?_cons_cons] at h
      exact ih hc.2.2 h

theorem cinv_init (n : Nat) (hn : 0 < n) (progs : List (List Op)) :
    CInv n (prime (init n progs)) (List.range' 0 n) := by
  have R := rep_init n hn progs
  have hb : ∀ (t : Nat) (th : Th), (prime (init n progs)).ths[t]? = some th →
      Boundary th ∧ th.lver = 0 ∧ ∀ i, (ownedC th).count i = 0 := by
    intro t th h
    have hm := List.mem_of_getElem? h
    simp only [prime, init, List.map_map, List.mem_map] at hm
    obtain ⟨p, _, rfl⟩ := hm
    have := startNextAux_spec p { prog := p }
    exact ⟨this.1, this.2.1, fun i => by
      show List.count i (ownedC (startNextAux { prog := p } p)) = 0
      rw [this.2.2 i]; simp⟩
  have hzero : ∀ i, ownCnt (prime (init n progs)).ths i = 0 := by
    intro i
    unfold ownCnt
    apply sum_zero_of_all
    intro x hx
    simp only [List.mem_map] at hx
    obtain ⟨th, hth, rfl⟩ := hx
    obtain ⟨t, ht, e⟩ := List.getElem_of_mem hth
    exact (hb t th (by rw [List.getElem?_eq_getElem ht, e])).2.2 i
  refine ⟨by simp [prime, init, initSlots_length], R.head, R.tail, ?_, ?_, ?_, ?_, ?_⟩
  · intro i
    rw [hzero i, List.count_range_1']
    simp
  · intro a b hab hN
    exact (chain_link R.chain hab).2
  · exact chain_last R.chain R.tail
  · intro t th h
    have := hb t th h
    exact ti_boundary this.1 (by rw [this.2.1]; exact Nat.zero_le _)
  · intro t t' th th' _ h _ p _
    have := (hb t th h).1
    unfold Pend at p; unfold Boundary at this
    rcases this with b | b | b <;> rw [b] at p <;> simp at p

theorem aba_step_mono (s : State) (t : Nat) (h : s.aba = true) : (step s t).1.aba = true := by
  unfold step
  cases hth : s.ths[t]? with
  | none => exact h
  | some th =>
    simp only []
    cases hpc : th.pc <;> simp only [stepTh, hpc] <;> (try split) <;> simp [h]

theorem aba_run_mono (sched : List Nat) : ∀ (s : State), s.aba = true → (run s sched).aba = true := by
  induction sched with
  | nil => intro s h; exact h
  | cons t r ih =>
    intro s h
    simp only [run, List.foldl_cons]
    exact ih _ (aba_step_mono s t h)

theorem run_cinv (n : Nat) (sched : List Nat) : ∀ (s : State) (Q : List Nat), CInv n s Q → (run s sched).aba = false →
    ∃ Q', CInv n (run s sched) Q' := by
  induction sched with
  | nil => intro s Q I _; exact ⟨Q, I⟩
  | cons t r ih =>
    intro s Q I ha
    simp only [run, List.foldl_cons] at ha ⊢
    have h1 : (step s t).1.aba = false := by
      cases h : (step s t).1.aba with
      | false => rfl
      | true =>
        have := aba_run_mono r _ h
        simp only [run] at this
        rw [this] at ha; simp at ha
    exact ih _ _ (step_cinv_nq n s Q t I h1) ha

theorem ownCnt_eq_count (ths : List Th) (i : Nat) : (ths.flatMap ownedC).count i = ownCnt ths i := by
  unfold ownCnt
  rw [List.count_flatMap]
  rfl

/-- queue + owned slots are exactly the `n` slots, each once -/
theorem CInv.partition {n : Nat} {s : State} {Q : List Nat} (I : CInv n s Q) :
    (Q ++ s.ths.flatMap ownedC).Perm (List.range n) := by
  rw [List.perm_iff_count]
  intro i
  rw [List.count_append, ownCnt_eq_count, I.cnt i, List.count_range]

/-! ### accounting: `size`, and who is responsible for a link that is not established yet -/

def resv (th : Th) : Bool :=
  match th.pc with
  | .pIncFail | .pHasNext | .pNext | .pCas | .pPlainSize | .pReload => true
  | _ => false

def linking (th : Th) : Bool :=
  match th.pc with
  | .uLink0 | .uLink1 | .uIncSize => true
  | _ => false

def b2i (b : Bool) : Int := if b then 1 else 0

theorem countP_set_add {α : Type} (p : α → Bool) : ∀ (l : List α) (t : Nat) (x y : α), l[t]? = some x →
    ((l.set t y).countP p : Int) + b2i (p x) = (l.countP p : Int) + b2i (p y)
  | [], t, x, y, h => by simp at h
  | z :: l, 0, x, y, h => by
    simp at h; subst h
    simp only [List.set_cons_zero, List.countP_cons, b2i]
    split <;> split <;> simp <;> omega
  | z :: l, t + 1, x, y, h => by
    simp at h
    have := countP_set_add p l t x y h
    simp only [List.set_cons_succ, List.countP_cons]
    split <;> simp <;> omega

def Est (slots : List Slot) (ths : List Th) (Q : List Nat) : Prop :=
  ∀ a b, Adj Q a b → (gs slots a).hasNext = true ∨
    ∃ (t0 : Nat) (th0 : Th), ths[t0]? = some th0 ∧ Pend th0 ∧ th0.ot = a

structure QInv (s : State) (Q : List Nat) : Prop where
  size : s.size + (s.ths.countP resv : Int) + (s.ths.countP linking : Int) = (Q.length : Int)
  est : Est s.slots s.ths Q

theorem est_frame {s : State} {Q : List Nat} {t : Nat} {th th' : Th} {slots' : List Slot}
    (hth : s.ths[t]? = some th)
    (hmono : ∀ a, a ∈ Q → (gs s.slots a).hasNext = true → (gs slots' a).hasNext = true)
    (hkeep : Pend th → (Pend th' ∧ th'.ot = th.ot) ∨ (gs slots' th.ot).hasNext = true)
    (E : Est s.slots s.ths Q) : Est slots' (s.ths.set t th') Q := by
  have htl : t < s.ths.length := by
    rcases Nat.lt_or_ge t s.ths.length with h | h
    · exact h
    · have : s.ths[t]? = none := by simp; omega
      rw [this] at hth; simp at hth
  intro a b hab
  rcases E a b hab with h | ⟨t0, th0, h0, p0, e0⟩
  · exact Or.inl (hmono a (adj_mem hab).1 h)
  · by_cases e : t0 = t
    · subst e
      rw [hth] at h0
      have : th = th0 := by simpa using h0
      subst this
      rcases hkeep p0 with ⟨p', e'⟩ | h
      · exact Or.inr ⟨t0, th', by simp [htl], p', e'.trans e0⟩
      · exact Or.inl (e0 ▸ h)
    · exact Or.inr ⟨t0, th0, by rw [List.getElem?_set]; simp [Ne.symm e, h0], p0, e0⟩

theorem boundary_flags {th : Th} (h : Boundary th) : resv th = false ∧ linking th = false ∧ ¬ Pend th := by
  unfold Boundary at h
  unfold resv linking Pend
  rcases h with h | h | h <;> simp [h]

theorem qsize {s : State} {Q : List Nat} {t : Nat} {th : Th} (hth : s.ths[t]? = some th)
    (hs : s.size + (s.ths.countP resv : Int) + (s.ths.countP linking : Int) = (Q.length : Int))
    (th' : Th) (sz' : Int) (len' : Nat)
    (h : sz' + b2i (resv th') + b2i (linking th') - (len' : Int) = s.size + b2i (resv th) + b2i (linking th) - (Q.length : Int)) :
    sz' + ((s.ths.set t th').countP resv : Int) + ((s.ths.set t th').countP linking : Int) = (len' : Int) := by
  have cr := countP_set_add resv s.ths t th th' hth
  have cl := countP_set_add linking s.ths t th th' hth
  omega

theorem step_qinv (n : Nat) (s : State) (Q : List Nat) (t : Nat) (I : CInv n s Q) (J : QInv s Q)
    (_ha : (step s t).1.aba = false) : QInv (step s t).1 (nextQ s t Q) := by
  unfold step
  unfold nextQ
  cases hth : s.ths[t]? with
  | none => exact J
  | some th =>
    have T := I.ti t th hth
    have sameSlots : ∀ a, a ∈ Q → (gs s.slots a).hasNext = true → (gs s.slots a).hasNext = true := fun _ _ h => h
    have np : th.pc ≠ .uLink0 → th.pc ≠ .uLink1 → ∀ th' : Th, Pend th → (Pend th' ∧ th'.ot = th.ot) ∨ (gs s.slots th.ot).hasNext = true := by
      intro h0 h1 _ p; rcases p with p | p
      · exact absurd p h0
      · exact absurd p h1
    have modOwned : ∀ (x : Nat) (f : Slot → Slot), x ∈ ownedC th →
        ∀ a, a ∈ Q → (gs s.slots a).hasNext = true → (gs (s.slots.modify x f) a).hasNext = true := by
      intro x f hx a ha h
      have : a ≠ x := fun e => (I.owned_not_mem hth hx).1 (e ▸ ha)
      rw [gs_modify_ne _ _ _ _ this]; exact h
    cases hpc : th.pc with
    | idle =>
      simp only [stepTh, hpc]
      exact ⟨qsize hth J.size _ _ _ (by simp [b2i, resv, linking, hpc]), est_frame hth sameSlots (np (by simp [hpc]) (by simp [hpc]) _) J.est⟩
    | pLdHead =>
      simp only [stepTh, hpc]
      exact ⟨qsize hth J.size _ _ _ (by simp [b2i, resv, linking, hpc]), est_frame hth sameSlots (np (by simp [hpc]) (by simp [hpc]) _) J.est⟩
    | pDec =>
      by_cases hc : s.size - 1 ≤ 0
      · simp only [stepTh, hpc, hc, if_true]
        exact ⟨qsize hth J.size _ _ _ (by simp [b2i, resv, linking, hpc] <;> omega), est_frame hth sameSlots (np (by simp [hpc]) (by simp [hpc]) _) J.est⟩
      · simp only [stepTh, hpc, hc, if_false]
        exact ⟨qsize hth J.size _ _ _ (by simp [b2i, resv, linking, hpc] <;> omega), est_frame hth sameSlots (np (by simp [hpc]) (by simp [hpc]) _) J.est⟩
    | pIncFail =>
      simp only [stepTh, hpc]
      have bf := boundary_flags (finishOp_spec th .nomore).1
      exact ⟨qsize hth J.size _ _ _ (by rw [bf.1, bf.2.1]; simp [b2i, resv, linking, hpc] <;> omega), est_frame hth sameSlots (np (by simp [hpc]) (by simp [hpc]) _) J.est⟩
    | pHasNext =>
      by_cases hc : (getSlot s th.oldHead).hasNext = true
      · simp only [stepTh, hpc, hc, if_true]
        exact ⟨qsize hth J.size _ _ _ (by simp [b2i, resv, linking, hpc]), est_frame hth sameSlots (np (by simp [hpc]) (by simp [hpc]) _) J.est⟩
      · simp only [stepTh, hpc, hc]
        exact ⟨qsize hth J.size _ _ _ (by simp [b2i, resv, linking, hpc]), est_frame hth sameSlots (np (by simp [hpc]) (by simp [hpc]) _) J.est⟩
    | pNext =>
      simp only [stepTh, hpc]
      exact ⟨qsize hth J.size _ _ _ (by simp [b2i, resv, linking, hpc]), est_frame hth sameSlots (np (by simp [hpc]) (by simp [hpc]) _) J.est⟩
    | pCas =>
      by_cases hc : s.head = th.oldHead
      · simp only [stepTh, hpc, hc, if_true]
        have hQne : Q ≠ [] := by intro e; have := I.head; rw [e] at this; simp at this
        have hlen : (Q.tail.length : Int) = (Q.length : Int) - 1 := by
          cases Q with
          | nil => exact absurd rfl hQne
          | cons a r => simp
        refine ⟨qsize hth J.size _ _ _ (by simp [b2i, resv, linking, hpc] <;> omega), ?_⟩
        have E1 := est_frame (th' := { th with pc := .pClear }) hth sameSlots (np (by simp [hpc]) (by simp [hpc]) _) J.est
        intro a b hab
        apply E1 a b
        cases Q with
        | nil => exact absurd rfl hQne
        | cons x r => exact adj_cons hab
      · simp only [stepTh, hpc, hc, if_false]
        exact ⟨qsize hth J.size _ _ _ (by simp [b2i, resv, linking, hpc]), est_frame hth sameSlots (np (by simp [hpc]) (by simp [hpc]) _) J.est⟩
    | pClear =>
      simp only [stepTh, hpc, clearFlag]
      exact ⟨qsize hth J.size _ _ _ (by simp [b2i, resv, linking, hpc]),
        est_frame hth (modOwned _ _ (by simp [ownedC, transit, hpc])) (fun p => by simp [Pend, hpc] at p) J.est⟩
    | pSetUsed =>
      simp only [stepTh, hpc, setInUsed]
      exact ⟨qsize hth J.size _ _ _ (by simp [b2i, resv, linking, hpc]),
        est_frame hth (modOwned _ _ (by simp [ownedC, transit, hpc])) (fun p => by simp [Pend, hpc] at p) J.est⟩
    | pCnt =>
      simp only [stepTh, hpc]
      have bf := boundary_flags (finishOp_spec { th with pc := .pCnt, held := th.held ++ [th.oldHead] } (.got th.oldHead)).1
      exact ⟨qsize hth J.size _ _ _ (by rw [bf.1, bf.2.1]; simp [b2i, resv, linking, hpc] <;> omega), est_frame hth sameSlots (np (by simp [hpc]) (by simp [hpc]) _) J.est⟩
    | pPlainSize =>
      by_cases hc : s.size ≤ 1
      · simp only [stepTh, hpc, hc, if_true]
        exact ⟨qsize hth J.size _ _ _ (by simp [b2i, resv, linking, hpc]), est_frame hth sameSlots (np (by simp [hpc]) (by simp [hpc]) _) J.est⟩
      · simp only [stepTh, hpc, hc, if_false]
        exact ⟨qsize hth J.size _ _ _ (by simp [b2i, resv, linking, hpc]), est_frame hth sameSlots (np (by simp [hpc]) (by simp [hpc]) _) J.est⟩
    | pReload =>
      by_cases hc : th.retry + 1 < retryBound
      · simp only [stepTh, hpc, hc, if_true]
        exact ⟨qsize hth J.size _ _ _ (by simp [b2i, resv, linking, hpc]), est_frame hth sameSlots (np (by simp [hpc]) (by simp [hpc]) _) J.est⟩
      · simp only [stepTh, hpc, hc, if_false]
        exact ⟨qsize hth J.size _ _ _ (by simp [b2i, resv, linking, hpc]), est_frame hth sameSlots (np (by simp [hpc]) (by simp [hpc]) _) J.est⟩
    | uReset =>
      simp only [stepTh, hpc, clearFlag]
      exact ⟨qsize hth J.size _ _ _ (by simp [b2i, resv, linking, hpc]),
        est_frame hth (modOwned _ _ (by simp [ownedC, transit, hpc])) (fun p => by simp [Pend, hpc] at p) J.est⟩
    | uLdTail =>
      simp only [stepTh, hpc]
      exact ⟨qsize hth J.size _ _ _ (by simp [b2i, resv, linking, hpc]), est_frame hth sameSlots (np (by simp [hpc]) (by simp [hpc]) _) J.est⟩
    | uCas =>
      by_cases hc : s.tail = th.ot
      · simp only [stepTh, hpc, hc, if_true]
        have htl : t < s.ths.length := by
          rcases Nat.lt_or_ge t s.ths.length with h | h
          · exact h
          · have : s.ths[t]? = none := by simp; omega
            rw [this] at hth; simp at hth
        refine ⟨qsize hth J.size _ _ _ (by simp [b2i, resv, linking, hpc] <;> omega), ?_⟩
        have E1 := est_frame (th' := { th with pc := .uLink0 }) hth sameSlots (np (by simp [hpc]) (by simp [hpc]) _) J.est
        intro a b hab
        rcases adj_of_snoc hab with h1 | ⟨h1, _⟩
        · exact E1 a b h1
        · right
          refine ⟨t, { th with pc := .uLink0 }, by simp [htl], Or.inl rfl, ?_⟩
          have := I.last; rw [h1] at this
          simp at this; rw [this, hc]
      · simp only [stepTh, hpc, hc, if_false]
        exact ⟨qsize hth J.size _ _ _ (by simp [b2i, resv, linking, hpc]), est_frame hth sameSlots (np (by simp [hpc]) (by simp [hpc]) _) J.est⟩
    | uLink0 =>
      simp only [stepTh, hpc, setNext]
      refine ⟨qsize hth J.size _ _ _ (by simp [b2i, resv, linking, hpc]), est_frame hth ?_ (fun _ => Or.inl ⟨Or.inr rfl, rfl⟩) J.est⟩
      intro a _ h
      rw [gs_modify]; split
      · rename_i e; rw [← e.1] at h ⊢; exact h
      · exact h
    | uLink1 =>
      simp only [stepTh, hpc, setHasNext]
      have P := T.pend (Or.inr hpc)
      have hotn : th.ot < s.slots.length := by rw [I.len]; exact I.mem_lt (adj_mem P.1).1
      refine ⟨qsize hth J.size _ _ _ (by simp [b2i, resv, linking, hpc]), est_frame hth ?_ (fun _ => Or.inr ?_) J.est⟩
      · intro a _ h
        rw [gs_modify]; split
        · rfl
        · exact h
      · rw [gs_modify_self _ _ _ hotn]
    | uIncSize =>
      simp only [stepTh, hpc]
      exact ⟨qsize hth J.size _ _ _ (by simp [b2i, resv, linking, hpc] <;> omega), est_frame hth sameSlots (np (by simp [hpc]) (by simp [hpc]) _) J.est⟩
    | uDecCnt =>
      simp only [stepTh, hpc]
      have bf := boundary_flags (finishOp_spec th (.pushed th.o)).1
      exact ⟨qsize hth J.size _ _ _ (by rw [bf.1, bf.2.1]; simp [b2i, resv, linking, hpc] <;> omega), est_frame hth sameSlots (np (by simp [hpc]) (by simp [hpc]) _) J.est⟩

theorem qinv_init (n : Nat) (hn : 0 < n) (progs : List (List Op)) :
    QInv (prime (init n progs)) (List.range' 0 n) := by
  have R := rep_init n hn progs
  have hb : ∀ th ∈ (prime (init n progs)).ths, Boundary th := by
    intro th hm
    simp only [prime, init, List.map_map, List.mem_map] at hm
    obtain ⟨p, _, rfl⟩ := hm
    exact (startNextAux_spec p { prog := p }).1
  have h1 : (prime (init n progs)).ths.countP resv = 0 := by
    rw [List.countP_eq_zero]; intro th hm; simp [(boundary_flags (hb th hm)).1]
  have h2 : (prime (init n progs)).ths.countP linking = 0 := by
    rw [List.countP_eq_zero]; intro th hm; simp [(boundary_flags (hb th hm)).2.1]
  refine ⟨?_, ?_⟩
  · rw [h1, h2]; simp [prime, init]
  · intro a b hab
    exact Or.inl (chain_link R.chain hab).1

theorem run_cq (n : Nat) (sched : List Nat) : ∀ (s : State) (Q : List Nat), CInv n s Q → QInv s Q → (run s sched).aba = false →
    ∃ Q', CInv n (run s sched) Q' ∧ QInv (run s sched) Q' := by
  induction sched with
  | nil => intro s Q I J _; exact ⟨Q, I, J⟩
  | cons t r ih =>
    intro s Q I J ha
    simp only [run, List.foldl_cons] at ha ⊢
    have h1 : (step s t).1.aba = false := by
      cases h : (step s t).1.aba with
      | false => rfl
      | true =>
        have := aba_run_mono r _ h
        simp only [run] at this
        rw [this] at ha; simp at ha
    exact ih _ _ (step_cinv_nq n s Q t I h1) (step_qinv n s Q t I J h1) ha

theorem chain_of_links {sl : List Slot} : ∀ {Q : List Nat} {t : Nat}, Q.getLast? = some t →
    (∀ a b, Adj Q a b → (gs sl a).hasNext = true ∧ (gs sl a).next = b) → (gs sl t).hasNext = false → Chain sl Q
  | [], t, h, _, _ => by simp at h
  | [a], t, h, _, ht => by
    simp at h; subst h; exact ht
  | a :: b :: r, t, h, hl, ht => by
    rw [List.getLast?_cons_cons] at h
    have h0 := hl a b (by simp [Adj])
    exact ⟨h0.1, h0.2, chain_of_links h (fun x y hxy => hl x y (adj_cons hxy)) ht⟩

/-- quiescence: nobody is inside pop or push -/
def Quiet (s : State) : Prop := ∀ th ∈ s.ths, th.pc = .idle

theorem quiet_chain {n : Nat} {s : State} {Q : List Nat} (I : CInv n s Q) (J : QInv s Q) (hq : Quiet s) :
    Chain s.slots Q ∧ s.size = (Q.length : Int) ∧ (Q ++ s.ths.flatMap (·.held)).Perm (List.range n) := by
  have noPend : ∀ (t0 : Nat) (th0 : Th), s.ths[t0]? = some th0 → ¬ Pend th0 := by
    intro t0 th0 h p
    have := hq th0 (List.mem_of_getElem? h)
    unfold Pend at p; rw [this] at p; simp at p
  refine ⟨?_, ?_, ?_⟩
  · apply chain_of_links I.last _ I.tl
    intro a b hab
    rcases J.est a b hab with h | ⟨t0, th0, h0, p0, _⟩
    · exact ⟨h, I.link a b hab h⟩
    · exact absurd p0 (noPend t0 th0 h0)
  · have h1 : s.ths.countP resv = 0 := by
      rw [List.countP_eq_zero]; intro th hm; simp [resv, hq th hm]
    have h2 : s.ths.countP linking = 0 := by
      rw [List.countP_eq_zero]; intro th hm; simp [linking, hq th hm]
    have := J.size
    rw [h1, h2] at this
    simpa using this
  · have e : ∀ (l : List Th), (∀ th ∈ l, th.pc = .idle) → l.flatMap ownedC = l.flatMap (·.held) := by
      intro l
      induction l with
      | nil => intro _; rfl
      | cons x r ih =>
        intro h
        simp only [List.flatMap_cons]
        rw [ih (fun th hm => h th (List.mem_cons_of_mem _ hm))]
        simp [ownedC, transit, h x List.mem_cons_self]
    rw [← e s.ths hq]; exact I.partition

end FreeListC
