import ShmVerif.Proof.SlotSys
import ShmVerif.Proof.LBReadMore
/-!
  The stream pair as two byte queues: every operation of either end, in any order, any number of messages in flight in
  both directions, both transports - the bytes a reader call returns are the next bytes the peer flushed.
-/
namespace LB
open List

/-! ### content under foreign writes -/

theorem unread_untouched {m m' : Mem} {s : BS} (h : ∀ i, s.slot = some i → (m'.slot i).data = (m.slot i).data) :
    s.unread m' = s.unread m := by
  unfold BS.unread; rw [bytes_untouched h]

theorem content_untouched {m m' : Mem} : ∀ {sl : List BS}, (∀ p ∈ heldS sl, (m'.slot p).data = (m.slot p).data) →
    content m' sl = content m sl
  | [], _ => rfl
  | s :: r, h => by
    rw [content_cons, content_cons]
    rw [unread_untouched (fun i hi => h i (by rw [heldS_cons]; exact mem_append_left _ (by simp [heldS, hi]))),
      content_untouched (fun p hp => h p (by rw [heldS_cons]; exact mem_append_right _ hp))]

theorem slicesWF_untouched {m m' : Mem} {sl : List BS} (h : ∀ p ∈ heldS sl, (m'.slot p).data = (m.slot p).data)
    (hw : SlicesWF m sl) : SlicesWF m' sl := by
  intro s hs
  have hb : s.bytes m' = s.bytes m := bytes_untouched (fun i hi => h i (mem_filterMap.mpr ⟨s, hs, hi⟩))
  have := hw s hs
  unfold BS.WF at this ⊢
  rw [hb]; exact this

theorem reSlice_untouched {m m' : Mem} (g : Geo m m') {i : Nat} (hh : (m'.slot i).hdr = (m.slot i).hdr) :
    reSlice m' i = reSlice m i := by
  unfold reSlice; rw [g.cap, hh]

/-- the bytes of the messages in flight, in arrival order -/
def wrapSlices (m : Mem) (w : Wrap) : List BS :=
  match w with
  | .shm off => (chain m.slots.length m off).map (reSlice m)
  | .fb s => [s]

def flightSlices (m : Mem) (ws : List Wrap) : List BS := ws.flatMap (wrapSlices m)
def flightBytes (m : Mem) (ws : List Wrap) : List Nat := content m (flightSlices m ws)

theorem heldS_wrapSlices (m : Mem) (w : Wrap) (hw : PendOK m w) : heldS (wrapSlices m w) = flight m [w] := by
  cases w with
  | shm off => simp [wrapSlices, flight, heldS_reSlice]
  | fb s =>
    have : s.slot = none := hw
    simp [wrapSlices, flight, heldS, this]

theorem flightSlices_cons (m : Mem) (w : Wrap) (ws : List Wrap) : flightSlices m (w :: ws) = wrapSlices m w ++ flightSlices m ws := by
  simp [flightSlices]

theorem heldS_flightSlices (m : Mem) : ∀ (ws : List Wrap), PendsOK m ws → heldS (flightSlices m ws) = flight m ws
  | [], _ => rfl
  | w :: ws, h => by
    rw [flightSlices_cons, heldS_append, heldS_wrapSlices m w (h w mem_cons_self),
      heldS_flightSlices m ws (fun w' hw' => h w' (mem_cons_of_mem _ hw'))]
    exact (flight_cons m w ws).symm

theorem content_append (m : Mem) (a b : List BS) : content m (a ++ b) = content m a ++ content m b := by
  simp [content]

/-- what is in flight is not disturbed by an operation that leaves its slots alone -/
theorem flightSlices_foreign {m m' : Mem} (g : Geo m m') : ∀ {ws : List Wrap}, PendsOK m ws →
    (∀ p ∈ flight m ws, (m'.slot p).hdr = (m.slot p).hdr) → flightSlices m' ws = flightSlices m ws
  | [], _, _ => rfl
  | w :: ws, h, hh => by
    rw [flight_cons] at hh
    rw [flightSlices_cons, flightSlices_cons,
      flightSlices_foreign g (fun w' hw' => h w' (mem_cons_of_mem _ hw')) (fun p hp => hh p (mem_append_right _ hp))]
    congr 1
    cases w with
    | fb s => rfl
    | shm off =>
      have hc : chain m'.slots.length m' off = chain m.slots.length m off := by
        rw [g.len]
        exact chain_frame g.len _ off (fun p hp => hh p (mem_append_left _ (by simpa [flight] using hp)))
      simp only [wrapSlices, hc]
      apply map_congr_left
      intro i hi
      exact reSlice_untouched g (hh i (mem_append_left _ (by simpa [flight] using hi)))

/-! ### the byte invariant -/

structure QDir where
  flushed : List Nat := []     -- flushed by the sender and not yet consumed by the reader
  composed : List Nat := []    -- written by the sender and not yet flushed
  deriving DecidableEq, Repr

/-- direction X → Y -/
structure DirOK (m : Mem) (X Y : StreamM) (q : QDir) : Prop where
  fl : content m Y.recv.sl ++ flightBytes m Y.pending = q.flushed
  co : content m X.send.sl = q.composed
  rwf : SlicesWF m Y.recv.sl
  pwf : SlicesWF m (flightSlices m Y.pending)
  rlen : Y.recv.len = (content m Y.recv.sl).length
  slen : X.send.len = (content m X.send.sl).length

structure PQ (N : Nat) (m : Mem) (X Y : StreamM) (qxy qyx : QDir) : Prop where
  pi : PI N m X Y
  xy : DirOK m X Y qxy
  yx : DirOK m Y X qyx

theorem PQ.symm {N : Nat} {m : Mem} {X Y : StreamM} {qxy qyx : QDir} (h : PQ N m X Y qxy qyx) : PQ N m Y X qyx qxy :=
  ⟨h.pi.symm, h.yx, h.xy⟩

/-- every slot is in at most one of the seven places -/
theorem PI.seven {N : Nat} {m : Mem} {X Y : StreamM} (h : PI N m X Y) (p : Nat) :
    fc m p + (heldL X.send).count p + (heldL X.recv).count p + (flight m X.pending).count p +
      (heldL Y.send).count p + (heldL Y.recv).count p + (flight m Y.pending).count p ≤ 1 := by
  have := part_le_one h p
  simp only [heldSt, count_append] at this
  omega

/-- a direction whose three places an operation leaves alone is not disturbed by it -/
theorem DirOK.foreign {m m' : Mem} {X Y : StreamM} {q : QDir} (g : Geo m m') (hp : PendsOK m Y.pending)
    (us : ∀ p ∈ heldL X.send, Untouched m m' p) (ur : ∀ p ∈ heldL Y.recv, Untouched m m' p)
    (uf : ∀ p ∈ flight m Y.pending, Untouched m m' p) (h : DirOK m X Y q) : DirOK m' X Y q := by
  have e1 : content m' Y.recv.sl = content m Y.recv.sl :=
    content_untouched (fun p hp' => (ur p (mem_append_left _ hp')).2.2)
  have e2 : flightSlices m' Y.pending = flightSlices m Y.pending :=
    flightSlices_foreign g hp (fun p hp' => (uf p hp').2.1)
  have hfl : ∀ p ∈ heldS (flightSlices m Y.pending), (m'.slot p).data = (m.slot p).data := by
    intro p hp'
    rw [heldS_flightSlices m _ hp] at hp'
    exact (uf p hp').2.2
  have e3 : content m' (flightSlices m Y.pending) = content m (flightSlices m Y.pending) := content_untouched hfl
  have e4 : content m' X.send.sl = content m X.send.sl :=
    content_untouched (fun p hp' => (us p (mem_append_left _ hp')).2.2)
  refine ⟨?_, by rw [e4]; exact h.co, slicesWF_untouched (fun p hp' => (ur p (mem_append_left _ hp')).2.2) h.rwf, ?_,
    by rw [e1]; exact h.rlen, by rw [e4]; exact h.slen⟩
  · unfold flightBytes; rw [e1, e2, e3]; exact h.fl
  · rw [e2]; exact slicesWF_untouched hfl h.pwf

variable {N : Nat}

/-- slots held outside the receive buffer of `X` are untouched by an operation of the reading kind on it -/
theorem PI.untouchedR {m m' : Mem} {X Y : StreamM} {r' : LBuf} (h : PI N m X Y) (a : AcctR m X.recv m' r') (p : Nat)
    (hp : 0 < (heldL X.send).count p + (flight m X.pending).count p + (heldL Y.send).count p + (heldL Y.recv).count p +
      (flight m Y.pending).count p) : Untouched m m' p := by
  have h7 := h.seven p
  have hf : p ∉ m.free.flatten := fc_zero.mp (by omega)
  have hr : p ∉ heldL X.recv := count_eq_zero.mp (by omega)
  exact ⟨(a.outside hf hr).1, a.hdr p hf hr, a.data p⟩

/-- ... and by a writer operation on its send buffer -/
theorem PI.untouchedW {m m' : Mem} {X Y : StreamM} {l' : LBuf} (h : PI N m X Y) (a : Acct m X.send m' l')
    (fr : Frame m X.send m' l') (p : Nat)
    (hp : 0 < (heldL X.recv).count p + (flight m X.pending).count p + (heldL Y.send).count p + (heldL Y.recv).count p +
      (flight m Y.pending).count p) : Untouched m m' p := by
  have h7 := h.seven p
  have hf : p ∉ m.free.flatten := fc_zero.mp (by omega)
  have hs : p ∉ heldL X.send := count_eq_zero.mp (by omega)
  exact ⟨(a.outside hf hs).1, a.hdr p hf hs, fr.data p (fun hx => hs (mem_append_left _ hx)) hf⟩

/-- a reader call on `X` that consumes `k` bytes (`k = 0`: Peek, ReleasePreviousRead) -/
theorem PQ.recvStep {m m' : Mem} {X Y : StreamM} {qxy qyx : QDir} {r' : LBuf} (h : PQ N m X Y qxy qyx)
    (a : AcctR m X.recv m' r') (k : Nat) (hc : content m' r'.sl = (content m X.recv.sl).drop k)
    (hk : k ≤ (content m X.recv.sl).length) (hw : SlicesWF m' r'.sl) (hl : r'.len = X.recv.len - k) :
    PQ N m' { X with recv := r' } Y qxy { qyx with flushed := qyx.flushed.drop k } := by
  have hpi := h.pi.recvStep a
  have cp {l : List Nat} {p : Nat} (hm : p ∈ l) : 0 < l.count p := count_pos_iff.mpr hm
  refine ⟨hpi, ?_, ?_⟩
  · -- X → Y : nothing of it is touched
    obtain ⟨a1, a2, a3, a4, a5, a6⟩ := h.xy.foreign (X := X) (Y := Y) a.geo h.pi.y.pend
      (fun p hp => h.pi.untouchedR a p (by have := cp hp; omega))
      (fun p hp => h.pi.untouchedR a p (by have := cp hp; omega))
      (fun p hp => h.pi.untouchedR a p (by have := cp hp; omega))
    exact ⟨a1, a2, a3, a4, a5, a6⟩
  · -- Y → X : the receive buffer lost its first k bytes
    have uf : ∀ p ∈ flight m X.pending, Untouched m m' p := fun p hp => h.pi.untouchedR a p (by have := cp hp; omega)
    have us : ∀ p ∈ heldL Y.send, Untouched m m' p := fun p hp => h.pi.untouchedR a p (by have := cp hp; omega)
    have e2 : flightSlices m' X.pending = flightSlices m X.pending :=
      flightSlices_foreign a.geo h.pi.x.pend (fun p hp' => (uf p hp').2.1)
    have hfl : ∀ p ∈ heldS (flightSlices m X.pending), (m'.slot p).data = (m.slot p).data := by
      intro p hp'
      rw [heldS_flightSlices m _ h.pi.x.pend] at hp'
      exact (uf p hp').2.2
    have e3 : content m' (flightSlices m X.pending) = content m (flightSlices m X.pending) := content_untouched hfl
    have e4 : content m' Y.send.sl = content m Y.send.sl :=
      content_untouched (fun p hp' => (us p (mem_append_left _ hp')).2.2)
    refine ⟨?_, by rw [e4]; exact h.yx.co, hw, by rw [e2]; exact slicesWF_untouched hfl h.yx.pwf, ?_, by rw [e4]; exact h.yx.slen⟩
    · show content m' r'.sl ++ flightBytes m' X.pending = qyx.flushed.drop k
      unfold flightBytes
      rw [hc, e2, e3, ← h.yx.fl, drop_append_of_le_length hk]
      rfl
    · show r'.len = (content m' r'.sl).length
      rw [hl, hc, length_drop, h.yx.rlen]

/-- a writer call on `X` that appends `d` -/
theorem PQ.sendStep {m m' : Mem} {X Y : StreamM} {qxy qyx : QDir} {l' : LBuf} (h : PQ N m X Y qxy qyx)
    (a : Acct m X.send m' l') (wf' : m'.WF) (wb : WBuf m' l') (fr : Frame m X.send m' l') (d : List Nat)
    (hc : content m' l'.sl = content m X.send.sl ++ d) (hl : l'.len = X.send.len + d.length) :
    PQ N m' { X with send := l' } Y { qxy with composed := qxy.composed ++ d } qyx := by
  have hpi := h.pi.sendStep a wf' wb fr
  have cp {l : List Nat} {p : Nat} (hm : p ∈ l) : 0 < l.count p := count_pos_iff.mpr hm
  refine ⟨hpi, ?_, ?_⟩
  · have ur : ∀ p ∈ heldL Y.recv, Untouched m m' p := fun p hp => h.pi.untouchedW a fr p (by have := cp hp; omega)
    have uf : ∀ p ∈ flight m Y.pending, Untouched m m' p := fun p hp => h.pi.untouchedW a fr p (by have := cp hp; omega)
    have e1 : content m' Y.recv.sl = content m Y.recv.sl :=
      content_untouched (fun p hp' => (ur p (mem_append_left _ hp')).2.2)
    have e2 : flightSlices m' Y.pending = flightSlices m Y.pending :=
      flightSlices_foreign a.geo h.pi.y.pend (fun p hp' => (uf p hp').2.1)
    have hfl : ∀ p ∈ heldS (flightSlices m Y.pending), (m'.slot p).data = (m.slot p).data := by
      intro p hp'
      rw [heldS_flightSlices m _ h.pi.y.pend] at hp'
      exact (uf p hp').2.2
    have e3 : content m' (flightSlices m Y.pending) = content m (flightSlices m Y.pending) := content_untouched hfl
    refine ⟨?_, ?_, slicesWF_untouched (fun p hp' => (ur p (mem_append_left _ hp')).2.2) h.xy.rwf,
      by rw [e2]; exact slicesWF_untouched hfl h.xy.pwf, by rw [e1]; exact h.xy.rlen, ?_⟩
    · unfold flightBytes; rw [e1, e2, e3]; exact h.xy.fl
    · show content m' l'.sl = qxy.composed ++ d
      rw [hc, h.xy.co]
    · show l'.len = (content m' l'.sl).length
      rw [hl, hc, length_append, h.xy.slen]
  · obtain ⟨a1, a2, a3, a4, a5, a6⟩ := h.yx.foreign (X := Y) (Y := X) a.geo h.pi.x.pend
      (fun p hp => h.pi.untouchedW a fr p (by have := cp hp; omega))
      (fun p hp => h.pi.untouchedW a fr p (by have := cp hp; omega))
      (fun p hp => h.pi.untouchedW a fr p (by have := cp hp; omega))
    exact ⟨a1, a2, a3, a4, a5, a6⟩

/-! ### readMore -/

def sizes (sl : List BS) : Nat := (sl.map (·.size)).sum

theorem sizes_append (a b : List BS) : sizes (a ++ b) = sizes a + sizes b := by simp [sizes]

theorem content_length_sizes (m : Mem) : ∀ (sl : List BS), SlicesWF m sl → (content m sl).length = sizes sl
  | [], _ => rfl
  | s :: r, h => by
    rw [content_cons, length_append, BS.unread_length m s (h s mem_cons_self),
      content_length_sizes m r (fun t ht => h t (mem_cons_of_mem _ ht))]
    simp [sizes]

theorem moveChain_len (m : Mem) : ∀ (cs : List Nat) (off : Nat) (fuel : Nat) (l : LBuf), IsChain m off cs → cs.length ≤ fuel →
    ∃ l', moveChain fuel m l off = some (m, l') ∧ l'.sl = l.sl ++ cs.map (reSlice m) ∧ l'.pinned = l.pinned ∧
      l'.len = l.len + sizes (cs.map (reSlice m))
  | [], _, _, _, h, _ => absurd h (by simp [IsChain])
  | [c], off, fuel, l, h, hf => by
    obtain ⟨k, rfl⟩ : ∃ k, fuel = k + 1 := ⟨fuel - 1, by simp at hf; omega⟩
    unfold moveChain
    rw [readSlice_eq m off h.2.1]
    simp only
    have hsz : ¬ (reSlice m off).size = 0 := by
      simp only [reSlice, BS.size]
      have := h.2.2.1; omega
    rw [if_neg hsz, h.2.2.2]
    simp only [Bool.false_eq_true, if_false]
    exact ⟨_, rfl, by rw [h.1]; rfl, rfl, by rw [h.1]; simp [LBuf.appendSlice, sizes]⟩
  | c :: d :: r, off, fuel, l, h, hf => by
    obtain ⟨k, rfl⟩ : ∃ k, fuel = k + 1 := ⟨fuel - 1, by simp at hf; omega⟩
    unfold moveChain
    rw [readSlice_eq m off h.2.1]
    simp only
    have hsz : ¬ (reSlice m off).size = 0 := by
      simp only [reSlice, BS.size]
      have := h.2.2.1; omega
    rw [if_neg hsz, h.2.2.2.1, h.2.2.2.2.1]
    simp only [if_true]
    obtain ⟨l', e, h1, h2, h3⟩ := moveChain_len m (d :: r) d k (l.appendSlice (reSlice m off)) h.2.2.2.2.2 (by simp at hf ⊢; omega)
    refine ⟨l', e, ?_, by rw [h2]; rfl, ?_⟩
    · rw [h1, h.1]
      simp [LBuf.appendSlice]
    · rw [h3, h.1]
      simp only [LBuf.appendSlice, map_cons, sizes, sum_cons]
      omega

theorem mv_fold_sl (m : Mem) : ∀ (ws : List Wrap) (st : StreamM), PendsOK m ws →
    (∀ off, Wrap.shm off ∈ ws → (chain m.slots.length m off).length ≤ m.slots.length + 2) →
    ∃ st', ws.foldl mvStep (some (m, st)) = some (m, st') ∧ st'.send = st.send ∧ st'.pending = st.pending ∧
      st'.recv.pinned = st.recv.pinned ∧ st'.recv.sl = st.recv.sl ++ flightSlices m ws ∧
      st'.recv.len = st.recv.len + sizes (flightSlices m ws)
  | [], st, _, _ => ⟨st, rfl, rfl, rfl, rfl, by simp [flightSlices], by simp [flightSlices, sizes]⟩
  | w :: ws, st, hp, hl => by
    rw [foldl_cons]
    have hw := hp w mem_cons_self
    cases w with
    | fb s =>
      obtain ⟨st', e, h1, h2, h3, h4, h5⟩ := mv_fold_sl m ws { st with recv := st.recv.appendSlice s, inFallback := true }
        (fun w' hw' => hp w' (mem_cons_of_mem _ hw')) (fun off ho => hl off (mem_cons_of_mem _ ho))
      refine ⟨st', e, h1, h2, h3, ?_, ?_⟩
      · rw [h4, flightSlices_cons]; simp [LBuf.appendSlice, wrapSlices]
      · rw [h5, flightSlices_cons, sizes_append]; simp [LBuf.appendSlice, wrapSlices, sizes]; omega
    | shm off =>
      have hc : IsChain m off (chain m.slots.length m off) := hw
      obtain ⟨r', e1, e2, e3, e4⟩ := moveChain_len m _ off (m.slots.length + 2) st.recv hc (hl off mem_cons_self)
      have estep : mvStep (some (m, st)) (.shm off) = some (m, { st with recv := r' }) := by
        simp only [mvStep, e1]
      rw [estep]
      obtain ⟨st', e, h1, h2, h3, h4, h5⟩ := mv_fold_sl m ws { st with recv := r' }
        (fun w' hw' => hp w' (mem_cons_of_mem _ hw')) (fun off ho => hl off (mem_cons_of_mem _ ho))
      refine ⟨st', e, h1, h2, by rw [h3]; exact e3, ?_, ?_⟩
      · rw [h4, flightSlices_cons]; simp [e2, wrapSlices]
      · rw [h5, flightSlices_cons, sizes_append]; simp only [e4, wrapSlices]; omega

/-- readMore on `X`: what was in flight towards it is now in its receive buffer, in the same order -/
theorem PQ.moreStep {m : Mem} {X Y : StreamM} {qxy qyx : QDir} (h : PQ N m X Y qxy qyx) :
    ∃ X', moveTo m X = some (m, X') ∧ PQ N m X' Y qxy qyx := by
  obtain ⟨X1, e1, hpi⟩ := h.pi.moreStep
  obtain ⟨st', e, h1, h2, h3, h4, h5⟩ := mv_fold_sl m X.pending X h.pi.x.pend (fun off ho => by
    have := (chain_bound h.pi off ho).2; omega)
  have eX : X1 = { st' with pending := [] } := by
    rw [moveTo_eq, e] at e1
    simp only [Option.some.injEq, Prod.mk.injEq, true_and] at e1
    exact e1.symm
  subst eX
  refine ⟨_, e1, hpi, ?_, ?_⟩
  · -- X → Y: the send buffer of X is the same
    exact ⟨h.xy.fl, by show content m st'.send.sl = _; rw [h1]; exact h.xy.co, h.xy.rwf, h.xy.pwf, h.xy.rlen,
      by show st'.send.len = (content m st'.send.sl).length; rw [h1]; exact h.xy.slen⟩
  · have hwf : SlicesWF m st'.recv.sl := by
      rw [h4]
      intro t ht
      rcases mem_append.mp ht with ht | ht
      · exact h.yx.rwf t ht
      · exact h.yx.pwf t ht
    refine ⟨?_, h.yx.co, hwf, (fun t ht => by simp [flightSlices] at ht), ?_, h.yx.slen⟩
    · show content m st'.recv.sl ++ flightBytes m [] = qyx.flushed
      rw [h4, content_append, ← h.yx.fl]
      simp [flightBytes, flightSlices, content]
    · show st'.recv.len = (content m st'.recv.sl).length
      rw [h5, h4, content_append, length_append, h.yx.rlen, content_length_sizes m _ h.yx.pwf]

/-! ### Flush -/

/-- after `done`, re-reading the headers gives slices with exactly the unread bytes of the send buffer's slices -/
theorem done_content (m m1 : Mem) (l : LBuf) (wi : Nat) (hw : m.WF) (hi : WInv m l wi) (ht : wi + 1 = l.sl.length)
    (hne : ∀ t, l.sl[wi]? = some t → t.ri < t.wi) (hf : l.fromShm = true) (D : DoneFold m l (wi + 1) m1) :
    ∀ (n j : Nat), j + n = wi + 1 →
      content m1 ((heldS (l.sl.drop j)).map (reSlice m1)) = content m (l.sl.drop j) ∧
      SlicesWF m1 ((heldS (l.sl.drop j)).map (reSlice m1)) := by
  intro n
  induction n with
  | zero =>
    intro j hj
    have : l.sl.drop j = [] := drop_eq_nil_of_le (by omega)
    rw [this]
    exact ⟨rfl, fun _ h => nomatch h⟩
  | succ n ih =>
    intro j hjn
    have hjl : j < l.sl.length := by omega
    obtain ⟨sj, hsj⟩ : ∃ s, l.sl[j]? = some s := ⟨l.sl[j], by simp [hjl]⟩
    have hmem : sj ∈ l.sl := mem_of_getElem? hsj
    obtain ⟨ij, hij⟩ : ∃ i, sj.slot = some i := by
      have := hi.shm hf sj hmem
      cases h : sj.slot with
      | none => rw [h] at this; cases this
      | some i => exact ⟨i, rfl⟩
    obtain ⟨o1, o2, o3⟩ := hi.sl.ok sj hmem
    obtain ⟨q1, q2⟩ := hi.sl.snd sj hmem
    have hbytes : sj.bytes m = (m.slot ij).data := by simp [BS.bytes, hij]
    have hhdr := D.set j sj ij (by omega) hsj hij
    have hsize : (m1.slot ij).hdr.size = sj.size ∧ (m1.slot ij).hdr.start = sj.start := by
      rw [hhdr]; unfold hdrUpd; split <;> exact ⟨rfl, rfl⟩
    have hun : (reSlice m1 ij).unread m1 = sj.unread m := by
      have e1 : (reSlice m1 ij).unread m1 = (((m1.slot ij).data).drop (m1.slot ij).hdr.start).take ((m1.slot ij).hdr.start + (m1.slot ij).hdr.size - (m1.slot ij).hdr.start) := rfl
      have e2 : sj.unread m = ((sj.bytes m).drop sj.ri).take (sj.wi - sj.ri) := rfl
      rw [e1, e2, (D.data ij).1, hsize.1, hsize.2, hbytes, ← q1]
      simp only [BS.size]; congr 1; omega
    have hwf1 : (reSlice m1 ij).WF m1 := by
      have e1 : (reSlice m1 ij).WF m1 = ((m1.slot ij).hdr.start ≤ (m1.slot ij).hdr.start + (m1.slot ij).hdr.size ∧
          (m1.slot ij).hdr.start + (m1.slot ij).hdr.size ≤ ((m1.slot ij).data).length) := rfl
      rw [e1, (D.data ij).1, hsize.1, hsize.2, ← hbytes, o3, ← q1]
      simp only [BS.size]; omega
    obtain ⟨c2, w2⟩ := ih (j + 1) (by omega)
    rw [heldS_drop_cons hsj hij, map_cons, content_cons, drop_eq_getElem_cons hjl, content_cons]
    have : l.sl[j] = sj := by rw [getElem?_eq_getElem hjl] at hsj; simpa using hsj
    rw [this, hun, c2]
    refine ⟨rfl, fun t ht' => ?_⟩
    rcases mem_cons.mp ht' with rfl | ht'
    · exact hwf1
    · exact w2 t ht'

theorem flightSlices_append (m : Mem) (a b : List Wrap) : flightSlices m (a ++ b) = flightSlices m a ++ flightSlices m b := by
  simp [flightSlices]

theorem underlying_content (m : Mem) (l : LBuf) (hb : WBuf m l) (m1 : Mem) : l.underlying m1 = content m1 l.sl := by
  rcases hb with ⟨hw, hsl⟩ | ⟨wi, hi, ht, _⟩
  · unfold LBuf.underlying; rw [hw, hsl]; rfl
  · exact underlying_eq_content m1 l wi hi.w ht

/-- the heap slice a fall-back event is delivered as -/
def fbSlice (d : List Nat) : BS := { heap := d, cap := d.length, wi := d.length }

theorem content_fbSlice (mm : Mem) (d : List Nat) : content mm [fbSlice d] = d := by
  simp [content, BS.unread, BS.bytes, BS.size, fbSlice]

theorem fbSlice_wf (mm : Mem) (d : List Nat) : (fbSlice d).WF mm := by
  simp [BS.WF, BS.bytes, fbSlice]

/-- Stream.Flush on `X`: what was composed becomes flushed (readable by `Y`), on either transport -/
theorem PQ.flushStep {m : Mem} {X Y : StreamM} {qxy qyx : QDir} (h : PQ N m X Y qxy qyx)
    (hr : (flush m X Y).2.2.2 ≠ .panic) :
    PQ N (flush m X Y).1 (flush m X Y).2.1 (flush m X Y).2.2.1
      { flushed := qxy.flushed ++ qxy.composed, composed := [] } qyx := by
  have hpi := h.pi.flushStep hr
  have cp {l : List Nat} {p : Nat} (hm : p ∈ l) : 0 < l.count p := count_pos_iff.mpr hm
  unfold flush at hr hpi ⊢
  by_cases hl : X.send.len = 0
  · simp only [hl, if_true] at hpi ⊢
    have hc0 : qxy.composed = [] := by
      have := h.xy.slen
      rw [hl] at this
      rw [← h.xy.co]; exact length_eq_zero_iff.mp this.symm
    refine ⟨hpi, ⟨by rw [hc0, append_nil]; exact h.xy.fl, by rw [h.xy.co, hc0], h.xy.rwf, h.xy.pwf, h.xy.rlen, h.xy.slen⟩, h.yx⟩
  · simp only [hl, if_false] at hr hpi ⊢
    cases hd : X.send.done m with
    | none => rw [hd] at hr; exact absurd rfl hr
    | some r =>
      obtain ⟨m1, s1⟩ := r
      rw [hd] at hr hpi
      simp only at hr hpi ⊢
      obtain ⟨rfl, hfree, hdata, hhdr⟩ := done_facts m X.send m1 s1 h.pi.x.wbuf hd
      have a0 : Acct m X.send m1 X.send := done_acct m X.send m1 X.send h.pi.shape h.pi.x.send hd
      have hcm1 : content m1 X.send.sl = content m X.send.sl := content_untouched (fun p _ => hdata p)
      by_cases hfb : (X.inFallback || !X.send.fromShm) = true
      · -- fall-back transport
        simp only [hfb, if_true] at hpi ⊢
        obtain ⟨aR, hheld⟩ := lrecycle_acct m1 X.send a0.shape a0.ok
        have at' := a0.trans aR.toAcct
        have unt : ∀ p, 0 < (heldL X.recv).count p + (flight m X.pending).count p + (heldL Y.send).count p +
            (heldL Y.recv).count p + (flight m Y.pending).count p → Untouched m (X.send.recycle m1).1 p := by
          intro p hp
          have h7 := h.pi.seven p
          have hf : p ∉ m.free.flatten := fc_zero.mp (by omega)
          have hs : p ∉ heldL X.send := count_eq_zero.mp (by omega)
          exact ⟨(at'.outside hf hs).1, at'.hdr p hf hs, by rw [aR.data, hdata]⟩
        have hy := h.xy.foreign (X := X) (Y := Y) at'.geo h.pi.y.pend
        refine ⟨hpi, ?_, ?_⟩
        · -- X → Y
          have ur : ∀ p ∈ heldL Y.recv, Untouched m (X.send.recycle m1).1 p := fun p hp => unt p (by have := cp hp; omega)
          have uf : ∀ p ∈ flight m Y.pending, Untouched m (X.send.recycle m1).1 p := fun p hp => unt p (by have := cp hp; omega)
          have e1 : content (X.send.recycle m1).1 Y.recv.sl = content m Y.recv.sl :=
            content_untouched (fun p hp' => (ur p (mem_append_left _ hp')).2.2)
          have e2 : flightSlices (X.send.recycle m1).1 Y.pending = flightSlices m Y.pending :=
            flightSlices_foreign at'.geo h.pi.y.pend (fun p hp' => (uf p hp').2.1)
          have hfl : ∀ p ∈ heldS (flightSlices m Y.pending), ((X.send.recycle m1).1.slot p).data = (m.slot p).data := by
            intro p hp'
            rw [heldS_flightSlices m _ h.pi.y.pend] at hp'
            exact (uf p hp').2.2
          have e3 : content (X.send.recycle m1).1 (flightSlices m Y.pending) = content m (flightSlices m Y.pending) :=
            content_untouched hfl
          have hdat : X.send.underlying m1 = qxy.composed := by
            rw [underlying_content m X.send h.pi.x.wbuf m1, hcm1, h.xy.co]
          refine ⟨?_, rfl, slicesWF_untouched (fun p hp' => (ur p (mem_append_left _ hp')).2.2) h.xy.rwf, ?_,
            by rw [e1]; exact h.xy.rlen, rfl⟩
          · show content (X.send.recycle m1).1 Y.recv.sl ++
                flightBytes (X.send.recycle m1).1 (Y.pending ++ [Wrap.fb (fbSlice (X.send.underlying m1))]) = _
            unfold flightBytes
            rw [flightSlices_append, content_append, e1, e2, e3]
            have : flightSlices (X.send.recycle m1).1 [Wrap.fb (fbSlice (X.send.underlying m1))] = [fbSlice (X.send.underlying m1)] := rfl
            rw [this, content_fbSlice, hdat, ← append_assoc]
            have := h.xy.fl
            unfold flightBytes at this
            rw [this]
          · show SlicesWF (X.send.recycle m1).1
                (flightSlices (X.send.recycle m1).1 (Y.pending ++ [Wrap.fb (fbSlice (X.send.underlying m1))]))
            rw [flightSlices_append, e2]
            intro t ht
            rcases mem_append.mp ht with ht | ht
            · exact slicesWF_untouched hfl h.xy.pwf t ht
            · have : t = fbSlice (X.send.underlying m1) := by
                simpa [flightSlices, wrapSlices] using ht
              subst this
              exact fbSlice_wf _ _
        · -- Y → X
          obtain ⟨a1, a2, a3, a4, a5, a6⟩ := h.yx.foreign (X := Y) (Y := X) at'.geo h.pi.x.pend
            (fun p hp => unt p (by have := cp hp; omega))
            (fun p hp => unt p (by have := cp hp; omega))
            (fun p hp => unt p (by have := cp hp; omega))
          exact ⟨a1, a2, a3, a4, a5, a6⟩
      · -- shared-memory transport
        simp only [hfb, Bool.false_eq_true, if_false] at hr hpi ⊢
        have hfs : X.send.fromShm = true := by
          cases h1 : X.send.fromShm with
          | true => rfl
          | false => simp [h1] at hfb
        cases hh : X.send.sl.head? with
        | none => rw [hh] at hr; exact absurd rfl hr
        | some f =>
          rw [hh] at hr hpi
          simp only at hr hpi ⊢
          cases hsl : f.slot with
          | none => rw [hsl] at hr; exact absurd rfl hr
          | some off =>
            rw [hsl] at hpi
            simp only at hpi ⊢
            have hf0 : X.send.sl[0]? = some f := by rw [← head?_eq_getElem?]; exact hh
            rcases h.pi.x.wbuf with ⟨_, hnil⟩ | ⟨wi, hi, ht, hne⟩
            · rw [hnil] at hh; cases hh
            · obtain ⟨m1', hd', D⟩ := done_spec m X.send wi hi ht hfs
              rw [hd] at hd'
              simp only [Option.some.injEq, Prod.mk.injEq] at hd'
              obtain ⟨rfl, _⟩ := hd'
              have IC := done_isChain m m1 X.send wi hi ht hne hfs D (wi + 1) 0 f off (by omega) (by omega) hf0 hsl
              rw [drop_zero] at IC
              have hlen : (heldS X.send.sl).length ≤ m1.slots.length := by
                rw [D.slen]
                exact Pigeon.length_le m.slots.length _ hi.sl.nodup hi.sl.lt
              have hch : chain m1.slots.length m1 off = heldS X.send.sl := chain_of_isChain _ IC hlen
              obtain ⟨dc, dw⟩ := done_content m m1 X.send wi h.pi.wf hi ht hne hfs D (wi + 1) 0 (by omega)
              rw [drop_zero] at dc dw
              have unt : ∀ p, 0 < (heldL X.recv).count p + (flight m X.pending).count p + (heldL Y.send).count p +
                  (heldL Y.recv).count p + (flight m Y.pending).count p → Untouched m m1 p := by
                intro p hp
                have h7 := h.pi.seven p
                have hf : p ∉ m.free.flatten := fc_zero.mp (by omega)
                have hs : p ∉ heldL X.send := count_eq_zero.mp (by omega)
                exact ⟨by rw [hfree]; exact hf, hhdr p (fun hx => hs (mem_append_left _ hx)), hdata p⟩
              refine ⟨hpi, ?_, ?_⟩
              · have ur : ∀ p ∈ heldL Y.recv, Untouched m m1 p := fun p hp => unt p (by have := cp hp; omega)
                have uf : ∀ p ∈ flight m Y.pending, Untouched m m1 p := fun p hp => unt p (by have := cp hp; omega)
                have e1 : content m1 Y.recv.sl = content m Y.recv.sl :=
                  content_untouched (fun p hp' => (ur p (mem_append_left _ hp')).2.2)
                have e2 : flightSlices m1 Y.pending = flightSlices m Y.pending :=
                  flightSlices_foreign a0.geo h.pi.y.pend (fun p hp' => (uf p hp').2.1)
                have hfl : ∀ p ∈ heldS (flightSlices m Y.pending), (m1.slot p).data = (m.slot p).data := by
                  intro p hp'
                  rw [heldS_flightSlices m _ h.pi.y.pend] at hp'
                  exact (uf p hp').2.2
                have e3 : content m1 (flightSlices m Y.pending) = content m (flightSlices m Y.pending) := content_untouched hfl
                have enew : flightSlices m1 [Wrap.shm off] = (heldS X.send.sl).map (reSlice m1) := by
                  simp [flightSlices, wrapSlices, hch]
                refine ⟨?_, rfl, slicesWF_untouched (fun p hp' => (ur p (mem_append_left _ hp')).2.2) h.xy.rwf, ?_,
                  by rw [e1]; exact h.xy.rlen, rfl⟩
                · show content m1 Y.recv.sl ++ flightBytes m1 (Y.pending ++ [Wrap.shm off]) = _
                  unfold flightBytes
                  rw [flightSlices_append, content_append, e1, e2, e3, enew, dc, h.xy.co, ← append_assoc]
                  have := h.xy.fl
                  unfold flightBytes at this
                  rw [this]
                · show SlicesWF m1 (flightSlices m1 (Y.pending ++ [Wrap.shm off]))
                  rw [flightSlices_append, e2, enew]
                  intro t ht'
                  rcases mem_append.mp ht' with ht' | ht'
                  · exact slicesWF_untouched hfl h.xy.pwf t ht'
                  · exact dw t ht'
              · obtain ⟨a1, a2, a3, a4, a5, a6⟩ := h.yx.foreign (X := Y) (Y := X) a0.geo h.pi.x.pend
                  (fun p hp => unt p (by have := cp hp; omega))
                  (fun p hp => unt p (by have := cp hp; omega))
                  (fun p hp => unt p (by have := cp hp; omega))
                exact ⟨a1, a2, a3, a4, a5, a6⟩

theorem Untouched.trans {m m1 m2 : Mem} {p : Nat} (a : Untouched m m1 p) (b : Untouched m1 m2 p) : Untouched m m2 p :=
  ⟨b.1, b.2.1.trans a.2.1, b.2.2.trans a.2.2⟩

theorem untouched_refl_of_held {m : Mem} {X Y : StreamM} (h : PI N m X Y) (p : Nat) (hp : p ∈ heldSt m Y) : Untouched m m p := by
  have h1 := part_le_one h p
  have c1 : 0 < (heldSt m Y).count p := count_pos_iff.mpr hp
  exact ⟨fc_zero.mp (by omega), rfl, rfl⟩

/-- pendingData.clear leaves the other end alone -/
theorem clear_untouched {Y : StreamM} : ∀ (ws : List Wrap) (m : Mem) (X : StreamM), PI N m X Y → X.pending = ws →
    Geo m (clearPending m ws) ∧ ∀ p ∈ heldSt m Y, Untouched m (clearPending m ws) p
  | [], m, X, h, _ => ⟨Geo.refl m, fun p hp => untouched_refl_of_held h p hp⟩
  | w :: ws, m, X, h, hp => by
    have h1 := h.dropPending hp
    have step : Geo m (clear1 m w) ∧ ∀ p ∈ heldSt m Y, Untouched m (clear1 m w) p := by
      cases w with
      | fb s => exact ⟨Geo.refl m, fun p hp' => untouched_refl_of_held h p hp'⟩
      | shm off =>
        have hw : Wrap.shm off ∈ X.pending := by rw [hp]; exact mem_cons_self
        have hc : IsChain m off (chain m.slots.length m off) := h.x.pend _ hw
        obtain ⟨hn, hl⟩ := chain_bound h off hw
        obtain ⟨g, _, c, hh, hd, _⟩ := recycleChain_acct _ m off m.slots.length h.shape hc hn hl
        refine ⟨g, fun p hp' => ?_⟩
        have h7 := h.seven p
        have c1 : 0 < (heldSt m Y).count p := count_pos_iff.mpr hp'
        have e1 : (heldSt m Y).count p = (heldL Y.send).count p + (heldL Y.recv).count p + (flight m Y.pending).count p := by
          simp only [heldSt, count_append]
        have c2 := count_chain_le_flight m p off X.pending hw
        have hnot : p ∉ chain m.slots.length m off := count_eq_zero.mp (by omega)
        refine ⟨fc_zero.mp ?_, hh p hnot, hd p⟩
        show fc (m.recycleChain m.slots.length off) p = 0
        rw [c, count_eq_zero.mpr hnot]; omega
    obtain ⟨g1, u1⟩ := step
    have ey1 : heldSt (clear1 m w) Y = heldSt m Y := (h.y.foreign g1 u1).2
    obtain ⟨g2, u2⟩ := clear_untouched ws (clear1 m w) { X with pending := ws } h1 rfl
    have e : clearPending m (w :: ws) = clearPending (clear1 m w) ws := by unfold clearPending; rw [foldl_cons]
    rw [e]
    exact ⟨g1.trans g2, fun p hp' => (u1 p hp').trans (u2 p (by rw [ey1]; exact hp'))⟩

/-- Stream.clean (Close) of `X` leaves everything `Y` holds alone -/
theorem close_untouched {m : Mem} {X Y : StreamM} (h : PI N m X Y) :
    Geo m (closeStream m X) ∧ ∀ p ∈ heldSt m Y, Untouched m (closeStream m X) p := by
  obtain ⟨g1, u1⟩ := clear_untouched X.pending m X h rfl
  have h1 := PI.clearStep X.pending m X h rfl
  have ey1 : heldSt (clearPending m X.pending) Y = heldSt m Y := (h.y.foreign g1 u1).2
  obtain ⟨a2, _⟩ := lrecycle_acct (clearPending m X.pending) X.recv h1.shape h1.x.recv
  have h2 := h1.recvStep a2
  have u2 : ∀ p ∈ heldSt (clearPending m X.pending) Y, Untouched (clearPending m X.pending) (X.recv.recycle (clearPending m X.pending)).1 p := by
    intro p hp
    have c1 : 0 < (heldSt (clearPending m X.pending) Y).count p := count_pos_iff.mpr hp
    have e1 : (heldSt (clearPending m X.pending) Y).count p = (heldL Y.send).count p + (heldL Y.recv).count p +
        (flight (clearPending m X.pending) Y.pending).count p := by simp only [heldSt, count_append]
    exact h1.untouchedR a2 p (by omega)
  have ey2 : heldSt (X.recv.recycle (clearPending m X.pending)).1 Y = heldSt (clearPending m X.pending) Y :=
    (h1.y.foreign a2.geo u2).2
  obtain ⟨a3, _⟩ := lrecycle_acct (X.recv.recycle (clearPending m X.pending)).1 X.send h2.shape h2.x.send
  have u3 : ∀ p ∈ heldSt (X.recv.recycle (clearPending m X.pending)).1 Y,
      Untouched (X.recv.recycle (clearPending m X.pending)).1 (X.send.recycle (X.recv.recycle (clearPending m X.pending)).1).1 p := by
    intro p hp
    have h7 := h2.seven p
    dsimp only at h7
    have c1 : 0 < (heldSt (X.recv.recycle (clearPending m X.pending)).1 Y).count p := count_pos_iff.mpr hp
    have e1 : (heldSt (X.recv.recycle (clearPending m X.pending)).1 Y).count p = (heldL Y.send).count p + (heldL Y.recv).count p +
        (flight (X.recv.recycle (clearPending m X.pending)).1 Y.pending).count p := by simp only [heldSt, count_append]
    have hf : p ∉ (X.recv.recycle (clearPending m X.pending)).1.free.flatten := fc_zero.mp (by omega)
    have hs : p ∉ heldL X.send := count_eq_zero.mp (by omega)
    exact ⟨(a3.outside hf hs).1, a3.hdr p hf hs, a3.data p⟩
  refine ⟨(g1.trans a2.geo).trans a3.geo, fun p hp => ?_⟩
  have hp1 : p ∈ heldSt (clearPending m X.pending) Y := by rw [ey1]; exact hp
  have hp2 : p ∈ heldSt (X.recv.recycle (clearPending m X.pending)).1 Y := by rw [ey2]; exact hp1
  exact ((u1 p hp).trans (u2 p hp1)).trans (u3 p hp2)

/-- Stream.clean (Close) of `X`: its own three buffers are emptied - what was flushed towards it and what it had composed is
    gone - and the other direction keeps what was flushed -/
theorem PQ.closeStep {m : Mem} {X Y : StreamM} {qxy qyx : QDir} (fb : Bool) (h : PQ N m X Y qxy qyx) :
    PQ N (closeStream m X) { inFallback := fb } Y { qxy with composed := [] } { qyx with flushed := [] } := by
  have hpi := h.pi.closeStep fb
  obtain ⟨g, u⟩ := close_untouched h.pi
  have mem3 : ∀ p, (p ∈ heldL Y.send ∨ p ∈ heldL Y.recv ∨ p ∈ flight m Y.pending) → p ∈ heldSt m Y := by
    intro p hp
    simp only [heldSt, mem_append]
    rcases hp with hp | hp | hp
    · exact Or.inl (Or.inl hp)
    · exact Or.inl (Or.inr hp)
    · exact Or.inr hp
  have ur : ∀ p ∈ heldL Y.recv, Untouched m (closeStream m X) p := fun p hp => u p (mem3 p (Or.inr (Or.inl hp)))
  have uf : ∀ p ∈ flight m Y.pending, Untouched m (closeStream m X) p := fun p hp => u p (mem3 p (Or.inr (Or.inr hp)))
  have us : ∀ p ∈ heldL Y.send, Untouched m (closeStream m X) p := fun p hp => u p (mem3 p (Or.inl hp))
  have e1 : content (closeStream m X) Y.recv.sl = content m Y.recv.sl :=
    content_untouched (fun p hp' => (ur p (mem_append_left _ hp')).2.2)
  have e2 : flightSlices (closeStream m X) Y.pending = flightSlices m Y.pending :=
    flightSlices_foreign g h.pi.y.pend (fun p hp' => (uf p hp').2.1)
  have hfl : ∀ p ∈ heldS (flightSlices m Y.pending), ((closeStream m X).slot p).data = (m.slot p).data := by
    intro p hp'
    rw [heldS_flightSlices m _ h.pi.y.pend] at hp'
    exact (uf p hp').2.2
  have e3 : content (closeStream m X) (flightSlices m Y.pending) = content m (flightSlices m Y.pending) := content_untouched hfl
  have e4 : content (closeStream m X) Y.send.sl = content m Y.send.sl :=
    content_untouched (fun p hp' => (us p (mem_append_left _ hp')).2.2)
  refine ⟨hpi, ?_, ?_⟩
  · refine ⟨?_, rfl, slicesWF_untouched (fun p hp' => (ur p (mem_append_left _ hp')).2.2) h.xy.rwf,
      by rw [e2]; exact slicesWF_untouched hfl h.xy.pwf, by rw [e1]; exact h.xy.rlen, rfl⟩
    unfold flightBytes; rw [e1, e2, e3]; exact h.xy.fl
  · exact ⟨rfl, by rw [e4]; exact h.yx.co, (fun _ hh => nomatch hh), (fun _ hh => nomatch hh), rfl, by rw [e4]; exact h.yx.slen⟩

theorem content_recycles (sl : List BS) : ∀ (m : Mem) (l : List BS), content (sl.foldl (fun m s => m.recycle s) m) l = content m l := by
  induction sl with
  | nil => intro m l; rfl
  | cons a r ih => intro m l; rw [foldl_cons, ih, content_recycle]

theorem slicesWF_recycles (sl : List BS) : ∀ (m : Mem) (l : List BS), SlicesWF m l → SlicesWF (sl.foldl (fun m s => m.recycle s) m) l := by
  induction sl with
  | nil => intro m l h; exact h
  | cons a r ih => intro m l h; rw [foldl_cons]; exact ih _ _ (slicesWF_recycle m a l h)

theorem cleanPinned_content (m : Mem) (l : LBuf) :
    (l.cleanPinned m).2.sl = l.sl ∧ (l.cleanPinned m).2.len = l.len ∧
    (∀ k, content (l.cleanPinned m).1 k = content m k) ∧ (∀ k, SlicesWF m k → SlicesWF (l.cleanPinned m).1 k) := by
  unfold LBuf.cleanPinned
  split
  · exact ⟨rfl, rfl, fun _ => rfl, fun _ h => h⟩
  · exact ⟨rfl, rfl, fun k => content_recycles _ _ k, fun k h => slicesWF_recycles _ _ k h⟩

/-- ReleasePreviousRead consumes nothing -/
theorem release_content (m : Mem) (l : LBuf) (hwf : SlicesWF m l.sl) :
    content (l.release m).1 (l.release m).2.sl = content m l.sl ∧ SlicesWF (l.release m).1 (l.release m).2.sl ∧
    (l.release m).2.len = l.len := by
  unfold LBuf.release
  obtain ⟨h1, h2, h3, h4⟩ := cleanPinned_content m l
  rcases hc : l.cleanPinned m with ⟨m1, l1⟩
  rw [hc] at h1 h2 h3 h4
  simp only at h1 h2 h3 h4 ⊢
  have hwf1 : SlicesWF m1 l1.sl := by rw [h1]; exact h4 _ hwf
  cases hsl : l1.sl with
  | nil =>
    simp only
    exact ⟨by rw [hsl, ← h1, hsl, h3], (by rw [hsl]; exact (fun _ h => nomatch h)), h2⟩
  | cons f r =>
    simp only
    rw [hsl] at hwf1
    split
    · rename_i hz
      refine ⟨?_, ?_, h2⟩
      · show content (m1.recycle f) r = content m l.sl
        rw [content_recycle, ← h1, hsl, ← h3 (f :: r), content_cons]
        have : f.unread m1 = [] := by simp [BS.unread, hz.1]
        rw [this, nil_append]
      · show SlicesWF (m1.recycle f) r
        exact slicesWF_recycle m1 f r (fun t ht => hwf1 t (mem_cons_of_mem _ ht))
    · exact ⟨by rw [hsl, ← h1, hsl, h3], by rw [hsl]; exact hwf1, h2⟩

/-! ### the specification: two byte queues, and the refinement -/

structure QSys where
  ab : QDir := {}      -- a → b
  ba : QDir := {}      -- b → a
  deriving DecidableEq, Repr

/-- the queue whose sender is end `x` -/
def QSys.dir (q : QSys) (x : Bool) : QDir := if x then q.ba else q.ab
def QSys.set (q : QSys) (x : Bool) (z : QDir) : QSys := if x then { q with ba := z } else { q with ab := z }

theorem QSys.set_other_self (q : QSys) (x : Bool) (z : QDir) : (q.set x z).set (!x) (q.dir (!x)) = q.set x z := by
  cases x <;> rfl

theorem QSys.set_self_other (q : QSys) (x : Bool) (z : QDir) : (q.set x (q.dir x)).set (!x) z = q.set (!x) z := by
  cases x <;> rfl

theorem QSys.set_both_self (q : QSys) (x : Bool) : (q.set x (q.dir x)).set (!x) (q.dir (!x)) = q := by
  cases x <;> rfl

/-- what each operation means for the two queues, and what it returns -/
def qstep (q : QSys) : POp → QSys × List Nat
  | .write x d => (q.set x { (q.dir x) with composed := (q.dir x).composed ++ d }, [])
  | .writeByte x b => (q.set x { (q.dir x) with composed := (q.dir x).composed ++ [b] }, [])
  | .flush x => (q.set x { flushed := (q.dir x).flushed ++ (q.dir x).composed, composed := [] }, [])
  | .more _ => (q, [])
  | .readBytes x n => (q.set (!x) { (q.dir (!x)) with flushed := (q.dir (!x)).flushed.drop n }, (q.dir (!x)).flushed.take n)
  | .peek x n => (q, (q.dir (!x)).flushed.take n)
  | .discard x n => (q.set (!x) { (q.dir (!x)) with flushed := (q.dir (!x)).flushed.drop n }, [])
  | .readString x n => (q.set (!x) { (q.dir (!x)) with flushed := (q.dir (!x)).flushed.drop n }, (q.dir (!x)).flushed.take n)
  | .readInto x n => (q.set (!x) { (q.dir (!x)) with flushed := (q.dir (!x)).flushed.drop n }, (q.dir (!x)).flushed.take n)
  | .readByte x => (q.set (!x) { (q.dir (!x)) with flushed := (q.dir (!x)).flushed.drop 1 }, (q.dir (!x)).flushed.take 1)
  | .release _ => (q, [])
  | .close x => ((q.set x { (q.dir x) with composed := [] }).set (!x) { (q.dir (!x)) with flushed := [] }, [])

/-- the operations this refinement covers: all of them (Read is covered for the case that all requested bytes are
    buffered - in general it returns a non-empty prefix) -/
def Covered : POp → Prop
  | _ => True

/-- what Stream.readMore guarantees before a reader call runs: the requested bytes are buffered -/
def Guard (s : PSys) : POp → Prop
  | .readBytes x n | .peek x n | .discard x n | .readString x n | .readInto x n => 0 < n ∧ n ≤ (s.get x).recv.len
  | .readByte x => 1 ≤ (s.get x).recv.len
  | _ => True

def PQS (N : Nat) (s : PSys) (q : QSys) : Prop := PQ N s.m s.a s.b q.ab q.ba

theorem PQS.side {s : PSys} {q : QSys} (h : PQS N s q) (x : Bool) :
    PQ N s.m (s.get x) (s.get (!x)) (q.dir x) (q.dir (!x)) ∧
    (∀ m' st zx zy, PQ N m' st (s.get (!x)) zx zy → PQS N (s.put x m' st) ((q.set x zx).set (!x) zy)) ∧
    ∀ m' st pr zx zy, PQ N m' st pr zx zy → PQS N ((s.put x m' st).put (!x) m' pr) ((q.set x zx).set (!x) zy) := by
  cases x with
  | false => exact ⟨h, fun _ _ _ _ h' => h', fun _ _ _ _ _ h' => h'⟩
  | true => exact ⟨PQ.symm h, fun _ _ _ _ h' => PQ.symm h', fun _ _ _ _ _ h' => PQ.symm h'⟩

/-- **A pair of streams refines two byte queues.** Every covered operation of either end keeps the invariant and returns
    exactly what the queues say. -/
theorem pq_step {s s' : PSys} {q : QSys} {op : POp} (h : PQS N s q) (hc : Covered op) (hg : Guard s op)
    (e : pstep s op = some s') : PQS N s' (qstep q op).1 ∧ pout s op = (qstep q op).2 := by
  cases op with
  | write x d =>
    obtain ⟨hx, put1, _⟩ := h.side x
    simp only [pstep] at e
    cases hr : (s.get x).send.writeBytes s.m d with
    | none => rw [hr] at e; cases e
    | some r =>
      obtain ⟨m', l'⟩ := r
      rw [hr] at e
      simp only [Option.some.injEq] at e
      subst e
      refine ⟨?_, rfl⟩
      by_cases hd : d = []
      · subst hd
        have : (s.get x).send.writeBytes s.m [] = some (s.m, (s.get x).send) := by unfold LBuf.writeBytes; simp
        rw [this] at hr
        simp only [Option.some.injEq, Prod.mk.injEq] at hr
        obtain ⟨rfl, rfl⟩ := hr
        have := put1 s.m (s.get x) (q.dir x) (q.dir (!x)) hx
        simp only [qstep, append_nil]
        rw [QSys.set_other_self] at this
        exact this
      · obtain ⟨m1, l1, e1, w1, b1, c1, n1, f1⟩ := writeBytes_spec s.m (s.get x).send d hx.pi.wf hx.pi.x.wbuf hd
        rw [e1] at hr
        simp only [Option.some.injEq, Prod.mk.injEq] at hr
        obtain ⟨rfl, rfl⟩ := hr
        have := put1 _ _ _ _ (hx.sendStep (writeBytes_acct s.m (s.get x).send d _ _ hx.pi.shape hx.pi.x.send e1) w1 b1 f1 d c1 n1)
        rw [QSys.set_other_self] at this
        exact this
  | writeByte x b =>
    obtain ⟨hx, put1, _⟩ := h.side x
    simp only [pstep] at e
    obtain ⟨m1, l1, e1, w1, b1, c1, n1, f1⟩ := writeByte_spec s.m (s.get x).send b hx.pi.wf hx.pi.x.wbuf
    rw [e1] at e
    simp only [Option.some.injEq] at e
    subst e
    have := put1 _ _ _ _ (hx.sendStep (writeByte_acct s.m (s.get x).send b _ _ hx.pi.shape hx.pi.x.send e1) w1 b1 f1 [b] c1 n1)
    rw [QSys.set_other_self] at this
    exact ⟨this, rfl⟩
  | flush x =>
    obtain ⟨hx, _, put2⟩ := h.side x
    simp only [pstep] at e
    split at e
    · cases e
    · rename_i hp
      simp only [Option.some.injEq] at e
      subst e
      have := put2 _ _ _ _ _ (hx.flushStep hp)
      rw [QSys.set_other_self] at this
      exact ⟨this, rfl⟩
  | more x =>
    obtain ⟨hx, put1, _⟩ := h.side x
    simp only [pstep] at e
    obtain ⟨X', e1, h1⟩ := hx.moreStep
    rw [e1] at e
    simp only [Option.some.injEq] at e
    subst e
    have := put1 _ _ _ _ h1
    rw [QSys.set_both_self] at this
    exact ⟨this, rfl⟩
  | readBytes x n =>
    obtain ⟨hx, put1, _⟩ := h.side x
    obtain ⟨hpos, hle⟩ := hg
    have hle' : n ≤ (content s.m (s.get x).recv.sl).length := by rw [← hx.yx.rlen]; exact hle
    obtain ⟨m1, l1, d, e1, e2, e3, e4, e5, _⟩ := readBytes_spec s.m (s.get x).recv n hx.yx.rwf hpos hle'
    simp only [pstep, e1] at e
    simp only [Option.some.injEq] at e
    subst e
    have a := readBytes_acct s.m (s.get x).recv n m1 l1 d hx.pi.shape hx.pi.x.recv e1
    have := put1 _ _ _ _ (hx.recvStep a n e3 hle' e4 e5)
    rw [QSys.set_self_other] at this
    refine ⟨this, ?_⟩
    simp only [pout, e1, qstep, e2]
    rw [← hx.yx.fl, take_append_of_le_length hle']
  | peek x n =>
    obtain ⟨hx, put1, _⟩ := h.side x
    obtain ⟨hpos, hle⟩ := hg
    have hle' : n ≤ (content s.m (s.get x).recv.sl).length := by rw [← hx.yx.rlen]; exact hle
    obtain ⟨l1, d, e1, e2, e3, e4⟩ := peek_spec s.m (s.get x).recv n hx.yx.rwf hpos hle'
    simp only [pstep, e1] at e
    simp only [Option.some.injEq] at e
    subst e
    have a := peek_acct s.m (s.get x).recv n l1 d hx.pi.shape hx.pi.x.recv e1
    have := put1 _ _ _ _ (hx.recvStep a 0 (by rw [e3]; rfl) (Nat.zero_le _) (by rw [e3]; exact hx.yx.rwf) (by rw [e4]; rfl))
    simp only [drop_zero] at this
    rw [QSys.set_both_self] at this
    refine ⟨this, ?_⟩
    simp only [pout, e1, qstep, e2]
    rw [← hx.yx.fl, take_append_of_le_length hle']
  | discard x n =>
    obtain ⟨hx, put1, _⟩ := h.side x
    obtain ⟨hpos, hle⟩ := hg
    have hle' : n ≤ (content s.m (s.get x).recv.sl).length := by rw [← hx.yx.rlen]; exact hle
    obtain ⟨m1, l1, e1, e3, e4, e5, _⟩ := discard_spec s.m (s.get x).recv n hx.yx.rwf hpos hle'
    simp only [pstep, e1] at e
    simp only [Option.some.injEq] at e
    subst e
    have a := discard_acct s.m (s.get x).recv n m1 l1 n hx.pi.shape hx.pi.x.recv e1
    have := put1 _ _ _ _ (hx.recvStep a n e3 hle' e4 e5)
    rw [QSys.set_self_other] at this
    exact ⟨this, rfl⟩
  | release x =>
    obtain ⟨hx, put1, _⟩ := h.side x
    simp only [pstep] at e
    simp only [Option.some.injEq] at e
    subst e
    obtain ⟨a, _⟩ := release_acct s.m (s.get x).recv hx.pi.shape hx.pi.x.recv
    have hcon := release_content s.m (s.get x).recv hx.yx.rwf
    have := put1 _ _ _ _ (hx.recvStep a 0 (by rw [hcon.1]; rfl) (Nat.zero_le _) hcon.2.1 (by rw [hcon.2.2]; rfl))
    simp only [drop_zero] at this
    rw [QSys.set_both_self] at this
    exact ⟨this, rfl⟩
  | readByte x =>
    obtain ⟨hx, put1, _⟩ := h.side x
    have hle' : 1 ≤ (content s.m (s.get x).recv.sl).length := by rw [← hx.yx.rlen]; exact hg
    obtain ⟨m1, l1, b, e1, e2, e3, e4, e5, _⟩ := readByte_spec s.m (s.get x).recv hx.yx.rwf hle'
    simp only [pstep, e1] at e
    simp only [Option.some.injEq] at e
    subst e
    have a := readByte_acct s.m (s.get x).recv m1 l1 b hx.pi.shape hx.pi.x.recv e1
    have := put1 _ _ _ _ (hx.recvStep a 1 e3 hle' e4 e5)
    rw [QSys.set_self_other] at this
    refine ⟨this, ?_⟩
    simp only [pout, e1, qstep, e2]
    rw [← hx.yx.fl, take_append_of_le_length hle']
  | readString x n =>
    obtain ⟨hx, put1, _⟩ := h.side x
    obtain ⟨hpos, hle⟩ := hg
    have hle' : n ≤ (content s.m (s.get x).recv.sl).length := by rw [← hx.yx.rlen]; exact hle
    obtain ⟨m1, l1, d, e1, e2, e3, e4, e5, _⟩ := readString_spec s.m (s.get x).recv n hx.yx.rwf hpos hle'
    simp only [pstep, e1] at e
    simp only [Option.some.injEq] at e
    subst e
    have a := readString_acct s.m (s.get x).recv n m1 l1 d hx.pi.shape hx.pi.x.recv e1
    have := put1 _ _ _ _ (hx.recvStep a n e3 hle' e4 e5)
    rw [QSys.set_self_other] at this
    refine ⟨this, ?_⟩
    simp only [pout, e1, qstep, e2]
    rw [← hx.yx.fl, take_append_of_le_length hle']
  | readInto x n =>
    obtain ⟨hx, put1, _⟩ := h.side x
    obtain ⟨hpos, hle⟩ := hg
    have hle' : n ≤ (content s.m (s.get x).recv.sl).length := by rw [← hx.yx.rlen]; exact hle
    obtain ⟨m1, l1, d, e1, e2, e3, e4, e5, _⟩ := readInto_spec s.m (s.get x).recv n hx.yx.rwf hpos hle'
    simp only [pstep, e1] at e
    simp only [Option.some.injEq] at e
    subst e
    have a := readInto_acct s.m (s.get x).recv n m1 l1 d hx.pi.shape hx.pi.x.recv e1
    have := put1 _ _ _ _ (hx.recvStep a n e3 hle' e4 e5)
    rw [QSys.set_self_other] at this
    refine ⟨this, ?_⟩
    simp only [pout, e1, qstep, e2]
    rw [← hx.yx.fl, take_append_of_le_length hle']
  | close x =>
    obtain ⟨hx, put1, _⟩ := h.side x
    simp only [pstep] at e
    simp only [Option.some.injEq] at e
    subst e
    exact ⟨put1 _ _ _ _ (hx.closeStep _), rfl⟩

/-! ### runs -/

/-- implementation run, collecting what the reader calls return -/
def prunOut : PSys → List POp → Option (PSys × List (List Nat))
  | s, [] => some (s, [])
  | s, op :: r =>
    match pstep s op with
    | none => none
    | some s' => match prunOut s' r with
      | none => none
      | some (s'', outs) => some (s'', pout s op :: outs)

/-- specification run -/
def qrunOut : QSys → List POp → QSys × List (List Nat)
  | q, [] => (q, [])
  | q, op :: r => ((qrunOut (qstep q op).1 r).1, (qstep q op).2 :: (qrunOut (qstep q op).1 r).2)

/-- every operation is covered and every reader call finds its bytes buffered (what readMore waits for) -/
def Admissible : PSys → List POp → Prop
  | _, [] => True
  | s, op :: r => Covered op ∧ Guard s op ∧ ∀ s', pstep s op = some s' → Admissible s' r

theorem pq_run : ∀ (ops : List POp) (s s' : PSys) (q : QSys) (outs : List (List Nat)), PQS N s q → Admissible s ops →
    prunOut s ops = some (s', outs) → PQS N s' (qrunOut q ops).1 ∧ outs = (qrunOut q ops).2
  | [], s, s', q, outs, h, _, e => by
    simp only [prunOut, Option.some.injEq, Prod.mk.injEq] at e
    obtain ⟨rfl, rfl⟩ := e
    exact ⟨h, rfl⟩
  | op :: r, s, s', q, outs, h, ha, e => by
    obtain ⟨hc, hg, hr⟩ := ha
    unfold prunOut at e
    cases hs : pstep s op with
    | none => rw [hs] at e; cases e
    | some s1 =>
      rw [hs] at e
      simp only at e
      cases hrest : prunOut s1 r with
      | none => rw [hrest] at e; cases e
      | some pr =>
        obtain ⟨s2, outs2⟩ := pr
        rw [hrest] at e
        simp only [Option.some.injEq, Prod.mk.injEq] at e
        obtain ⟨rfl, rfl⟩ := e
        obtain ⟨h1, o1⟩ := pq_step h hc hg hs
        obtain ⟨h2, o2⟩ := pq_run r s1 s2 (qstep q op).1 outs2 h1 (hr s1 hs) hrest
        exact ⟨h2, by simp only [qrunOut]; rw [o1, o2]⟩

theorem PQS.init (classes : List (Nat × Nat)) (hpos : ∀ c ∈ classes, 0 < c.1) :
    PQS (Mem.create classes).slots.length { m := Mem.create classes } {} := by
  have d0 : DirOK (Mem.create classes) {} {} {} :=
    ⟨rfl, rfl, (fun _ h => nomatch h), (fun _ h => nomatch h), rfl, rfl⟩
  exact ⟨PI.init classes hpos, d0, d0⟩

end LB
