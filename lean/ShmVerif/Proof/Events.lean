import ShmVerif.Model.Events
/-!
  Prefix stability of the event parser and independence from the way the byte stream is cut into reads.
-/
namespace Events
open List

/-- a handled event consumes between 1 and all available bytes, and more bytes behind it change nothing -/
theorem nextH_ev_append (cfg : Cfg) (h rest x : List Nat) (e : Effect) (n : Nat)
    (hn : nextH cfg h rest = .ev e n) :
    nextH cfg h (rest ++ x) = .ev e n ∧ 0 < n ∧ n ≤ headerSize + rest.length := by
  unfold nextH at hn ⊢
  split at hn
  · rename_i l0 l1 l2 l3 m0 m1 ver ty
    simp only at hn ⊢
    split at hn
    · cases hn
    · rename_i h1
      simp only [h1, if_false]
      split at hn
      · cases hn
      · rename_i h2
        simp only [h2, if_false]
        split at hn
        · rename_i h3
          simp only [h3, if_true]
          cases hn
          exact ⟨rfl, by unfold headerSize; omega, by unfold headerSize; omega⟩
        · rename_i h3
          simp only [h3, if_false]
          split at hn
          · rename_i h4
            simp only [h4, if_true]
            split at hn
            · cases hn
            · rename_i h5
              have h5' : ¬ ((rest ++ x).length < 4) := by simp; omega
              simp only [h5', if_false]
              rw [take_append_of_le_length (by omega)]
              split at hn
              · cases hn
                exact ⟨rfl, by unfold headerSize; omega, by unfold headerSize; omega⟩
              · cases hn
          · rename_i h4
            simp only [h4, if_false]
            split at hn
            · rename_i h5
              simp only [h5, if_true]
              split at hn
              · cases hn
              · rename_i h6
                simp only [h6, if_false]
                split at hn
                · cases hn
                · rename_i h7
                  have h7' : ¬ ((rest ++ x).length < be32 l0 l1 l2 l3 - headerSize) := by simp; omega
                  simp only [h7', if_false]
                  rw [take_append_of_le_length (by omega)]
                  split at hn
                  · cases hn
                    exact ⟨rfl, by unfold headerSize at *; omega, by unfold headerSize at *; omega⟩
                  · cases hn
            · rename_i h5
              simp only [h5, if_false]
              split at hn
              · rename_i h6
                simp only [h6, if_true]
                split at hn
                · cases hn
                · rename_i h7
                  have h7' : ¬ ((rest ++ x).length < 8) := by simp; omega
                  simp only [h7', if_false]
                  rw [take_append_of_le_length (by omega)]
                  split at hn
                  · rename_i hm
                    simp only [hm, if_true]
                    cases hn
                    exact ⟨rfl, by unfold headerSize; omega, by unfold headerSize; omega⟩
                  · cases hn
              · rename_i h6
                simp only [h6, if_false]
                split at hn
                · rename_i h7
                  simp only [h7, if_true]
                  split at hn
                  · cases hn
                  · rename_i h8
                    have h8' : ¬ ((rest ++ x).length < 8) := by simp; omega
                    simp only [h8', if_false]
                    rw [take_append_of_le_length (by omega)]
                    split at hn
                    · rename_i hm
                      simp only [hm, if_true]
                      cases hn
                      exact ⟨rfl, by unfold headerSize; omega, by unfold headerSize; omega⟩
                    · cases hn
                · cases hn
  · cases hn

/-- a protocol error is decided on the bytes seen: more bytes behind them change nothing -/
theorem nextH_fail_append (cfg : Cfg) (h rest x : List Nat) (hn : nextH cfg h rest = .fail) :
    nextH cfg h (rest ++ x) = .fail := by
  unfold nextH at hn ⊢
  split at hn
  · rename_i l0 l1 l2 l3 m0 m1 ver ty
    simp only at hn ⊢
    split at hn
    · rename_i h1; simp only [h1, if_true]
    · rename_i h1
      simp only [h1, if_false]
      split at hn
      · rename_i h2; simp only [h2, if_true]
      · rename_i h2
        simp only [h2, if_false]
        split at hn
        · cases hn
        · rename_i h3
          simp only [h3, if_false]
          split at hn
          · rename_i h4
            simp only [h4, if_true]
            split at hn
            · cases hn
            · rename_i h5
              have h5' : ¬ ((rest ++ x).length < 4) := by simp; omega
              simp only [h5', if_false]
              rw [take_append_of_le_length (by omega)]
              split at hn
              · cases hn
              · rfl
          · rename_i h4
            simp only [h4, if_false]
            split at hn
            · rename_i h5
              simp only [h5, if_true]
              split at hn
              · rename_i h6; simp only [h6, if_true]
              · rename_i h6
                simp only [h6, if_false]
                split at hn
                · cases hn
                · rename_i h7
                  have h7' : ¬ ((rest ++ x).length < be32 l0 l1 l2 l3 - headerSize) := by simp; omega
                  simp only [h7', if_false]
                  rw [take_append_of_le_length (by omega)]
                  split at hn
                  · cases hn
                  · rfl
            · rename_i h5
              simp only [h5, if_false]
              split at hn
              · rename_i h6
                simp only [h6, if_true]
                split at hn
                · cases hn
                · rename_i h7
                  have h7' : ¬ ((rest ++ x).length < 8) := by simp; omega
                  simp only [h7', if_false]
                  split at hn
                  · cases hn
                  · rename_i h8; simp only [h8]; rfl
              · rename_i h6
                simp only [h6, if_false]
                split at hn
                · rename_i h7
                  simp only [h7, if_true]
                  split at hn
                  · cases hn
                  · rename_i h8
                    have h8' : ¬ ((rest ++ x).length < 8) := by simp; omega
                    simp only [h8', if_false]
                    split at hn
                    · cases hn
                    · rename_i h9; simp only [h9]; rfl
                · rename_i h7; simp only [h7, if_false]
  · rfl

theorem next_ev_append (cfg : Cfg) (w x : List Nat) (e : Effect) (n : Nat) (hn : next cfg w = .ev e n) :
    next cfg (w ++ x) = .ev e n ∧ 0 < n ∧ n ≤ w.length := by
  unfold next at hn ⊢
  split at hn
  · cases hn
  · rename_i hlen
    have hlen' : ¬ ((w ++ x).length < headerSize) := by simp; omega
    simp only [hlen', if_false]
    rw [take_append_of_le_length (by omega), drop_append_of_le_length (by omega)]
    have := nextH_ev_append cfg _ _ x e n hn
    refine ⟨this.1, this.2.1, ?_⟩
    have h2 := this.2.2
    simp only [length_drop] at h2
    omega

theorem next_fail_append (cfg : Cfg) (w x : List Nat) (hn : next cfg w = .fail) :
    next cfg (w ++ x) = .fail := by
  unfold next at hn ⊢
  split at hn
  · cases hn
  · rename_i hlen
    have hlen' : ¬ ((w ++ x).length < headerSize) := by simp; omega
    simp only [hlen', if_false]
    rw [take_append_of_le_length (by omega), drop_append_of_le_length (by omega)]
    exact nextH_fail_append cfg _ _ x hn

theorem loop_succ (cfg : Cfg) (f : Nat) (s : Sess) (w : List Nat) :
    loop cfg (f + 1) s w =
      (match next cfg w with
       | .more => (s, w, false)
       | .fail => (s, [], true)
       | .ev e n => loop cfg f (apply cfg s e) (w.drop n)) := rfl

/-- with enough fuel the amount of fuel does not matter -/
theorem loop_fuel (cfg : Cfg) : ∀ (f f' : Nat) (s : Sess) (w : List Nat), w.length < f → w.length < f' →
    loop cfg f s w = loop cfg f' s w := by
  intro f
  induction f with
  | zero => intro f' s w h; omega
  | succ f ih =>
    intro f' s w h h'
    cases f' with
    | zero => omega
    | succ f' =>
      simp only [loop]
      cases hn : next cfg w with
      | more => rfl
      | fail => rfl
      | ev e n =>
        have := next_ev_append cfg w [] e n hn
        simp only
        apply ih
        · simp only [length_drop]; omega
        · simp only [length_drop]; omega

/-- the loop over `w ++ x` = the loop over `w`, then (unless the session was closed) the loop over the rest ++ x -/
theorem loop_split (cfg : Cfg) : ∀ (f : Nat) (s : Sess) (w x : List Nat), w.length < f →
    loop cfg ((w ++ x).length + 1) s (w ++ x) =
      (match loop cfg f s w with
       | (s1, _, true) => (s1, [], true)
       | (s1, r1, false) => loop cfg ((r1 ++ x).length + 1) s1 (r1 ++ x)) := by
  intro f
  induction f with
  | zero => intro s w x h; omega
  | succ f ih =>
    intro s w x h
    rw [loop_succ cfg f s w]
    cases hn : next cfg w with
    | more => rfl
    | fail =>
      have := next_fail_append cfg w x hn
      rw [loop_succ, this]
    | ev e n =>
      obtain ⟨h1, h2, h3⟩ := next_ev_append cfg w x e n hn
      rw [loop_succ, h1]
      simp only
      rw [drop_append_of_le_length h3]
      have hlen : (w.drop n).length < f := by simp only [length_drop]; omega
      have := ih (apply cfg s e) (w.drop n) x hlen
      rw [← this]
      apply loop_fuel
      · simp only [length_append, length_drop]; omega
      · simp only [length_append, length_drop]; omega

/-- the rest left by the loop does not contain a complete event -/
theorem loop_rest_more (cfg : Cfg) : ∀ (f : Nat) (s : Sess) (w : List Nat), w.length < f →
    (loop cfg f s w).2.2 = false → next cfg (loop cfg f s w).2.1 = .more := by
  intro f
  induction f with
  | zero => intro s w h; omega
  | succ f ih =>
    intro s w h
    simp only [loop]
    cases hn : next cfg w with
    | more => intro _; exact hn
    | fail => intro hc; simp at hc
    | ev e n =>
      have := next_ev_append cfg w [] e n hn
      simp only
      apply ih
      simp only [length_drop]; omega

theorem loop_err_rest (cfg : Cfg) : ∀ (f : Nat) (s : Sess) (w : List Nat),
    (loop cfg f s w).2.2 = true → (loop cfg f s w).2.1 = [] := by
  intro f
  induction f with
  | zero => intro s w h; simp [loop] at h
  | succ f ih =>
    intro s w
    rw [loop_succ]
    cases hn : next cfg w with
    | more => intro h; simp at h
    | fail => intro _; rfl
    | ev e n => exact ih _ _

def Stable (cfg : Cfg) (c : Conn) : Prop := c.closed = true ∨ next cfg c.win = .more

theorem feed_stable (cfg : Cfg) (c : Conn) (chunk : List Nat) (hc : Stable cfg c) : Stable cfg (feed cfg c chunk) := by
  unfold feed
  by_cases hcl : c.closed = true
  · simp only [hcl, if_true]; exact hc
  · simp only [hcl]
    simp only [Bool.false_eq_true, if_false]
    cases he : (loop cfg ((c.win ++ chunk).length + 1) c.sess (c.win ++ chunk)).2.2 with
    | true => left; simp [he]
    | false =>
      right
      have := loop_rest_more cfg _ c.sess (c.win ++ chunk) (Nat.lt_succ_self _) he
      simpa using this

/-- two reads = one read of the concatenation -/
theorem feed_feed (cfg : Cfg) (c : Conn) (a b : List Nat) :
    feed cfg (feed cfg c a) b = feed cfg c (a ++ b) := by
  unfold feed
  by_cases hcl : c.closed = true
  · simp [hcl]
  · simp only [hcl, Bool.false_eq_true, if_false]
    have hs := loop_split cfg ((c.win ++ a).length + 1) c.sess (c.win ++ a) b (Nat.lt_succ_self _)
    rw [append_assoc] at hs
    rw [hs]
    rcases hl : loop cfg ((c.win ++ a).length + 1) c.sess (c.win ++ a) with ⟨s1, r1, e1⟩
    cases e1 with
    | true =>
      have := loop_err_rest cfg _ c.sess (c.win ++ a) (by rw [hl])
      rw [hl] at this
      simp only at this
      subst this
      simp
    | false => simp

theorem feed_nil_stable (cfg : Cfg) (c : Conn) (hc : Stable cfg c) : feed cfg c [] = c := by
  unfold feed
  by_cases hcl : c.closed = true
  · simp [hcl]
  · simp only [hcl, Bool.false_eq_true, if_false, append_nil]
    rcases hc with h | h
    · exact absurd h hcl
    · simp only [loop, h]
      cases c; simp_all

theorem feedAll_eq_feed (cfg : Cfg) : ∀ (chunks : List (List Nat)) (c : Conn), Stable cfg c →
    feedAll cfg c chunks = feed cfg c chunks.flatten := by
  intro chunks
  induction chunks with
  | nil => intro c hc; simp [feedAll, feed_nil_stable cfg c hc]
  | cons a r ih =>
    intro c hc
    simp only [feedAll, foldl_cons, flatten_cons]
    have := ih (feed cfg c a) (feed_stable cfg c a hc)
    simp only [feedAll] at this
    rw [this, feed_feed]

end Events
