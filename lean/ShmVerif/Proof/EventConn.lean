import ShmVerif.Model.EventConn
/-!
  (a) the read window refines a byte queue; (b) write / writev hand the kernel exactly the data, once, in order;
  (c) the `writing` flag is a mutex with no lost wake-up for the send loop.
-/
namespace EventConn
open List

/-! ### (a) read window -/

structure RInv (s : RState) : Prop where
  le1 : s.start ≤ s.end_
  le2 : s.end_ ≤ s.buf.length
  pos : 0 < s.buf.length

/-- abstract view: the queue of unconsumed bytes plus the geometry that decides how much the next read may deliver -/
structure QState where
  q : List Nat
  cap : Nat
  start : Nat
  deriving DecidableEq, Repr

def abs (s : RState) : QState := { q := window s, cap := s.buf.length, start := s.start }

def qExpand (s : QState) : QState :=
  if s.cap - (s.start + s.q.length) = 0 then { s with cap := 2 * s.cap, start := 0 } else s

def qCommit (cfg : RCfg) (s : QState) (k : Nat) : QState :=
  if k = s.q.length then { q := [], cap := if s.cap > cfg.shrinkThreshold then s.cap / 2 else s.cap, start := 0 }
  else { s with q := s.q.drop k, start := s.start + k }

theorem window_length (s : RState) (h : RInv s) : (window s).length = s.end_ - s.start := by
  unfold window
  have := h.le1; have := h.le2
  simp only [length_take, length_drop]; omega

theorem maybeExpand_spec (s : RState) (h : RInv s) :
    RInv (maybeExpand s) ∧ abs (maybeExpand s) = qExpand (abs s) ∧ (maybeExpand s).end_ < (maybeExpand s).buf.length := by
  have hl := window_length s h
  have h1 := h.le1; have h2 := h.le2; have h3 := h.pos
  unfold maybeExpand
  by_cases hfull : s.buf.length - s.end_ = 0
  · rw [if_pos hfull]
    have hul : ((s.buf.drop s.start).take (s.end_ - s.start)).length = s.end_ - s.start := by
      simp only [length_take, length_drop]; omega
    refine ⟨⟨by simp, by simp only [length_append, length_replicate, hul]; omega,
             by simp only [length_append, length_replicate, hul]; omega⟩, ?_, ?_⟩
    · unfold abs qExpand window
      simp only [hul, length_append, length_replicate, drop_zero, Nat.sub_zero]
      have e1 : s.buf.length - (s.start + (s.end_ - s.start)) = 0 := by omega
      rw [if_pos e1]
      congr 1
      · rw [take_append_of_le_length (by omega), take_of_length_le (by omega)]
      · omega
    · simp only [length_append, length_replicate, hul]; omega
  · rw [if_neg hfull]
    refine ⟨h, ?_, by omega⟩
    unfold qExpand abs
    simp only [hl]
    have e1 : ¬ (s.buf.length - (s.start + (s.end_ - s.start)) = 0) := by omega
    rw [if_neg e1]

theorem writeAt_length (l : List Nat) (a : Nat) (d : List Nat) (h : a + d.length ≤ l.length) :
    (writeAt l a d).length = l.length := by
  unfold writeAt
  simp only [length_append, length_take, length_drop]; omega

abbrev stored := store

/-- storing `d` at `end_` appends it to the window -/
theorem read_spec (s : RState) (d : List Nat) (h : RInv s) (hroom : s.end_ + d.length ≤ s.buf.length) :
    RInv (stored s d) ∧ window (stored s d) = window s ++ d ∧ (stored s d).buf.length = s.buf.length ∧
    (stored s d).start = s.start ∧ (stored s d).end_ = s.end_ + d.length := by
  unfold stored store
  have h1 := h.le1; have h2 := h.le2; have h3 := h.pos
  have hlen := writeAt_length s.buf s.end_ d hroom
  refine ⟨⟨by simp only []; omega, by simp only [hlen]; omega, by simp only [hlen]; exact h3⟩, ?_, hlen, rfl, rfl⟩
  unfold window writeAt
  simp only
  have e1 : (s.buf.take s.end_ ++ d ++ s.buf.drop (s.end_ + d.length)).drop s.start =
      (s.buf.take s.end_).drop s.start ++ d ++ s.buf.drop (s.end_ + d.length) := by
    rw [append_assoc, drop_append_of_le_length (by simp only [length_take]; omega), append_assoc]
  rw [e1]
  have e2 : ((s.buf.take s.end_).drop s.start).length = s.end_ - s.start := by
    simp only [length_drop, length_take]; omega
  have e4 : ((s.buf.take s.end_).drop s.start ++ d).length = s.end_ + d.length - s.start := by
    simp only [length_append, e2]; omega
  rw [take_left' e4, drop_take]

theorem commitRead_spec (cfg : RCfg) (hthr : 2 ≤ cfg.shrinkThreshold) (s : RState) (k : Nat) (h : RInv s)
    (hk : k ≤ (window s).length) :
    RInv (commitRead cfg s k) ∧ abs (commitRead cfg s k) = qCommit cfg (abs s) k := by
  have h1 := h.le1; have h2 := h.le2; have h3 := h.pos
  have hl := window_length s h
  unfold commitRead qCommit abs
  simp only [hl]
  by_cases hall : s.start + k = s.end_
  · have hk2 : k = s.end_ - s.start := by omega
    rw [if_pos hall, if_pos hk2]
    by_cases hbig : s.buf.length > cfg.shrinkThreshold
    · simp only [hbig, if_true]
      refine ⟨⟨by simp, by simp, ?_⟩, ?_⟩
      · simp only [length_take]; omega
      · unfold window
        simp only [Nat.sub_self, take_zero, length_take]
        congr 1; omega
    · simp only [hbig, if_false]
      refine ⟨⟨by simp, by simp, h3⟩, ?_⟩
      unfold window
      simp only [Nat.sub_self, take_zero]
  · have hk2 : ¬ (k = s.end_ - s.start) := by omega
    rw [if_neg hall, if_neg hk2]
    refine ⟨⟨by simp only []; omega, h2, h3⟩, ?_⟩
    unfold window
    simp only
    congr 1
    rw [drop_take, drop_drop]
    congr 1; omega

/-- the abstract run: the same control flow on the queue -/
def specReady (cfg : RCfg) : Nat → QState → List KRead → Consumer → List (List Nat) →
    QState × List (List Nat) × List KRead × Consumer × Bool
  | 0, s, reads, cs, shown => (s, shown, reads, cs, false)
  | f + 1, s, reads, cs, shown =>
    let s1 := qExpand s
    let finish (reads : List KRead) (closed : Bool) :=
      let k := min (cs.headD 0) s1.q.length
      (qCommit cfg s1 k, shown ++ [s1.q], reads, cs.tail, closed)
    match reads with
    | [] => finish [] false
    | .eagain :: r => finish r false
    | .eof :: r => finish r true
    | .data d :: r =>
      let d := d.take (s1.cap - (s1.start + s1.q.length))
      let s2 := { s1 with q := s1.q ++ d }
      if s2.q.length ≥ cfg.onDataThreshold then
        let k := min (cs.headD 0) s2.q.length
        specReady cfg f (qCommit cfg s2 k) r cs.tail (shown ++ [s2.q])
      else specReady cfg f s2 r cs shown

/-- Refinement: on every input (kernel results, consumer pacing) the buffer-based implementation shows the callback the
    same windows as the byte queue, keeps `0 ≤ start ≤ end ≤ len(buf)`, and ends in the corresponding state. -/
theorem onReadReady_refines (cfg : RCfg) (hthr : 2 ≤ cfg.shrinkThreshold) : ∀ (fuel : Nat) (s : RState)
    (reads : List KRead) (cs : Consumer) (shown : List (List Nat)), RInv s →
    RInv (onReadReady cfg fuel s reads cs shown).1 ∧
    abs (onReadReady cfg fuel s reads cs shown).1 = (specReady cfg fuel (abs s) reads cs shown).1 ∧
    (onReadReady cfg fuel s reads cs shown).2.1 = (specReady cfg fuel (abs s) reads cs shown).2.1 ∧
    (onReadReady cfg fuel s reads cs shown).2.2 = (specReady cfg fuel (abs s) reads cs shown).2.2 := by
  intro fuel
  induction fuel with
  | zero => intro s reads cs shown h; simp only [onReadReady, specReady]; exact ⟨h, trivial, trivial, trivial⟩
  | succ f ih =>
    intro s reads cs shown h
    obtain ⟨hx1, hx2, hx3⟩ := maybeExpand_spec s h
    have hq : (qExpand (abs s)).q = window (maybeExpand s) := by rw [← hx2]; rfl
    have hfin : RInv (commitRead cfg (maybeExpand s) (min (cs.headD 0) (window (maybeExpand s)).length)) ∧
        abs (commitRead cfg (maybeExpand s) (min (cs.headD 0) (window (maybeExpand s)).length)) =
          qCommit cfg (qExpand (abs s)) (min (cs.headD 0) (qExpand (abs s)).q.length) := by
      obtain ⟨c1, c2⟩ := commitRead_spec cfg hthr (maybeExpand s) (min (cs.headD 0) (window (maybeExpand s)).length) hx1 (Nat.min_le_right _ _)
      refine ⟨c1, ?_⟩
      rw [c2, hx2, hq]
    cases reads with
    | nil =>
      simp only [onReadReady, specReady]
      exact ⟨hfin.1, hfin.2, by rw [hq], trivial⟩
    | cons rd r =>
      cases rd with
      | eagain =>
        simp only [onReadReady, specReady]
        exact ⟨hfin.1, hfin.2, by rw [hq], trivial⟩
      | eof =>
        simp only [onReadReady, specReady]
        exact ⟨hfin.1, hfin.2, by rw [hq], trivial⟩
      | data d =>
        have hwl := window_length (maybeExpand s) hx1
        have hcap : (qExpand (abs s)).cap - ((qExpand (abs s)).start + (qExpand (abs s)).q.length) =
            (maybeExpand s).buf.length - (maybeExpand s).end_ := by
          rw [← hx2]; simp only [abs, hwl]; have := hx1.le1; omega
        have hroom : (maybeExpand s).end_ + (d.take ((maybeExpand s).buf.length - (maybeExpand s).end_)).length ≤ (maybeExpand s).buf.length := by
          simp only [length_take]; have := hx1.le2; omega
        obtain ⟨r1, r2, r3, r4, r5⟩ := read_spec (maybeExpand s) (d.take ((maybeExpand s).buf.length - (maybeExpand s).end_)) hx1 hroom
        have habs2 : abs (stored (maybeExpand s) (d.take ((maybeExpand s).buf.length - (maybeExpand s).end_))) =
            { qExpand (abs s) with q := (qExpand (abs s)).q ++ d.take ((maybeExpand s).buf.length - (maybeExpand s).end_) } := by
          rw [← hx2]
          simp only [abs, r2, r3, r4]
        have hwl2 := window_length _ r1
        have hlenq : ((qExpand (abs s)).q ++ d.take ((maybeExpand s).buf.length - (maybeExpand s).end_)).length =
            (stored (maybeExpand s) (d.take ((maybeExpand s).buf.length - (maybeExpand s).end_))).end_ -
            (stored (maybeExpand s) (d.take ((maybeExpand s).buf.length - (maybeExpand s).end_))).start := by
          rw [hq, ← r2, hwl2]
        simp only [onReadReady, specReady, hcap]
        rw [hlenq]
        have hq2 : (qExpand (abs s)).q ++ d.take ((maybeExpand s).buf.length - (maybeExpand s).end_) =
            window (stored (maybeExpand s) (d.take ((maybeExpand s).buf.length - (maybeExpand s).end_))) := by
          rw [r2, hq]
        by_cases hthrs : (stored (maybeExpand s) (d.take ((maybeExpand s).buf.length - (maybeExpand s).end_))).end_ -
            (stored (maybeExpand s) (d.take ((maybeExpand s).buf.length - (maybeExpand s).end_))).start ≥ cfg.onDataThreshold
        · rw [if_pos hthrs, if_pos hthrs]
          obtain ⟨c1, c2⟩ := commitRead_spec cfg hthr _ (min (cs.headD 0) (window (stored (maybeExpand s) (d.take ((maybeExpand s).buf.length - (maybeExpand s).end_)))).length) r1 (Nat.min_le_right _ _)
          have := ih _ r cs.tail (shown ++ [window (stored (maybeExpand s) (d.take ((maybeExpand s).buf.length - (maybeExpand s).end_)))]) c1
          rw [c2, habs2] at this
          rw [hq2] at this
          rw [hq2, ← hwl2]
          exact this
        · rw [if_neg hthrs, if_neg hthrs]
          have := ih _ r cs shown r1
          rw [habs2] at this
          exact this

end EventConn

namespace EventConn
open List

/-! ### (b) write / writev -/

/-- whatever the kernel answers, `write` hands it a prefix of the data, each byte once and in order, and reports
    success only when that prefix is everything -/
theorem write_spec : ∀ (fuel : Nat) (data : List Nat) (res : List KWrite) (acc : List Nat) (calls : Nat),
    ∃ k, k ≤ data.length ∧ (write fuel data res acc calls).1 = acc ++ data.take k ∧
      ((write fuel data res acc calls).2.2 = true → k = data.length) := by
  intro fuel
  induction fuel with
  | zero => intro data res acc calls; exact ⟨0, by omega, by simp [write], by simp [write]⟩
  | succ f ih =>
    intro data res acc calls
    unfold write
    by_cases he : data.isEmpty = true
    · rw [if_pos he]
      have : data = [] := List.isEmpty_iff.mp he
      subst this
      exact ⟨0, by simp, by simp, by simp⟩
    · rw [if_neg he]
      cases res with
      | nil => exact ⟨0, by omega, by simp, by simp⟩
      | cons r rs =>
        cases r with
        | eagain => exact ih data rs acc (calls + 1)
        | n k =>
          simp only
          obtain ⟨k2, h1, h2, h3⟩ := ih (data.drop (min k data.length)) rs (acc ++ data.take (min k data.length)) (calls + 1)
          refine ⟨min k data.length + k2, ?_, ?_, ?_⟩
          · simp only [length_drop] at h1; omega
          · rw [h2, append_assoc]; congr 1
            rw [← take_add]
          · intro hok
            have := h3 hok
            simp only [length_drop] at this; omega

theorem drop_append_ge' {α} (a b : List α) (n : Nat) (h : a.length ≤ n) : (a ++ b).drop n = b.drop (n - a.length) := by
  rw [drop_append, drop_of_length_le h, nil_append]

/-- every iovec describes a suffix of its slice -/
def IovWF (data : List (List Nat)) (iov : List IoVec) : Prop :=
  ∀ v ∈ iov, v.off + v.len = (data.getD v.idx []).length

theorem iovBytes_cons (data : List (List Nat)) (v : IoVec) (r : List IoVec) :
    iovBytes data (v :: r) = ((data.getD v.idx []).drop v.off).take v.len ++ iovBytes data r := by
  simp [iovBytes]

theorem ackWrite_spec (data : List (List Nat)) : ∀ (fuel : Nat) (iov : List IoVec) (n : Nat),
    IovWF data iov → n ≤ (iovBytes data iov).length → iov.length < fuel →
    iovBytes data (ackWrite fuel data iov n) = (iovBytes data iov).drop n ∧ IovWF data (ackWrite fuel data iov n) := by
  intro fuel
  induction fuel with
  | zero => intro iov n _ _ h; omega
  | succ f ih =>
    intro iov n hwf hn hf
    cases iov with
    | nil =>
      have : ackWrite (f + 1) data [] n = [] := by simp [ackWrite]
      rw [this]; exact ⟨by simp [iovBytes], hwf⟩
    | cons v r =>
      have hv := hwf v mem_cons_self
      have hr : IovWF data r := fun x hx => hwf x (mem_cons_of_mem _ hx)
      have hvl : (((data.getD v.idx []).drop v.off).take v.len).length = v.len := by
        simp only [length_take, length_drop]; omega
      unfold ackWrite
      by_cases h0 : n = 0
      · subst h0; rw [if_pos rfl, drop_zero]; exact ⟨rfl, hwf⟩
      · rw [if_neg h0]
        by_cases hge : n ≥ v.len
        · rw [if_pos hge]
          rw [iovBytes_cons] at hn ⊢
          have hn2 : n - v.len ≤ (iovBytes data r).length := by
            simp only [length_append, hvl] at hn; omega
          have := ih r (n - v.len) hr hn2 (by simp at hf; omega)
          refine ⟨?_, this.2⟩
          have hge' : (((data.getD v.idx []).drop v.off).take v.len).length ≤ n := by rw [hvl]; exact hge
          rw [this.1, drop_append_ge' _ _ _ hge', hvl]
        · rw [if_neg hge]
          constructor
          · rw [iovBytes_cons, iovBytes_cons]
            simp only
            rw [drop_append, show n - (((data.getD v.idx []).drop v.off).take v.len).length = 0 by omega, drop_zero]
            congr 1
            have e1 : (data.getD v.idx []).length - (v.len - n) = v.off + n := by omega
            rw [e1, drop_take, drop_drop]
          · intro x hx
            rcases mem_cons.mp hx with rfl | hx
            · simp only; omega
            · exact hr x hx

theorem doWritev_spec (data : List (List Nat)) : ∀ (fuel : Nat) (iov : List IoVec) (res : List KWrite)
    (acc : List Nat) (calls : Nat), IovWF data iov →
    ∃ k, k ≤ (iovBytes data iov).length ∧ (doWritev fuel data iov res acc calls).1 = acc ++ (iovBytes data iov).take k ∧
      ((doWritev fuel data iov res acc calls).2.2.2 = true → k = (iovBytes data iov).length) := by
  intro fuel
  induction fuel with
  | zero => intro iov res acc calls _; exact ⟨0, by omega, by simp [doWritev], by simp [doWritev]⟩
  | succ f ih =>
    intro iov res acc calls hwf
    unfold doWritev
    by_cases he : iov.isEmpty = true
    · rw [if_pos he]
      have : iov = [] := List.isEmpty_iff.mp he
      subst this
      exact ⟨0, by simp [iovBytes], by simp [iovBytes], by simp [iovBytes]⟩
    · rw [if_neg he]
      cases res with
      | nil => exact ⟨0, by omega, by simp, by simp⟩
      | cons r rs =>
        cases r with
        | eagain => exact ih iov rs acc (calls + 1) hwf
        | n k =>
          simp only
          have hk : min k (iovBytes data iov).length ≤ (iovBytes data iov).length := Nat.min_le_right _ _
          obtain ⟨a1, a2⟩ := ackWrite_spec data (iov.length + 1) iov (min k (iovBytes data iov).length) hwf hk (by omega)
          obtain ⟨k2, h1, h2, h3⟩ := ih (ackWrite (iov.length + 1) data iov (min k (iovBytes data iov).length)) rs
            (acc ++ (iovBytes data iov).take (min k (iovBytes data iov).length)) (calls + 1) a2
          rw [a1] at h1 h2 h3
          refine ⟨min k (iovBytes data iov).length + k2, ?_, ?_, ?_⟩
          · simp only [length_drop] at h1; omega
          · rw [h2, append_assoc]; congr 1
            rw [← take_add]
          · intro hok
            have := h3 hok
            simp only [length_drop] at this; omega

end EventConn

namespace EventConn
open List

theorem iovBytes_batch (batch : List (List Nat)) :
    iovBytes batch ((List.range batch.length).map (fun i => ({ idx := i, off := 0, len := (batch.getD i []).length } : IoVec))) = batch.flatten ∧
    IovWF batch ((List.range batch.length).map (fun i => ({ idx := i, off := 0, len := (batch.getD i []).length } : IoVec))) := by
  constructor
  · unfold iovBytes
    rw [flatMap_def, map_map]
    congr 1
    apply ext_getElem
    · simp
    · intro i h1 h2
      simp only [length_map, length_range] at h1
      simp [getD_eq_getElem?_getD, h1]
  · intro v hv
    simp only [mem_map, mem_range] at hv
    obtain ⟨i, _, rfl⟩ := hv
    simp

/-- writev: whatever the kernel answers and however many 256-slice batches are needed, it hands the kernel a prefix of the
    concatenated slices, each byte once and in order, and reports success only when that is everything -/
theorem writev_spec : ∀ (fuel : Nat) (data : List (List Nat)) (res : List KWrite) (acc : List Nat) (calls : Nat),
    ∃ k, k ≤ data.flatten.length ∧ (writev fuel data res acc calls).1 = acc ++ data.flatten.take k ∧
      ((writev fuel data res acc calls).2.2 = true → k = data.flatten.length) := by
  intro fuel
  induction fuel with
  | zero => intro data res acc calls; exact ⟨0, by omega, by simp [writev], by simp [writev]⟩
  | succ f ih =>
    intro data res acc calls
    unfold writev
    by_cases he : data.isEmpty = true
    · rw [if_pos he]
      have : data = [] := List.isEmpty_iff.mp he
      subst this
      exact ⟨0, by simp, by simp, by simp⟩
    · rw [if_neg he]
      obtain ⟨b1, b2⟩ := iovBytes_batch (data.take 256)
      obtain ⟨k1, h1, h2, h3⟩ := doWritev_spec (data.take 256) (res.length + 2) _ res acc calls b2
      rw [b1] at h1 h2 h3
      have hsplit : data.flatten = (data.take 256).flatten ++ (data.drop 256).flatten := by
        rw [← flatten_append, take_append_drop]
      simp only
      rcases hd : doWritev (res.length + 2) (data.take 256)
        ((List.range (data.take 256).length).map (fun i => ({ idx := i, off := 0, len := ((data.take 256).getD i []).length } : IoVec))) res acc calls with ⟨acc', calls', res', ok⟩
      rw [hd] at h2 h3
      simp only at h2 h3 ⊢
      cases ok with
      | false =>
        simp only [Bool.false_eq_true, if_false]
        refine ⟨k1, by rw [hsplit, length_append]; omega, ?_, by simp⟩
        rw [h2, hsplit, take_append_of_le_length h1]
      | true =>
        simp only [if_true]
        have hk1 := h3 rfl
        obtain ⟨k2, g1, g2, g3⟩ := ih (data.drop 256) res' acc' calls'
        refine ⟨k1 + k2, by rw [hsplit, length_append]; omega, ?_, ?_⟩
        · rw [g2, h2, append_assoc]; congr 1
          rw [hsplit, hk1, take_length_add_append, take_of_length_le (Nat.le_refl _)]
        · intro hok
          have := g3 hok
          rw [hsplit, length_append, hk1, this]

/-! ### (c) the `writing` flag -/

def holders (s : WState) : Nat := s.ws.countP (· == .holding) + (if s.sl = .holding then 1 else 0)

structure WInv (s : WState) : Prop where
  inside : s.inside = holders s
  flag : s.writing = true ↔ s.inside = 1
  le : s.inside ≤ 1
  maxle : s.maxInside ≤ 1
  /-- the send loop is never parked without either a holder that will wake it or a token waiting for it -/
  wake : s.sl = .parked → s.writing = true ∨ s.token = true

theorem countP_set_holding (l : List WPc) (t : Nat) (old new : WPc) (h : l[t]? = some old) :
    (l.set t new).countP (· == .holding) + (if old = .holding then 1 else 0) =
      l.countP (· == .holding) + (if new = .holding then 1 else 0) := by
  induction l generalizing t with
  | nil => simp at h
  | cons a r ih =>
    cases t with
    | zero =>
      simp only [getElem?_cons_zero, Option.some.injEq] at h
      subst h
      simp only [set_cons_zero, countP_cons]
      cases a <;> cases new <;> simp
    | succ t =>
      simp only [getElem?_cons_succ] at h
      have := ih t h
      simp only [set_cons_succ, countP_cons]
      omega

theorem stepW_inv (s : WState) (t : Nat) (h : WInv s) : WInv (stepW s t) := by
  unfold stepW
  cases ht : s.ws[t]? with
  | none => exact h
  | some pc =>
    cases pc with
    | done => exact h
    | idle =>
      simp only
      have hc := countP_set_holding s.ws t .idle
      by_cases hw : s.writing = true
      · rw [if_pos hw]
        have := hc .done ht
        simp at this
        exact ⟨by simp only [holders]; rw [this]; exact h.inside, h.flag, h.le, h.maxle, h.wake⟩
      · rw [if_neg hw]
        have := hc .holding ht
        simp at this
        have hin : s.inside = 0 := by
          have hf := h.flag; have hle := h.le
          rcases Nat.lt_or_ge s.inside 1 with h0 | h1
          · omega
          · exact absurd (hf.mpr (by omega)) hw
        refine ⟨?_, by simp [hin], by simp [hin], by simp only [hin]; exact Nat.max_le.mpr ⟨h.maxle, Nat.le_refl _⟩, fun _ => Or.inl rfl⟩
        simp only [holders]; rw [this]; have := h.inside; simp only [holders] at this; omega
    | holding =>
      simp only
      have := countP_set_holding s.ws t .holding .done ht
      simp at this
      have hi := h.inside
      simp only [holders] at hi
      have hge : 1 ≤ s.inside := by omega
      have hin : s.inside = 1 := by have := h.le; omega
      refine ⟨?_, by simp [hin], by simp [hin], h.maxle, fun _ => Or.inr rfl⟩
      simp only [holders]; omega

theorem stepS_inv (s : WState) (h : WInv s) : WInv (stepS s) := by
  unfold stepS
  have hi := h.inside
  simp only [holders] at hi
  cases hsl : s.sl with
  | waitItem =>
    simp only
    split
    · exact ⟨by simp only [holders]; simp [hsl] at hi ⊢; exact hi, h.flag, h.le, h.maxle, by simp⟩
    · exact h
  | tryCas =>
    simp only
    by_cases hw : s.writing = true
    · rw [if_pos hw]
      exact ⟨by simp only [holders]; simp [hsl] at hi ⊢; exact hi, h.flag, h.le, h.maxle, fun _ => Or.inl hw⟩
    · rw [if_neg hw]
      have hin : s.inside = 0 := by
        have hf := h.flag; have hle := h.le
        rcases Nat.lt_or_ge s.inside 1 with h0 | h1
        · omega
        · exact absurd (hf.mpr (by omega)) hw
      refine ⟨?_, by simp [hin], by simp [hin], by simp only [hin]; exact Nat.max_le.mpr ⟨h.maxle, Nat.le_refl _⟩, by simp⟩
      simp only [holders]; simp [hsl] at hi ⊢; omega
  | parked =>
    simp only
    split
    · exact ⟨by simp only [holders]; simp [hsl] at hi ⊢; exact hi, h.flag, h.le, h.maxle, by simp⟩
    · exact h
  | holding =>
    simp only
    simp [hsl] at hi
    have hin : s.inside = 1 := by have := h.le; omega
    refine ⟨?_, by simp [hin], by simp [hin], h.maxle, by simp⟩
    simp only [holders]; simp; omega

theorem runWS_inv (s : WState) (sched : List Who) (h : WInv s) : WInv (runWS s sched) := by
  induction sched generalizing s with
  | nil => exact h
  | cons w ws ih =>
    apply ih
    cases w with
    | none => exact stepS_inv s h
    | some t => exact stepW_inv s t h

end EventConn
