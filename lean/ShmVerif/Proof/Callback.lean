import ShmVerif.Model.Callback
/-!
  Invariant of the callback-mode hand-off model, for every schedule.  Everything about the list of goroutines is
  phrased as `countP` of a predicate, so that one step of goroutine `i` rewrites every count as
  `count over the others + [predicate of the new pc]` and linear arithmetic finishes.
-/
namespace Callback
open List

theorem countP_split {α : Type} (P : α → Bool) : ∀ (l : List α) (i : Nat) (x : α), l[i]? = some x →
    l.countP P = (l.eraseIdx i).countP P + (if P x then 1 else 0)
  | [], i, x, h => by simp at h
  | y :: l, 0, x, h => by
    simp at h; subst h
    simp [List.countP_cons]
  | y :: l, i + 1, x, h => by
    simp at h
    have := countP_split P l i x h
    simp [List.countP_cons, this]; omega

theorem countP_set_split {α : Type} (P : α → Bool) : ∀ (l : List α) (i : Nat) (x a : α), l[i]? = some x →
    (l.set i a).countP P = (l.eraseIdx i).countP P + (if P a then 1 else 0)
  | [], i, x, a, h => by simp at h
  | y :: l, 0, x, a, h => by simp [List.countP_cons]
  | y :: l, i + 1, x, a, h => by
    simp at h
    have := countP_set_split P l i x a h
    simp [List.countP_cons, this]; omega

theorem countP_le_of_imp {α : Type} (P Q : α → Bool) (h : ∀ x, P x = true → Q x = true) : ∀ l : List α, l.countP P ≤ l.countP Q
  | [] => by simp
  | y :: l => by
    have := countP_le_of_imp P Q h l
    simp only [List.countP_cons]
    by_cases hp : P y = true
    · simp [hp, h y hp]; omega
    · simp [hp]; split <;> omega

theorem countP_all_done (P : GPc → Bool) (hP : P .done = false) : ∀ l : List GPc, l.all (· == .done) = true → l.countP P = 0
  | [], _ => by simp
  | y :: l, h => by
    simp at h
    have := countP_all_done P hP l (by simpa using h.2)
    simp [List.countP_cons, this, h.1, hP]

/-! predicates on goroutine program counters -/
def isIn : GPc → Bool | .in3 | .in2 | .in1 => true | _ => false
/-- will look at the read buffer again -/
def wB : GPc → Bool | .loadState | .in3 | .in2 | .in1 => true | _ => false
/-- will look at the pending list again (or close the stream) -/
def wC : GPc → Bool | .loadClose | .recheck | .closeLoad | .closeCas _ => true | _ => false
/-- will honour a close request -/
def wJ : GPc → Bool
  | .start | .loadState | .in3 | .in2 | .in1 | .store0 | .loadClose | .closeLoad | .closeCas _ => true
  | _ => false
def isClosing : GPc → Bool | .waitG _ | .cleaning _ => true | _ => false
def uWJ : UPc → Bool | .loadIn | .closeLoad | .closeCas _ => true | _ => false
def uClosing : UPc → Bool | .waitG _ | .cleaning _ => true | _ => false

def b2n (b : Bool) : Nat := if b then 1 else 0

structure Inv (s : State) : Prop where
  act : s.gs.countP GPc.active = b2n s.inProcess
  inOn : s.inOnData = s.gs.countP isIn
  maxOn : s.maxOnData ≤ 1
  wb : s.state = .opened → 0 < s.recv → 0 < s.gs.countP wB
  wc : s.state = .opened → 0 < s.pending → s.inProcess = false → (s.e = .dataLoad ∨ s.e = .dataCas) ∨ 0 < s.gs.countP wC
  wj : s.closeReq = true → s.state ≠ .closed → 0 < s.gs.countP wJ ∨ uWJ s.u = true
  closing : (0 < s.gs.countP isClosing ∨ uClosing s.u = true) → s.state = .closed
  cons : s.arrived = s.consumed + s.recv + s.pending + s.dropped
  off1 : s.consumed ≤ s.offered
  drop0 : s.state ≠ .closed → s.dropped = 0

theorem inv_init : Inv init := by
  constructor <;> simp [init, b2n, uWJ, uClosing]

theorem inv_stepE {s : State} (h : Inv s) (cmd : ECmd) : Inv (stepE s cmd) := by
  obtain ⟨act, inOn, maxOn, wb, wc, wj, closing, cons, off1, drop0⟩ := h
  unfold stepE
  cases he : s.e with
  | idle =>
    cases cmd with
    | none => exact ⟨act, inOn, maxOn, wb, wc, wj, closing, cons, off1, drop0⟩
    | data n =>
      refine ⟨act, inOn, maxOn, wb, ?_, wj, closing, ?_, off1, drop0⟩
      · intro _ _ _; left; left; rfl
      · simp only; omega
    | pclose =>
      refine ⟨act, inOn, maxOn, wb, ?_, wj, closing, cons, off1, drop0⟩
      intro h1 h2 h3
      rcases wc h1 h2 h3 with h | h
      · rcases h with h | h <;> simp [he] at h
      · right; exact h
  | dataLoad =>
    simp only
    split
    · rename_i hc
      refine ⟨act, inOn, maxOn, ?_, ?_, wj, closing, ?_, off1, ?_⟩
      · intro h1; simp at h1 ⊢
      · intro h1 h2; simp at h2
      · simp only; omega
      · intro h1; exact absurd hc h1
    · refine ⟨act, inOn, maxOn, wb, ?_, wj, closing, cons, off1, drop0⟩
      intro _ _ _; left; right; rfl
  | dataCas =>
    simp only
    split
    · rename_i hp
      refine ⟨act, inOn, maxOn, wb, ?_, wj, closing, cons, off1, drop0⟩
      intro _ _ h3; simp [hp] at h3
    · rename_i hp
      refine ⟨?_, ?_, maxOn, ?_, ?_, ?_, ?_, cons, off1, drop0⟩
      · simp [List.countP_append, act, b2n, hp, GPc.active]
      · simp [List.countP_append, inOn, isIn]
      · intro h1 h2; have := wb h1 h2; simp [List.countP_append]; omega
      · intro _ _ h3; simp at h3
      · intro h1 h2; left; simp [List.countP_append, wJ]
      · intro h1; apply closing; simpa [List.countP_append, isClosing] using h1
  | pcloseCas =>
    simp only
    split
    · refine ⟨act, inOn, maxOn, ?_, ?_, ?_, ?_, cons, off1, ?_⟩
      · intro h1; simp at h1
      · intro h1; simp at h1
      · intro h1 h2; exact wj h1 (by simp_all)
      · intro h1; have := closing h1; simp_all
      · intro _; apply drop0; simp_all
    · rename_i hs
      refine ⟨act, inOn, maxOn, wb, ?_, wj, closing, cons, off1, drop0⟩
      intro h1 h2 h3
      rcases wc h1 h2 h3 with h | h
      · rcases h with h | h <;> simp [he] at h
      · right; exact h

theorem closeEffects_fields (s : State) (old : St) :
    (closeEffects s old).state = s.state ∧ (closeEffects s old).inProcess = s.inProcess ∧ (closeEffects s old).closeReq = s.closeReq ∧
    (closeEffects s old).pending = 0 ∧ (closeEffects s old).recv = 0 ∧ (closeEffects s old).e = s.e ∧ (closeEffects s old).gs = s.gs ∧
    (closeEffects s old).u = s.u ∧ (closeEffects s old).arrived = s.arrived ∧ (closeEffects s old).offered = s.offered ∧
    (closeEffects s old).consumed = s.consumed ∧ (closeEffects s old).dropped = s.dropped + s.pending + s.recv ∧
    (closeEffects s old).inOnData = s.inOnData ∧ (closeEffects s old).maxOnData = s.maxOnData := by
  unfold closeEffects; split <;> simp

@[simp] theorem ce_state (s : State) (old : St) : (closeEffects s old).state = s.state := by unfold closeEffects; split <;> rfl
@[simp] theorem ce_inProcess (s : State) (old : St) : (closeEffects s old).inProcess = s.inProcess := by unfold closeEffects; split <;> rfl
@[simp] theorem ce_closeReq (s : State) (old : St) : (closeEffects s old).closeReq = s.closeReq := by unfold closeEffects; split <;> rfl
@[simp] theorem ce_pending (s : State) (old : St) : (closeEffects s old).pending = 0 := by unfold closeEffects; split <;> rfl
@[simp] theorem ce_recv (s : State) (old : St) : (closeEffects s old).recv = 0 := by unfold closeEffects; split <;> rfl
@[simp] theorem ce_e (s : State) (old : St) : (closeEffects s old).e = s.e := by unfold closeEffects; split <;> rfl
@[simp] theorem ce_gs (s : State) (old : St) : (closeEffects s old).gs = s.gs := by unfold closeEffects; split <;> rfl
@[simp] theorem ce_u (s : State) (old : St) : (closeEffects s old).u = s.u := by unfold closeEffects; split <;> rfl
@[simp] theorem ce_arrived (s : State) (old : St) : (closeEffects s old).arrived = s.arrived := by unfold closeEffects; split <;> rfl
@[simp] theorem ce_offered (s : State) (old : St) : (closeEffects s old).offered = s.offered := by unfold closeEffects; split <;> rfl
@[simp] theorem ce_consumed (s : State) (old : St) : (closeEffects s old).consumed = s.consumed := by unfold closeEffects; split <;> rfl
@[simp] theorem ce_dropped (s : State) (old : St) : (closeEffects s old).dropped = s.dropped + s.pending + s.recv := by unfold closeEffects; split <;> rfl
@[simp] theorem ce_inOnData (s : State) (old : St) : (closeEffects s old).inOnData = s.inOnData := by unfold closeEffects; split <;> rfl
@[simp] theorem ce_maxOnData (s : State) (old : St) : (closeEffects s old).maxOnData = s.maxOnData := by unfold closeEffects; split <;> rfl

theorem inv_closeEffects {s : State} (h : Inv s) (hc : s.state = .closed) (old : St) : Inv (closeEffects s old) := by
  obtain ⟨act, inOn, maxOn, wb, wc, wj, closing, cons, off1, drop0⟩ := h
  obtain ⟨e1, e2, e3, e4, e5, e6, e7, e8, e9, e10, e11, e12, e13, e14⟩ := closeEffects_fields s old
  constructor
  · rw [e7, e2]; exact act
  · rw [e13, e7]; exact inOn
  · rw [e14]; exact maxOn
  · rw [e1, hc]; intro h; simp at h
  · rw [e1, hc]; intro h; simp at h
  · rw [e1, hc]; intro _ h; simp at h
  · rw [e1]; intro _; exact hc
  · rw [e9, e11, e5, e4, e12]; omega
  · rw [e11, e10]; exact off1
  · rw [e1, hc]; intro h; simp at h

/-- updating only the user's program counter -/
theorem inv_setU {s : State} (h : Inv s) (pc : UPc)
    (hj : s.closeReq = true → s.state ≠ .closed → uWJ s.u = true → uWJ pc = true ∨ 0 < s.gs.countP wJ)
    (hcl : uClosing pc = true → s.state = .closed) : Inv { s with u := pc } := by
  obtain ⟨act, inOn, maxOn, wb, wc, wj, closing, cons, off1, drop0⟩ := h
  refine ⟨act, inOn, maxOn, wb, wc, ?_, ?_, cons, off1, drop0⟩
  · intro h1 h2
    rcases wj h1 h2 with h | h
    · left; exact h
    · rcases hj h1 h2 h with h | h
      · right; exact h
      · left; exact h
  · intro h1
    rcases h1 with h1 | h1
    · exact closing (Or.inl h1)
    · exact hcl h1

theorem inv_stepU {s : State} (h : Inv s) : Inv (stepU s) := by
  unfold stepU
  cases hu : s.u with
  | start => exact inv_setU h _ (by simp [hu, uWJ]) (by simp [uClosing])
  | store =>
    obtain ⟨act, inOn, maxOn, wb, wc, wj, closing, cons, off1, drop0⟩ := h
    refine ⟨act, inOn, maxOn, wb, wc, fun _ _ => Or.inr (by simp [uWJ]), ?_, cons, off1, drop0⟩
    intro h1; apply closing; simpa [uClosing, hu] using h1
  | loadIn =>
    simp only
    split
    · rename_i hp
      refine inv_setU h _ ?_ (by simp [uClosing])
      intro _ _ _; right
      have h1 := countP_le_of_imp GPc.active wJ (by intro x; cases x <;> simp [GPc.active, wJ]) s.gs
      have h2 := h.act
      simp [hp, b2n] at h2; omega
    · exact inv_setU h _ (by simp [uWJ]) (by simp [uClosing])
  | casHalf =>
    simp only
    split
    · rename_i hs
      obtain ⟨act, inOn, maxOn, wb, wc, wj, closing, cons, off1, drop0⟩ := h
      refine ⟨act, inOn, maxOn, ?_, ?_, ?_, ?_, cons, off1, ?_⟩
      · intro h1; simp at h1
      · intro h1; simp at h1
      · intro h1 _
        rcases wj h1 (by simp [hs]) with h | h
        · left; exact h
        · simp [hu, uWJ] at h
      · intro h1
        rcases h1 with h1 | h1
        · have := closing (Or.inl h1); simp [hs] at this
        · simp [uClosing] at h1
      · intro _; exact drop0 (by simp [hs])
    · exact inv_setU h _ (by simp [hu, uWJ]) (by simp [uClosing])
  | closeLoad =>
    simp only
    split
    · rename_i hs
      exact inv_setU h _ (by intro _ h2; exact absurd hs h2) (by simp [uClosing])
    · exact inv_setU h _ (by simp [uWJ]) (by simp [uClosing])
  | closeCas old =>
    simp only
    split
    · rename_i hs
      have h' : Inv { s with state := .closed } := by
        obtain ⟨act, inOn, maxOn, wb, wc, wj, closing, cons, off1, drop0⟩ := h
        refine ⟨act, inOn, maxOn, ?_, ?_, ?_, fun _ => rfl, cons, off1, ?_⟩
        · intro h1; simp at h1
        · intro h1; simp at h1
        · intro _ h2; simp at h2
        · intro h2; simp at h2
      split
      · exact inv_setU h' _ (by intro _ h2; simp at h2) (by simp)
      · exact inv_setU h' _ (by intro _ h2; simp at h2) (by simp)
    · exact inv_setU h _ (by simp [uWJ]) (by simp [uClosing])
  | waitG old =>
    have hc : s.state = .closed := h.closing (Or.inr (by simp [hu, uClosing]))
    simp only
    split
    · exact inv_setU h _ (by intro _ h2; exact absurd hc h2) (fun _ => hc)
    · exact h
  | cleaning old =>
    have hc : s.state = .closed := h.closing (Or.inr (by simp [hu, uClosing]))
    have h' := inv_closeEffects h hc old
    have := closeEffects_fields s old
    exact inv_setU h' _ (by intro _ h2; rw [this.1] at h2; exact absurd hc h2) (by simp [uClosing])
  | done => simpa [hu] using h

set_option hygiene false in
local macro "gfin" : tactic => `(tactic| (
  constructor <;> (try simp only [cA', cI', cB', cC', cJ', cK']) <;> clear cA' cI' cB' cC' cJ' cK' <;>
  simp [GPc.active, isIn, wB, wC, wJ, isClosing, b2n] at * <;> (try omega) <;> (try (intros; simp_all <;> omega))))

theorem inv_stepG {s : State} (h : Inv s) (i : Nat) (od : OnData) : Inv (stepG s i od) := by
  unfold stepG
  split
  · exact h
  · rename_i pc hg
    have cA := countP_split GPc.active s.gs i pc hg
    have cA' := fun a => countP_set_split GPc.active s.gs i pc a hg
    have cI := countP_split isIn s.gs i pc hg
    have cI' := fun a => countP_set_split isIn s.gs i pc a hg
    have cB := countP_split wB s.gs i pc hg
    have cB' := fun a => countP_set_split wB s.gs i pc a hg
    have cC := countP_split wC s.gs i pc hg
    have cC' := fun a => countP_set_split wC s.gs i pc a hg
    have cJ := countP_split wJ s.gs i pc hg
    have cJ' := fun a => countP_set_split wJ s.gs i pc a hg
    have cK := countP_split isClosing s.gs i pc hg
    have cK' := fun a => countP_set_split isClosing s.gs i pc a hg
    have mIA := countP_le_of_imp isIn GPc.active (by intro x; cases x <;> simp [GPc.active, isIn]) (s.gs.eraseIdx i)
    have h0 := h
    obtain ⟨act, inOn, maxOn, wb, wc, wj, closing, cons, off1, drop0⟩ := h
    rw [cA] at act; rw [cI] at inOn; rw [cB] at wb; rw [cC] at wc; rw [cJ] at wj; rw [cK] at closing
    generalize (s.gs.eraseIdx i).countP GPc.active = rA at *
    generalize (s.gs.eraseIdx i).countP isIn = rI at *
    generalize (s.gs.eraseIdx i).countP wB = rB at *
    generalize (s.gs.eraseIdx i).countP wC = rC at *
    generalize (s.gs.eraseIdx i).countP wJ = rJ at *
    generalize (s.gs.eraseIdx i).countP isClosing = rK at *
    clear cA cI cB cC cJ cK
    cases pc with
    | start =>
      simp only [setG, moveTo]
      cases hp : s.inProcess <;> simp only [hp] at act wc <;> gfin
    | loadState =>
      simp only [setG, moveTo]
      cases hp : s.inProcess <;> simp only [hp] at act wc <;> (repeat' split) <;> gfin
    | in3 =>
      simp only [setG, moveTo]
      cases hp : s.inProcess <;> simp only [hp] at act wc <;> (repeat' split) <;> gfin
    | in2 =>
      simp only [setG, moveTo]
      cases hp : s.inProcess <;> simp only [hp] at act wc <;> (repeat' split) <;> gfin
    | in1 =>
      simp only [setG, moveTo]
      cases hp : s.inProcess <;> simp only [hp] at act wc <;> (repeat' split) <;> gfin
    | store0 =>
      simp only [setG, moveTo]
      cases hp : s.inProcess <;> simp only [hp] at act wc <;> (repeat' split) <;> gfin
    | loadClose =>
      simp only [setG, moveTo]
      cases hp : s.inProcess <;> simp only [hp] at act wc <;> (repeat' split) <;> gfin
    | recheck =>
      simp only [setG, moveTo]
      cases hp : s.inProcess <;> simp only [hp] at act wc <;> (repeat' split) <;> gfin
    | closeLoad =>
      simp only [setG, moveTo]
      cases hp : s.inProcess <;> simp only [hp] at act wc <;> (repeat' split) <;> gfin
    | closeCas old =>
      simp only [setG, moveTo, List.set_set]
      cases hp : s.inProcess <;> simp only [hp] at act wc <;> (repeat' split) <;> gfin
    | waitG old =>
      simp only [setG, moveTo, List.set_set]
      split
      · cases hp : s.inProcess <;> simp only [hp] at act wc <;> gfin
      · exact h0
    | cleaning old =>
      have hc : s.state = .closed := by apply closing; left; simp [isClosing]
      simp only [setG]
      constructor <;> simp only [ce_state, ce_inProcess, ce_closeReq, ce_pending, ce_recv, ce_e, ce_gs, ce_u, ce_arrived, ce_offered, ce_consumed, ce_dropped, ce_inOnData, ce_maxOnData] <;>
        (try simp only [cA', cI', cB', cC', cJ', cK']) <;> clear cA' cI' cB' cC' cJ' cK' <;>
        simp [GPc.active, isIn, wB, wC, wJ, isClosing, b2n, hc] at * <;> (try omega) <;> (try (intros; simp_all <;> omega))
    | done => exact h0

end Callback

namespace Callback

theorem inv_step {s : State} (h : Inv s) (st : Step) : Inv (step s st) := by
  cases st with
  | e cmd => exact inv_stepE h cmd
  | g i od => exact inv_stepG h i od
  | u => exact inv_stepU h

theorem inv_run (sched : List Step) : ∀ s, Inv s → Inv (run s sched) := by
  induction sched with
  | nil => intro s h; exact h
  | cons st rest ih => intro s h; exact ih _ (inv_step h st)

/-- everything OnData was shown had arrived -/
theorem off2_step {s : State} (h : Inv s) (h2 : s.offered ≤ s.arrived) (st : Step) : (step s st).offered ≤ (step s st).arrived := by
  have hc := h.cons
  cases st with
  | e cmd =>
    simp only [step, stepE]
    repeat' split
    all_goals (try simp only [])
    all_goals omega
  | g i od =>
    simp only [step, stepG]
    repeat' split
    all_goals (try simp only [setG, moveTo, ce_offered, ce_arrived])
    all_goals (try omega)
    all_goals (simp only [Nat.max_def]; split <;> omega)
  | u =>
    simp only [step, stepU]
    repeat' split
    all_goals (try simp only [ce_offered, ce_arrived])
    all_goals omega

theorem off2_run (sched : List Step) : ∀ s, Inv s → s.offered ≤ s.arrived → (run s sched).offered ≤ (run s sched).arrived := by
  induction sched with
  | nil => intro s _ h; exact h
  | cons st rest ih => intro s h h2; exact ih _ (inv_step h st) (off2_step h h2 st)

/-- `closed` is absorbing, and a closed stream's OnData is never called again -/
theorem closed_step {s : State} (hc : s.state = .closed) (st : Step) : (step s st).state = .closed ∧ (step s st).calls = s.calls := by
  cases st with
  | e cmd =>
    simp only [step, stepE]
    repeat' split
    all_goals simp_all
  | g i od =>
    simp only [step, stepG]
    repeat' split
    all_goals simp_all [setG, moveTo, closeEffects]
    all_goals (repeat' split)
    all_goals simp_all
  | u =>
    simp only [step, stepU]
    repeat' split
    all_goals simp_all [closeEffects]
    all_goals (repeat' split)
    all_goals simp_all

end Callback
